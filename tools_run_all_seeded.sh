#!/bin/sh
# regression over every kept seeded change: each must make the check of its property exit 1
ok=0; bad=0
for d in seeded/*/; do
  d=${d%/}
  [ -f $d/patch.diff ] || continue; case $d in seeded/harmless*|seeded/rewrite*) continue;; esac
  out=$(sh tools_run_seeded.sh $d 2>&1 | grep "^== ")
  if echo "$out" | grep -q "exit=1"; then ok=$((ok+1)); else bad=$((bad+1)); echo "NOT DETECTED: $out"; fi
done
echo "seeded regression: $ok detected, $bad not detected"
git -C /repo status --short | wc -l
