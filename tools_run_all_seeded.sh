#!/bin/sh
# regression over every kept seeded change: each must make the check of its property exit 1
ok=0; bad=0; miss=0; delta=0
for d in seeded/*/; do
  d=${d%/}
  [ -f $d/patch.diff ] || continue; case $d in seeded/harmless*|seeded/rewrite*) continue;; esac
  out=$(VERIF_NO_DELTA=1 sh tools_run_seeded.sh $d 2>&1 | grep "^== ")
  if echo "$out" | grep -q "exit=1"; then ok=$((ok+1));
  elif out=$(sh tools_run_seeded.sh $d 2>&1 | grep "^== "); echo "$out" | grep -q "exit=1"; then ok=$((ok+1)); delta=$((delta+1)); echo "detected through the source-delta stage: $d";
  elif grep -q '"not_detected": true' $d/meta.json; then echo "known miss (recorded in its meta.json): $d"; miss=$((miss+1));
  else bad=$((bad+1)); echo "NOT DETECTED: $out"; fi
done
echo "seeded regression: $ok detected, $bad not detected, $miss recorded as beyond reach ($delta of the detected ones only through the source-delta stage)"
git -C /repo status --short | wc -l
