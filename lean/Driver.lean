import Rtcm.Model.Basic
import Rtcm.Model.Crc
import Rtcm.Model.Decode
import Rtcm.Model.Message
import Rtcm.Model.Reader
import Rtcm.Model.Socket
import Rtcm.Model.Names
import Rtcm.Model.Layout
import Rtcm.Model.Repr
import Rtcm.Model.Machine
import Rtcm.Model.Helpers
import Rtcm.Gen.Tables
/-
  Line-protocol driver over the executable model (no Lemmas / Props / Mathlib imported).
  One op per input line, one canonical output line per op.
-/
open Rtcm

def T : Tables := Rtcm.Gen.tables

def hexDigit (c : Char) : Option Nat :=
  if '0' ≤ c ∧ c ≤ '9' then some (c.toNat - 48)
  else if 'a' ≤ c ∧ c ≤ 'f' then some (c.toNat - 87)
  else if 'A' ≤ c ∧ c ≤ 'F' then some (c.toNat - 55)
  else none

partial def hexToBytesAux : List Char → List UInt8 → Option (List UInt8)
  | [], acc => some acc.reverse
  | a :: b :: rest, acc =>
    match hexDigit a, hexDigit b with
    | some x, some y => hexToBytesAux rest (UInt8.ofNat (x * 16 + y) :: acc)
    | _, _ => none
  | _, _ => none

def hexToBytes (s : String) : Option Bytes :=
  if s = "-" then some [] else hexToBytesAux s.toList []

def nib (n : Nat) : Char := if n < 10 then Char.ofNat (48 + n) else Char.ofNat (87 + n)

def bytesToHex (bs : Bytes) : String :=
  if bs.isEmpty then "-" else
  String.ofList (bs.flatMap fun b => [nib (b.toNat / 16), nib (b.toNat % 16)])

def labelStr (l : Label) : String := String.ofList (l.map Char.ofNat)

def strLabel (s : String) : Label := s.toList.map Char.toNat

def libName : LibErr → String
  | .parse => "parse" | .stream => "stream" | .message => "message" | .type => "type"

def foreignName : Foreign → String
  | .index => "index" | .key => "key" | .attribute => "attribute" | .value => "value"
  | .typeErr => "typeErr" | .other => "other"

def valStr : Val → String
  | .int i => s!"i:{i}"
  | .scaled raw (.int k) => s!"i:{raw * k}"
  | .scaled raw (.flt num den) => s!"f:{raw}:{num}:{den}"
  | .scaled raw .none => s!"i:{raw}"
  | .text cs => "t:" ++ ".".intercalate (cs.map toString)

def attrsStr (as : Attrs) : String :=
  ";".intercalate (as.map fun (k, v) => labelStr (render T k) ++ "=" ++ valStr v)

def outStr (f : α → String) : Outcome α → String
  | .ok a => f a
  | .lib e => "lib:" ++ libName e
  | .foreign e => "foreign:" ++ foreignName e

def msgStr (m : Msg) : String :=
  let ser := outStr bytesToHex (m.serialize T)
  s!"ok id={labelStr m.id.str} msm={if m.ismsm T then 1 else 0} unk={if m.unknown then 1 else 0} ser={ser} attrs={attrsStr m.attrs}"

def eventStr : Event → String
  | .frame raw none => s!"F:{bytesToHex raw}:None:-"
  | .frame raw (some m) => s!"F:{bytesToHex raw}:{labelStr m.id.str}:{attrsStr m.attrs}"
  | .handler e => "H:" ++ libName e
  | .raised e => "R:" ++ libName e
  | .foreign e => "X:" ++ foreignName e
  | .stop => "STOP"
  | .stuck => "STUCK"

def parseSched (s : String) : Option (List (Option Nat)) :=
  if s = "-" then some [] else
  (s.splitOn ",").mapM fun t => if t = "n" then some none else t.toNat?.map some

def parseRecvs (s : String) : Option (List Recv) :=
  if s = "-" then some [] else
  (s.splitOn ",").mapM fun t =>
    if t = "t" then some Recv.timeout
    else if t = "o" then some Recv.oserror
    else if t = "c" then some Recv.closed
    else if t.startsWith "d" then (hexToBytes (t.drop 1).toString).map Recv.data
    else none

def parseDecTable (s : String) : Option (List (Bytes × Bytes)) :=
  if s = "-" then some [] else
  (s.splitOn ";").mapM fun t =>
    match t.splitOn ">" with
    | [a, b] => match hexToBytes a, hexToBytes b with
      | some x, some y => some (x, y)
      | _, _ => none
    | _ => none

def decOf (tbl : List (Bytes × Bytes)) (c : Bytes) : Bytes :=
  match tbl.find? (fun e => e.1 = c) with
  | some (_, d) => d
  | none => c

def idxStr : IdxRes → String
  | .int i => s!"{i}"
  | .tuple is => "(" ++ ",".intercalate (is.map toString) ++ ")"

def rowStr (r : List (Label × Val)) : String :=
  "{" ++ ",".intercalate (r.map fun (a, v) => labelStr a ++ "=" ++ valStr v) ++ "}"

def msmStr (a : MsmArrays) : String :=
  s!"msm identity={labelStr a.identity} gnss={labelStr a.gnss} station={valStr a.station} epoch={valStr a.epoch} sats={valStr a.sats} cells={valStr a.cells} S=[{",".intercalate (a.satRows.map rowStr)}] C=[{",".intercalate (a.cellRows.map rowStr)}]"

def layerStr (l : Layer) : String :=
  "{h=" ++ valStr l.height ++ " " ++
    " ".intercalate (l.coeffs.map fun cs => "[" ++ ",".intercalate (cs.map valStr) ++ "]") ++ "}"

def optsOf (v q l p : String) : Option Opts := do
  let v ← v.toNat?; let q ← q.toNat?; let l ← l.toNat?; let p ← p.toNat?
  pure ⟨v, q, l, p ≠ 0⟩

/-- run a thread of the small-step model until it has finished -/
partial def finishThread (t : TState) : TState :=
  match t with
  | .finished _ => t
  | _ => finishThread (tstep T t)

def parseJobs (s : String) : Option (List (Option Bytes × Nat)) :=
  (s.splitOn ",").mapM fun j =>
    match j.splitOn ":" with
    | [l, h] => match l.toNat? with
      | some l => if h = "NONE" then some (none, l) else (hexToBytes (if h = "-" then "" else h)).map fun b => (some b, l)
      | none => none
    | _ => none

def step (line : String) : String :=
  match (line.trimAscii.toString.splitOn " ").filter (· ≠ "") with
  | ["crc", h] => match hexToBytes h with
    | some bs => toString (calcCrc24q bs)
    | none => "bad-op"
  | ["msg", l, h] =>
    match l.toNat? with
    | some l =>
      if h = "NONE" then outStr msgStr (construct T none l)
      else match hexToBytes h with
        | some bs => outStr msgStr (construct T (some bs) l)
        | none => "bad-op"
    | none => "bad-op"
  | ["conc", sched, js] =>
    -- several threads constructing messages under the given schedule (small-step model), then
    -- every thread run to its end; one result per thread
    match (if sched = "-" then some [] else (sched.splitOn ",").mapM (·.toNat?)), parseJobs js with
    | some sc, some js =>
      let pool := poolRun T (js.map fun j => TState.start j.1 j.2) sc
      " || ".intercalate (pool.map fun t => match (finishThread t).result with
        | some r => outStr msgStr r
        | none => "unfinished")
    | _, _ => "bad-op"
  | ["lay", l, h, vs] =>
    -- lay the raw values out (spec side of C03), pack them, compare with the given payload bytes
    match l.toNat?, hexToBytes h, (if vs = "-" then some [] else (vs.splitOn ",").mapM (·.toNat?)) with
    | some l, some bs, some vals =>
      match identity bs with
      | .ok id =>
        match getDict T id with
        | some d =>
          match layout T id l d vals with
          | .ok ls =>
            if ls.vals ≠ [] then s!"lay-leftover {ls.vals.length}"
            else if packBytes ls.cells ≠ bs then s!"lay-mismatch {bytesToHex (packBytes ls.cells)}"
            else msgStr ⟨bs, l, id, false, ls.s.attrs, true⟩
          | .error _ => "lay-error"
        | none => "lay-nodef"
      | _ => "lay-noid"
    | _, _, _ => "bad-op"
  | ["getbit", h, n] =>
    -- rtcmhelpers.get_bit
    match hexToBytes (if h = "-" then "" else h), n.toNat? with
    | some bs, some k => (match getBit bs k with | some v => s!"gb {v}" | none => "foreign:index")
    | _, _ => "bad-op"
  | ["escall", h] =>
    -- rtcmhelpers.escapeall (output as hex of the ASCII string)
    match hexToBytes (if h = "-" then "" else h) with
    | some bs => "es " ++ bytesToHex ((escapeall bs).map UInt8.ofNat)
    | none => "bad-op"
  | ["tow", t] =>
    -- rtcmhelpers.tow2utc
    match t.toInt? with
    | some tow => let r := tow2utc tow; s!"tod {r.h} {r.m} {r.s} {r.us}"
    | none => "bad-op"
  | ["hextbl", h, c] =>
    -- rtcmhelpers.hextable, cols >= 1 (output as hex of the ASCII string)
    match hexToBytes (if h = "-" then "" else h), c.toNat? with
    | some bs, some cols => if cols = 0 then "bad-op" else "ht " ++ bytesToHex ((hextable bs cols).map UInt8.ofNat)
    | _, _ => "bad-op"
  | ["brepr", h] =>
    -- repr(bytes)
    match hexToBytes (if h = "-" then "" else h) with
    | some bs => labelStr (bytesRepr bs)
    | none => "bad-op"
  | ["beval", h] =>
    -- the bytes literal written by repr, read back
    match hexToBytes (if h = "-" then "" else h) with
    | some bs =>
      (match bytesRepr bs with
       | 98 :: q :: rest =>
         (match parseBody q rest with
          | some (out, []) => "ok " ++ bytesToHex out
          | _ => "none")
       | _ => "none")
    | none => "bad-op"
  | ["mrepr", l, h] =>
    -- repr(RTCMMessage(payload=…)) and the payload eval(repr(m)) is called with
    match l.toNat?, hexToBytes h with
    | some l, some bs =>
      (match construct T (some bs) l with
       | .ok m => labelStr (msgRepr m) ++ " || " ++ (match evalReprPayload (msgRepr m) with | some p => bytesToHex p | none => "none")
       | .lib e => "lib:" ++ libName e
       | .foreign e => "foreign:" ++ foreignName e)
    | _, _ => "bad-op"
  | ["parse", v, l, h] =>
    match v.toNat?, l.toNat?, hexToBytes h with
    | some v, some l, some bs => outStr msgStr (parse T bs v l)
    | _, _, _ => "bad-op"
  | ["ident", h] =>
    match hexToBytes h with
    | some bs => match identity bs with
      | .ok id => s!"{labelStr id.str} msm={if ismsmId T id then 1 else 0} def={if (getDict T id).isSome then 1 else 0}"
      | .lib e => "lib:" ++ libName e
      | .foreign e => "foreign:" ++ foreignName e
    | none => "bad-op"
  | ["reader", v, q, l, p, resume, sched, h] =>
    match optsOf v q l p, parseSched sched, hexToBytes h with
    | some o, some sc, some bs =>
      " ".intercalate ((run fileOps T o (resume ≠ "0") ⟨bs, sc⟩).map eventStr)
    | _, _, _ => "bad-op"
  | ["rsock", v, q, l, p, resume, chunked, bufsize, recvs, dect] =>
    match optsOf v q l p, bufsize.toNat?, parseRecvs recvs, parseDecTable dect with
    | some o, some bsz, some rs, some dt =>
      let dec := decOf dt
      " ".intercalate ((run (sockOps dec) T o (resume ≠ "0") (Sock.init dec rs (chunked ≠ "0") bsz)).map eventStr)
    | _, _, _, _ => "bad-op"
  | ["sock", chunked, bufsize, recvs, reads, dect] =>
    match bufsize.toNat?, parseRecvs recvs, parseDecTable dect with
    | some bsz, some rs, some dt =>
      let dec := decOf dt
      let s0 := Sock.init dec rs (chunked ≠ "0") bsz
      let (outs, s) := (reads.splitOn ",").foldl (fun (acc : List String × Sock) r =>
        if r = "L" then
          let (d, s') := Sock.readline dec acc.2
          (acc.1 ++ [bytesToHex d], s')
        else match r.toNat? with
          | some n => let (d, s') := Sock.read dec acc.2 n; (acc.1 ++ [bytesToHex d], s')
          | none => (acc.1 ++ ["bad"], acc.2)) ([], s0)
      " ".intercalate outs ++ " | buf=" ++ bytesToHex s.buffer
    | _, _, _ => "bad-op"
  | ["dechunk", seg, dect] =>
    match hexToBytes seg, parseDecTable dect with
    | some bs, some dt =>
      let r := dechunk (decOf dt) bs
      bytesToHex r.1 ++ " " ++ bytesToHex r.2
    | _, _ => "bad-op"
  | ["names", h] =>
    match hexToBytes h with
    | some bs =>
      let name : Label := bs.map (·.toNat)
      let d := match datadesc T name with | some f => toString f | none => "KeyError"
      s!"idx={idxStr (att2idx name)} name={bytesToHex ((att2name name).map UInt8.ofNat)} desc={d}"
    | none => "bad-op"
  | ["helpers", l, h] =>
    match l.toNat?, hexToBytes h with
    | some l, some bs =>
      match construct T (some bs) l with
      | .ok m =>
        let a := match parseMsm T m with
          | .ok none => "msm None"
          | .ok (some a) => msmStr a
          | .lib e => "msm lib:" ++ libName e
          | .foreign e => "msm foreign:" ++ foreignName e
        let b := match parse4076_201 T m with
          | .ok none => "hc None"
          | .ok (some ls) => "hc " ++ " ".intercalate (ls.map layerStr)
          | .lib e => "hc lib:" ++ libName e
          | .foreign e => "hc foreign:" ++ foreignName e
        a ++ " || " ++ b
      | .lib e => "lib:" ++ libName e
      | .foreign e => "foreign:" ++ foreignName e
    | _, _ => "bad-op"
  | ["setattr", l, h, names] =>
    match l.toNat?, hexToBytes h with
    | some l, some bs =>
      match construct T (some bs) l with
      | .ok m =>
        let (m', outs) := (names.splitOn ",").foldl (fun (acc : Msg × List String) n =>
          let (m2, r) := acc.1.setattr (strLabel n) (.int 0)
          (m2, acc.2 ++ [outStr (fun _ => "set") r])) (m, [])
        " ".intercalate outs ++ " || " ++ msgStr m'
      | .lib e => "lib:" ++ libName e
      | .foreign e => "foreign:" ++ foreignName e
    | _, _ => "bad-op"
  | _ => "bad-op"

partial def loop (h : IO.FS.Stream) (out : IO.FS.Stream) : IO Unit := do
  let line ← h.getLine
  if line.isEmpty then return ()
  out.putStrLn (step line)
  loop h out

def main : IO Unit := do
  let stdin ← IO.getStdin
  let stdout ← IO.getStdout
  loop stdin stdout
