import Rtcm.Model.Message
/-
  `RTCMReader.read / __next__ / _parse_* / _read_bytes / _read_line / _do_error`
  over an abstract stream (`read(n)`, `readline()`), instantiated for file-like streams
  with a fault schedule (short / empty reads) and, in `Socket.lean`, for `SocketWrapper`.
-/
namespace Rtcm

def lexLt (a b : Nat × Nat) : Bool := a.1 < b.1 || (a.1 == b.1 && a.2 < b.2)

/-- what the reader needs from `self._stream`; `size` is a termination measure
    (lexicographic) that a lawful stream decreases whenever it delivers bytes -/
structure StreamOps (σ : Type) where
  read : σ → Nat → Bytes × σ
  readline : σ → Bytes × σ
  size : σ → Nat × Nat

structure Opts where
  validate : Nat
  quitonerror : Nat
  label : Nat
  parsed : Bool
  deriving Repr

inductive Event
  | frame (raw : Bytes) (parsed : Option Msg)
  | handler (e : LibErr)      -- error handler called / error logged (quitonerror = ERR_LOG)
  | raised (e : LibErr)       -- exception propagated out of read() (quitonerror = ERR_RAISE)
  | foreign (e : Foreign)     -- non-library exception escaped from read()
  | stop                      -- read() returned (None, None): StopIteration
  | stuck                     -- model-only: stream did not shrink (impossible for lawful streams)
  deriving Repr

/-- result of `_read_bytes` / `_read_line` -/
inductive RB (σ : Type)
  | ok (d : Bytes) (s : σ)
  | eof (s : σ)
  | err (s : σ)               -- RTCMStreamError

/-- `_read_bytes(size)` -/
def readBytes (ops : StreamOps σ) (s : σ) (n : Nat) : RB σ :=
  let (d, s') := ops.read s n
  if d.length = 0 ∧ n > 0 then .eof s'
  else if 0 < d.length ∧ d.length < n then .err s'
  else .ok d s'

/-- `_read_line()` -/
def readLine (ops : StreamOps σ) (s : σ) : RB σ :=
  let (d, s') := ops.readline s
  if d.length = 0 then .eof s'
  else if d.getLast? ≠ some 10 then .err s'
  else .ok d s'

/-- outcome of one pass through the body of `while parsing:` -/
inductive Step (σ : Type)
  | again (evs : List Event) (s : σ)     -- `continue`
  | done (evs : List Event) (s : σ)      -- return / raise

/-- the `except (RTCM…Error) as err:` clause followed by `continue` -/
def onError (T : Tables) (o : Opts) (e : LibErr) (s : σ) : Step σ :=
  if o.quitonerror = 0 then .again [] s
  else if o.quitonerror = T.errRaise then .done [.raised e] s
  else if o.quitonerror = T.errLog then .again [.handler e] s
  else .again [] s

def isSync (T : Tables) (b : UInt8) : Bool :=
  b.toNat = 0xb5 || b.toNat = 0x24 || b.toNat = 0xd3

/-- `_parse_rtcm3` -/
def parseRtcm3 (ops : StreamOps σ) (T : Tables) (o : Opts) (b1 b2 : UInt8) (s : σ) : Step σ :=
  match readBytes ops s 1 with
  | .eof s' => .done [.stop] s'
  | .err s' => onError T o .stream s'
  | .ok h3 s1 =>
    let size := b2.toNat * 256 + (h3.headD 0).toNat
    match readBytes ops s1 size with
    | .eof s' => .done [.stop] s'
    | .err s' => onError T o .stream s'
    | .ok payload s2 =>
      match readBytes ops s2 3 with
      | .eof s' => .done [.stop] s'
      | .err s' => onError T o .stream s'
      | .ok crc s3 =>
        let raw := [b1, b2] ++ h3 ++ payload ++ crc
        if o.parsed then
          match parse T raw o.validate o.label with
          | .ok m => .done [.frame raw (some m)] s3
          | .lib e => onError T o e s3
          | .foreign e => .done [.foreign e] s3
        else .done [.frame raw none] s3

/-- `_parse_ubx` (result discarded by the caller) -/
def parseUbx (ops : StreamOps σ) (T : Tables) (o : Opts) (s : σ) : Step σ :=
  match readBytes ops s 4 with
  | .eof s' => .done [.stop] s'
  | .err s' => onError T o .stream s'
  | .ok b s1 =>
    let leni := (b.getD 2 0).toNat + 256 * (b.getD 3 0).toNat
    match readBytes ops s1 (leni + 2) with
    | .eof s' => .done [.stop] s'
    | .err s' => onError T o .stream s'
    | .ok _ s2 => .again [] s2

/-- `_parse_nmea` -/
def parseNmea (ops : StreamOps σ) (T : Tables) (o : Opts) (s : σ) : Step σ :=
  match readLine ops s with
  | .eof s' => .done [.stop] s'
  | .err s' => onError T o .stream s'
  | .ok _ s1 => .again [] s1

/-- one pass through the body of `while parsing:` in `read()` -/
def iter (ops : StreamOps σ) (T : Tables) (o : Opts) (s : σ) : Step σ :=
  match readBytes ops s 1 with
  | .eof s' => .done [.stop] s'
  | .err s' => onError T o .stream s'
  | .ok d1 s1 =>
    let b1 := d1.headD 0
    if !isSync T b1 then .again [] s1
    else
      match readBytes ops s1 1 with
      | .eof s' => .done [.stop] s'
      | .err s' => onError T o .stream s'
      | .ok d2 s2 =>
        let b2 := d2.headD 0
        if (b1.toNat, b2.toNat) = T.ubxHdr then parseUbx ops T o s2
        else if T.nmeaHdr.contains (b1.toNat, b2.toNat) then parseNmea ops T o s2
        else if b1.toNat = 0xd3 ∧ b2.toNat / 4 = 0 then parseRtcm3 ops T o b1 b2 s2
        else onError T o .parse s2

/-- `RTCMReader.read()`: loop until a frame is returned, the stream ends or an error is raised -/
def readOne (ops : StreamOps σ) (T : Tables) (o : Opts) (s : σ) : List Event × σ :=
  match iter ops T o s with
  | .done evs s' => (evs, s')
  | .again evs s' =>
    if lexLt (ops.size s') (ops.size s) then
      let r := readOne ops T o s'
      (evs ++ r.1, r.2)
    else (evs ++ [.stuck], s')
termination_by ops.size s
decreasing_by
  simp only [lexLt, Bool.or_eq_true, Bool.and_eq_true, decide_eq_true_eq, beq_iff_eq] at *
  rename_i h
  rcases h with h | ⟨h1, h2⟩
  · exact Prod.Lex.left _ _ h
  · have : ops.size s' = ((ops.size s).1, (ops.size s').2) := by rw [← h1]
    rw [this]; exact Prod.Lex.right _ h2

def lastIsFrame : List Event → Bool
  | [] => false
  | [.frame _ _] => true
  | [_] => false
  | _ :: rest => lastIsFrame rest

def lastIsRaised : List Event → Bool
  | [] => false
  | [.raised _] => true
  | [_] => false
  | _ :: rest => lastIsRaised rest

/-- iteration (`for raw, parsed in reader`); with `resume`, `next()` is called again after a raise -/
def run (ops : StreamOps σ) (T : Tables) (o : Opts) (resume : Bool) (s : σ) : List Event :=
  let r := readOne ops T o s
  if lastIsFrame r.1 || (resume && lastIsRaised r.1) then
    if lexLt (ops.size r.2) (ops.size s) then r.1 ++ run ops T o resume r.2
    else r.1 ++ [.stuck]
  else r.1
termination_by ops.size s
decreasing_by
  simp only [lexLt, Bool.or_eq_true, Bool.and_eq_true, decide_eq_true_eq, beq_iff_eq] at *
  rename_i h
  rcases h with h | ⟨h1, h2⟩
  · exact Prod.Lex.left _ _ h
  · have : ops.size r.2 = ((ops.size s).1, (ops.size r.2).2) := by rw [← h1]
    rw [this]; exact Prod.Lex.right _ h2

/-! ### file-like streams with a fault schedule -/

/-- `limit = none`: the call returns everything asked for (up to end of data);
    `some k`: at most `k` bytes (`some 0` = an empty read, e.g. a serial timeout) -/
structure FStream where
  data : Bytes
  sched : List (Option Nat)
  deriving Repr

def splitLine : Bytes → Bytes × Bytes
  | [] => ([], [])
  | b :: rest =>
    if b.toNat = 10 then ([b], rest)
    else let r := splitLine rest; (b :: r.1, r.2)

/-- how many bytes the next call may return when `n` are wanted -/
def FStream.lim (s : FStream) (n : Nat) : Nat :=
  match s.sched.head? with
  | some (some k) => min n k
  | _ => n

def FStream.read (s : FStream) (n : Nat) : Bytes × FStream :=
  (s.data.take (s.lim n), ⟨s.data.drop (s.lim n), s.sched.tail⟩)

def FStream.readline (s : FStream) : Bytes × FStream :=
  let k := s.lim (splitLine s.data).1.length
  (s.data.take k, ⟨s.data.drop k, s.sched.tail⟩)

def fileOps : StreamOps FStream where
  read := FStream.read
  readline := FStream.readline
  size := fun s => (0, s.data.length)

end Rtcm
