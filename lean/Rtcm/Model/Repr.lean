import Rtcm.Model.Message
/-
  `RTCMMessage.__repr__` = `f"RTCMMessage(payload={self._payload})"`, i.e. CPython's
  `bytes.__repr__`, and the fragment of Python's expression evaluator that `eval(repr(m))` needs:
  a call `RTCMMessage(payload=<bytes literal>)` whose literal uses only the escapes `repr` emits.
  Strings are lists of code points.
-/
namespace Rtcm

def hexDigitLower (n : Nat) : Nat := if n < 10 then 48 + n else 87 + n

/-- one byte inside a bytes literal quoted with `q` (39 = `'`, 34 = `"`) -/
def reprByte (q : Nat) (c : UInt8) : List Nat :=
  let n := c.toNat
  if n = q ∨ n = 92 then [92, n]
  else if n = 9 then [92, 116]
  else if n = 10 then [92, 110]
  else if n = 13 then [92, 114]
  else if n < 32 ∨ n ≥ 127 then [92, 120, hexDigitLower (n / 16), hexDigitLower (n % 16)]
  else [n]

/-- CPython prefers single quotes; double quotes only if the bytes contain `'` and no `"` -/
def quoteFor (bs : Bytes) : Nat :=
  if bs.any (fun b => b.toNat = 39) && !bs.any (fun b => b.toNat = 34) then 34 else 39

def reprBody (q : Nat) : Bytes → List Nat
  | [] => []
  | c :: rest => reprByte q c ++ reprBody q rest

/-- `repr(bytes)` -/
def bytesRepr (bs : Bytes) : List Nat := 98 :: quoteFor bs :: (reprBody (quoteFor bs) bs ++ [quoteFor bs])

/-- "RTCMMessage(payload=" -/
def reprPrefix : List Nat := [82, 84, 67, 77, 77, 101, 115, 115, 97, 103, 101, 40, 112, 97, 121, 108, 111, 97, 100, 61]

/-- `repr(m)` -/
def msgRepr (m : Msg) : List Nat := reprPrefix ++ bytesRepr m.payload ++ [41]

def hexValLower (d : Nat) : Option Nat :=
  if 48 ≤ d ∧ d ≤ 57 then some (d - 48) else if 97 ≤ d ∧ d ≤ 102 then some (d - 87) else none

/-- the body of a bytes literal up to the closing quote `q`; returns the bytes and what follows the quote -/
def parseBody (q : Nat) : List Nat → Option (Bytes × List Nat)
  | [] => none
  | 92 :: 120 :: h1 :: h2 :: rest =>
    match hexValLower h1, hexValLower h2, parseBody q rest with
    | some a, some b, some (bs, t) => some (UInt8.ofNat (16 * a + b) :: bs, t)
    | _, _, _ => none
  | 92 :: e :: rest =>
    let v : Option Nat :=
      if e = 116 then some 9 else if e = 110 then some 10 else if e = 114 then some 13
      else if e = 92 ∨ e = 39 ∨ e = 34 then some e else none
    match v, parseBody q rest with
    | some n, some (bs, t) => some (UInt8.ofNat n :: bs, t)
    | _, _ => none
  | c :: rest =>
    if c = q then some ([], rest)
    else if c = 92 ∨ c ≥ 128 ∨ c = 10 then none     -- lone backslash, non-ASCII in a bytes literal, newline
    else match parseBody q rest with
      | some (bs, t) => some (UInt8.ofNat c :: bs, t)
      | none => none

def stripPrefix : List Nat → List Nat → Option (List Nat)
  | [], s => some s
  | _ :: _, [] => none
  | a :: p, b :: s => if a = b then stripPrefix p s else none

/-- `eval("RTCMMessage(payload=b'…')")`: the payload the call is made with -/
def evalReprPayload (s : List Nat) : Option Bytes :=
  match stripPrefix reprPrefix s with
  | some (98 :: q :: rest) =>
    if q = 39 ∨ q = 34 then
      match parseBody q rest with
      | some (bs, [41]) => some bs
      | _ => none
    else none
  | _ => none

/-- `eval(repr(m))` (default `labelmsm=1`) -/
def evalRepr (T : Tables) (m : Msg) : Option (Outcome Msg) :=
  (evalReprPayload (msgRepr m)).map fun p => construct T (some p) 1

end Rtcm
