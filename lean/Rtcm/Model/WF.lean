import Rtcm.Model.Message
/-
  Decidable well-formedness and layout functions over payload definitions
  (evaluated by the kernel on the regenerated tables).
-/
namespace Rtcm

/-- what is in scope for counters / conditions while walking a definition:
    `(fid, depth)` = attribute `fid` was decoded at group depth `depth` in an enclosing scope -/
abbrev Scope := List (Nat × Nat)

def Scope.has (sc : Scope) (fid depth : Nat) : Bool := sc.any fun e => e.1 == fid && e.2 == depth

def isCounterTy (f : FieldSpec) : Bool :=
  (f.ty == .uint || f.ty == .bit || f.ty == .bitx) && f.res == .none

def resOk : Res → Bool
  | .flt _ den => den > 0
  | _ => true

/-- well-formedness of one plain field at group depth `d` with scope `sc`; returns the new scope -/
def wfField (T : Tables) (sc : Scope) (d : Nat) (fid : Nat) : Option Scope :=
  match T.field? fid with
  | none => none
  | some f =>
    let sp := T.special
    if !resOk f.res then none else
    match f.ty with
    | .prn | .cprn | .csig =>
      -- derived labels need the maps (built at DF396) and a group index
      if d ≥ 1 && sc.has T.fidNCell 0 && f.width == 0 then some ((fid, d) :: sc) else none
    | .int | .snt => if f.width == 0 then none else some ((fid, d) :: sc)
    | .cha => if f.res == .none then some ((fid, d) :: sc) else none
    | .str => some ((fid, 0) :: sc)
    | .other => none
    | _ =>
      if some fid == sp.df394 then
        if d == 0 && f.width == 64 && isCounterTy f then some ((T.fidNSat, 0) :: (fid, d) :: sc) else none
      else if some fid == sp.df395 then
        if d == 0 && f.width == 32 && isCounterTy f then some ((T.fidNSig, 0) :: (fid, d) :: sc) else none
      else if some fid == sp.df396 then
        if d == 0 && isCounterTy f && sc.has T.fidNSat 0 && sc.has T.fidNSig 0
            && (sp.df394.any fun a => sc.has a 0) && (sp.df395.any fun a => sc.has a 0) then
          some ((T.fidNCell, 0) :: (fid, d) :: sc) else none
      else if some fid == sp.idf038 then
        if d == 1 && isCounterTy f && (sp.idf037.any fun a => sc.has a 1) then
          some ((T.fidNHarmC, 0) :: (T.fidNHarmS, 0) :: (fid, d) :: sc) else none
      else some ((fid, d) :: sc)

def counterOk (T : Tables) (sc : Scope) (d : Nat) (fid nest : Nat) : Bool :=
  nest ≤ d && sc.has fid nest &&
  (match T.field? fid with
   | some f => isCounterTy f
   | none => T.nf ≤ fid && fid < T.nf + T.derived.length)

mutual
def wfItem (T : Tables) (d : Nat) : Item → Scope → Option Scope
  | .field fid, sc => wfField T sc d fid
  | .group (.fixed _) body, sc => (wfItems T (d + 1) body sc).map fun _ => sc
  | .group (.attr fid nest) body, sc =>
    if counterOk T sc d fid nest then (wfItems T (d + 1) body sc).map fun _ => sc else none
  | .opt fid _ body, sc =>
    if counterOk T sc d fid 0 then
      -- attributes of an optional group are not usable as counters afterwards
      (wfItems T d body sc).map fun _ => sc
    else none
  | .malformed _, _ => none
def wfItems (T : Tables) (d : Nat) : List Item → Scope → Option Scope
  | [], sc => some sc
  | it :: rest, sc =>
    match wfItem T d it sc with
    | none => none
    | some sc' => wfItems T d rest sc'
end

mutual
def fidsItem : Item → List Nat
  | .field fid => [fid]
  | .group _ body => fidsItems body
  | .opt _ _ body => fidsItems body
  | .malformed _ => []
def fidsItems : List Item → List Nat
  | [] => []
  | it :: rest => fidsItem it ++ fidsItems rest
end

def nodupNat : List Nat → Bool
  | [] => true
  | a :: rest => !rest.contains a && nodupNat rest

/-- a definition is well-formed: every field defined, every counter / condition decoded earlier
    in scope, no malformed node, no field laid out twice (no attribute overwritten) -/
def wfDef (T : Tables) (d : List Item) : Bool :=
  (wfItems T 0 d []).isSome && nodupNat (fidsItems d)

/-! ### layout shapes (for the pinned standard sizes) -/

/-- flat layout shape: at each level the total of fixed bits, then each group as
    `grp counter … end_` (one iteration) -/
inductive STok
  | bits (n : Nat)
  | grp (counter : Label)
  | end_
  | bad
  deriving DecidableEq, Repr, Inhabited

def countName (T : Tables) : Count → Label
  | .fixed n => strNat n
  | .attr fid nest => T.fieldName fid ++ (if nest = 0 then [] else 43 :: strNat nest)

/-- fixed bits of the plain fields directly in a body (DF396 is NSat*NSig wide: counted as 0) -/
def fixedBits (T : Tables) : List Item → Nat
  | [] => 0
  | .field fid :: rest =>
    (if some fid == T.special.df396 then 0 else ((T.field? fid).map (·.width)).getD 0) + fixedBits T rest
  | _ :: rest => fixedBits T rest

mutual
def itemToks (T : Tables) : Item → List STok
  | .field _ => []
  | .group c body => STok.grp (countName T c) :: STok.bits (fixedBits T body) :: groupToks T body ++ [STok.end_]
  | .opt fid v body =>
    STok.grp (63 :: T.fieldName fid ++ 61 :: strNat v.toNat) :: STok.bits (fixedBits T body) :: groupToks T body ++ [STok.end_]
  | .malformed _ => [STok.bad]
def groupToks (T : Tables) : List Item → List STok
  | [] => []
  | it :: rest => itemToks T it ++ groupToks T rest
end

def shapeToks (T : Tables) (items : List Item) : List STok :=
  STok.bits (fixedBits T items) :: groupToks T items

/-! ### size formulas: bits per iteration of every counter path -/

def addTo (k : Label) (n : Nat) : List (Label × Nat) → List (Label × Nat)
  | [] => [(k, n)]
  | (k', m) :: rest => if k' = k then (k', m + n) :: rest else (k', m) :: addTo k n rest

mutual
/-- accumulate `mult × width` of every plain field under its counter path
    (`""` top level, `"DF387"`, `"DF387/DF379+1"`, `"?DF422_1=1"` …); literal repeat counts
    multiply into the enclosing path -/
def formItem (T : Tables) (path : Label) (mult : Nat) : Item → List (Label × Nat) → List (Label × Nat)
  | .field fid, acc =>
    addTo path (mult * (if some fid == T.special.df396 then 0 else ((T.field? fid).map (·.width)).getD 0)) acc
  | .group (.fixed n) body, acc => formItems T path (mult * n) body acc
  | .group (.attr fid nest) body, acc =>
    formItems T (if path.isEmpty then countName T (.attr fid nest) else path ++ 47 :: countName T (.attr fid nest)) mult body acc
  | .opt fid v body, acc =>
    formItems T ((if path.isEmpty then [] else path ++ [47]) ++ 63 :: T.fieldName fid ++ 61 :: strNat v.toNat) mult body acc
  | .malformed _, acc => addTo [33] 1 acc
def formItems (T : Tables) (path : Label) (mult : Nat) : List Item → List (Label × Nat) → List (Label × Nat)
  | [], acc => acc
  | it :: rest, acc => formItems T path mult rest (formItem T path mult it acc)
end

/-- e.g. 1059 ↦ [("", 67), ("DF387", 11), ("DF387/DF379+1", 19)] -/
def sizeForm (T : Tables) (d : List Item) : List (Label × Nat) := formItems T [] 1 d [([], 0)]

/-- the (type, width, resolution) sequence of the plain fields directly in a body -/
def sigOf (T : Tables) : List Item → List (FType × Nat × Res)
  | [] => []
  | .field fid :: rest => (match T.field? fid with
      | some f => [(f.ty, f.width, f.res)]
      | none => [(.other, 0, .none)]) ++ sigOf T rest
  | _ :: rest => sigOf T rest

/-- bodies of the groups directly in a definition, in order -/
def groupBodies : List Item → List (List Item)
  | [] => []
  | .group _ body :: rest => body :: groupBodies rest
  | _ :: rest => groupBodies rest

def defOf (T : Tables) (num : Nat) (sub : Option Nat := none) : List Item :=
  (getDict T ⟨num, sub⟩).getD []

/-- the header (everything before the first group) as a spec sequence -/
def headerSig (T : Tables) (d : List Item) : List (FType × Nat × Res) :=
  sigOf T (d.takeWhile fun it => match it with | .group _ _ => false | _ => true)

/-- the spec sequence of the n-th group body -/
def blockSig (T : Tables) (d : List Item) (n : Nat := 0) : List (FType × Nat × Res) :=
  sigOf T ((groupBodies d)[n]?.getD [])

/-- `a` is an order-preserving sub-list of `b` -/
def isSublist {α : Type} [DecidableEq α] : List α → List α → Bool
  | [], _ => true
  | _ :: _, [] => false
  | a :: as, b :: bs => if a = b then isSublist as bs else isSublist (a :: as) bs

/-- the full layout signature of a definition: specs and group structure, names abstracted -/
inductive LTok
  | f (ty : FType) (w : Nat) (r : Res)
  | g (counterIsFixed : Bool)
  | o
  | close
  deriving DecidableEq, Repr

mutual
def lsigItem (T : Tables) : Item → List LTok
  | .field fid => (match T.field? fid with
      | some f => [LTok.f f.ty f.width f.res]
      | none => [LTok.f .other 0 .none])
  | .group c body => LTok.g (match c with | .fixed _ => true | _ => false) :: lsigItems T body ++ [LTok.close]
  | .opt _ _ body => LTok.o :: lsigItems T body ++ [LTok.close]
  | .malformed _ => [LTok.f .other 0 .none]
def lsigItems (T : Tables) : List Item → List LTok
  | [] => []
  | it :: rest => lsigItem T it ++ lsigItems T rest
end

end Rtcm

namespace Rtcm

mutual
def Item.beq' : Item → Item → Bool
  | .field a, .field b => a == b
  | .group c1 b1, .group c2 b2 => c1 == c2 && itemsBeq b1 b2
  | .opt f1 v1 b1, .opt f2 v2 b2 => f1 == f2 && v1 == v2 && itemsBeq b1 b2
  | .malformed a, .malformed b => a == b
  | _, _ => false
def itemsBeq : List Item → List Item → Bool
  | [], [] => true
  | a :: as, b :: bs => Item.beq' a b && itemsBeq as bs
  | _, _ => false
end

mutual
theorem Item.beq'_eq : ∀ (a b : Item), Item.beq' a b = true → a = b
  | .field a, .field b, h => by simp [Item.beq'] at h; simp [h]
  | .group c1 b1, .group c2 b2, h => by
    simp [Item.beq'] at h
    have := itemsBeq_eq b1 b2 h.2
    simp [h.1, this]
  | .opt f1 v1 b1, .opt f2 v2 b2, h => by
    simp [Item.beq'] at h
    have := itemsBeq_eq b1 b2 h.2
    simp [h.1.1, h.1.2, this]
  | .malformed a, .malformed b, h => by simp [Item.beq'] at h; simp [h]
  | .field _, .group _ _, h | .field _, .opt _ _ _, h | .field _, .malformed _, h
  | .group _ _, .field _, h | .group _ _, .opt _ _ _, h | .group _ _, .malformed _, h
  | .opt _ _ _, .field _, h | .opt _ _ _, .group _ _, h | .opt _ _ _, .malformed _, h
  | .malformed _, .field _, h | .malformed _, .group _ _, h | .malformed _, .opt _ _ _, h => by
    simp [Item.beq'] at h
theorem itemsBeq_eq : ∀ (a b : List Item), itemsBeq a b = true → a = b
  | [], [], _ => rfl
  | a :: as, b :: bs, h => by
    simp [itemsBeq] at h
    rw [Item.beq'_eq a b h.1, itemsBeq_eq as bs h.2]
  | [], _ :: _, h | _ :: _, [], h => by simp [itemsBeq] at h
end

/-- the definition dispatch finds for `id` is (structurally) `d` -/
def dispatchesTo (T : Tables) (id : Ident) (d : List Item) : Bool :=
  match getDict T id with
  | some d' => itemsBeq d' d
  | none => false

theorem dispatchesTo_eq {T : Tables} {id : Ident} {d : List Item} (h : dispatchesTo T id d = true) :
    getDict T id = some d := by
  unfold dispatchesTo at h
  split at h
  · rename_i d' hd; rw [hd, itemsBeq_eq d' d h]
  · simp at h

def firstFieldIs (d : List Item) (fid : Option Nat) : Bool :=
  match d with
  | .field f :: _ => some f == fid
  | _ => false

/-- second and third entries are plain fields of 3 and 8 bits, the latter named IDF002 -/
def igsHeaderOk (T : Tables) (d : List Item) : Bool :=
  match d with
  | _ :: .field v :: .field s :: _ =>
    ((T.field? v).map (·.width)) == some 3 && ((T.field? s).map (·.width)) == some 8
      && ((T.field? s).map (·.name)) == some [73, 68, 70, 48, 48, 50]
  | _ => false

end Rtcm

namespace Rtcm
/-- the search tree and the list of data fields are the same table -/
def ftreeAgrees (T : Tables) : Bool :=
  T.nf == T.fields.length &&
  (List.range (T.nf + 1)).all fun i => (match T.ftree.get? i, T.fields[i]? with
    | some a, some b => a.name == b.name && a.ty == b.ty && a.width == b.width && a.res == b.res
    | none, none => true
    | _, _ => false)
/-! ### a definition as a flat sequence of tokens (for comparison with the pinned standard definitions) -/

/-- `str(i)` for a Python int (only non-negative values occur in the tables) -/
def strInt (i : Int) : Label := if i < 0 then 45 :: strNat i.natAbs else strNat i.toNat

mutual
/-- field name | `[`counter … `]` | `{`field`=`value … `}`; group names are not part of it -/
def itemTokens (T : Tables) : Item → List Label
  | .field fid => [T.fieldName fid]
  | .group (.fixed n) body => (91 :: strNat n) :: (itemsTokens T body ++ [[93]])
  | .group (.attr fid nest) body =>
      (91 :: (T.fieldName fid ++ 43 :: strNat nest)) :: (itemsTokens T body ++ [[93]])
  | .opt fid v body => (123 :: (T.fieldName fid ++ 61 :: strInt v)) :: (itemsTokens T body ++ [[125]])
  | .malformed _ => [[63]]
def itemsTokens (T : Tables) : List Item → List Label
  | [] => []
  | it :: rest => itemTokens T it ++ itemsTokens T rest
end


end Rtcm
