import Rtcm.Model.Message
/-
  Attribute names and the helper functions of `rtcmhelpers`:
  `att2idx`, `att2name`, `datadesc`, `parse_msm`, `parse_4076_201`.
  Strings are lists of code points (`Label`).
-/
namespace Rtcm

/-- the Python attribute name of a structured key: `name` then `_%02d` per group index -/
def renderName (name : Label) (idx : List Nat) : Label :=
  name ++ (idx.map fun i => 95 :: pad2 i).flatten

def render (T : Tables) (k : AttrKey) : Label := renderName (T.fieldName k.1) k.2

/-- `str.split("_")` -/
def splitUnderscore : Label → List Label
  | [] => [[]]
  | c :: rest =>
    match splitUnderscore rest with
    | [] => [[c]]      -- unreachable
    | w :: ws => if c = 95 then [] :: w :: ws else (c :: w) :: ws

def isSpaceC (c : Nat) : Bool := c = 32 || c = 9 || c = 10 || c = 13 || c = 11 || c = 12

def digitsVal : Label → Nat → Option Nat
  | [], acc => some acc
  | c :: rest, acc => if 48 ≤ c ∧ c ≤ 57 then digitsVal rest (acc * 10 + (c - 48)) else none

/-- `int(s)` for ASCII input: surrounding whitespace, optional sign, decimal digits;
    `none` = ValueError -/
def parseInt (s : Label) : Option Int :=
  let t := ((s.dropWhile isSpaceC).reverse.dropWhile isSpaceC).reverse
  let (neg, r) := match t with
    | c :: rest => if c = 45 then (true, rest) else if c = 43 then (false, rest) else (false, t)
    | [] => (false, t)
  match r with
  | [] => none
  | _ => match digitsVal r 0 with
    | some n => some (if neg then -(n : Int) else n)
    | none => none

inductive IdxRes
  | int (i : Int)
  | tuple (is : List Int)
  deriving DecidableEq, Repr

def allSome : List (Option Int) → Option (List Int)
  | [] => some []
  | none :: _ => none
  | some a :: rest => (allSome rest).map (a :: ·)

/-- `att2idx` -/
def att2idx (att : Label) : IdxRes :=
  let parts := splitUnderscore att
  match parts with
  | [_, b] => match parseInt b with
    | some i => .int i
    | none => .int 0
  | _ :: b :: c :: rest =>
    match allSome ((b :: c :: rest).map parseInt) with
    | some is => .tuple is
    | none => .int 0
  | _ => .int 0

/-- `att2name` -/
def att2name (att : Label) : Label := (splitUnderscore att).headD []

def fidOfName (T : Tables) (name : Label) : Option Nat :=
  T.fields.findIdx? fun f => f.name = name

/-- `datadesc`: which data field's description is returned; `none` = KeyError -/
def datadesc (T : Tables) (name : Label) : Option Nat :=
  match fidOfName T name with
  | some f => some f
  | none => fidOfName T (att2name name)

/-! ### array helpers -/

def strL (s : String) : Label := s.toList.map Char.toNat

/-- the attribute lists hard-coded in `parse_msm` -/
def msmSatAttrs : List Label :=
  [strL "PRN", strL "DF397", strL "DF398", strL "DF399", strL "DF419", strL "ExtSatInfo"]
def msmCellAttrs : List Label :=
  [strL "CELLPRN", strL "CELLSIG", strL "DF400", strL "DF401", strL "DF402", strL "DF403",
   strL "DF404", strL "DF405", strL "DF406", strL "DF407", strL "DF408", strL "DF420"]

structure MsmArrays where
  identity : Label
  gnss : Label
  station : Val
  epoch : Val
  sats : Val
  cells : Val
  satRows : List (List (Label × Val))
  cellRows : List (List (Label × Val))
  deriving Repr

/-- attribute lookup by *name* (as `getattr` does) -/
def Msg.getByName (T : Tables) (m : Msg) (name : Label) : Option Val :=
  (m.attrs.find? fun kv => render T kv.1 = name).map (·.2)

def rowsFor (T : Tables) (m : Msg) (names : List Label) (n : Nat) : List (List (Label × Val)) :=
  (List.range n).map fun i =>
    names.filterMap fun a =>
      (m.getByName T (renderName a [i + 1])).map fun v => (a, v)

/-- `parse_msm` -/
def parseMsm (T : Tables) (m : Msg) : Outcome (Option MsmArrays) :=
  if !m.ismsm T then .ok none
  else match m.getByName T (strL "NSat") with
  | none => .ok none                                   -- fix F8: stubs of reserved MSM numbers
  | some nsat =>
    match (ident3 m.id).bind (assocGet T.gnssmap) with
    | none => .foreign .key
    | some (gnss, epochFid) =>
      match m.getByName T (strL "DF003"), m.getByName T (T.fieldName epochFid),
            m.getByName T (strL "NCell") with
      | some station, some epoch, some ncell =>
        match nsat.asInt?, ncell.asInt? with
        | some ns, some nc =>
          .ok (some ⟨m.id.str, gnss, station, epoch, nsat, ncell,
                     rowsFor T m msmSatAttrs ns.toNat, rowsFor T m msmCellAttrs nc.toNat⟩)
        | _, _ => .foreign .typeErr
      | _, _, _ => .foreign .attribute

/-- coefficients `field_LL_01, field_LL_02, …` until the first missing attribute -/
def coeffRun (T : Tables) (m : Msg) (field : Label) (lyr : Nat) : Nat → Nat → List Val
  | 0, _ => []
  | fuel + 1, i =>
    match m.getByName T (renderName field [lyr, i]) with
    | some v => v :: coeffRun T m field lyr fuel (i + 1)
    | none => []

structure Layer where
  height : Val
  coeffs : List (List Val)        -- one list per COEFFS entry, in COEFFS order
  deriving Repr

def layersFrom (T : Tables) (m : Msg) : List Nat → Outcome (List Layer)
  | [] => .ok []
  | lyr :: rest =>
    match m.getByName T (renderName (strL "IDF036") [lyr]) with
    | none => .foreign .attribute
    | some h =>
      let cs := T.coeffs.map fun fid => coeffRun T m (T.fieldName fid) lyr (m.attrs.length + 1) 1
      match layersFrom T m rest with
      | .ok ls => .ok (⟨h, cs⟩ :: ls)
      | .lib e => .lib e
      | .foreign e => .foreign e

/-- `parse_4076_201` -/
def parse4076_201 (T : Tables) (m : Msg) : Outcome (Option (List Layer)) :=
  if m.id ≠ ⟨4076, some 201⟩ then .ok none
  else match m.getByName T (strL "IDF035") with
  | none => .foreign .attribute
  | some v => match v.asInt? with
    | none => .foreign .typeErr
    | some n =>
      match layersFrom T m ((List.range (n + 1).toNat).map (· + 1)) with
      | .ok ls => .ok (some ls)
      | .lib e => .lib e
      | .foreign e => .foreign e

end Rtcm
