import Rtcm.Model.Basic
/-
  The table-driven payload decoder: `RTCMMessage._do_attributes`, `_set_attribute*`,
  `_getsatcellmaps`.  One Lean function per Python function, same order of effects.
-/
namespace Rtcm

/-- `_payloadi`, `_payblen` -/
structure Payload where
  val : Nat
  blen : Nat
  deriving Repr, DecidableEq

def bytesToNat (bs : Bytes) : Nat := bs.foldl (fun acc b => acc * 256 + b.toNat) 0

def Payload.ofBytes (bs : Bytes) : Payload := ⟨bytesToNat bs, 8 * bs.length⟩

/-- `self._payloadi >> (self._payblen - offset - asiz) & ((1 << asiz) - 1)`;
    Python raises `ValueError: negative shift count` exactly when `off + w > blen`. -/
def extract (p : Payload) (off w : Nat) : Option Nat :=
  if off + w ≤ p.blen then some ((p.val >>> (p.blen - off - w)) % 2 ^ w) else none

/-- attribute values -/
inductive Val
  | int (i : Int)                       -- Python int
  | scaled (raw : Int) (res : Res)      -- raw * resolution (int or float according to `res`)
  | text (cs : Label)                   -- Python str (code points)
  deriving DecidableEq, Repr, Inhabited

/-- structured attribute name: field id and group indices; the Python name is
    `fieldName fid ++ "_%02d" % i ...` (see `Names.render`) -/
abbrev AttrKey := Nat × List Nat

abbrev Attrs := List (AttrKey × Val)

def Attrs.get? (as : Attrs) (k : AttrKey) : Option Val :=
  match as with
  | [] => none
  | (k', v) :: rest => if k' = k then some v else Attrs.get? rest k

/-- `setattr`: update in place if present (dict insertion order), else append -/
def Attrs.set (as : Attrs) (k : AttrKey) (v : Val) : Attrs :=
  match as with
  | [] => [(k, v)]
  | (k', v') :: rest => if k' = k then (k, v) :: rest else (k', v') :: Attrs.set rest k v

inductive DecErr
  | short        -- negative shift count: field extends past the payload
  | noField      -- KeyError on RTCM_DATA_FIELDS
  | noAttr       -- AttributeError on getattr
  | badCount     -- repeat count is not an int
  | noMap        -- _satmap / _cellmap is None, or PRNSIGMAP KeyError
  | badIndex     -- IndexError on index[0] / index[i], KeyError on _satmap[i]
  | badType      -- operation on wrong type
  | malformed    -- definition node that is not a valid dict / tuple
  deriving DecidableEq, Repr, Inhabited

structure DState where
  off : Nat
  attrs : Attrs
  satmap : Option (List Label)
  cellmap : Option (List (Label × Label))
  deriving Repr, Inhabited

def popcount (n : Nat) : Nat → Nat
  | 0 => 0
  | k+1 => (if n.testBit k then 1 else 0) + popcount n k

/-- the Python int value of an attribute, if it is an int -/
def Val.asInt? : Val → Option Int
  | .int i => some i
  | .scaled raw (.int k) => some (raw * k)
  | _ => none

def assocGet {β : Type} (l : List (Nat × β)) (k : Nat) : Option β :=
  match l with
  | [] => none
  | (k', v) :: rest => if k' = k then some v else assocGet rest k

/-- first three characters of the identity string, as a number, when they are three digits -/
def ident3 (id : Ident) : Option Nat :=
  if id.num ≥ 1000 then some (id.num / 10)
  else if id.num ≥ 100 then some id.num
  else none

/-- indices `idx ∈ [0, n]` whose mask bit `n - idx` is set, ascending: the loop
    `for idx in range(n + 1): if mask >> (n - idx) & 1` -/
def setIdx (mask n : Nat) : List Nat := (List.range (n + 1)).filter fun idx => mask.testBit (n - idx)

def prnLabel (T : Tables) (prnmap : List (Nat × Label)) (idx : Nat) : Label :=
  (assocGet prnmap idx).getD T.na

/-- `sgc = sigmap.get(idx, (NA, NA)); sgc[1] if sigcode else sgc[0]` -/
def sigLabel (T : Tables) (sigmap : List (Nat × Label × Label)) (label : Nat) (idx : Nat) : Label :=
  match assocGet sigmap idx with
  | some (band, code) => if label = 2 then band else code
  | none => T.na

/-- cell positions `j < ncells` (satellite-major: satellite `j / nsig`, signal `j % nsig`) whose
    cell-mask bit is set -/
def setCells (df396 ncells : Nat) : List Nat :=
  (List.range ncells).filter fun j => df396.testBit (ncells - (j + 1))

/-- `_getsatcellmaps`; `label = 2` selects the band label, anything else the RINEX code -/
def satCellMaps (T : Tables) (id : Ident) (label : Nat) (df394 df395 df396 : Nat) :
    Except DecErr (List Label × List (Label × Label)) :=
  match (ident3 id).bind (assocGet T.prnsig) with
  | none => .error .noMap
  | some (prnmap, sigmap) =>
    let sats : List Label := (setIdx df394 64).map (prnLabel T prnmap)
    let sigs : List Label := (setIdx df395 32).map (sigLabel T sigmap label)
    let nsig := sigs.length
    let cells : List (Label × Label) := (setCells df396 (sats.length * nsig)).map fun j =>
      ((sats[j / nsig]?).getD [], (sigs[j % nsig]?).getD [])
    .ok (sats, cells)

structure Ctx where
  T : Tables
  p : Payload
  id : Ident
  label : Nat

def getInt (s : DState) (k : AttrKey) : Except DecErr Int :=
  match s.attrs.get? k with
  | none => .error .noAttr
  | some v => match v.asInt? with
    | some i => .ok i
    | none => .error .badCount

def getNat (s : DState) (k : AttrKey) : Except DecErr Nat :=
  match getInt s k with
  | .ok i => .ok i.toNat
  | .error e => .error e

/-- interpretation of `w` extracted bits according to the field's type and resolution -/
def interp (f : FieldSpec) (w bits : Nat) : Val :=
  let scale (i : Int) : Val := match f.res with
    | .none => .int i
    | r => .scaled i r
  match f.ty with
  | .snt =>
      -- val = bits & (msb - 1); negated if bits & msb   (msb = 1 << (w-1))
      let msb := 2 ^ (w - 1)
      let mag : Int := (bits % msb : Nat)
      scale (if bits / msb % 2 = 1 then -mag else mag)
  | .int =>
      let msb := 2 ^ (w - 1)
      scale (if bits / msb % 2 = 1 then (bits : Int) - (2 ^ w : Nat) else bits)
  | .cha => .text [bits]
  | .str => .text (if bits = 0 then [] else [bits])
  | _ => scale bits

/-- width of a field: the table's, except DF396 which is NSat * NSig bits wide -/
def fieldWidth (T : Tables) (f : FieldSpec) (fid : Nat) (s : DState) : Except DecErr Nat :=
  if some fid = T.special.df396 then
    match getNat s (T.fidNSat, []), getNat s (T.fidNSig, []) with
    | .ok a, .ok b => .ok (a * b)
    | .error e, _ => .error e
    | _, .error e => .error e
  else .ok f.width

/-- the value of a field and the raw bits it was made from (derived labels read no bits).
    This is the only place the payload is read. -/
def fieldValue (p : Payload) (f : FieldSpec) (w : Nat) (idx : List Nat) (s : DState) : Except DecErr (Val × Nat) :=
  match f.ty with
  | .prn =>
    match s.satmap, idx with
    | some m, i :: _ => if i = 0 then .error .badIndex else
        match m[i - 1]? with | some l => .ok (.text l, 0) | none => .error .badIndex
    | none, _ => .error .noMap
    | _, [] => .error .badIndex
  | .cprn =>
    match s.cellmap, idx with
    | some m, i :: _ => if i = 0 then .error .badIndex else
        match m[i - 1]? with | some l => .ok (.text l.1, 0) | none => .error .badIndex
    | none, _ => .error .noMap
    | _, [] => .error .badIndex
  | .csig =>
    match s.cellmap, idx with
    | some m, i :: _ => if i = 0 then .error .badIndex else
        match m[i - 1]? with | some l => .ok (.text l.2, 0) | none => .error .badIndex
    | none, _ => .error .noMap
    | _, [] => .error .badIndex
  | _ =>
    if (f.ty = .int ∨ f.ty = .snt) ∧ w = 0 then .error .badType   -- 1 << -1
    else match extract p s.off w with
      | none => .error .short
      | some bits => .ok (interp f w bits, bits)

/-- `setattr`: STR fields are concatenated into the un-indexed name, everything else is stored
    under the indexed name -/
def fieldStore (f : FieldSpec) (fid : Nat) (idx : List Nat) (attrs : Attrs) (v : Val) : Except DecErr Attrs :=
  if f.ty = .str then
    match attrs.get? (fid, []), v with
    | none, _ => .ok (attrs.set (fid, []) v)
    | some (.text old), .text new => .ok (attrs.set (fid, []) (.text (old ++ new)))
    | _, _ => .error .badType
  else .ok (attrs.set (fid, idx) v)

/-- MSM bookkeeping after DF394 / DF395 / DF396: the counts NSat / NSig / NCell and, at DF396,
    the satellite and cell maps -/
def msmSpecial (T : Tables) (id : Ident) (label : Nat) (f : FieldSpec) (fid : Nat)
    (w bits : Nat) (s1 : DState) : Except DecErr DState :=
  if some fid = T.special.df394 then
    if (f.ty = .prn ∨ f.ty = .cprn ∨ f.ty = .csig) then .error .badType else
    .ok { s1 with attrs := s1.attrs.set (T.fidNSat, []) (.int (popcount bits w)) }
  else if some fid = T.special.df395 then
    if (f.ty = .prn ∨ f.ty = .cprn ∨ f.ty = .csig) then .error .badType else
    .ok { s1 with attrs := s1.attrs.set (T.fidNSig, []) (.int (popcount bits w)) }
  else if some fid = T.special.df396 then
    if (f.ty = .prn ∨ f.ty = .cprn ∨ f.ty = .csig) then .error .badType else
    match T.special.df394, T.special.df395 with
    | some f394, some f395 =>
      match (s1.attrs.set (T.fidNCell, []) (.int (popcount bits w))).get? (f394, []),
            (s1.attrs.set (T.fidNCell, []) (.int (popcount bits w))).get? (f395, []),
            (s1.attrs.set (T.fidNCell, []) (.int (popcount bits w))).get? (fid, []) with
      | some a, some b, some d =>
        match a.asInt?, b.asInt?, d.asInt? with
        | some a, some b, some d =>
          if a < 0 ∨ b < 0 ∨ d < 0 then .error .badType else
          match satCellMaps T id label a.toNat b.toNat d.toNat with
          | .ok (sm, cm) =>
            .ok { s1 with attrs := s1.attrs.set (T.fidNCell, []) (.int (popcount bits w)),
                          satmap := some sm, cellmap := some cm }
          | .error e => .error e
        | _, _, _ => .error .badType
      | _, _, _ => .error .noAttr
    | _, _ => .error .noAttr
  else .ok s1

/-- the 4076_201 coefficient counts after IDF038 -/
def harmSpecial (T : Tables) (fid : Nat) (idx : List Nat) (s2 : DState) : Except DecErr DState :=
  if some fid = T.special.idf038 then
    match idx, T.special.idf037 with
    | i :: _, some f037 =>
      match getInt s2 (f037, [i]), getInt s2 (fid, [i]) with
      | .ok n0, .ok m0 =>
        let N := n0 + 1
        let M := m0 + 1
        let nc := (N + 1) * (N + 2) / 2 - (N - M) * (N - M + 1) / 2
        let ns := nc - (N + 1)
        .ok { s2 with attrs := (s2.attrs.set (T.fidNHarmC, []) (.int nc)).set (T.fidNHarmS, []) (.int ns) }
      | .error e, _ => .error e
      | _, .error e => .error e
    | [], _ => .error .badIndex
    | _, none => .error .noAttr
  else .ok s2

def fieldSpecial (T : Tables) (id : Ident) (label : Nat) (f : FieldSpec) (fid : Nat) (idx : List Nat)
    (w bits : Nat) (s1 : DState) : Except DecErr DState :=
  match msmSpecial T id label f fid w bits s1 with
  | .error e => .error e
  | .ok s2 => harmSpecial T fid idx s2

/-- `_set_attribute_single` -/
def decField (c : Ctx) (fid : Nat) (idx : List Nat) (s : DState) : Except DecErr DState :=
  match c.T.field? fid with
  | none => .error .noField
  | some f =>
    match fieldWidth c.T f fid s with
    | .error e => .error e
    | .ok w =>
      match fieldValue c.p f w idx s with
      | .error e => .error e
      | .ok (v, bits) =>
        match fieldStore f fid idx s.attrs v with
        | .error e => .error e
        | .ok attrs =>
          fieldSpecial c.T c.id c.label f fid idx w bits { s with off := s.off + w, attrs := attrs }

/-- run `f 1, f 2, …, f n` threading the state (the `for i in range(gsiz)` loop) -/
def repLoop (f : Nat → DState → Except DecErr DState) : Nat → Nat → DState → Except DecErr DState
  | 0, _, s => .ok s
  | k + 1, i, s =>
    match f i s with
    | .error e => .error e
    | .ok s' => repLoop f k (i + 1) s'

/-- `gsiz` of `_set_attribute_group` -/
def countOf (c : Ctx) (cnt : Count) (idx : List Nat) (s : DState) : Except DecErr Nat :=
  match cnt with
  | .fixed n => .ok n
  | .attr fid nest =>
    if idx.length < nest then .error .badIndex else
    match getInt s (fid, idx.take nest) with
    | .error e => .error e
    | .ok i =>
      let g := if nest = 0 ∧ some fid = c.T.special.idf035 then i + 1 else i
      .ok g.toNat

/-- `getattr(self, anam) == con` of `_set_attribute_optional` -/
def optMatches (a : Val) (v : Int) : Bool :=
  match a with
  | .int i => i = v
  | .scaled raw (.int k) => raw * k = v
  | .scaled raw (.flt num den) => raw * num = v * den
  | _ => false

mutual
/-- `_set_attribute` -/
def decItem (c : Ctx) : Item → List Nat → DState → Except DecErr DState
  | .field fid, idx, s => decField c fid idx s
  | .group cnt body, idx, s =>
    match countOf c cnt idx s with
    | .error e => .error e
    | .ok n => repLoop (fun i s => decItems c body (idx ++ [i]) s) n 1 s
  | .opt fid v body, idx, s =>
    match s.attrs.get? (fid, []) with
    | none => .error .noAttr
    | some a => if optMatches a v then decItems c body idx s else .ok s
  | .malformed _, _, _ => .error .malformed
def decItems (c : Ctx) : List Item → List Nat → DState → Except DecErr DState
  | [], _, s => .ok s
  | it :: rest, idx, s =>
    match decItem c it idx s with
    | .error e => .error e
    | .ok s' => decItems c rest idx s'
end

def DState.init : DState := ⟨0, [], none, none⟩

end Rtcm
