import Rtcm.Model.Message
/-
  A small-step version of the payload decoder, and a pool of such decoders run under an arbitrary
  schedule: the model of several threads constructing messages concurrently.

  One step is at most one `_set_attribute_single` (one field), or one piece of control
  (`_set_attribute_group` reading its count, one turn of its `for` loop, `_set_attribute_optional`
  testing its condition).  Everything a step reads or writes is the thread's own `MState` — the
  message instance and the locals of `_do_attributes` — plus the *shared, read-only* tables.
  `Lemmas/Machine.lean` proves that running this machine to completion is `decItems`, and that in a
  pool no schedule changes any thread's result.
-/
namespace Rtcm

/-- pending work of `_do_attributes`: the Python call stack, outermost last -/
inductive Work
  | item (it : Item) (idx : List Nat)
  /-- `for i in range(gsiz)` with `k` turns left, the next one with index `i` -/
  | loop (body : List Item) (idx : List Nat) (k : Nat) (i : Nat)

def Work.ofItems (items : List Item) (idx : List Nat) : List Work := items.map fun it => .item it idx

/-- a thread's private decode state -/
structure MState where
  st : DState
  work : List Work

inductive MStatus
  | running (m : MState)
  | done (s : DState)
  | failed (e : DecErr)

/-- one step of the decoder; reads `c.T` (shared) and `c.p`, `c.id`, `c.label` (the instance's) -/
def mstep (c : Ctx) (m : MState) : MStatus :=
  match m.work with
  | [] => .done m.st
  | .item (.field fid) idx :: w =>
    match decField c fid idx m.st with
    | .error e => .failed e
    | .ok s' => .running ⟨s', w⟩
  | .item (.group cnt body) idx :: w =>
    match countOf c cnt idx m.st with
    | .error e => .failed e
    | .ok n => .running ⟨m.st, .loop body idx n 1 :: w⟩
  | .item (.opt fid v body) idx :: w =>
    match m.st.attrs.get? (fid, []) with
    | none => .failed .noAttr
    | some a => if optMatches a v then .running ⟨m.st, Work.ofItems body idx ++ w⟩ else .running ⟨m.st, w⟩
  | .item (.malformed _) _ :: _ => .failed .malformed
  | .loop _ _ 0 _ :: w => .running ⟨m.st, w⟩
  | .loop body idx (k + 1) i :: w =>
    .running ⟨m.st, Work.ofItems body (idx ++ [i]) ++ .loop body idx k (i + 1) :: w⟩

/-- a halted machine stays halted -/
def MStatus.step (c : Ctx) : MStatus → MStatus
  | .running m => mstep c m
  | s => s

def MStatus.steps (c : Ctx) : Nat → MStatus → MStatus
  | 0, s => s
  | n + 1, s => MStatus.steps c n (s.step c)

def MStatus.halted : MStatus → Bool
  | .running _ => false
  | _ => true

def MStatus.result : MStatus → Option (Except DecErr DState)
  | .running _ => none
  | .done s => some (.ok s)
  | .failed e => some (.error e)

/-! ### threads -/

/-- one thread executing `RTCMMessage(payload, labelmsm)`: before the constructor's prologue
    (identity, table dispatch), inside `_do_attributes`, or finished -/
inductive TState
  | start (payload : Option Bytes) (label : Nat)
  | decoding (p : Bytes) (label : Nat) (id : Ident) (m : MStatus)
  | finished (r : Outcome Msg)

/-- the constructor's prologue: everything up to the call of `_do_attributes` -/
def tPrologue (T : Tables) (payload : Option Bytes) (label : Nat) : TState :=
  match payload with
  | none => .finished (.lib .message)
  | some p =>
    match identity p with
    | .foreign _ => .finished (.lib .message)
    | .lib e => .finished (.lib e)
    | .ok id =>
      match getDict T id with
      | none =>
        let k : AttrKey := ((T.special.df002).getD 0, [])
        .finished (.ok ⟨p, label, id, true, [(k, .text id.str)], true⟩)
      | some d => .decoding p label id (.running ⟨DState.init, Work.ofItems d []⟩)

/-- the constructor's epilogue: `_do_attributes` returned or raised -/
def tEpilogue (p : Bytes) (label : Nat) (id : Ident) : Except DecErr DState → Outcome Msg
  | .error _ => .lib .type
  | .ok s => .ok ⟨p, label, id, false, s.attrs, true⟩

/-- one step of one thread.  The tables are an argument and are not returned: a step has no way
    to change them (that the implementation's steps do not is what the correspondence run checks) -/
def tstep (T : Tables) : TState → TState
  | .start payload label => tPrologue T payload label
  | .decoding p label id m =>
    match m.result with
    | some r => .finished (tEpilogue p label id r)
    | none => .decoding p label id (m.step ⟨T, Payload.ofBytes p, id, label⟩)
  | .finished r => .finished r

def TState.result : TState → Option (Outcome Msg)
  | .finished r => some r
  | _ => none

/-- a pool of threads run under a schedule: each entry names the thread that takes the next step
    (an out-of-range entry is an idle tick) -/
def poolStep (T : Tables) (pool : List TState) (tid : Nat) : List TState :=
  pool.modify tid (tstep T)

def poolRun (T : Tables) (pool : List TState) (sched : List Nat) : List TState :=
  sched.foldl (poolStep T) pool

def TState.steps (T : Tables) : Nat → TState → TState
  | 0, s => s
  | n + 1, s => TState.steps T n (tstep T s)

end Rtcm
