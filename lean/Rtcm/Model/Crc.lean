import Rtcm.Model.Basic
/-
  CRC-24Q exactly as `rtcmhelpers.calc_crc24q`: a left-shifting register held in a Python int,
  one byte XOR-ed in at bit 16, eight shift/conditional-XOR steps, final mask.
-/
namespace Rtcm

def poly : Nat := 0x1864CFB

/-- one iteration of the inner `for _ in range(8)` loop -/
def crcStep (crc : Nat) : Nat :=
  let c := crc <<< 1
  if c &&& 0x1000000 ≠ 0 then c ^^^ poly else c

def crcStep8 (crc : Nat) : Nat :=
  crcStep (crcStep (crcStep (crcStep (crcStep (crcStep (crcStep (crcStep crc)))))))

/-- one iteration of the outer `for octet in message` loop -/
def crcFeed (crc : Nat) (b : UInt8) : Nat :=
  crcStep8 (crc ^^^ (b.toNat <<< 16))

/-- the register after the whole message, before the final mask -/
def crcReg (m : Bytes) : Nat := m.foldl crcFeed 0

def calcCrc24q (m : Bytes) : Nat := crcReg m &&& 0xFFFFFF

/-- `n.to_bytes(3, "big")` for `n < 2^24` -/
def toBytes3 (n : Nat) : Bytes :=
  [UInt8.ofNat (n >>> 16 % 256), UInt8.ofNat (n >>> 8 % 256), UInt8.ofNat (n % 256)]

def crc2bytes (m : Bytes) : Bytes := toBytes3 (calcCrc24q m)

/-- `len(payload).to_bytes(2, "big")`; Python raises OverflowError from 65536 bytes on -/
def len2bytes (p : Bytes) : Outcome Bytes :=
  if p.length < 65536 then
    .ok [UInt8.ofNat (p.length / 256), UInt8.ofNat (p.length % 256)]
  else .foreign .other

end Rtcm
