import Rtcm.Model.Reader
/-
  `SocketWrapper`: `_recv`, `read`, `readline`, `dechunk`.
  The peer is a receive schedule; per-chunk decompression is a parameter `dec`.
-/
namespace Rtcm

inductive Recv
  | data (bs : Bytes)
  | timeout
  | oserror
  | closed
  deriving Repr

structure Sock where
  buffer : Bytes
  partial_ : Bytes
  sched : List Recv
  chunked : Bool
  bufsize : Nat
  deriving Repr

def isSpace (b : UInt8) : Bool :=
  let n := b.toNat
  n = 32 || n = 9 || n = 10 || n = 13 || n = 11 || n = 12

/-- `bytes.strip()` -/
def strip (bs : Bytes) : Bytes :=
  ((bs.dropWhile isSpace).reverse.dropWhile isSpace).reverse

def hexVal (b : UInt8) : Option Nat :=
  let n := b.toNat
  if 48 ≤ n ∧ n ≤ 57 then some (n - 48)
  else if 97 ≤ n ∧ n ≤ 102 then some (n - 87)
  else if 65 ≤ n ∧ n ≤ 70 then some (n - 55)
  else none

/-- digits with single underscores between them (after the first digit) -/
def hexDigits : Bytes → Nat → Bool → Option Nat
  | [], acc, prevDigit => if prevDigit then some acc else none
  | b :: rest, acc, prevDigit =>
    if b.toNat = 95 then
      if prevDigit ∧ !rest.isEmpty then hexDigits rest acc false else none
    else match hexVal b with
      | some d => hexDigits rest (acc * 16 + d) true
      | none => none

/-- `int(b, 16)` on already stripped bytes; `none` = ValueError -/
def parseHex (bs : Bytes) : Option Int :=
  let (neg, r) := match bs with
    | b :: rest => if b.toNat = 45 then (true, rest) else if b.toNat = 43 then (false, rest) else (false, bs)
    | [] => (false, bs)
  -- optional 0x / 0X prefix (an underscore may follow it)
  let r := match r with
    | z :: x :: rest =>
      if z.toNat = 48 ∧ (x.toNat = 120 ∨ x.toNat = 88) then
        match rest with
        | u :: rest' => if u.toNat = 95 then rest' else rest
        | [] => r        -- "0x" alone: falls through to digit parsing and fails on 'x'
      else r
    | _ => r
  match r with
  | [] => none
  | b :: _ =>
    if (hexVal b).isNone then none else
    match hexDigits r 0 false with
    | some n => some (if neg then -(n : Int) else n)
    | none => none

def endsCRLF (bs : Bytes) : Bool :=
  match bs.reverse with
  | b :: a :: _ => a.toNat = 13 && b.toNat = 10
  | _ => false

theorem splitLine_length (bs : Bytes) : (splitLine bs).2.length ≤ bs.length := by
  induction bs with
  | nil => simp [splitLine]
  | cons b rest ih =>
    simp only [splitLine]
    split
    · simp
    · simp; omega

theorem splitLine_lt (bs : Bytes) (h : (splitLine bs).1 ≠ []) : (splitLine bs).2.length < bs.length := by
  cases bs with
  | nil => simp [splitLine] at h
  | cons b rest =>
    simp only [splitLine]
    split
    · simp
    · have := splitLine_length rest
      simp; omega

/-- `instream.read(chunk_length)`: a negative length reads everything -/
def takeChunk (r : Bytes) (len : Int) : Bytes × Bytes :=
  if len < 0 then (r, []) else (r.take len.toNat, r.drop len.toNat)

theorem takeChunk_length (r : Bytes) (len : Int) : (takeChunk r len).2.length ≤ r.length := by
  unfold takeChunk; split <;> simp

/-- the `while True:` loop of `dechunk`; `rest` = unread part of the BytesIO -/
def dechunkLoop (dec : Bytes → Bytes) (rest : Bytes) (chunks : Bytes) : Bytes × Bytes :=
  let lb := (splitLine rest).1
  if hlb : !endsCRLF lb then (chunks, lb)          -- premature end of length bytes
  else
    match parseHex (strip lb) with
    | none => (chunks, [])                       -- ValueError: residual bytes
    | some len =>
      if len = 0 then (chunks, [])               -- final chunk
      else
        let chunk := (takeChunk (splitLine rest).2 len).1
        let term := (splitLine (takeChunk (splitLine rest).2 len).2).1
        if (chunk.length : Int) ≠ len ∨ !endsCRLF term then (chunks, lb ++ chunk ++ term)
        else dechunkLoop dec (splitLine (takeChunk (splitLine rest).2 len).2).2 (chunks ++ dec chunk)
termination_by rest.length
decreasing_by
  have h1 : (splitLine rest).2.length < rest.length := by
    apply splitLine_lt
    intro h
    simp [lb, h, endsCRLF] at hlb
  have h2 := splitLine_length (takeChunk (splitLine rest).2 len).2
  have h3 := takeChunk_length (splitLine rest).2 len
  omega

/-- `dechunk(segment)` → (chunks, partial) -/
def dechunk (dec : Bytes → Bytes) (seg : Bytes) : Bytes × Bytes := dechunkLoop dec seg []

/-- `socket.recv(bufsize)` on the scripted peer:
    `none` = exception (timeout / OSError), `some []` = closed -/
def peerRecv (sched : List Recv) (bufsize : Nat) : Option Bytes × List Recv :=
  match sched with
  | [] => (some [], [])
  | .closed :: rest => (some [], .closed :: rest)
  | .timeout :: rest => (none, rest)
  | .oserror :: rest => (none, rest)
  | .data bs :: rest =>
    if bs.length ≤ bufsize then (some bs, rest)
    else (some (bs.take bufsize), .data (bs.drop bufsize) :: rest)

/-- `_recv()` → success flag -/
def Sock.recv (dec : Bytes → Bytes) (s : Sock) : Bool × Sock :=
  match peerRecv s.sched s.bufsize with
  | (none, sched') => (false, { s with sched := sched' })
  | (some d, sched') =>
    if d.length = 0 then (false, { s with sched := sched' })
    else if s.chunked then
      let r := dechunk dec (s.partial_ ++ d)
      (true, { s with sched := sched', buffer := s.buffer ++ r.1, partial_ := r.2 })
    else (true, { s with sched := sched', buffer := s.buffer ++ d })

/-- bytes and events still to come from the peer (`closed` is never consumed) -/
def schedMeasure : List Recv → Nat
  | [] => 0
  | .closed :: _ => 0
  | .data bs :: rest => bs.length + 1 + schedMeasure rest
  | _ :: rest => 1 + schedMeasure rest

def Sock.size (s : Sock) : Nat × Nat := (schedMeasure s.sched, s.buffer.length)

/-- the `while len(self._buffer) < num: if not self._recv(): return b""` loop of `read`.
    The dynamic measure test never fails (theorem `recv_decreases`); it only makes the
    recursion evidently terminating. -/
def Sock.fill (dec : Bytes → Bytes) (num : Nat) (s : Sock) : Bool × Sock :=
  if s.buffer.length < num then
    match Sock.recv dec s with
    | (false, s') => (false, s')
    | (true, s') =>
      if schedMeasure s'.sched < schedMeasure s.sched then Sock.fill dec num s' else (false, s')
  else (true, s)
termination_by schedMeasure s.sched

/-- `read(num)` -/
def Sock.read (dec : Bytes → Bytes) (s : Sock) (num : Nat) : Bytes × Sock :=
  match Sock.fill dec num s with
  | (false, s') => ([], s')
  | (true, s') => (s'.buffer.take num, { s' with buffer := s'.buffer.drop num })

/-- `readline()`: bytes up to and including LF (fix F6), or until a read fails -/
def Sock.readlineAux (dec : Bytes → Bytes) (s : Sock) (line : Bytes) : Bytes × Sock :=
  match Sock.read dec s 1 with
  | ([b], s') =>
    if b.toNat = 10 then (line ++ [b], s')
    else if lexLt s'.size s.size then Sock.readlineAux dec s' (line ++ [b]) else (line ++ [b], s')
  | (_, s') => (line, s')
termination_by s.size
decreasing_by
  simp only [lexLt, Bool.or_eq_true, Bool.and_eq_true, decide_eq_true_eq, beq_iff_eq] at *
  rename_i h
  rcases h with h | ⟨h1, h2⟩
  · exact Prod.Lex.left _ _ h
  · have : s'.size = (s.size.1, s'.size.2) := by rw [← h1]
    rw [this]; exact Prod.Lex.right _ h2

def Sock.readline (dec : Bytes → Bytes) (s : Sock) : Bytes × Sock := Sock.readlineAux dec s []

/-- `SocketWrapper(sock, encoding, bufsize)`: the constructor performs one `_recv()` -/
def Sock.init (dec : Bytes → Bytes) (sched : List Recv) (chunked : Bool) (bufsize : Nat) : Sock :=
  (Sock.recv dec ⟨[], [], sched, chunked, bufsize⟩).2

def sockOps (dec : Bytes → Bytes) : StreamOps Sock where
  read := Sock.read dec
  readline := Sock.readline dec
  size := Sock.size

end Rtcm
