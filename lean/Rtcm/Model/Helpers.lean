import Rtcm.Model.Repr
/-
  The remaining public helpers of `rtcmhelpers.py` that no earlier model file covers:
  `get_bit`, `escapeall`, `tow2utc`, `hextable`.  Strings are lists of code points.
-/
namespace Rtcm

/-- `get_bit(data, num)` = `(data[num // 8] >> (7 - num % 8)) & 1`; `none` is Python's IndexError
    (`num // 8` outside the data).  Negative `num` (Python indexes from the end) is not modelled. -/
def getBit (data : Bytes) (num : Nat) : Option Nat :=
  match data[num / 8]? with
  | some b => some ((b.toNat >>> (7 - num % 8)) % 2)
  | none => none

/-- `f"\\x{b:02x}"` -/
def escByte (c : UInt8) : List Nat := [92, 120, hexDigitLower (c.toNat / 16), hexDigitLower (c.toNat % 16)]

def escBody : Bytes → List Nat
  | [] => []
  | c :: rest => escByte c ++ escBody rest

/-- `escapeall(val)` = `"b'" + "".join(f"\\x{b:02x}" for b in val) + "'"` -/
def escapeall (bs : Bytes) : List Nat := 98 :: 39 :: (escBody bs ++ [39])

/-- a `datetime.time` -/
structure TimeOfDay where
  h : Nat
  m : Nat
  s : Nat
  us : Nat
  deriving DecidableEq, Repr

/-- `tow2utc(tow)`: `(datetime(1980,1,6) + timedelta(seconds=tow/1000 - 18)).time()` with `tow` in
    milliseconds; the epoch is a midnight, so only the time of day of `tow - 18000` ms remains.
    (Exact arithmetic; CPython's float division and microsecond rounding agree with it for
    |tow| < 10^10, which the correspondence check samples; the date range limit of `datetime` is not modelled.) -/
def tow2utc (tow : Int) : TimeOfDay :=
  let tod := ((tow - 18000) % 86400000).toNat
  ⟨tod / 3600000, tod / 60000 % 60, tod / 1000 % 60, tod % 1000 * 1000⟩

/-- `bytes.hex()` -/
def hexOf (bs : Bytes) : List Nat :=
  bs.flatMap fun b => [hexDigitLower (b.toNat / 16), hexDigitLower (b.toNat % 16)]

/-- `s.ljust(n, " ")` -/
def ljust (l : List Nat) (n : Nat) : List Nat := l ++ List.replicate (n - l.length) 32

/-- the hex columns: every group of four characters followed by a space -/
def groups4 : Nat → List Nat → List Nat
  | 0, _ => []
  | k + 1, l => l.take 4 ++ [32] ++ groups4 k (l.drop 4)

/-- one line of the table: `f"{off:03}: "`, the columns, `f" | {row!r} |\n"` -/
def hexRow (cols off : Nat) (row : Bytes) : List Nat :=
  pad3 off ++ [58, 32] ++ groups4 cols (ljust (hexOf row) (cols * 4)) ++ [32, 124, 32] ++ bytesRepr row ++ [32, 124, 10]

def hextableAux (cols : Nat) : Nat → Nat → Bytes → List Nat
  | 0, _, _ => []
  | fuel + 1, off, bs =>
    if bs.isEmpty then [] else
      hexRow cols off (bs.take (2 * cols)) ++ hextableAux cols fuel (off + 2 * cols) (bs.drop (2 * cols))

/-- `hextable(raw, cols)` for `cols ≥ 1` (`cols = 0` is a ValueError in Python's `range`,
    negative `cols` gives the empty string; neither is modelled) -/
def hextable (bs : Bytes) (cols : Nat) : List Nat := hextableAux cols bs.length 0 bs

end Rtcm
