import Rtcm.Model.WF
/-
  A static check on payload definitions that is *sound for decodability*: if `ckDef` accepts a
  definition then decoding any payload with it can fail in one way only — the payload is too
  short (theorem `ck_sound`, Lemmas/Decodable.lean).  It is an abstract interpretation of the
  recursive walk: which attributes are certainly set (scope), whether the MSM maps have been
  built, and which counter drives the outermost enclosing group.
-/
namespace Rtcm

structure CEnv where
  /-- `(fid, depth)`: attribute `(fid, idx.take depth)` is certainly set -/
  scope : Scope
  /-- satellite and cell maps have been built (DF396 was decoded) -/
  maps : Bool
  /-- the counter attribute (nest 0) of the outermost enclosing group, inside groups -/
  outer : Option Nat
  deriving Repr

def CEnv.add (e : CEnv) (fid d : Nat) : CEnv := { e with scope := (fid, d) :: e.scope }

/-- field `a` is a plain unsigned, unscaled field -/
def counterField (T : Tables) (a : Nat) : Bool :=
  match T.field? a with
  | some f => isCounterTy f
  | none => false

def isSpecial (T : Tables) (fid : Nat) : Bool :=
  some fid == T.special.df394 || some fid == T.special.df395 || some fid == T.special.df396
    || some fid == T.special.idf038

/-- one field occurrence at group depth `d` -/
def ckField (T : Tables) (id : Ident) (env : CEnv) (d : Nat) (fid : Nat) : Option CEnv :=
  match T.field? fid with
  | none => none
  | some f =>
    match f.ty with
    | .prn =>
      if d ≥ 1 && env.maps && env.outer == some T.fidNSat && f.width == 0 && !isSpecial T fid
      then some (env.add fid d) else none
    | .cprn | .csig =>
      if d ≥ 1 && env.maps && env.outer == some T.fidNCell && f.width == 0 && !isSpecial T fid
      then some (env.add fid d) else none
    | .int | .snt => if f.width != 0 && !isSpecial T fid then some (env.add fid d) else none
    | .cha => if !isSpecial T fid then some (env.add fid d) else none
    | .str => if !isSpecial T fid then some (env.add fid 0) else none
    | .other => none
    | _ =>
      if some fid == T.special.df394 then
        if d == 0 && !env.maps && isCounterTy f && f.width == 64 then some ((env.add fid d).add T.fidNSat 0) else none
      else if some fid == T.special.df395 then
        if d == 0 && !env.maps && isCounterTy f && f.width == 32 then some ((env.add fid d).add T.fidNSig 0) else none
      else if some fid == T.special.df396 then
        if d == 0 && !env.maps && isCounterTy f && env.scope.has T.fidNSat 0 && env.scope.has T.fidNSig 0
            && (T.special.df394.any fun a => env.scope.has a 0)
            && (T.special.df395.any fun a => env.scope.has a 0)
            && ((ident3 id).bind (assocGet T.prnsig)).isSome then
          some { ((env.add fid d).add T.fidNCell 0) with maps := true } else none
      else if some fid == T.special.idf038 then
        if d == 1 && isCounterTy f && (T.special.idf037.any fun a => env.scope.has a 1 && counterField T a) then
          some (((env.add fid d).add T.fidNHarmC 0).add T.fidNHarmS 0) else none
      else some (env.add fid d)

/-- the counter / condition attribute `(fid, idx.take nest)` is set and is an integer -/
def ckCounter (T : Tables) (env : CEnv) (d : Nat) (fid nest : Nat) : Bool :=
  nest ≤ d && env.scope.has fid nest && (counterField T fid || T.nf ≤ fid)

mutual
def ckItem (T : Tables) (id : Ident) (d : Nat) : Item → CEnv → Option CEnv
  | .field fid, env => ckField T id env d fid
  | .group (.fixed _) body, env =>
    (ckItems T id (d + 1) body { env with outer := if d = 0 then none else env.outer }).map fun _ => env
  | .group (.attr fid nest) body, env =>
    if ckCounter T env d fid nest then
      (ckItems T id (d + 1) body
        { env with outer := if d = 0 then (if nest = 0 then some fid else none) else env.outer }).map fun _ => env
    else none
  | .opt fid _ body, env =>
    if env.scope.has fid 0 then (ckItems T id d body env).map fun _ => env else none
  | .malformed _, _ => none
def ckItems (T : Tables) (id : Ident) (d : Nat) : List Item → CEnv → Option CEnv
  | [], env => some env
  | it :: rest, env =>
    match ckItem T id d it env with
    | none => none
    | some env' => ckItems T id d rest env'
end

def ckDef (T : Tables) (id : Ident) (d : List Item) : Bool :=
  (ckItems T id 0 d ⟨[], false, none⟩).isSome

def FTree.keysBelow (n : Nat) : FTree → Bool
  | .leaf => true
  | .node l k _ r => k < n && l.keysBelow n && r.keysBelow n

/-- table hygiene the soundness proof relies on: data-field ids are below `nf` (so the derived
    ids `nf ..` are fresh), and the special fields exist and are pairwise different -/
def hygB (T : Tables) : Bool :=
  T.ftree.keysBelow T.nf &&
  (match T.special.df394, T.special.df395, T.special.df396, T.special.idf035, T.special.idf037, T.special.idf038 with
   | some a, some b, some c, some e, some g, some h =>
     a < T.nf && b < T.nf && c < T.nf && e < T.nf && g < T.nf && h < T.nf
     && a != b && a != c && a != h && b != c && b != h && c != h
   | _, _, _, _, _, _ => false)

end Rtcm
