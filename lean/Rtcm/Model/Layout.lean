import Rtcm.Model.Decode
/-
  Specification side of C03: *laying fields out in definition order*.
  `layItems` walks a payload definition exactly like the parser's recursive routine, but instead of
  cutting bits out of a payload it takes the raw field values one after the other from a list
  (`vals`) and records, per bit-carrying field occurrence, a cell `(width, raw bits)`.
  `pack` concatenates cells into a bit string.  The round-trip theorem (Lemmas/Layout.lean) says:
  parsing any payload that starts with `pack cells` yields exactly the attributes `layItems` assigned.
-/
namespace Rtcm

/-- one laid-out field occurrence: its width and its raw bits -/
abbrev Cell := Nat × Nat

/-- append a cell to a bit string -/
def Payload.push (p : Payload) (c : Cell) : Payload := ⟨p.val * 2 ^ c.1 + c.2, p.blen + c.1⟩

/-- the bit string obtained by writing the cells one after the other, most significant first -/
def pack (cells : List Cell) : Payload := cells.foldl Payload.push ⟨0, 0⟩

structure LState where
  s : DState
  vals : List Nat
  cells : List Cell
  deriving Repr, Inhabited

/-- the derived label types read no bits -/
def FType.isLabel (t : FType) : Bool := t == .prn || t == .cprn || t == .csig

/-- the value of a field when laying out: the next raw value (it must fit the width) for
    bit-carrying types; derived labels are looked up in the maps exactly as the parser does
    (`fieldValue` on the empty payload: a label reads no bits) -/
def layValue (f : FieldSpec) (w : Nat) (idx : List Nat) (ls : LState) : Except DecErr ((Val × Nat) × List Nat × List Cell) :=
  if f.ty.isLabel then
    match fieldValue ⟨0, 0⟩ f w idx ls.s with
    | .error e => .error e
    | .ok r => .ok (r, ls.vals, ls.cells)
  else if (f.ty = .int ∨ f.ty = .snt) ∧ w = 0 then .error .badType
  else match ls.vals with
    | [] => .error .short
    | v :: rest => if v < 2 ^ w then .ok ((interp f w v, v), rest, ls.cells ++ [(w, v)]) else .error .badType

/-- lay one field occurrence out -/
def layField (c : Ctx) (fid : Nat) (idx : List Nat) (ls : LState) : Except DecErr LState :=
  match c.T.field? fid with
  | none => .error .noField
  | some f =>
    match fieldWidth c.T f fid ls.s with
    | .error e => .error e
    | .ok w =>
      match layValue f w idx ls with
      | .error e => .error e
      | .ok ((v, bits), vals, cells) =>
        match fieldStore f fid idx ls.s.attrs v with
        | .error e => .error e
        | .ok attrs =>
          match fieldSpecial c.T c.id c.label f fid idx w bits { ls.s with off := ls.s.off + w, attrs := attrs } with
          | .error e => .error e
          | .ok s' => .ok ⟨s', vals, cells⟩

def layLoop (f : Nat → LState → Except DecErr LState) : Nat → Nat → LState → Except DecErr LState
  | 0, _, s => .ok s
  | k + 1, i, s =>
    match f i s with
    | .error e => .error e
    | .ok s' => layLoop f k (i + 1) s'

mutual
def layItem (c : Ctx) : Item → List Nat → LState → Except DecErr LState
  | .field fid, idx, ls => layField c fid idx ls
  | .group cnt body, idx, ls =>
    match countOf c cnt idx ls.s with
    | .error e => .error e
    | .ok n => layLoop (fun i s => layItems c body (idx ++ [i]) s) n 1 ls
  | .opt fid v body, idx, ls =>
    match ls.s.attrs.get? (fid, []) with
    | none => .error .noAttr
    | some a => if optMatches a v then layItems c body idx ls else .ok ls
  | .malformed _, _, _ => .error .malformed
def layItems (c : Ctx) : List Item → List Nat → LState → Except DecErr LState
  | [], _, ls => .ok ls
  | it :: rest, idx, ls =>
    match layItem c it idx ls with
    | .error e => .error e
    | .ok ls' => layItems c rest idx ls'
end

/-- lay a whole definition out from a list of raw field values -/
def layout (T : Tables) (id : Ident) (label : Nat) (d : List Item) (vals : List Nat) : Except DecErr LState :=
  layItems ⟨T, ⟨0, 0⟩, id, label⟩ d [] ⟨DState.init, vals, []⟩

/-- `k` bytes, big-endian -/
def natToBytes : Nat → Nat → Bytes
  | 0, _ => []
  | k + 1, v => natToBytes k (v / 256) ++ [UInt8.ofNat (v % 256)]

/-- the packed cells as payload bytes, zero-padded to a byte boundary -/
def packBytes (cells : List Cell) : Bytes :=
  let P := pack cells
  let k := (P.blen + 7) / 8
  natToBytes k (P.val * 2 ^ (8 * k - P.blen))

end Rtcm
