/-
  Basic vocabulary of the pyrtcm model: bytes, outcomes, table types.
  No Mathlib; everything here is executable and kernel-reducible.
-/
namespace Rtcm

abbrev Bytes := List UInt8

/-- pyrtcm's own exception classes. -/
inductive LibErr
  | parse | stream | message | type
  deriving DecidableEq, Repr, Inhabited

/-- Exceptions that are *not* pyrtcm's own (what C04 forbids). -/
inductive Foreign
  | index | key | attribute | value | typeErr | other
  deriving DecidableEq, Repr, Inhabited

inductive Outcome (α : Type)
  | ok (a : α)
  | lib (e : LibErr)
  | foreign (e : Foreign)
  deriving Repr

namespace Outcome
def isOk : Outcome α → Bool | ok _ => true | _ => false
def isForeign : Outcome α → Bool | foreign _ => true | _ => false
def isLib : Outcome α → Bool | lib _ => true | _ => false
def bind (x : Outcome α) (f : α → Outcome β) : Outcome β :=
  match x with
  | ok a => f a
  | lib e => lib e
  | foreign e => foreign e
instance : Monad Outcome where
  pure := Outcome.ok
  bind := Outcome.bind
end Outcome

/-- RTCM data-field types (`rtcmtypes_core`: BIT, BITX, CHA, STR, INT, UINT, SNT, PRN, CPR, CSG). -/
inductive FType
  | bit | bitx | cha | str | int | uint | snt | prn | cprn | csig | other
  deriving DecidableEq, Repr, Inhabited

/-- Resolution of a data field: `none` when the table says 0 or 1 (no scaling),
    an exact integer, or a Python float given as its exact ratio. -/
inductive Res
  | none
  | int (n : Int)
  | flt (num : Int) (den : Nat)
  deriving DecidableEq, Repr, Inhabited

abbrev Label := List Nat      -- a Python `str` as code points

structure FieldSpec where
  name : Label
  ty : FType
  width : Nat
  res : Res
  deriving Repr, Inhabited, DecidableEq

/-- balanced search tree over field ids: the kernel looks a field up in ~10 steps instead of
    walking a 500-element list (generated next to `fields`; `ftree_agrees` ties the two) -/
inductive FTree
  | leaf
  | node (l : FTree) (k : Nat) (v : FieldSpec) (r : FTree)
  deriving Repr, Inhabited

def FTree.get? : FTree → Nat → Option FieldSpec
  | .leaf, _ => none
  | .node l k v r, i => if i < k then l.get? i else if k < i then r.get? i else some v

/-- Repeat count of a group: literal, or the value of an attribute (`nest` leading group
    indices are appended to the attribute name, the `"+n"` convention). -/
inductive Count
  | fixed (n : Nat)
  | attr (fid : Nat) (nest : Nat)
  deriving DecidableEq, Repr, Inhabited

/-- One entry of a payload definition, fields referred to by numeric id. -/
inductive Item
  | field (fid : Nat)
  | group (c : Count) (body : List Item)
  | opt (fid : Nat) (val : Int) (body : List Item)
  | malformed (code : Nat)
  deriving Repr, Inhabited

/-- Message identity: 12-bit number and, for 4076, the 8-bit sub-type. -/
structure Ident where
  num : Nat
  sub : Option Nat
  deriving DecidableEq, Repr, Inhabited

/-- field ids of the names the decoder special-cases -/
structure Specials where
  df002 : Option Nat
  df003 : Option Nat
  df394 : Option Nat
  df395 : Option Nat
  df396 : Option Nat
  idf035 : Option Nat
  idf036 : Option Nat
  idf037 : Option Nat
  idf038 : Option Nat
  deriving Repr, Inhabited

/-- Everything the translator extracts from pyrtcm's table modules. -/
structure Tables where
  fields : List FieldSpec
  /-- number of data fields (a literal, so that the kernel need not count); `nf = fields.length` is checked -/
  nf : Nat
  /-- the same table as a search tree keyed by field id -/
  ftree : FTree
  /-- derived attribute names; `fields.size + i` is the id of `derived[i]`:
      NSat, NSig, NCell, _NHarmCoeffC, _NHarmCoeffS (in this order) -/
  derived : List Label
  special : Specials
  std : List (Ident × List Item)
  msm : List (Ident × List Item)
  igs : List (Ident × List Item)
  /-- number of table keys that are not the canonical rendering of an identity (unreachable definitions) -/
  badKeys : Nat
  /-- number of RTCM_DATA_FIELDS entries the translator could not represent -/
  badFields : Nat
  /-- RTCM_MSGIDS: identity, description contains "MSM" -/
  msgids : List (Ident × Bool)
  /-- PRNSIGMAP: 3-digit key, prn map, signal map (band label, RINEX code) -/
  prnsig : List (Nat × List (Nat × Label) × List (Nat × Label × Label))
  /-- GNSSMAP: 3-digit key, constellation name, epoch field id -/
  gnssmap : List (Nat × Label × Nat)
  /-- COEFFS: field ids of cosine / sine coefficient fields -/
  coeffs : List Nat
  na : Label
  nmeaHdr : List (Nat × Nat)
  ubxHdr : Nat × Nat
  rtcmHdr : Nat
  valcksum : Nat
  errRaise : Nat
  errLog : Nat
  encChunked : Nat
  encGzip : Nat
  encCompress : Nat
  encDeflate : Nat

namespace Tables
/-- `RTCM_DATA_FIELDS[name of fid]` -/
def field? (T : Tables) (fid : Nat) : Option FieldSpec := T.ftree.get? fid
def nFields (T : Tables) : Nat := T.nf
def fidNSat (T : Tables) : Nat := T.nf
def fidNSig (T : Tables) : Nat := T.nf + 1
def fidNCell (T : Tables) : Nat := T.nf + 2
def fidNHarmC (T : Tables) : Nat := T.nf + 3
def fidNHarmS (T : Tables) : Nat := T.nf + 4
def fieldName (T : Tables) (fid : Nat) : Label :=
  match T.field? fid with
  | some f => f.name
  | none => (T.derived[fid - T.nf]?).getD [63]
end Tables

end Rtcm
