import Rtcm.Model.Crc
import Rtcm.Model.Decode
/-
  `RTCMMessage`: identity, table dispatch, constructor, serialize, ismsm, immutability;
  `RTCMReader.parse`.
-/
namespace Rtcm

/-- decimal digits of `n` as character codes (`str(n)`), most significant first -/
def digitsAux : Nat → Nat → List Nat → List Nat
  | 0, _, acc => acc
  | fuel + 1, n, acc =>
    if n < 10 then (48 + n) :: acc else digitsAux fuel (n / 10) ((48 + n % 10) :: acc)

def strNat (n : Nat) : Label := digitsAux (n + 1) n []

/-- `f"{n:03d}"` -/
def pad3 (n : Nat) : Label :=
  let d := strNat n
  List.replicate (3 - d.length) 48 ++ d

/-- `f"{n:02d}"` -/
def pad2 (n : Nat) : Label :=
  let d := strNat n
  List.replicate (2 - d.length) 48 ++ d

/-- the identity string: `"1005"`, `"4076_021"` -/
def Ident.str (id : Ident) : Label :=
  match id.sub with
  | none => strNat id.num
  | some s => strNat id.num ++ [95] ++ pad3 s

/-- the `identity` property; `IndexError` when the payload is too short -/
def identity (p : Bytes) : Outcome Ident :=
  match p with
  | b0 :: b1 :: rest =>
    let mid := b0.toNat * 16 + b1.toNat / 16
    if mid = 4076 then
      match rest with
      | b2 :: _ => .ok ⟨mid, some ((b1.toNat % 2) * 128 + b2.toNat / 2)⟩
      | [] => .foreign .index
    else .ok ⟨mid, none⟩
  | _ => .foreign .index

/-- Python `str <= str` by code points -/
def lexLe : List Nat → List Nat → Bool
  | [], _ => true
  | _ :: _, [] => false
  | a :: as, b :: bs => if a < b then true else if b < a then false else lexLe as bs

def lookupDef (tbl : List (Ident × List Item)) (id : Ident) : Option (List Item) :=
  match tbl with
  | [] => none
  | (k, d) :: rest => if k = id then some d else lookupDef rest id

/-- `_get_dict`: string-range test for the MSM block, prefix test for 4076 -/
def getDict (T : Tables) (id : Ident) : Option (List Item) :=
  let s := id.str
  if lexLe [49, 48, 55, 48] s && lexLe s [49, 50, 50, 57] then lookupDef T.msm id
  else if s.take 4 = [52, 48, 55, 54] then lookupDef T.igs id
  else lookupDef T.std id

structure Msg where
  payload : Bytes
  label : Nat
  id : Ident
  unknown : Bool
  attrs : Attrs
  immutable : Bool
  deriving Repr

/-- `"MSM" in RTCM_MSGIDS[identity]`, `KeyError → False` -/
def ismsmId (T : Tables) (id : Ident) : Bool :=
  match T.msgids.find? (fun e => e.1 = id) with
  | some (_, b) => b
  | none => false

def Msg.ismsm (T : Tables) (m : Msg) : Bool := ismsmId T m.id

/-- `RTCMMessage(payload=…, labelmsm=…)`.  `none` is Python `None`. -/
def construct (T : Tables) (payload : Option Bytes) (label : Nat) : Outcome Msg :=
  match payload with
  | none => .lib .message
  | some p =>
    match identity p with
    | .foreign _ => .lib .message          -- guard in __init__ (fix F3)
    | .lib e => .lib e
    | .ok id =>
      match getDict T id with
      | none =>
        -- _do_unknown: DF002 = identity string
        let k : AttrKey := ((T.special.df002).getD 0, [])
        .ok ⟨p, label, id, true, [(k, .text id.str)], true⟩
      | some d =>
        match decItems ⟨T, Payload.ofBytes p, id, label⟩ d [] DState.init with
        | .error _ => .lib .type
        | .ok s => .ok ⟨p, label, id, false, s.attrs, true⟩

def frameOf (T : Tables) (payload : Bytes) : Outcome Bytes :=
  match len2bytes payload with
  | .ok sz =>
    let m := UInt8.ofNat T.rtcmHdr :: sz ++ payload
    .ok (m ++ crc2bytes m)
  | .lib e => .lib e
  | .foreign e => .foreign e

def Msg.serialize (T : Tables) (m : Msg) : Outcome Bytes := frameOf T m.payload

/-- `__setattr__` after construction: always the library's message error, state unchanged -/
def Msg.setattr (m : Msg) (_name : Label) (_v : Val) : Msg × Outcome Unit :=
  if m.immutable then (m, .lib .message) else (m, .ok ())

/-- `RTCMReader.parse(message, validate, labelmsm)` -/
def parse (T : Tables) (msg : Bytes) (validate : Nat) (label : Nat) : Outcome Msg :=
  if validate &&& T.valcksum ≠ 0 ∧ calcCrc24q msg ≠ 0 then .lib .parse
  else
    -- message[3:-3]
    let payload := (msg.drop 3).take (msg.length - 3 - 3)
    construct T (some payload) label

end Rtcm
