import Rtcm.Lemmas.Label
import Rtcm.Lemmas.Bits
import Rtcm.Lemmas.Decode
/-
  Frame rule for the decoder: decoding an item changes only attributes of the fields the item
  names and of the derived counters; everything else is untouched.
-/
namespace Rtcm

theorem Attrs.get?_set_ne (a : Attrs) (k k' : AttrKey) (v : Val) (h : k' ≠ k) : (a.set k' v).get? k = a.get? k := by
  induction a with
  | nil => simp [Attrs.set, Attrs.get?, h]
  | cons kv rest ih =>
    obtain ⟨k0, v0⟩ := kv
    simp only [Attrs.set]
    by_cases h0 : k0 = k'
    · simp only [h0, if_true, Attrs.get?, h, if_false]
    · simp only [h0, if_false, Attrs.get?]
      by_cases h1 : k0 = k
      · simp [h1]
      · simp only [h1, if_false]; exact ih

/-- `k` is the key of neither field `fid` nor a derived counter -/
def Foreign' (T : Tables) (fid : Nat) (k : AttrKey) : Prop := k.1 ≠ fid ∧ k.1 < T.nf

theorem fieldStore_frame (f : FieldSpec) (fid : Nat) (idx : List Nat) (a a' : Attrs) (v : Val) (k : AttrKey)
    (hk : k.1 ≠ fid) (h : fieldStore f fid idx a v = .ok a') : a'.get? k = a.get? k := by
  unfold fieldStore at h
  have hne : ∀ i, (fid, i) ≠ k := fun i he => hk (by rw [← he])
  repeat' split at h
  all_goals first
    | (simp at h; done)
    | (injection h with h; rw [← h]; exact Attrs.get?_set_ne _ _ _ _ (hne _))

theorem msmSpecial_frame (T : Tables) (id : Ident) (label : Nat) (f : FieldSpec) (fid w bits : Nat) (s s' : DState)
    (k : AttrKey) (hk : k.1 < T.nf) (h : msmSpecial T id label f fid w bits s = .ok s') :
    s'.attrs.get? k = s.attrs.get? k := by
  unfold msmSpecial at h
  have h0 : (T.fidNSat, ([] : List Nat)) ≠ k := fun he => by rw [← he] at hk; simp [Tables.fidNSat] at hk
  have h1 : (T.fidNSig, ([] : List Nat)) ≠ k := fun he => by rw [← he] at hk; simp only [Tables.fidNSig] at hk; omega
  have h2 : (T.fidNCell, ([] : List Nat)) ≠ k := fun he => by rw [← he] at hk; simp only [Tables.fidNCell] at hk; omega
  repeat' split at h
  all_goals first
    | (simp at h; done)
    | (injection h with h; rw [← h]; try first
        | exact Attrs.get?_set_ne _ _ _ _ h0
        | exact Attrs.get?_set_ne _ _ _ _ h1
        | exact Attrs.get?_set_ne _ _ _ _ h2)

theorem harmSpecial_frame (T : Tables) (fid : Nat) (idx : List Nat) (s s' : DState)
    (k : AttrKey) (hk : k.1 < T.nf) (h : harmSpecial T fid idx s = .ok s') :
    s'.attrs.get? k = s.attrs.get? k := by
  unfold harmSpecial at h
  have h3 : (T.fidNHarmC, ([] : List Nat)) ≠ k := fun he => by rw [← he] at hk; simp only [Tables.fidNHarmC] at hk; omega
  have h4 : (T.fidNHarmS, ([] : List Nat)) ≠ k := fun he => by rw [← he] at hk; simp only [Tables.fidNHarmS] at hk; omega
  repeat' split at h
  all_goals first
    | (simp at h; done)
    | (injection h with h; rw [← h]
       try exact (Attrs.get?_set_ne _ _ _ _ h4).trans (Attrs.get?_set_ne _ _ _ _ h3))

/-- one field leaves every attribute of *other* data fields untouched -/
theorem decField_frame (c : Ctx) (fid : Nat) (idx : List Nat) (s s' : DState) (k : AttrKey)
    (hk : k.1 ≠ fid) (hn : k.1 < c.T.nf) (h : decField c fid idx s = .ok s') :
    s'.attrs.get? k = s.attrs.get? k := by
  unfold decField at h
  split at h
  · simp at h
  · rename_i f hf
    split at h
    · simp at h
    · rename_i w hw
      split at h
      · simp at h
      · rename_i v bits hv
        split at h
        · simp at h
        · rename_i attrs hst
          unfold fieldSpecial at h
          split at h
          · simp at h
          · rename_i s2 hs2
            rw [harmSpecial_frame c.T fid idx s2 s' k hn h, msmSpecial_frame c.T c.id c.label f fid w bits _ s2 k hn hs2]
            exact fieldStore_frame f fid idx s.attrs attrs v k hk hst

theorem repLoop_frame (f : Nat → DState → Except DecErr DState) (k : AttrKey)
    (hf : ∀ i s r, f i s = .ok r → r.attrs.get? k = s.attrs.get? k) (n i : Nat) (s r : DState)
    (h : repLoop f n i s = .ok r) : r.attrs.get? k = s.attrs.get? k := by
  induction n generalizing i s with
  | zero => simp [repLoop] at h; rw [h]
  | succ n ih =>
    simp only [repLoop] at h
    cases hfi : f i s with
    | error e => simp [hfi] at h
    | ok s1 =>
      simp only [hfi] at h
      rw [ih _ _ h, hf i s s1 hfi]

mutual
theorem decItem_frame (c : Ctx) (k : AttrKey) (hn : k.1 < c.T.nf) :
    ∀ (it : Item), k.1 ∉ fidsItem' it → ∀ (idx : List Nat) (s r : DState), decItem c it idx s = .ok r →
      r.attrs.get? k = s.attrs.get? k
  | .field fid, hk, idx, s, r, h => by
    simp only [decItem] at h
    exact decField_frame c fid idx s r k (by simpa [fidsItem'] using hk) hn h
  | .group cnt body, hk, idx, s, r, h => by
    simp only [decItem] at h
    cases hc : countOf c cnt idx s with
    | error e => simp [hc] at h
    | ok n =>
      simp only [hc] at h
      exact repLoop_frame _ k (fun i s r hr => decItems_frame c k hn body (by simpa [fidsItem'] using hk) (idx ++ [i]) s r hr) n 1 s r h
  | .opt fid v body, hk, idx, s, r, h => by
    simp only [decItem] at h
    cases hg : s.attrs.get? (fid, []) with
    | none => simp [hg] at h
    | some a =>
      simp only [hg] at h
      by_cases he : optMatches a v = true
      · rw [if_pos he] at h
        exact decItems_frame c k hn body (by simpa [fidsItem'] using hk) idx s r h
      · rw [if_neg he] at h
        injection h with h; rw [h]
  | .malformed _, hk, idx, s, r, h => by simp [decItem] at h
theorem decItems_frame (c : Ctx) (k : AttrKey) (hn : k.1 < c.T.nf) :
    ∀ (l : List Item), k.1 ∉ fidsItems' l → ∀ (idx : List Nat) (s r : DState), decItems c l idx s = .ok r →
      r.attrs.get? k = s.attrs.get? k
  | [], hk, idx, s, r, h => by simp [decItems] at h; rw [h]
  | it :: rest, hk, idx, s, r, h => by
    simp only [decItems] at h
    cases hi : decItem c it idx s with
    | error e => simp [hi] at h
    | ok s1 =>
      simp only [hi] at h
      have hk1 : k.1 ∉ fidsItem' it := fun hx => hk (by simp [fidsItems', hx])
      have hk2 : k.1 ∉ fidsItems' rest := fun hx => hk (by simp [fidsItems', hx])
      rw [decItems_frame c k hn rest hk2 idx s1 r h, decItem_frame c k hn it hk1 idx s s1 hi]
end

end Rtcm

namespace Rtcm

/-- a plain unsigned, unscaled field that is none of the special ones: one attribute, offset advanced -/
theorem decField_plain_uint (c : Ctx) (fid : Nat) (idx : List Nat) (s : DState) (f : FieldSpec) (bits : Nat)
    (hf : c.T.field? fid = some f) (hty : f.ty = .uint) (hres : f.res = .none)
    (h394 : some fid ≠ c.T.special.df394) (h395 : some fid ≠ c.T.special.df395)
    (h396 : some fid ≠ c.T.special.df396) (h038 : some fid ≠ c.T.special.idf038)
    (hx : extract c.p s.off f.width = some bits) :
    decField c fid idx s = .ok { s with off := s.off + f.width, attrs := s.attrs.set (fid, idx) (.int bits) } := by
  unfold decField
  simp only [hf, fieldWidth, if_neg h396]
  have hv : fieldValue c.p f f.width idx s = .ok (.int bits, bits) := by
    unfold fieldValue
    simp [hty, hx, interp, hres]
  simp only [hv]
  have hst : fieldStore f fid idx s.attrs (.int bits) = .ok (s.attrs.set (fid, idx) (.int bits)) := by
    unfold fieldStore; simp [hty]
  simp only [hst]
  unfold fieldSpecial msmSpecial harmSpecial
  simp [if_neg h394, if_neg h395, if_neg h396, if_neg h038]

/-- the first twelve payload bits are the message number of the identity -/
theorem extract_number (b0 b1 : UInt8) (rest : Bytes) :
    extract (Payload.ofBytes (b0 :: b1 :: rest)) 0 12 = some (b0.toNat * 16 + b1.toNat / 16) := by
  have hp := ofBytes_prefix [b0, b1] rest
  have h2 : extract (Payload.ofBytes [b0, b1]) 0 12 = some (b0.toNat * 16 + b1.toNat / 16) := by
    have h0 := UInt8.toNat_lt b0
    have h1 := UInt8.toNat_lt b1
    simp only [extract, Payload.ofBytes, bytesToNat, List.foldl_cons, List.foldl_nil, List.length_cons,
      List.length_nil]
    simp only [Nat.zero_mul, Nat.zero_add, Nat.shiftRight_eq_div_pow]
    rw [if_pos (by omega)]
    congr 1
    omega
  exact extract_mono _ _ hp 0 12 _ h2

theorem lookupDef_mem (tbl : List (Ident × List Item)) (id : Ident) (d : List Item)
    (h : lookupDef tbl id = some d) : (id, d) ∈ tbl := by
  induction tbl with
  | nil => simp [lookupDef] at h
  | cons e rest ih =>
    obtain ⟨k, dd⟩ := e
    simp only [lookupDef] at h
    by_cases hk : k = id
    · simp only [hk, if_true] at h
      injection h with h
      simp [hk, h]
    · simp only [hk, if_false] at h
      simp [ih h]

theorem getDict_mem (T : Tables) (id : Ident) (d : List Item) (h : getDict T id = some d) :
    (id, d) ∈ T.std ++ T.msm ++ T.igs := by
  unfold getDict at h
  simp only at h
  split at h
  · have := lookupDef_mem _ _ _ h; simp [this]
  · split at h
    · have := lookupDef_mem _ _ _ h; simp [this]
    · have := lookupDef_mem _ _ _ h; simp [this]

/-- what the tables must satisfy for "decoded DF002 = identity": DF002 is a plain 12-bit unsigned
    field, none of the special ones, and every definition starts with it and never names it again -/
structure DF002OK (T : Tables) (fid : Nat) (f : FieldSpec) : Prop where
  special : T.special.df002 = some fid
  field : T.field? fid = some f
  ty : f.ty = .uint
  width : f.width = 12
  res : f.res = .none
  lt : fid < T.nf
  n394 : some fid ≠ T.special.df394
  n395 : some fid ≠ T.special.df395
  n396 : some fid ≠ T.special.df396
  n038 : some fid ≠ T.special.idf038
  first : ∀ e ∈ T.std ++ T.msm ++ T.igs, ∃ rest, e.2 = .field fid :: rest ∧ fid ∉ fidsItems' rest

theorem identity_number (p : Bytes) (id : Ident) (hid : identity p = .ok id) :
    ∃ b0 b1 tl, p = b0 :: b1 :: tl ∧ id.num = b0.toNat * 16 + b1.toNat / 16 := by
  cases p with
  | nil => simp [identity] at hid
  | cons b0 t =>
    cases t with
    | nil => simp [identity] at hid
    | cons b1 tl =>
      refine ⟨b0, b1, tl, rfl, ?_⟩
      simp only [identity] at hid
      by_cases hm : b0.toNat * 16 + b1.toNat / 16 = 4076
      · rw [if_pos hm] at hid
        cases tl with
        | nil => simp at hid
        | cons b2 r => simp at hid; rw [← hid]
      · rw [if_neg hm] at hid
        injection hid with hid
        rw [← hid]

/-- **for every implemented type the decoded message-number field equals the identity's number** -/
theorem df002_is_identity (T : Tables) (fid : Nat) (f : FieldSpec) (hT : DF002OK T fid f)
    (p : Bytes) (l : Nat) (m : Msg) (hc : construct T (some p) l = .ok m) (hk : m.unknown = false) :
    m.attrs.get? (fid, []) = some (.int m.id.num) := by
  unfold construct at hc
  simp only at hc
  cases hid : identity p with
  | foreign e => simp [hid] at hc
  | lib e => simp [hid] at hc
  | ok id =>
    simp only [hid] at hc
    cases hd : getDict T id with
    | none => simp [hd] at hc; rw [← hc] at hk; simp at hk
    | some d =>
      simp only [hd] at hc
      cases hdec : decItems ⟨T, Payload.ofBytes p, id, l⟩ d [] DState.init with
      | error e => simp [hdec] at hc
      | ok s =>
        simp only [hdec] at hc
        injection hc with hc
        rw [← hc]
        simp only
        obtain ⟨rest, hdr, hnot⟩ := hT.first (id, d) (getDict_mem T id d hd)
        simp only at hdr
        subst hdr
        -- the number carried by the payload
        have hnum : ∃ b0 b1 tl, p = b0 :: b1 :: tl ∧ id.num = b0.toNat * 16 + b1.toNat / 16 :=
          identity_number p id hid
        obtain ⟨b0, b1, tl, rfl, hn⟩ := hnum
        simp only [decItems, decItem] at hdec
        have hx : extract (Payload.ofBytes (b0 :: b1 :: tl)) DState.init.off f.width = some id.num := by
          rw [hT.width, hn]; exact extract_number b0 b1 tl
        have h1 := decField_plain_uint ⟨T, Payload.ofBytes (b0 :: b1 :: tl), id, l⟩ fid [] DState.init f id.num
          hT.field hT.ty hT.res hT.n394 hT.n395 hT.n396 hT.n038 hx
        rw [h1] at hdec
        simp only at hdec
        have hfr := decItems_frame ⟨T, Payload.ofBytes (b0 :: b1 :: tl), id, l⟩ (fid, []) hT.lt rest hnot [] _ s hdec
        rw [hfr]
        simp [DState.init, Attrs.set, Attrs.get?]

end Rtcm
