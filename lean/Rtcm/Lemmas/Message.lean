import Rtcm.Model.Message
namespace Rtcm

theorem construct_payload (T : Tables) (p : Bytes) (l : Nat) (m : Msg) (h : construct T (some p) l = .ok m) :
    m.payload = p := by
  unfold construct at h
  simp only at h
  split at h
  · simp at h
  · simp at h
  · split at h
    · injection h with h; rw [← h]
    · split at h
      · simp at h
      · injection h with h; rw [← h]

/-- the identity of a constructed message is the number carried by its payload -/
theorem construct_id (T : Tables) (p : Bytes) (l : Nat) (m : Msg) (h : construct T (some p) l = .ok m) :
    identity p = .ok m.id := by
  unfold construct at h
  simp only at h
  split at h
  · simp at h
  · simp at h
  · rename_i id hid
    rw [hid]
    split at h
    · injection h with h; rw [← h]
    · split at h
      · simp at h
      · injection h with h; rw [← h]

/-- what a successful `parse` says about the frame -/
theorem parse_ok (T : Tables) (raw : Bytes) (v l : Nat) (m : Msg) (h : parse T raw v l = .ok m) :
    (v &&& T.valcksum ≠ 0 → calcCrc24q raw = 0)
    ∧ m.payload = (raw.drop 3).take (raw.length - 3 - 3)
    ∧ identity ((raw.drop 3).take (raw.length - 3 - 3)) = .ok m.id := by
  unfold parse at h
  split at h
  · simp at h
  · rename_i hc
    refine ⟨fun hv => ?_, construct_payload T _ l m h, construct_id T _ l m h⟩
    by_cases h0 : calcCrc24q raw = 0
    · exact h0
    · exact absurd ⟨hv, h0⟩ hc

end Rtcm
