import Rtcm.Model.Socket
/-
  `SocketWrapper` without transfer encoding: conservation of the byte stream, exact read lengths,
  independence of segmentation.
-/
namespace Rtcm

/-- the bytes the peer will still deliver (nothing after it has closed) -/
def pendingData : List Recv → Bytes
  | [] => []
  | .closed :: _ => []
  | .data bs :: rest => bs ++ pendingData rest
  | .timeout :: rest => pendingData rest
  | .oserror :: rest => pendingData rest

/-- what is still to come to the application: buffered plus pending -/
def Sock.remaining (s : Sock) : Bytes := s.buffer ++ pendingData s.sched

theorem peerRecv_pending (sched : List Recv) (bufsize : Nat) :
    (match (peerRecv sched bufsize).1 with | some d => d | none => []) ++ pendingData (peerRecv sched bufsize).2
      = pendingData sched := by
  cases sched with
  | nil => simp [peerRecv, pendingData]
  | cons r rest =>
    cases r with
    | closed => simp [peerRecv, pendingData]
    | timeout => simp [peerRecv, pendingData]
    | oserror => simp [peerRecv, pendingData]
    | data bs =>
      simp only [peerRecv]
      by_cases h : bs.length ≤ bufsize
      · simp [h, pendingData]
      · simp [h, pendingData, ← List.append_assoc]

theorem peerRecv_measure (sched : List Recv) (bufsize : Nat) (d : Bytes)
    (h : (peerRecv sched bufsize).1 = some d) (hd : d ≠ []) :
    schedMeasure (peerRecv sched bufsize).2 < schedMeasure sched := by
  cases sched with
  | nil => simp [peerRecv] at h; exact absurd h hd
  | cons r rest =>
    cases r with
    | closed => simp [peerRecv] at h; exact absurd h hd
    | timeout => simp [peerRecv] at h
    | oserror => simp [peerRecv] at h
    | data bs =>
      simp only [peerRecv] at h ⊢
      by_cases hle : bs.length ≤ bufsize
      · simp only [hle, if_true] at h ⊢
        simp [schedMeasure]
      · simp only [hle, if_false] at h ⊢
        simp only [schedMeasure, List.length_drop]
        have hpos : 0 < d.length := List.length_pos_iff.mpr hd
        simp at h
        rw [← h, List.length_take] at hpos
        omega

theorem recv_eq (dec : Bytes → Bytes) (s : Sock) (hc : s.chunked = false) :
    Sock.recv dec s =
      match (peerRecv s.sched s.bufsize).1 with
      | none => (false, { s with sched := (peerRecv s.sched s.bufsize).2 })
      | some d =>
        if d = [] then (false, { s with sched := (peerRecv s.sched s.bufsize).2 })
        else (true, { s with sched := (peerRecv s.sched s.bufsize).2, buffer := s.buffer ++ d }) := by
  unfold Sock.recv
  cases hp : peerRecv s.sched s.bufsize with
  | mk r sched' =>
    cases r with
    | none => rfl
    | some d =>
      simp only
      by_cases hd : d = []
      · subst hd; simp
      · have : d.length ≠ 0 := fun h => hd (List.eq_nil_of_length_eq_zero h)
        simp [hd, this, hc]

/-- a receive (successful or not) neither loses nor invents bytes; a successful one shrinks the
    schedule measure, so the loop guard in `fill` never fires -/
structure RecvOK (s s' : Sock) (ok : Bool) : Prop where
  remaining : s'.remaining = s.remaining
  chunked : s'.chunked = false
  bufsize : s'.bufsize = s.bufsize
  measure : ok = true → schedMeasure s'.sched < schedMeasure s.sched
  kept : ok = false → s'.buffer = s.buffer
  grows : s.buffer <+: s'.buffer

theorem recv_spec (dec : Bytes → Bytes) (s : Sock) (hc : s.chunked = false) :
    RecvOK s (Sock.recv dec s).2 (Sock.recv dec s).1 := by
  have hp := peerRecv_pending s.sched s.bufsize
  rw [recv_eq dec s hc]
  cases hr : (peerRecv s.sched s.bufsize).1 with
  | none =>
    rw [hr] at hp
    exact ⟨by simpa [Sock.remaining] using congrArg (s.buffer ++ ·) hp, hc, rfl, by simp, by simp, List.prefix_refl _⟩
  | some d =>
    rw [hr] at hp
    by_cases hd : d = []
    · subst hd
      simp only [if_true]
      exact ⟨by simpa [Sock.remaining] using congrArg (s.buffer ++ ·) hp, hc, rfl, by simp, by simp, List.prefix_refl _⟩
    · simp only [hd, if_false]
      refine ⟨?_, hc, rfl, fun _ => peerRecv_measure s.sched s.bufsize d hr hd, by simp, List.prefix_append _ _⟩
      simp only [Sock.remaining, List.append_assoc]
      exact congrArg (s.buffer ++ ·) hp

structure FillOK (num : Nat) (s s' : Sock) (ok : Bool) : Prop where
  remaining : s'.remaining = s.remaining
  chunked : s'.chunked = false
  bufsize : s'.bufsize = s.bufsize
  enough : ok = true → num ≤ s'.buffer.length
  short : ok = false → s'.buffer.length < num
  grows : s.buffer <+: s'.buffer

/-- the refill loop: bytes are conserved; on success enough is buffered; on failure a receive
    failed (peer closed, timeout, OS error) and the buffer kept everything it had -/
theorem fill_spec (dec : Bytes → Bytes) (num : Nat) (s : Sock) (hc : s.chunked = false) :
    FillOK num s (Sock.fill dec num s).2 (Sock.fill dec num s).1 := by
  fun_induction Sock.fill dec num s with
  | case1 s hlt s' hr =>
    have h := recv_spec dec s hc
    rw [hr] at h
    exact ⟨h.remaining, h.chunked, h.bufsize, by simp, fun _ => by rw [h.kept rfl]; exact hlt, h.grows⟩
  | case2 s hlt s' hr hm ih =>
    have h := recv_spec dec s hc
    rw [hr] at h
    have ih' := ih h.chunked
    exact ⟨ih'.remaining.trans h.remaining, ih'.chunked, ih'.bufsize.trans h.bufsize, ih'.enough, ih'.short,
      List.IsPrefix.trans h.grows ih'.grows⟩
  | case3 s hlt s' hr hm =>
    exfalso
    have h := recv_spec dec s hc
    rw [hr] at h
    exact hm (h.measure rfl)
  | case4 s hge =>
    exact ⟨rfl, hc, rfl, fun _ => by simp only; omega, by simp, List.prefix_refl _⟩

/-- **read(n)**: returns exactly `n` bytes — the next `n` bytes of the peer's stream — or nothing;
    nothing only after a receive failed, and then every buffered byte is kept -/
theorem read_spec (dec : Bytes → Bytes) (s : Sock) (n : Nat) (hc : s.chunked = false) :
    (Sock.read dec s n).1 ++ (Sock.read dec s n).2.remaining = s.remaining
    ∧ ((Sock.read dec s n).1.length = n
        ∨ ((Sock.read dec s n).1 = [] ∧ (Sock.read dec s n).2.buffer.length < n ∧ s.buffer <+: (Sock.read dec s n).2.buffer))
    ∧ (Sock.read dec s n).2.chunked = false ∧ (Sock.read dec s n).2.bufsize = s.bufsize := by
  have h := fill_spec dec n s hc
  unfold Sock.read
  cases hf : Sock.fill dec n s with
  | mk ok s' =>
    rw [hf] at h
    cases ok with
    | false =>
      exact ⟨by simpa using h.remaining, Or.inr ⟨rfl, h.short rfl, h.grows⟩, h.chunked, h.bufsize⟩
    | true =>
      have hlen := h.enough rfl
      simp only at hlen
      refine ⟨?_, Or.inl (by simp [List.length_take]; omega), h.chunked, h.bufsize⟩
      rw [← h.remaining]
      simp [Sock.remaining, ← List.append_assoc]

end Rtcm

namespace Rtcm

/-- a peer that only ever delivers non-empty data segments and finally closes -/
def FaultFree (sched : List Recv) : Prop := ∀ r ∈ sched, ∃ bs, r = .data bs ∧ bs ≠ []

structure SockOK (s : Sock) : Prop where
  chunked : s.chunked = false
  bufsize : 0 < s.bufsize
  ff : FaultFree s.sched

theorem recv_faultfree (dec : Bytes → Bytes) (s : Sock) (h : SockOK s) :
    SockOK (Sock.recv dec s).2 ∧ ((Sock.recv dec s).1 = false → (Sock.recv dec s).2.sched = [] ∧ s.sched = []) := by
  rw [recv_eq dec s h.chunked]
  cases hs : s.sched with
  | nil =>
    simp only [peerRecv, if_true]
    exact ⟨⟨h.chunked, h.bufsize, by intro r hr; simp at hr⟩, fun _ => by constructor <;> simp⟩
  | cons r rest =>
    have hff := h.ff
    rw [hs] at hff
    obtain ⟨bs, hr, hne⟩ := hff r (by simp)
    subst hr
    have hrest : FaultFree rest := fun x hx => hff x (by simp [hx])
    simp only [peerRecv]
    by_cases hle : bs.length ≤ s.bufsize
    · simp only [hle, if_true, hne, if_false]
      exact ⟨⟨h.chunked, h.bufsize, hrest⟩, by simp⟩
    · have htake : List.take s.bufsize bs ≠ [] := by
        intro ht
        rcases List.take_eq_nil_iff.mp ht with h0 | h0
        · have h2 := h.bufsize; omega
        · exact hne h0
      simp only [hle, if_false, htake]
      refine ⟨⟨h.chunked, h.bufsize, ?_⟩, by simp⟩
      intro x hx
      simp at hx
      rcases hx with hx | hx
      · refine ⟨_, hx, ?_⟩
        intro hd
        have := congrArg List.length hd
        simp [List.length_drop] at this
        omega
      · exact hrest x hx

theorem fill_faultfree (dec : Bytes → Bytes) (num : Nat) (s : Sock) (h : SockOK s) :
    SockOK (Sock.fill dec num s).2 ∧ ((Sock.fill dec num s).1 = false → (Sock.fill dec num s).2.sched = []) := by
  fun_induction Sock.fill dec num s with
  | case1 s hlt s' hr =>
    have := recv_faultfree dec s h
    rw [hr] at this
    exact ⟨this.1, fun _ => (this.2 rfl).1⟩
  | case2 s hlt s' hr hm ih =>
    have := recv_faultfree dec s h
    rw [hr] at this
    exact ih this.1
  | case3 s hlt s' hr hm =>
    exfalso
    have hsp := recv_spec dec s h.chunked
    rw [hr] at hsp
    exact hm (hsp.measure rfl)
  | case4 s hge => exact ⟨h, by simp⟩

theorem pendingData_nil : pendingData [] = [] := rfl

/-- on a fault-free connection `read(n)` depends only on the bytes still to come: it returns the
    next `n` of them if there are that many, and nothing (keeping them all) otherwise -/
theorem read_faultfree (dec : Bytes → Bytes) (s : Sock) (n : Nat) (h : SockOK s) :
    SockOK (Sock.read dec s n).2
    ∧ (n ≤ s.remaining.length →
        (Sock.read dec s n).1 = s.remaining.take n ∧ (Sock.read dec s n).2.remaining = s.remaining.drop n)
    ∧ (s.remaining.length < n →
        (Sock.read dec s n).1 = [] ∧ (Sock.read dec s n).2.remaining = s.remaining) := by
  have hf := fill_spec dec n s h.chunked
  have hff := fill_faultfree dec n s h
  unfold Sock.read
  cases hfill : Sock.fill dec n s with
  | mk ok s' =>
    rw [hfill] at hf hff
    cases ok with
    | false =>
      have hs : s'.sched = [] := hff.2 rfl
      have hshort := hf.short rfl
      simp only at hshort
      have hrem : s'.remaining = s'.buffer := by simp [Sock.remaining, hs, pendingData]
      simp only
      refine ⟨hff.1, ?_, fun _ => ⟨trivial, hf.remaining⟩⟩
      intro hle
      exfalso
      rw [← hf.remaining, hrem] at hle
      omega
    | true =>
      have hlen := hf.enough rfl
      simp only at hlen ⊢
      have hok : SockOK { s' with buffer := s'.buffer.drop n } := ⟨hff.1.chunked, hff.1.bufsize, hff.1.ff⟩
      have hrem : s.remaining = s'.buffer ++ pendingData s'.sched := by
        rw [← hf.remaining]; rfl
      refine ⟨hok, fun _ => ?_, fun hlt => ?_⟩
      · rw [hrem, List.take_append_of_le_length hlen, List.drop_append_of_le_length hlen]
        exact ⟨rfl, rfl⟩
      · exfalso
        rw [hrem, List.length_append] at hlt
        omega

/-- the results of a sequence of `read(n)` calls -/
def Sock.reads (dec : Bytes → Bytes) (s : Sock) : List Nat → List Bytes
  | [] => []
  | n :: rest => (Sock.read dec s n).1 :: Sock.reads dec (Sock.read dec s n).2 rest

/-- the same sequence against the plain remaining byte string -/
def specReads (rem : Bytes) : List Nat → List Bytes
  | [] => []
  | n :: rest => if n ≤ rem.length then rem.take n :: specReads (rem.drop n) rest else [] :: specReads rem rest

theorem reads_eq_spec (dec : Bytes → Bytes) (s : Sock) (h : SockOK s) (ns : List Nat) :
    Sock.reads dec s ns = specReads s.remaining ns := by
  induction ns generalizing s with
  | nil => rfl
  | cons n rest ih =>
    have hr := read_faultfree dec s n h
    simp only [Sock.reads, specReads]
    by_cases hle : n ≤ s.remaining.length
    · rw [if_pos hle, (hr.2.1 hle).1, ih _ hr.1, (hr.2.1 hle).2]
    · rw [if_neg hle, (hr.2.2 (by omega)).1, ih _ hr.1, (hr.2.2 (by omega)).2]

end Rtcm
