import Rtcm.Lemmas.ReaderFile
/-
  The reader over any *conservative* stream — one whose every `read(n)` / `readline()` hands out the
  next bytes of a remaining byte string `rem s` and nothing else (at most `n` for `read`): file-like
  streams with any schedule of short / empty reads, and the socket wrapper with any receive
  schedule.  Generated from Lemmas/ReaderFile.lean by replacing `s.data` with `rem s`.
-/
namespace Rtcm

structure Conserv {σ : Type} (ops : StreamOps σ) (rem : σ → Bytes) : Prop where
  read : ∀ s n, rem s = (ops.read s n).1 ++ rem (ops.read s n).2
  read_le : ∀ s n, (ops.read s n).1.length ≤ n
  readline : ∀ s, rem s = (ops.readline s).1 ++ rem (ops.readline s).2

variable {σ : Type} {ops : StreamOps σ} {rem : σ → Bytes}


/-- the bytes a `_read_bytes` call removed from the stream, and — when it succeeds — that they are
    exactly the `n` bytes returned -/
theorem readBytes_cons (C : Conserv ops rem) (s : σ) (n : Nat) :
    ∃ c, rem s = c ++ rem (readBytes ops s n).state
      ∧ ∀ d s', readBytes ops s n = .ok d s' → c = d ∧ d.length = n := by
  refine ⟨(ops.read s n).1, ?_, ?_⟩
  · rw [readBytes_state]; exact C.read s n
  · intro d s' h
    have := readBytes_ok ops s n d s' h
    have hle := C.read_le s n
    rw [← this.1] at hle
    exact ⟨this.1.symm, by omega⟩

theorem readLine_cons (C : Conserv ops rem) (s : σ) : ∃ c, rem s = c ++ rem (readLine ops s).state := by
  refine ⟨(ops.readline s).1, ?_⟩
  rw [readLine_state]; exact C.readline s

/-- `_parse_rtcm3` over a file stream: consumes a prefix of the data; if it returns a frame, the
    frame is header + exactly the consumed bytes, complete and (when parsing) parsed from them -/
theorem parseRtcm3_cons (C : Conserv ops rem) (T : Tables) (o : Opts) (b1 b2 : UInt8) (s : σ)
    (hb1 : b1.toNat = 0xd3) (hb2 : b2.toNat / 4 = 0) :
    ∃ c, rem s = c ++ rem (parseRtcm3 ops T o b1 b2 s).state
      ∧ ∀ raw p s', parseRtcm3 ops T o b1 b2 s = .done [.frame raw p] s' →
          raw = [b1, b2] ++ c ∧ FrameOK T o raw p := by
  unfold parseRtcm3
  obtain ⟨c1, hc1, hok1⟩ := readBytes_cons C s 1
  cases h1 : readBytes ops s 1 with
  | eof s1 => rw [h1] at hc1; exact ⟨c1, by simpa [Step.state, RB.state] using hc1, by intro raw p s' h; simp at h⟩
  | err s1 =>
    rw [h1] at hc1
    refine ⟨c1, by simpa [onError_state, RB.state] using hc1, ?_⟩
    intro raw p s' h
    simp only [onError] at h
    repeat' split at h
    all_goals simp at h
  | ok d1 s1 =>
    rw [h1] at hc1
    obtain ⟨e1, l1⟩ := hok1 d1 s1 h1
    subst e1
    simp only [RB.state] at hc1
    simp only
    obtain ⟨c2, hc2, hok2⟩ := readBytes_cons C s1 (b2.toNat * 256 + (c1.headD 0).toNat)
    cases h2 : readBytes ops s1 (b2.toNat * 256 + (c1.headD 0).toNat) with
    | eof s2 =>
      rw [h2] at hc2
      exact ⟨c1 ++ c2, by rw [hc1, hc2]; simp [Step.state, RB.state], by intro raw p s' h; simp at h⟩
    | err s2 =>
      rw [h2] at hc2
      refine ⟨c1 ++ c2, by rw [hc1, hc2]; simp [onError_state, RB.state], ?_⟩
      intro raw p s' h
      simp only [onError] at h
      repeat' split at h
      all_goals simp at h
    | ok d2 s2 =>
      rw [h2] at hc2
      obtain ⟨e2, l2⟩ := hok2 d2 s2 h2
      subst e2
      simp only [RB.state] at hc2
      simp only
      obtain ⟨c3, hc3, hok3⟩ := readBytes_cons C s2 3
      cases h3 : readBytes ops s2 3 with
      | eof s3 =>
        rw [h3] at hc3
        exact ⟨c1 ++ c2 ++ c3, by rw [hc1, hc2, hc3]; simp [Step.state, RB.state], by intro raw p s' h; simp at h⟩
      | err s3 =>
        rw [h3] at hc3
        refine ⟨c1 ++ c2 ++ c3, by rw [hc1, hc2, hc3]; simp [onError_state, RB.state], ?_⟩
        intro raw p s' h
        simp only [onError] at h
        repeat' split at h
        all_goals simp at h
      | ok d3 s3 =>
        rw [h3] at hc3
        obtain ⟨e3, l3⟩ := hok3 d3 s3 h3
        subst e3
        simp only [RB.state] at hc3
        simp only
        have hdata : rem s = (c1 ++ c2 ++ c3) ++ rem s3 := by rw [hc1, hc2, hc3]; simp
        -- the frame, if any
        have hframe : ∀ p, (o.parsed = true → ∃ m, p = some m ∧ parse T ([b1, b2] ++ c1 ++ c2 ++ c3) o.validate o.label = .ok m) →
            (o.parsed = false → p = none) → FrameOK T o ([b1, b2] ++ c1 ++ c2 ++ c3) p := by
          intro p hp1 hp2
          match c1, l1 with
          | [h3b], _ =>
            refine ⟨⟨b1, by simp, hb1⟩, ⟨b2, by simp, hb2⟩, ⟨b2, h3b, by simp, by simp, ?_⟩, hp1, hp2⟩
            simp at l2 ⊢
            omega
        split
        · rename_i hparsed
          split
          · rename_i m hm
            refine ⟨c1 ++ c2 ++ c3, by simpa [Step.state] using hdata, ?_⟩
            intro raw p s' h
            simp at h
            obtain ⟨⟨hr, hp⟩, _⟩ := h
            subst hr; subst hp
            refine ⟨by simp, ?_⟩
            have := hframe (some m) (fun _ => ⟨m, rfl, hm⟩) (fun hf => by rw [hparsed] at hf; simp at hf)
            simpa using this
          · refine ⟨c1 ++ c2 ++ c3, by simpa [onError_state] using hdata, ?_⟩
            intro raw p s' h
            simp only [onError] at h
            repeat' split at h
            all_goals simp at h
          · refine ⟨c1 ++ c2 ++ c3, by simpa [Step.state] using hdata, ?_⟩
            intro raw p s' h
            simp at h
        · rename_i hparsed
          refine ⟨c1 ++ c2 ++ c3, by simpa [Step.state] using hdata, ?_⟩
          intro raw p s' h
          simp at h
          obtain ⟨⟨hr, hp⟩, _⟩ := h
          subst hr; subst hp
          refine ⟨by simp, ?_⟩
          have := hframe none (fun hf => absurd hf hparsed) (fun _ => rfl)
          simpa using this

theorem parseUbx_cons (C : Conserv ops rem) (T : Tables) (o : Opts) (s : σ) :
    ∃ c, rem s = c ++ rem (parseUbx ops T o s).state := by
  unfold parseUbx
  obtain ⟨c1, hc1, _⟩ := readBytes_cons C s 4
  cases h1 : readBytes ops s 4 with
  | eof s1 => rw [h1] at hc1; exact ⟨c1, by simpa [Step.state, RB.state] using hc1⟩
  | err s1 => rw [h1] at hc1; exact ⟨c1, by simpa [onError_state, RB.state] using hc1⟩
  | ok d1 s1 =>
    rw [h1] at hc1
    simp only [RB.state] at hc1
    simp only
    obtain ⟨c2, hc2, _⟩ := readBytes_cons C s1 ((d1.getD 2 0).toNat + 256 * (d1.getD 3 0).toNat + 2)
    cases h2 : readBytes ops s1 ((d1.getD 2 0).toNat + 256 * (d1.getD 3 0).toNat + 2) with
    | eof s2 => rw [h2] at hc2; exact ⟨c1 ++ c2, by rw [hc1, hc2]; simp [Step.state, RB.state]⟩
    | err s2 => rw [h2] at hc2; exact ⟨c1 ++ c2, by rw [hc1, hc2]; simp [onError_state, RB.state]⟩
    | ok d2 s2 => rw [h2] at hc2; exact ⟨c1 ++ c2, by rw [hc1, hc2]; simp [Step.state, RB.state]⟩

theorem parseNmea_cons (C : Conserv ops rem) (T : Tables) (o : Opts) (s : σ) :
    ∃ c, rem s = c ++ rem (parseNmea ops T o s).state := by
  unfold parseNmea
  obtain ⟨c1, hc1⟩ := readLine_cons C s
  cases h1 : readLine ops s with
  | eof s1 => rw [h1] at hc1; exact ⟨c1, by simpa [Step.state, RB.state] using hc1⟩
  | err s1 => rw [h1] at hc1; exact ⟨c1, by simpa [onError_state, RB.state] using hc1⟩
  | ok d1 s1 => rw [h1] at hc1; exact ⟨c1, by simpa [Step.state, RB.state] using hc1⟩

/-- one pass of the loop over a file stream consumes a prefix `c` of the data; if it returns a frame,
    the frame is exactly `c` (so it starts where this pass started) and is well-formed -/
theorem iter_cons (C : Conserv ops rem) (T : Tables) (o : Opts) (s : σ) :
    ∃ c, rem s = c ++ rem (iter ops T o s).state
      ∧ ∀ raw p s', iter ops T o s = .done [.frame raw p] s' → raw = c ∧ FrameOK T o raw p := by
  unfold iter
  obtain ⟨c1, hc1, hok1⟩ := readBytes_cons C s 1
  cases h1 : readBytes ops s 1 with
  | eof s1 => rw [h1] at hc1; exact ⟨c1, by simpa [Step.state, RB.state] using hc1, by intro raw p s' h; simp at h⟩
  | err s1 =>
    rw [h1] at hc1
    refine ⟨c1, by simpa [onError_state, RB.state] using hc1, ?_⟩
    intro raw p s' h
    have := onError_frames T o LibErr.stream s1
    simp only at h
    rw [h] at this
    simp [Step.events, frames] at this
  | ok d1 s1 =>
    rw [h1] at hc1
    obtain ⟨e1, l1⟩ := hok1 d1 s1 h1
    subst e1
    simp only [RB.state] at hc1
    simp only
    split
    · exact ⟨c1, by simpa [Step.state] using hc1, by intro raw p s' h; simp at h⟩
    · obtain ⟨c2, hc2, hok2⟩ := readBytes_cons C s1 1
      cases h2 : readBytes ops s1 1 with
      | eof s2 =>
        rw [h2] at hc2
        exact ⟨c1 ++ c2, by rw [hc1, hc2]; simp [Step.state, RB.state], by intro raw p s' h; simp at h⟩
      | err s2 =>
        rw [h2] at hc2
        refine ⟨c1 ++ c2, by rw [hc1, hc2]; simp [onError_state, RB.state], ?_⟩
        intro raw p s' h
        have := onError_frames T o LibErr.stream s2
        simp only at h
        rw [h] at this
        simp [Step.events, frames] at this
      | ok d2 s2 =>
        rw [h2] at hc2
        obtain ⟨e2, l2⟩ := hok2 d2 s2 h2
        subst e2
        simp only [RB.state] at hc2
        simp only
        have hpre : rem s = (c1 ++ c2) ++ rem s2 := by rw [hc1, hc2]; simp
        split
        · obtain ⟨c3, hc3⟩ := parseUbx_cons C T o s2
          refine ⟨c1 ++ c2 ++ c3, by rw [hpre, hc3]; simp, ?_⟩
          intro raw p s' h
          rcases parseUbx_shape ops T o s2 with hs | ⟨r, q, t, hs⟩
          · rw [h] at hs; simp [Step.events, frames] at hs
          · exfalso
            unfold parseUbx at hs
            dsimp only at hs
            repeat' split at hs
            all_goals first
              | (simp at hs; done)
              | (have := onError_frames T o LibErr.stream (by assumption); rw [hs] at this; simp [Step.events, frames] at this)
        · split
          · obtain ⟨c3, hc3⟩ := parseNmea_cons C T o s2
            refine ⟨c1 ++ c2 ++ c3, by rw [hpre, hc3]; simp, ?_⟩
            intro raw p s' h
            exfalso
            unfold parseNmea at h
            repeat' split at h
            all_goals first
              | (simp at h; done)
              | (have := onError_frames T o LibErr.stream (by assumption); rw [h] at this; simp [Step.events, frames] at this)
          · split
            · rename_i hr
              obtain ⟨c3, hc3, hfr⟩ := parseRtcm3_cons C T o (c1.headD 0) (c2.headD 0) s2 hr.1 hr.2
              refine ⟨c1 ++ c2 ++ c3, by rw [hpre, hc3]; simp, ?_⟩
              intro raw p s' h
              obtain ⟨hraw, hok⟩ := hfr raw p s' h
              refine ⟨?_, hok⟩
              rw [hraw]
              have e1 := headD_singleton c1 l1
              have e2 := headD_singleton c2 l2
              conv => rhs; rw [← e1, ← e2]
              simp
            · refine ⟨c1 ++ c2, by simpa [onError_state] using hpre, ?_⟩
              intro raw p s' h
              have := onError_frames T o LibErr.parse s2
              rw [h] at this
              simp [Step.events, frames] at this


/-- one `read()` over a file stream: a prefix of the data is consumed; at most one frame is
    returned and it is the tail end of that prefix -/
theorem readOne_cons (C : Conserv ops rem) (T : Tables) (o : Opts) (s : σ) :
    ∃ pre, rem s = pre ++ rem (readOne ops T o s).2
      ∧ (frames (readOne ops T o s).1 = []
         ∨ ∃ raw p gap, frames (readOne ops T o s).1 = [(raw, p)] ∧ pre = gap ++ raw ∧ FrameOK T o raw p) := by
  fun_induction readOne ops T o s with
  | case1 s evs s' h =>
    obtain ⟨c, hc, hfr⟩ := iter_cons C T o s
    rw [h] at hc
    simp only [Step.state] at hc
    refine ⟨c, hc, ?_⟩
    have hs := iter_shape ops T o s
    rw [h] at hs
    rcases hs with hs | ⟨raw, p, s'', hs⟩
    · exact Or.inl (by simpa [Step.events] using hs)
    · injection hs with he _
      subst he
      obtain ⟨hraw, hok⟩ := hfr raw p s' (by rw [h])
      exact Or.inr ⟨raw, p, [], by simp [frames], by simp [hraw], hok⟩
  | case2 s evs s' h hlt r ih =>
    obtain ⟨c, hc, _⟩ := iter_cons C T o s
    rw [h] at hc
    simp only [Step.state] at hc
    have hs := iter_shape ops T o s
    rw [h] at hs
    have hnof : frames evs = [] := by
      rcases hs with hs | ⟨raw, p, s'', hs⟩
      · simpa [Step.events] using hs
      · simp at hs
    obtain ⟨pre, hpre, hfr⟩ := ih
    refine ⟨c ++ pre, by rw [hc, hpre]; simp [r], ?_⟩
    simp only [frames_append, hnof, List.nil_append]
    rcases hfr with hf | ⟨raw, p, gap, hf, hg, hok⟩
    · exact Or.inl hf
    · exact Or.inr ⟨raw, p, c ++ gap, hf, by rw [hg]; simp, hok⟩
  | case3 s evs s' h hnlt =>
    obtain ⟨c, hc, _⟩ := iter_cons C T o s
    rw [h] at hc
    simp only [Step.state] at hc
    have hs := iter_shape ops T o s
    rw [h] at hs
    have hnof : frames evs = [] := by
      rcases hs with hs | ⟨raw, p, s'', hs⟩
      · simpa [Step.events] using hs
      · simp at hs
    exact ⟨c, hc, Or.inl (by simp [frames_append, hnof, frames])⟩

/-- iteration over a file stream: the returned raw frames are non-overlapping contiguous slices of
    the data in stream order, and every one is well-formed -/
theorem run_cons (C : Conserv ops rem) (T : Tables) (o : Opts) (resume : Bool) (s : σ) :
    Sliced (rem s) ((frames (run ops T o resume s)).map (·.1))
    ∧ ∀ rp ∈ frames (run ops T o resume s), FrameOK T o rp.1 rp.2 := by
  fun_induction run ops T o resume s with
  | case1 s r hc hlt ih =>
    obtain ⟨pre, hpre, hfr⟩ := readOne_cons C T o s
    simp only [frames_append, List.map_append]
    rcases hfr with hf | ⟨raw, p, gap, hf, hg, hok⟩
    · have hf' : frames r.1 = [] := hf
      rw [hf']
      simp only [List.map_nil, List.nil_append]
      refine ⟨?_, ih.2⟩
      rw [hpre]
      exact Sliced.prepend _ _ _ ih.1
    · have hf' : frames r.1 = [(raw, p)] := hf
      rw [hf']
      refine ⟨?_, ?_⟩
      · simp only [List.map_cons, List.map_nil, List.cons_append, List.nil_append]
        rw [hpre, hg]
        exact Sliced.cons _ _ _ _ ih.1
      · intro rp hrp
        simp only [List.cons_append, List.nil_append, List.mem_cons] at hrp
        rcases hrp with h | h
        · rw [h]; exact hok
        · exact ih.2 rp h
  | case2 s r hc hnlt =>
    obtain ⟨pre, hpre, hfr⟩ := readOne_cons C T o s
    simp only [frames_append, List.map_append]
    have : frames [Event.stuck] = [] := rfl
    rw [this]
    simp only [List.map_nil, List.append_nil]
    rcases hfr with hf | ⟨raw, p, gap, hf, hg, hok⟩
    · have hf' : frames r.1 = [] := hf
      rw [hf']
      exact ⟨Sliced.nil _, by intro rp h; simp at h⟩
    · have hf' : frames r.1 = [(raw, p)] := hf
      rw [hf']
      refine ⟨?_, by intro rp h; simp at h; rw [h]; exact hok⟩
      simp only [List.map_cons, List.map_nil]
      rw [hpre, hg]
      have := Sliced.cons gap raw (rem r.2) [] (Sliced.nil _)
      simpa using this
  | case3 s r hc =>
    obtain ⟨pre, hpre, hfr⟩ := readOne_cons C T o s
    rcases hfr with hf | ⟨raw, p, gap, hf, hg, hok⟩
    · have hf' : frames r.1 = [] := hf
      rw [hf']
      exact ⟨Sliced.nil _, by intro rp h; simp at h⟩
    · have hf' : frames r.1 = [(raw, p)] := hf
      rw [hf']
      refine ⟨?_, by intro rp h; simp at h; rw [h]; exact hok⟩
      simp only [List.map_cons, List.map_nil]
      rw [hpre, hg]
      have := Sliced.cons gap raw (rem r.2) [] (Sliced.nil _)
      simpa using this


end Rtcm
