import Rtcm.Model.Reader
import Rtcm.Lemmas.ReaderEvents
/-
  Lawful streams: every read leaves the termination measure no larger, and a read that delivers
  bytes makes it strictly smaller.  For lawful streams the dynamic measure test in `readOne` / `run`
  never fails, i.e. the `stuck` event is impossible and the recursion is genuine well-founded
  recursion on the stream's measure.
-/
namespace Rtcm

def sizeLe (a b : Nat × Nat) : Bool := lexLt a b || (a.1 == b.1 && a.2 == b.2)

theorem lexLt_iff (a b : Nat × Nat) : lexLt a b = true ↔ a.1 < b.1 ∨ (a.1 = b.1 ∧ a.2 < b.2) := by
  simp [lexLt]

theorem sizeLe_iff (a b : Nat × Nat) : sizeLe a b = true ↔ a.1 < b.1 ∨ (a.1 = b.1 ∧ a.2 ≤ b.2) := by
  simp [sizeLe, lexLt]; omega

theorem sizeLe_refl (a : Nat × Nat) : sizeLe a a = true := by simp [sizeLe_iff]

theorem sizeLe_trans {a b c : Nat × Nat} (h1 : sizeLe a b = true) (h2 : sizeLe b c = true) : sizeLe a c = true := by
  simp [sizeLe_iff] at *; omega

theorem lexLt_of_le_of_lt {a b c : Nat × Nat} (h1 : sizeLe a b = true) (h2 : lexLt b c = true) : lexLt a c = true := by
  simp [sizeLe_iff, lexLt_iff] at *; omega

theorem lexLt_of_lt_of_le {a b c : Nat × Nat} (h1 : lexLt a b = true) (h2 : sizeLe b c = true) : lexLt a c = true := by
  simp [sizeLe_iff, lexLt_iff] at *; omega

theorem sizeLe_of_lt {a b : Nat × Nat} (h : lexLt a b = true) : sizeLe a b = true := by
  simp [sizeLe_iff, lexLt_iff] at *; omega

structure Lawful (ops : StreamOps σ) : Prop where
  read_le : ∀ s n, sizeLe (ops.size (ops.read s n).2) (ops.size s) = true
  read_lt : ∀ s n, (ops.read s n).1 ≠ [] → lexLt (ops.size (ops.read s n).2) (ops.size s) = true
  readline_le : ∀ s, sizeLe (ops.size (ops.readline s).2) (ops.size s) = true

def RB.state : RB σ → σ | .ok _ s => s | .eof s => s | .err s => s
def Step.state : Step σ → σ | .again _ s => s | .done _ s => s

variable {σ : Type} {ops : StreamOps σ}

theorem readBytes_cases (L : Lawful ops) (s : σ) (n : Nat) :
    ∃ s', sizeLe (ops.size s') (ops.size s) = true ∧
      (readBytes ops s n = .eof s' ∨ (readBytes ops s n = .err s' ∧ 1 < n) ∨
        ∃ d, readBytes ops s n = .ok d s' ∧ (0 < n → lexLt (ops.size s') (ops.size s) = true)) := by
  refine ⟨(ops.read s n).2, L.read_le s n, ?_⟩
  unfold readBytes
  dsimp only
  by_cases h1 : (ops.read s n).1.length = 0 ∧ n > 0
  · left; rw [if_pos h1]
  · rw [if_neg h1]
    by_cases h2 : 0 < (ops.read s n).1.length ∧ (ops.read s n).1.length < n
    · right; left; rw [if_pos h2]; exact ⟨rfl, by omega⟩
    · right; right; rw [if_neg h2]
      refine ⟨_, rfl, fun hn => L.read_lt s n ?_⟩
      intro hnil
      apply h1
      simp [hnil, hn]

theorem readLine_cases (L : Lawful ops) (s : σ) :
    ∃ s', sizeLe (ops.size s') (ops.size s) = true ∧
      (readLine ops s = .eof s' ∨ readLine ops s = .err s' ∨ ∃ d, readLine ops s = .ok d s') := by
  refine ⟨(ops.readline s).2, L.readline_le s, ?_⟩
  unfold readLine
  dsimp only
  by_cases h1 : (ops.readline s).1.length = 0
  · left; rw [if_pos h1]
  · rw [if_neg h1]
    by_cases h2 : (ops.readline s).1.getLast? ≠ some 10
    · right; left; rw [if_pos h2]
    · right; right; rw [if_neg h2]; exact ⟨_, rfl⟩

theorem onError_state (T : Tables) (o : Opts) (e : LibErr) (s : σ) : (onError T o e s).state = s := by
  unfold onError
  repeat' split
  all_goals rfl

theorem parseRtcm3_le (L : Lawful ops) (T : Tables) (o : Opts) (b1 b2 : UInt8) (s : σ) :
    sizeLe (ops.size (parseRtcm3 ops T o b1 b2 s).state) (ops.size s) = true := by
  unfold parseRtcm3
  obtain ⟨s1, l1, h1⟩ := readBytes_cases L s 1
  rcases h1 with h1 | ⟨h1, _⟩ | ⟨d1, h1, _⟩ <;> simp only [h1]
  · simpa [Step.state] using l1
  · simpa [onError_state] using l1
  · obtain ⟨s2, l2, h2⟩ := readBytes_cases L s1 (b2.toNat * 256 + (d1.headD 0).toNat)
    have l12 := sizeLe_trans l2 l1
    rcases h2 with h2 | ⟨h2, _⟩ | ⟨d2, h2, _⟩ <;> simp only [h2]
    · simpa [Step.state] using l12
    · simpa [onError_state] using l12
    · obtain ⟨s3, l3, h3⟩ := readBytes_cases L s2 3
      have l123 := sizeLe_trans l3 l12
      rcases h3 with h3 | ⟨h3, _⟩ | ⟨d3, h3, _⟩ <;> simp only [h3]
      · simpa [Step.state] using l123
      · simpa [onError_state] using l123
      · split
        · split
          · simpa [Step.state] using l123
          · simpa [onError_state] using l123
          · simpa [Step.state] using l123
        · simpa [Step.state] using l123

theorem parseUbx_le (L : Lawful ops) (T : Tables) (o : Opts) (s : σ) :
    sizeLe (ops.size (parseUbx ops T o s).state) (ops.size s) = true := by
  unfold parseUbx
  obtain ⟨s1, l1, h1⟩ := readBytes_cases L s 4
  rcases h1 with h1 | ⟨h1, _⟩ | ⟨d1, h1, _⟩ <;> simp only [h1]
  · simpa [Step.state] using l1
  · simpa [onError_state] using l1
  · obtain ⟨s2, l2, h2⟩ := readBytes_cases L s1 ((d1.getD 2 0).toNat + 256 * (d1.getD 3 0).toNat + 2)
    have l12 := sizeLe_trans l2 l1
    rcases h2 with h2 | ⟨h2, _⟩ | ⟨d2, h2, _⟩ <;> simp only [h2]
    · simpa [Step.state] using l12
    · simpa [onError_state] using l12
    · simpa [Step.state] using l12

theorem parseNmea_le (L : Lawful ops) (T : Tables) (o : Opts) (s : σ) :
    sizeLe (ops.size (parseNmea ops T o s).state) (ops.size s) = true := by
  unfold parseNmea
  obtain ⟨s1, l1, h1⟩ := readLine_cases L s
  rcases h1 with h1 | h1 | ⟨d1, h1⟩ <;> simp only [h1]
  · simpa [Step.state] using l1
  · simpa [onError_state] using l1
  · simpa [Step.state] using l1

/-- one pass of the loop body either ends the iteration with `stop` without growing the stream,
    or strictly shrinks the stream -/
theorem iter_progress (L : Lawful ops) (T : Tables) (o : Opts) (s : σ) :
    ((∃ s', iter ops T o s = .done [.stop] s') ∧ sizeLe (ops.size (iter ops T o s).state) (ops.size s) = true)
    ∨ lexLt (ops.size (iter ops T o s).state) (ops.size s) = true := by
  unfold iter
  obtain ⟨s1, l1, h1⟩ := readBytes_cases L s 1
  rcases h1 with h1 | ⟨h1, hh⟩ | ⟨d1, h1, lt1⟩ <;> simp only [h1]
  · left; exact ⟨⟨s1, rfl⟩, by simpa [Step.state] using l1⟩
  · omega
  · right
    have lt1 := lt1 (by omega)
    split
    · simpa [Step.state] using lt1
    · obtain ⟨s2, l2, h2⟩ := readBytes_cases L s1 1
      have lt2 := lexLt_of_le_of_lt l2 lt1
      rcases h2 with h2 | ⟨h2, _⟩ | ⟨d2, h2, _⟩ <;> simp only [h2]
      · simpa [Step.state] using lt2
      · simpa [onError_state] using lt2
      · split
        · exact lexLt_of_le_of_lt (parseUbx_le L T o s2) lt2
        · split
          · exact lexLt_of_le_of_lt (parseNmea_le L T o s2) lt2
          · split
            · exact lexLt_of_le_of_lt (parseRtcm3_le L T o _ _ s2) lt2
            · simpa [onError_state] using lt2

theorem iter_events_not_stuck (T : Tables) (o : Opts) (s : σ) :
    ∀ ev ∈ (iter ops T o s).events, ev.isStuck = false :=
  fun ev hev => (iter_events ops T o s ev hev).2.1

/-- `read()` on a lawful stream never gets stuck, and its final stream is no larger;
    strictly smaller unless it ended with `stop` -/
theorem readOne_lawful (L : Lawful ops) (T : Tables) (o : Opts) (s : σ) :
    (∀ ev ∈ (readOne ops T o s).1, ev.isStuck = false)
    ∧ sizeLe (ops.size (readOne ops T o s).2) (ops.size s) = true
    ∧ ((readOne ops T o s).1.getLast? ≠ some .stop → lexLt (ops.size (readOne ops T o s).2) (ops.size s) = true) := by
  fun_induction readOne ops T o s with
  | case1 s evs s' h =>
    have hp := iter_progress L T o s
    have hs := iter_events_not_stuck (ops := ops) T o s
    rw [h] at hp hs
    simp only [Step.state, Step.events] at hp hs
    refine ⟨hs, ?_, ?_⟩
    · rcases hp with ⟨_, hle⟩ | hlt
      · exact hle
      · exact sizeLe_of_lt hlt
    · intro hne
      rcases hp with ⟨⟨s'', heq⟩, _⟩ | hlt
      · injection heq with he _; subst he; simp at hne
      · exact hlt
  | case2 s evs s' h hlt r ih =>
    have hs := iter_events_not_stuck (ops := ops) T o s
    rw [h] at hs
    simp only [Step.events] at hs
    refine ⟨?_, ?_, ?_⟩
    · intro ev hev
      simp only [List.mem_append] at hev
      rcases hev with hev | hev
      · exact hs ev hev
      · exact ih.1 ev hev
    · exact sizeLe_trans ih.2.1 (sizeLe_of_lt hlt)
    · intro _; exact lexLt_of_le_of_lt ih.2.1 hlt
  | case3 s evs s' h hnlt =>
    exfalso
    have hp := iter_progress L T o s
    rw [h] at hp
    simp only [Step.state] at hp
    rcases hp with ⟨⟨s'', heq⟩, _⟩ | hlt
    · simp at heq
    · exact hnlt hlt

end Rtcm

namespace Rtcm

theorem fileOps_lawful : Lawful fileOps where
  read_le := by
    intro s n
    simp [fileOps, FStream.read, sizeLe_iff]
  read_lt := by
    intro s n h
    simp only [fileOps, FStream.read] at h ⊢
    have hpos : 0 < (List.take (s.lim n) s.data).length :=
      List.length_pos_iff.mpr h
    simp only [List.length_take] at hpos
    simp only [lexLt_iff, List.length_drop]
    right
    exact ⟨trivial, by omega⟩
  readline_le := by
    intro s
    simp [fileOps, FStream.readline, sizeLe_iff]

/-- iteration over a lawful stream never gets stuck: the recursion of `run` / `readOne` is
    well-founded recursion on the stream's own measure -/
theorem run_not_stuck {σ : Type} {ops : StreamOps σ} (L : Lawful ops) (T : Tables) (o : Opts) (resume : Bool) (s : σ) :
    ∀ ev ∈ run ops T o resume s, ev.isStuck = false := by
  fun_induction run ops T o resume s with
  | case1 s r hc hlt ih =>
    intro ev hev
    simp only [List.mem_append] at hev
    rcases hev with hev | hev
    · exact (readOne_lawful L T o s).1 ev hev
    · exact ih ev hev
  | case2 s r hc hnlt =>
    exfalso
    have h := (readOne_lawful L T o s).2.2
    apply hnlt
    apply h
    intro hstop
    -- the last event is a frame or a raise, not a stop
    have : ∀ (l : List Event), l.getLast? = some .stop → lastIsFrame l = false ∧ lastIsRaised l = false := by
      intro l
      induction l with
      | nil => simp
      | cons a t ih =>
        cases t with
        | nil => intro h; simp at h; subst h; simp [lastIsFrame, lastIsRaised]
        | cons b t' =>
          intro h
          have := ih (by simpa [List.getLast?_cons_cons] using h)
          simpa [lastIsFrame, lastIsRaised] using this
    have := this _ hstop
    have h1 : lastIsFrame r.1 = false := this.1
    have h2 : lastIsRaised r.1 = false := this.2
    simp [h1, h2] at hc
  | case3 s r hc =>
    intro ev hev
    exact (readOne_lawful L T o s).1 ev hev

end Rtcm
