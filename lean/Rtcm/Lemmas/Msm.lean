import Rtcm.Model.Decode
/-
  MSM mask bookkeeping: counts are popcounts; entries are in mask order.
-/
namespace Rtcm

theorem popcount_succ (a k : Nat) : popcount a (k + 1) = (if a.testBit k then 1 else 0) + popcount a k := rfl

theorem filter_range_succ (p : Nat → Bool) (m : Nat) :
    (List.range (m + 1)).filter p = (List.range m).filter p ++ (if p m then [m] else []) := by
  rw [List.range_succ, List.filter_append]
  cases hp : p m <;> simp [List.filter, hp]

/-- scanning `idx = 0 … m-1` counts the bits `n, n-1, …, n-m+1` -/
theorem count_scan (a n m : Nat) (h : m ≤ n + 1) :
    ((List.range m).filter fun idx => a.testBit (n - idx)).length + popcount a (n + 1 - m) = popcount a (n + 1) := by
  induction m with
  | zero => simp
  | succ m ih =>
    rw [filter_range_succ, List.length_append, ← ih (by omega)]
    have : n + 1 - m = (n - m) + 1 := by omega
    rw [this, popcount_succ, show n + 1 - (m + 1) = n - m by omega]
    split <;> simp <;> omega

/-- the number of indices selected by a mask is the number of set bits among bits `0 … n` -/
theorem setIdx_length (mask n : Nat) : (setIdx mask n).length = popcount mask (n + 1) := by
  have := count_scan mask n (n + 1) (Nat.le_refl _)
  simpa [setIdx, popcount] using this

theorem popcount_high_zero (a k : Nat) (h : a < 2 ^ k) : popcount a (k + 1) = popcount a k := by
  rw [popcount_succ, Nat.testBit_lt_two_pow h]; simp

/-- for a `w`-bit mask the loop over `range(w + 1)` finds exactly its set bits -/
theorem setIdx_length_of_lt (mask w : Nat) (h : mask < 2 ^ w) : (setIdx mask w).length = popcount mask w := by
  rw [setIdx_length, popcount_high_zero mask w h]

theorem setCells_length (mask n : Nat) : (setCells mask n).length = popcount mask n := by
  cases n with
  | zero => simp [setCells, popcount]
  | succ n =>
    have := count_scan mask n (n + 1) (Nat.le_refl _)
    have e : (fun j => mask.testBit (n + 1 - (j + 1))) = (fun idx => mask.testBit (n - idx)) := by
      funext j; congr 1; omega
    simp only [setCells, e]
    simpa [popcount] using this

/-- selected indices are listed in increasing order (mask order, most significant bit first) -/
theorem setIdx_sorted (mask n : Nat) : (setIdx mask n).Pairwise (· < ·) := by
  unfold setIdx
  exact List.Pairwise.filter _ (List.pairwise_lt_range)

theorem setCells_sorted (mask n : Nat) : (setCells mask n).Pairwise (· < ·) := by
  unfold setCells
  exact List.Pairwise.filter _ (List.pairwise_lt_range)

theorem mem_setIdx (mask n i : Nat) : i ∈ setIdx mask n ↔ i ≤ n ∧ mask.testBit (n - i) = true := by
  simp [setIdx]; omega

theorem mem_setCells (mask n j : Nat) : j ∈ setCells mask n ↔ j < n ∧ mask.testBit (n - (j + 1)) = true := by
  simp [setCells]

end Rtcm
