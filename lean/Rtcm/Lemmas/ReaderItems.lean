import Rtcm.Lemmas.ReaderFile
/-
  The reader on fault-free file streams made of well-formed items (RTCM3 frames, NMEA sentences,
  UBX frames, inert noise): an exact description of the event sequence.
-/
namespace Rtcm

/-- a file stream that never returns short -/
abbrev fs (d : Bytes) : FStream := ⟨d, []⟩

theorem fs_read (d : Bytes) (n : Nat) : (fs d).read n = (d.take n, fs (d.drop n)) := by
  simp [FStream.read, FStream.lim]

theorem readBytes_exact (a b : Bytes) : readBytes fileOps (fs (a ++ b)) a.length = .ok a (fs b) := by
  unfold readBytes
  simp only [fileOps, fs_read, List.take_left', List.drop_left']
  by_cases h : a.length = 0
  · simp [h]
  · simp [h]

theorem readBytes_one (x : UInt8) (b : Bytes) : readBytes fileOps (fs (x :: b)) 1 = .ok [x] (fs b) :=
  readBytes_exact [x] b

/-- facts about the constants of the tables that the reader's dispatch relies on -/
structure ReaderConsts (T : Tables) : Prop where
  ubx : T.ubxHdr = (0xb5, 0x62)
  nmea : ∀ e ∈ T.nmeaHdr, e.1 = 0x24
  raise_ne_log : T.errRaise ≠ T.errLog

/-- `f` is framed like an RTCM3 message: preamble, six zero bits, length field = payload size, 3 more bytes -/
structure Framed (f : Bytes) : Prop where
  shape : ∃ hi lo payload crc, f = [0xd3, hi, lo] ++ payload ++ crc ∧ hi.toNat / 4 = 0
    ∧ payload.length = hi.toNat * 256 + lo.toNat ∧ crc.length = 3

/-- the events an error produces under the reader's error mode -/
def errEvents (T : Tables) (o : Opts) (e : LibErr) : List Event :=
  if o.quitonerror = 0 then []
  else if o.quitonerror = T.errRaise then [.raised e]
  else if o.quitonerror = T.errLog then [.handler e]
  else []

/-- the events one framed item produces -/
def frameEvents (T : Tables) (o : Opts) (f : Bytes) : List Event :=
  if o.parsed then
    match parse T f o.validate o.label with
    | .ok m => [.frame f (some m)]
    | .lib e => errEvents T o e
    | .foreign e => [.foreign e]
  else [.frame f none]

theorem onError_eq (T : Tables) (o : Opts) (e : LibErr) (s : FStream) :
    onError T o e s = (if o.quitonerror ≠ 0 ∧ o.quitonerror = T.errRaise then Step.done (errEvents T o e) s
                       else Step.again (errEvents T o e) s) := by
  unfold onError errEvents
  by_cases h0 : o.quitonerror = 0
  · have hn : ¬ (o.quitonerror ≠ 0 ∧ o.quitonerror = T.errRaise) := fun h => h.1 h0
    simp only [if_pos h0, if_neg hn]
  · by_cases h1 : o.quitonerror = T.errRaise
    · have hp : o.quitonerror ≠ 0 ∧ o.quitonerror = T.errRaise := ⟨h0, h1⟩
      simp only [if_neg h0, if_pos h1, if_pos hp]
    · have hn : ¬ (o.quitonerror ≠ 0 ∧ o.quitonerror = T.errRaise) := fun h => h1 h.2
      by_cases h2 : o.quitonerror = T.errLog
      · simp only [if_neg h0, if_neg h1, if_pos h2, if_neg hn]
      · simp only [if_neg h0, if_neg h1, if_neg h2, if_neg hn]

/-- one pass over a framed item consumes exactly that item, whatever it contains and whatever the
    options are -/
theorem iter_frame (T : Tables) (hT : ReaderConsts T) (o : Opts) (f rest : Bytes) (hf : Framed f) :
    iter fileOps T o (fs (f ++ rest)) =
      (if o.parsed then
        match parse T f o.validate o.label with
        | .ok m => Step.done [.frame f (some m)] (fs rest)
        | .lib e => onError T o e (fs rest)
        | .foreign e => Step.done [.foreign e] (fs rest)
      else Step.done [.frame f none] (fs rest)) := by
  obtain ⟨hi, lo, payload, crc, rfl, hhi, hlen, hcrc⟩ := hf.shape
  have e1 : ([0xd3, hi, lo] ++ payload ++ crc ++ rest : Bytes) = (0xd3 : UInt8) :: (hi :: (lo :: (payload ++ (crc ++ rest)))) := by simp
  unfold iter
  rw [e1, readBytes_one]
  simp only [List.headD_cons]
  have hsync : isSync T (0xd3 : UInt8) = true := by unfold isSync; decide
  simp only [hsync, Bool.not_true, Bool.false_eq_true, if_false, readBytes_one, List.headD_cons]
  have h211 : (0xd3 : UInt8).toNat = 211 := by decide
  simp only [h211]
  have hub : ¬ (((211 : Nat), hi.toNat) = T.ubxHdr) := by
    rw [hT.ubx]; intro h; injection h with h1 _; exact absurd h1 (by decide)
  have hnm : T.nmeaHdr.contains ((211 : Nat), hi.toNat) = false := by
    rw [List.contains_eq_any_beq, Bool.eq_false_iff]
    intro h
    rw [List.any_eq_true] at h
    obtain ⟨e, he, heq⟩ := h
    have := hT.nmea e he
    simp at heq
    rw [← heq] at this
    simp at this
  simp only [hub, hnm, Bool.false_eq_true, if_false, hhi, and_self, if_true]
  unfold parseRtcm3
  rw [readBytes_one]
  simp only [List.headD_cons]
  rw [← hlen, readBytes_exact payload (crc ++ rest)]
  simp only
  rw [← hcrc, readBytes_exact crc rest]
  simp only
  rfl

/-- a noise byte (none of the three sync characters) is skipped -/
theorem iter_noise (T : Tables) (o : Opts) (b : UInt8) (rest : Bytes) (hb : isSync T b = false) :
    iter fileOps T o (fs (b :: rest)) = Step.again [] (fs rest) := by
  unfold iter
  rw [readBytes_one]
  simp [hb]

theorem fs_readline (body rest : Bytes) (hb : ∀ x ∈ body, x.toNat ≠ 10) :
    (fs (body ++ (10 : UInt8) :: rest)).readline = (body ++ [10], fs rest) := by
  have hsplit : splitLine (body ++ (10 : UInt8) :: rest) = (body ++ [10], rest) := by
    induction body with
    | nil => simp [splitLine]
    | cons x t ih =>
      simp only [List.cons_append, splitLine]
      have hx : x.toNat ≠ 10 := hb x (by simp)
      rw [if_neg hx, ih (fun y hy => hb y (by simp [hy]))]
  have e : body ++ (10 : UInt8) :: rest = (body ++ [10]) ++ rest := by simp
  unfold FStream.readline FStream.lim
  simp only [hsplit, List.head?_nil, List.tail_nil]
  rw [e, List.take_left' rfl, List.drop_left' rfl]

/-- a complete NMEA sentence (`$`, a talker listed in NMEA_HDR, no LF before its final LF) is skipped -/
theorem iter_nmea (T : Tables) (hT : ReaderConsts T) (o : Opts) (t : UInt8) (body rest : Bytes)
    (hh : T.nmeaHdr.contains ((0x24 : UInt8).toNat, t.toNat) = true) (hb : ∀ x ∈ body, x.toNat ≠ 10) :
    iter fileOps T o (fs ((0x24 : UInt8) :: t :: (body ++ (10 : UInt8) :: rest))) = Step.again [] (fs rest) := by
  unfold iter
  rw [readBytes_one]
  simp only [List.headD_cons]
  have hsync : isSync T (0x24 : UInt8) = true := by unfold isSync; decide
  simp only [hsync, Bool.not_true, Bool.false_eq_true, if_false, readBytes_one, List.headD_cons]
  have h36 : (0x24 : UInt8).toNat = 36 := by decide
  simp only [h36] at hh ⊢
  have hub : ¬ (((36 : Nat), t.toNat) = T.ubxHdr) := by
    rw [hT.ubx]; intro h; injection h with h1 _; exact absurd h1 (by decide)
  simp only [hub, if_false, hh, if_true]
  unfold parseNmea readLine
  simp only [fileOps, fs_readline body rest hb]
  simp

/-- a complete UBX frame (sync, class, id, little-endian length, payload, two checksum bytes) is skipped -/
theorem iter_ubx (T : Tables) (hT : ReaderConsts T) (o : Opts) (cls id l0 l1 : UInt8) (payload ck rest : Bytes)
    (hl : payload.length = l0.toNat + 256 * l1.toNat) (hck : ck.length = 2) :
    iter fileOps T o (fs ((0xb5 : UInt8) :: 0x62 :: ([cls, id, l0, l1] ++ (payload ++ ck) ++ rest))) = Step.again [] (fs rest) := by
  unfold iter
  rw [readBytes_one]
  simp only [List.headD_cons]
  have hsync : isSync T (0xb5 : UInt8) = true := by unfold isSync; decide
  simp only [hsync, Bool.not_true, Bool.false_eq_true, if_false, readBytes_one, List.headD_cons]
  have h181 : (0xb5 : UInt8).toNat = 181 := by decide
  have h98 : (0x62 : UInt8).toNat = 98 := by decide
  simp only [h181, h98]
  have hub : (((181 : Nat), (98 : Nat)) = T.ubxHdr) := by rw [hT.ubx]
  simp only [hub, if_true]
  unfold parseUbx
  have e4 : ([cls, id, l0, l1] ++ (payload ++ ck) ++ rest : Bytes) = [cls, id, l0, l1] ++ ((payload ++ ck) ++ rest) := by simp
  rw [e4]
  have := readBytes_exact [cls, id, l0, l1] ((payload ++ ck) ++ rest)
  simp only [List.length_cons, List.length_nil] at this
  rw [this]
  simp only [List.getD_cons_succ, List.getD_cons_zero]
  have hlen : l0.toNat + 256 * l1.toNat + 2 = (payload ++ ck).length := by simp [hl, hck]
  rw [hlen, readBytes_exact (payload ++ ck) rest]

end Rtcm

namespace Rtcm

/-- the items a well-formed mixed stream is made of -/
inductive SItem
  | frame (f : Bytes)                                   -- RTCM3 framed bytes (any content)
  | noise (b : UInt8)                                   -- one inert byte
  | nmea (t : UInt8) (body : Bytes)                     -- `$` talker body LF
  | ubx (cls id l0 l1 : UInt8) (payload ck : Bytes)     -- b5 62 class id len payload ck ck

def SItem.bytes : SItem → Bytes
  | .frame f => f
  | .noise b => [b]
  | .nmea t body => (0x24 : UInt8) :: t :: (body ++ [10])
  | .ubx cls id l0 l1 payload ck => (0xb5 : UInt8) :: 0x62 :: ([cls, id, l0, l1] ++ (payload ++ ck))

def SItem.Valid (T : Tables) : SItem → Prop
  | .frame f => Framed f
  | .noise b => isSync T b = false
  | .nmea t body => T.nmeaHdr.contains ((0x24 : UInt8).toNat, t.toNat) = true ∧ ∀ x ∈ body, x.toNat ≠ 10
  | .ubx _ _ l0 l1 payload ck => payload.length = l0.toNat + 256 * l1.toNat ∧ ck.length = 2

/-- the events an item contributes to the iteration -/
def SItem.events (T : Tables) (o : Opts) : SItem → List Event
  | .frame f =>
    if o.parsed then
      match parse T f o.validate o.label with
      | .ok m => [.frame f (some m)]
      | .lib e => errEvents T o e
      | .foreign _ => []
    else [.frame f none]
  | _ => []

theorem SItem.bytes_ne_nil (T : Tables) (it : SItem) (h : it.Valid T) : it.bytes ≠ [] := by
  cases it with
  | frame f =>
    obtain ⟨hi, lo, p, c, rfl, _⟩ := (h : Framed f).shape
    simp [SItem.bytes]
  | noise b => simp [SItem.bytes]
  | nmea t body => simp [SItem.bytes]
  | ubx => simp [SItem.bytes]

/-- events that do not end a `read()` call: nothing, or one handler call -/
def Quiet (evs : List Event) : Prop := evs = [] ∨ ∃ e, evs = [.handler e]

/-- events that end a `read()` call and after which iteration goes on (resuming after a raise) -/
def Loud (evs : List Event) : Prop := (∃ raw p, evs = [.frame raw p]) ∨ ∃ e, evs = [.raised e]

/-- one pass over a valid item consumes exactly the item and yields exactly its events -/
theorem iter_item (T : Tables) (hT : ReaderConsts T) (o : Opts) (it : SItem) (hv : it.Valid T) (rest : Bytes) :
    (Quiet (it.events T o) ∧ iter fileOps T o (fs (it.bytes ++ rest)) = .again (it.events T o) (fs rest))
    ∨ (Loud (it.events T o) ∧ iter fileOps T o (fs (it.bytes ++ rest)) = .done (it.events T o) (fs rest)) := by
  cases it with
  | noise b =>
    left
    exact ⟨Or.inl rfl, by simpa [SItem.bytes, SItem.events] using iter_noise T o b rest hv⟩
  | nmea t body =>
    left
    refine ⟨Or.inl rfl, ?_⟩
    have := iter_nmea T hT o t body rest hv.1 hv.2
    simpa [SItem.bytes, SItem.events] using this
  | ubx cls id l0 l1 payload ck =>
    left
    refine ⟨Or.inl rfl, ?_⟩
    have := iter_ubx T hT o cls id l0 l1 payload ck rest hv.1 hv.2
    simpa [SItem.bytes, SItem.events] using this
  | frame f =>
    have hi := iter_frame T hT o f rest hv
    simp only [SItem.bytes, SItem.events]
    rw [hi]
    by_cases hp : o.parsed = true
    · rw [if_pos hp, if_pos hp]
      cases hparse : parse T f o.validate o.label with
      | ok m => right; exact ⟨Or.inl ⟨_, _, rfl⟩, rfl⟩
      | foreign e =>
        exfalso
        have := parse_not_foreign T f o.validate o.label
        rw [hparse] at this
        simp [Outcome.isForeign] at this
      | lib e =>
        simp only
        rw [onError_eq]
        by_cases hr : o.quitonerror ≠ 0 ∧ o.quitonerror = T.errRaise
        · right
          rw [if_pos hr]
          refine ⟨Or.inr ⟨e, ?_⟩, rfl⟩
          unfold errEvents
          rw [if_neg hr.1, if_pos hr.2]
        · left
          rw [if_neg hr]
          refine ⟨?_, rfl⟩
          unfold errEvents
          by_cases h0 : o.quitonerror = 0
          · simp [h0, Quiet]
          · have h1 : ¬ o.quitonerror = T.errRaise := fun h => hr ⟨h0, h⟩
            by_cases h2 : o.quitonerror = T.errLog
            · simp only [if_neg h0, if_neg h1, if_pos h2]; exact Or.inr ⟨e, rfl⟩
            · simp only [if_neg h0, if_neg h1, if_neg h2]; exact Or.inl rfl
    · rw [if_neg hp, if_neg hp]
      right
      exact ⟨Or.inl ⟨_, _, rfl⟩, rfl⟩

theorem fs_size_lt (a rest : Bytes) (h : a ≠ []) :
    lexLt (fileOps.size (fs rest)) (fileOps.size (fs (a ++ rest))) = true := by
  have := List.length_pos_iff.mpr h
  simp [lexLt, fileOps]
  omega

theorem lastIsFrame_handler (e : LibErr) (b : List Event) : lastIsFrame (.handler e :: b) = lastIsFrame b := by
  cases b <;> rfl

theorem lastIsRaised_handler (e : LibErr) (b : List Event) : lastIsRaised (.handler e :: b) = lastIsRaised b := by
  cases b <;> rfl

/-- the whole event sequence of iterating (resuming after raises) over a stream of valid items -/
def expect (T : Tables) (o : Opts) (items : List SItem) : List Event :=
  (items.map (SItem.events T o)).flatten ++ [.stop]

def streamOf (items : List SItem) : Bytes := (items.map SItem.bytes).flatten

theorem run_unfold {σ : Type} (ops : StreamOps σ) (T : Tables) (o : Opts) (resume : Bool) (s : σ) :
    run ops T o resume s =
      (if (lastIsFrame (readOne ops T o s).1 || (resume && lastIsRaised (readOne ops T o s).1)) = true then
        if lexLt (ops.size (readOne ops T o s).2) (ops.size s) = true then
          (readOne ops T o s).1 ++ run ops T o resume (readOne ops T o s).2
        else (readOne ops T o s).1 ++ [.stuck]
      else (readOne ops T o s).1) := by
  rw [run]

theorem readOne_eof (T : Tables) (o : Opts) : readOne fileOps T o (fs []) = ([.stop], fs []) := by
  rw [readOne]
  have : iter fileOps T o (fs []) = .done [.stop] (fs []) := by
    unfold iter readBytes
    simp [fileOps, fs_read]
  rw [this]

theorem run_eof (T : Tables) (o : Opts) (resume : Bool) : run fileOps T o resume (fs []) = [.stop] := by
  rw [run, readOne_eof]
  simp [lastIsFrame, lastIsRaised]

/-- **the reader on well-formed mixed input**: iteration (resuming after raised errors) yields exactly
    the events of the items, in order, and then stops -/
theorem run_items (T : Tables) (hT : ReaderConsts T) (o : Opts) (items : List SItem)
    (hv : ∀ it ∈ items, it.Valid T) :
    run fileOps T o true (fs (streamOf items)) = expect T o items := by
  induction items with
  | nil => simpa [streamOf, expect] using run_eof T o true
  | cons it rest ih =>
    have hvi := hv it (by simp)
    have ih' := ih (fun x hx => hv x (by simp [hx]))
    have hne := SItem.bytes_ne_nil T it hvi
    have hlt := fs_size_lt it.bytes (streamOf rest) hne
    have hstream : streamOf (it :: rest) = it.bytes ++ streamOf rest := by simp [streamOf]
    have hexp : expect T o (it :: rest) = it.events T o ++ expect T o rest := by simp [expect]
    rw [hstream, hexp, ← ih']
    rcases iter_item T hT o it hvi (streamOf rest) with ⟨hq, hi⟩ | ⟨hl, hi⟩
    · -- the item is skipped (possibly after a handler call): `read()` goes on with the rest
      have hro : readOne fileOps T o (fs (it.bytes ++ streamOf rest))
          = (it.events T o ++ (readOne fileOps T o (fs (streamOf rest))).1, (readOne fileOps T o (fs (streamOf rest))).2) := by
        rw [readOne, hi]
        simp only [hlt, if_true]
      rw [run_unfold fileOps T o true (fs (it.bytes ++ streamOf rest)), hro,
        run_unfold fileOps T o true (fs (streamOf rest))]
      simp only
      have hL := fileOps_lawful
      have hrl := readOne_lawful hL T o (fs (streamOf rest))
      have hF : lastIsFrame (it.events T o ++ (readOne fileOps T o (fs (streamOf rest))).1)
          = lastIsFrame (readOne fileOps T o (fs (streamOf rest))).1 := by
        rcases hq with h | ⟨e, h⟩ <;> rw [h]
        · rfl
        · exact lastIsFrame_handler e _
      have hR : lastIsRaised (it.events T o ++ (readOne fileOps T o (fs (streamOf rest))).1)
          = lastIsRaised (readOne fileOps T o (fs (streamOf rest))).1 := by
        rcases hq with h | ⟨e, h⟩ <;> rw [h]
        · rfl
        · exact lastIsRaised_handler e _
      rw [hF, hR]
      by_cases hc : (lastIsFrame (readOne fileOps T o (fs (streamOf rest))).1
          || (true && lastIsRaised (readOne fileOps T o (fs (streamOf rest))).1)) = true
      · rw [if_pos hc, if_pos hc]
        -- the last event is not `stop`, so the stream strictly shrank
        have hns : (readOne fileOps T o (fs (streamOf rest))).1.getLast? ≠ some .stop := by
          intro hs
          have : ∀ (l : List Event), l.getLast? = some .stop → lastIsFrame l = false ∧ lastIsRaised l = false := by
            intro l
            induction l with
            | nil => simp
            | cons a t ih =>
              cases t with
              | nil => intro h; simp at h; subst h; simp [lastIsFrame, lastIsRaised]
              | cons b t' =>
                intro h
                have := ih (by simpa [List.getLast?_cons_cons] using h)
                simpa [lastIsFrame, lastIsRaised] using this
          have := this _ hs
          simp [this.1, this.2] at hc
        have hlt2 := hrl.2.2 hns
        have hlt3 : lexLt (fileOps.size (readOne fileOps T o (fs (streamOf rest))).2)
            (fileOps.size (fs (it.bytes ++ streamOf rest))) = true :=
          lexLt_of_lt_of_le hlt2 (sizeLe_of_lt hlt)
        rw [if_pos hlt2, if_pos hlt3, List.append_assoc]
      · rw [if_neg hc, if_neg hc]
    · -- the item ends this `read()` (a frame is returned or an error raised); iteration resumes
      have hro : readOne fileOps T o (fs (it.bytes ++ streamOf rest)) = (it.events T o, fs (streamOf rest)) := by
        rw [readOne, hi]
      rw [run_unfold fileOps T o true (fs (it.bytes ++ streamOf rest)), hro]
      simp only
      have hc : (lastIsFrame (it.events T o) || (true && lastIsRaised (it.events T o))) = true := by
        rcases hl with ⟨raw, p, h⟩ | ⟨e, h⟩ <;> rw [h] <;> simp [lastIsFrame, lastIsRaised]
      rw [if_pos hc, if_pos hlt]

end Rtcm
