import Rtcm.Lemmas.ReaderItems
/-
  Two streams under the same reader.  `TailSim`: the two streams deliver the same bytes to the same
  calls, except that where the first returns nothing for lack of data the second may return a
  short tail and is exhausted afterwards ("dead").  Then `RTCMReader` returns the same frames over
  both (`run_frames_eq`).  Instance: socket wrapper (all-or-nothing reads) versus file (short
  read at the end of data).
-/
namespace Rtcm

variable {σ₁ σ₂ : Type}

structure TailSim (ops₁ : StreamOps σ₁) (ops₂ : StreamOps σ₂) (R : σ₁ → σ₂ → Prop) (Dead : σ₂ → Prop) : Prop where
  read : ∀ s₁ s₂ n, R s₁ s₂ →
    ((ops₁.read s₁ n).1 = (ops₂.read s₂ n).1 ∧ R (ops₁.read s₁ n).2 (ops₂.read s₂ n).2)
    ∨ ((ops₁.read s₁ n).1 = [] ∧ (ops₂.read s₂ n).1.length < n ∧ Dead (ops₂.read s₂ n).2)
  readline : ∀ s₁ s₂, R s₁ s₂ →
    (ops₁.readline s₁).1 = (ops₂.readline s₂).1 ∧ R (ops₁.readline s₁).2 (ops₂.readline s₂).2
  dead_read : ∀ s₂ n, Dead s₂ → (ops₂.read s₂ n).1 = [] ∧ Dead (ops₂.read s₂ n).2

section
variable {ops₁ : StreamOps σ₁} {ops₂ : StreamOps σ₂} {R : σ₁ → σ₂ → Prop} {Dead : σ₂ → Prop}

def RBRel (R : σ₁ → σ₂ → Prop) (Dead : σ₂ → Prop) (a : RB σ₁) (b : RB σ₂) : Prop :=
  (∃ d t₁ t₂, a = .ok d t₁ ∧ b = .ok d t₂ ∧ R t₁ t₂)
  ∨ (∃ t₁ t₂, a = .eof t₁ ∧ b = .eof t₂ ∧ R t₁ t₂)
  ∨ (∃ t₁ t₂, a = .err t₁ ∧ b = .err t₂ ∧ R t₁ t₂)
  ∨ (∃ t₁ t₂, a = .eof t₁ ∧ (b = .eof t₂ ∨ b = .err t₂) ∧ Dead t₂)

theorem readBytes_rel (sim : TailSim ops₁ ops₂ R Dead) (s₁ : σ₁) (s₂ : σ₂) (n : Nat) (hR : R s₁ s₂) :
    RBRel R Dead (readBytes ops₁ s₁ n) (readBytes ops₂ s₂ n) := by
  unfold readBytes
  dsimp only
  rcases sim.read s₁ s₂ n hR with ⟨he, hR'⟩ | ⟨he, hlt, hD⟩
  · rw [he]
    by_cases h1 : (ops₂.read s₂ n).1.length = 0 ∧ n > 0
    · rw [if_pos h1, if_pos h1]
      exact Or.inr (Or.inl ⟨_, _, rfl, rfl, hR'⟩)
    · rw [if_neg h1, if_neg h1]
      by_cases h2 : 0 < (ops₂.read s₂ n).1.length ∧ (ops₂.read s₂ n).1.length < n
      · rw [if_pos h2, if_pos h2]
        exact Or.inr (Or.inr (Or.inl ⟨_, _, rfl, rfl, hR'⟩))
      · rw [if_neg h2, if_neg h2]
        exact Or.inl ⟨_, _, _, rfl, rfl, hR'⟩
  · have hn : n > 0 := by omega
    rw [he]
    rw [if_pos ⟨rfl, hn⟩]
    refine Or.inr (Or.inr (Or.inr ⟨_, (ops₂.read s₂ n).2, rfl, ?_, hD⟩))
    by_cases h1 : (ops₂.read s₂ n).1.length = 0 ∧ n > 0
    · left; rw [if_pos h1]
    · right
      have hpos : 0 < (ops₂.read s₂ n).1.length := by
        rcases Nat.eq_zero_or_pos (ops₂.read s₂ n).1.length with h0 | h0
        · exact absurd ⟨h0, hn⟩ h1
        · exact h0
      rw [if_neg h1, if_pos ⟨hpos, hlt⟩]

theorem readLine_rel (sim : TailSim ops₁ ops₂ R Dead) (s₁ : σ₁) (s₂ : σ₂) (hR : R s₁ s₂) :
    RBRel R Dead (readLine ops₁ s₁) (readLine ops₂ s₂) := by
  unfold readLine
  dsimp only
  obtain ⟨he, hR'⟩ := sim.readline s₁ s₂ hR
  rw [he]
  by_cases h1 : (ops₂.readline s₂).1.length = 0
  · rw [if_pos h1, if_pos h1]
    exact Or.inr (Or.inl ⟨_, _, rfl, rfl, hR'⟩)
  · rw [if_neg h1, if_neg h1]
    by_cases h2 : (ops₂.readline s₂).1.getLast? ≠ some 10
    · rw [if_pos h2, if_pos h2]
      exact Or.inr (Or.inr (Or.inl ⟨_, _, rfl, rfl, hR'⟩))
    · rw [if_neg h2, if_neg h2]
      exact Or.inl ⟨_, _, _, rfl, rfl, hR'⟩

def StepRel (R : σ₁ → σ₂ → Prop) (Dead : σ₂ → Prop) (a : Step σ₁) (b : Step σ₂) : Prop :=
  (∃ evs t₁ t₂, a = .again evs t₁ ∧ b = .again evs t₂ ∧ R t₁ t₂)
  ∨ (∃ evs t₁ t₂, a = .done evs t₁ ∧ b = .done evs t₂ ∧ R t₁ t₂)
  ∨ (∃ t₁, a = .done [.stop] t₁ ∧ frames b.events = [] ∧ Dead b.state)

theorem step_again (evs : List Event) {t₁ : σ₁} {t₂ : σ₂} (h : R t₁ t₂) :
    StepRel R Dead (.again evs t₁) (.again evs t₂) := Or.inl ⟨_, _, _, rfl, rfl, h⟩

theorem step_done (evs : List Event) {t₁ : σ₁} {t₂ : σ₂} (h : R t₁ t₂) :
    StepRel R Dead (.done evs t₁) (.done evs t₂) := Or.inr (Or.inl ⟨_, _, _, rfl, rfl, h⟩)

theorem step_div_stop (t₁ : σ₁) {t₂ : σ₂} (h : Dead t₂) :
    StepRel R Dead (.done [.stop] t₁) (.done [.stop] t₂) := Or.inr (Or.inr ⟨_, rfl, rfl, h⟩)

theorem step_div_err (T : Tables) (o : Opts) (e : LibErr) (t₁ : σ₁) {t₂ : σ₂} (h : Dead t₂) :
    StepRel R Dead (.done [.stop] t₁) (onError T o e t₂) :=
  Or.inr (Or.inr ⟨_, rfl, onError_frames T o e t₂, by rw [onError_state]; exact h⟩)

theorem onError_rel (T : Tables) (o : Opts) (e : LibErr) {t₁ : σ₁} {t₂ : σ₂} (h : R t₁ t₂) :
    StepRel R Dead (onError T o e t₁) (onError T o e t₂) := by
  unfold onError
  split
  · exact step_again _ h
  · split
    · exact step_done _ h
    · split
      · exact step_again _ h
      · exact step_again _ h

theorem parseRtcm3_rel (sim : TailSim ops₁ ops₂ R Dead) (T : Tables) (o : Opts) (b1 b2 : UInt8)
    (s₁ : σ₁) (s₂ : σ₂) (hR : R s₁ s₂) :
    StepRel R Dead (parseRtcm3 ops₁ T o b1 b2 s₁) (parseRtcm3 ops₂ T o b1 b2 s₂) := by
  unfold parseRtcm3
  rcases readBytes_rel sim s₁ s₂ 1 hR with ⟨h3, t₁, t₂, ha, hb, hR1⟩ | ⟨t₁, t₂, ha, hb, hR1⟩ | ⟨t₁, t₂, ha, hb, hR1⟩ | ⟨t₁, t₂, ha, hb, hD⟩
  · simp only [ha, hb]
    rcases readBytes_rel sim t₁ t₂ (b2.toNat * 256 + (h3.headD 0).toNat) hR1 with
      ⟨pl, u₁, u₂, ha2, hb2, hR2⟩ | ⟨u₁, u₂, ha2, hb2, hR2⟩ | ⟨u₁, u₂, ha2, hb2, hR2⟩ | ⟨u₁, u₂, ha2, hb2, hD⟩
    · simp only [ha2, hb2]
      rcases readBytes_rel sim u₁ u₂ 3 hR2 with
        ⟨crc, v₁, v₂, ha3, hb3, hR3⟩ | ⟨v₁, v₂, ha3, hb3, hR3⟩ | ⟨v₁, v₂, ha3, hb3, hR3⟩ | ⟨v₁, v₂, ha3, hb3, hD⟩
      · simp only [ha3, hb3]
        split
        · cases parse T ([b1, b2] ++ h3 ++ pl ++ crc) o.validate o.label with
          | ok m => exact step_done _ hR3
          | lib e => exact onError_rel T o e hR3
          | foreign e => exact step_done _ hR3
        · exact step_done _ hR3
      · simp only [ha3, hb3]; exact step_done _ hR3
      · simp only [ha3, hb3]; exact onError_rel T o _ hR3
      · rcases hb3 with hb3 | hb3 <;> simp only [ha3, hb3]
        · exact step_div_stop _ hD
        · exact step_div_err T o _ _ hD
    · simp only [ha2, hb2]; exact step_done _ hR2
    · simp only [ha2, hb2]; exact onError_rel T o _ hR2
    · rcases hb2 with hb2 | hb2 <;> simp only [ha2, hb2]
      · exact step_div_stop _ hD
      · exact step_div_err T o _ _ hD
  · simp only [ha, hb]; exact step_done _ hR1
  · simp only [ha, hb]; exact onError_rel T o _ hR1
  · rcases hb with hb | hb <;> simp only [ha, hb]
    · exact step_div_stop _ hD
    · exact step_div_err T o _ _ hD

theorem parseUbx_rel (sim : TailSim ops₁ ops₂ R Dead) (T : Tables) (o : Opts)
    (s₁ : σ₁) (s₂ : σ₂) (hR : R s₁ s₂) :
    StepRel R Dead (parseUbx ops₁ T o s₁) (parseUbx ops₂ T o s₂) := by
  unfold parseUbx
  rcases readBytes_rel sim s₁ s₂ 4 hR with ⟨b, t₁, t₂, ha, hb, hR1⟩ | ⟨t₁, t₂, ha, hb, hR1⟩ | ⟨t₁, t₂, ha, hb, hR1⟩ | ⟨t₁, t₂, ha, hb, hD⟩
  · simp only [ha, hb]
    rcases readBytes_rel sim t₁ t₂ ((b.getD 2 0).toNat + 256 * (b.getD 3 0).toNat + 2) hR1 with
      ⟨pl, u₁, u₂, ha2, hb2, hR2⟩ | ⟨u₁, u₂, ha2, hb2, hR2⟩ | ⟨u₁, u₂, ha2, hb2, hR2⟩ | ⟨u₁, u₂, ha2, hb2, hD⟩
    · simp only [ha2, hb2]; exact step_again _ hR2
    · simp only [ha2, hb2]; exact step_done _ hR2
    · simp only [ha2, hb2]; exact onError_rel T o _ hR2
    · rcases hb2 with hb2 | hb2 <;> simp only [ha2, hb2]
      · exact step_div_stop _ hD
      · exact step_div_err T o _ _ hD
  · simp only [ha, hb]; exact step_done _ hR1
  · simp only [ha, hb]; exact onError_rel T o _ hR1
  · rcases hb with hb | hb <;> simp only [ha, hb]
    · exact step_div_stop _ hD
    · exact step_div_err T o _ _ hD

theorem parseNmea_rel (sim : TailSim ops₁ ops₂ R Dead) (T : Tables) (o : Opts)
    (s₁ : σ₁) (s₂ : σ₂) (hR : R s₁ s₂) :
    StepRel R Dead (parseNmea ops₁ T o s₁) (parseNmea ops₂ T o s₂) := by
  unfold parseNmea
  rcases readLine_rel sim s₁ s₂ hR with ⟨b, t₁, t₂, ha, hb, hR1⟩ | ⟨t₁, t₂, ha, hb, hR1⟩ | ⟨t₁, t₂, ha, hb, hR1⟩ | ⟨t₁, t₂, ha, hb, hD⟩
  · simp only [ha, hb]; exact step_again _ hR1
  · simp only [ha, hb]; exact step_done _ hR1
  · simp only [ha, hb]; exact onError_rel T o _ hR1
  · rcases hb with hb | hb <;> simp only [ha, hb]
    · exact step_div_stop _ hD
    · exact step_div_err T o _ _ hD

theorem iter_rel (sim : TailSim ops₁ ops₂ R Dead) (T : Tables) (o : Opts)
    (s₁ : σ₁) (s₂ : σ₂) (hR : R s₁ s₂) :
    StepRel R Dead (iter ops₁ T o s₁) (iter ops₂ T o s₂) := by
  unfold iter
  rcases readBytes_rel sim s₁ s₂ 1 hR with ⟨d1, t₁, t₂, ha, hb, hR1⟩ | ⟨t₁, t₂, ha, hb, hR1⟩ | ⟨t₁, t₂, ha, hb, hR1⟩ | ⟨t₁, t₂, ha, hb, hD⟩
  · simp only [ha, hb]
    split
    · exact step_again _ hR1
    · rcases readBytes_rel sim t₁ t₂ 1 hR1 with
        ⟨d2, u₁, u₂, ha2, hb2, hR2⟩ | ⟨u₁, u₂, ha2, hb2, hR2⟩ | ⟨u₁, u₂, ha2, hb2, hR2⟩ | ⟨u₁, u₂, ha2, hb2, hD⟩
      · simp only [ha2, hb2]
        split
        · exact parseUbx_rel sim T o _ _ hR2
        · split
          · exact parseNmea_rel sim T o _ _ hR2
          · split
            · exact parseRtcm3_rel sim T o _ _ _ _ hR2
            · exact onError_rel T o _ hR2
      · simp only [ha2, hb2]; exact step_done _ hR2
      · simp only [ha2, hb2]; exact onError_rel T o _ hR2
      · rcases hb2 with hb2 | hb2 <;> simp only [ha2, hb2]
        · exact step_div_stop _ hD
        · exact step_div_err T o _ _ hD
  · simp only [ha, hb]; exact step_done _ hR1
  · simp only [ha, hb]; exact onError_rel T o _ hR1
  · rcases hb with hb | hb <;> simp only [ha, hb]
    · exact step_div_stop _ hD
    · exact step_div_err T o _ _ hD


/-- a dead stream ends the iteration at once -/
theorem iter_dead (sim : TailSim ops₁ ops₂ R Dead) (T : Tables) (o : Opts) (s₂ : σ₂) (hD : Dead s₂) :
    iter ops₂ T o s₂ = .done [.stop] (ops₂.read s₂ 1).2 := by
  have h := sim.dead_read s₂ 1 hD
  unfold iter readBytes
  simp [h.1]

theorem readOne_dead (sim : TailSim ops₁ ops₂ R Dead) (T : Tables) (o : Opts) (s₂ : σ₂) (hD : Dead s₂) :
    readOne ops₂ T o s₂ = ([.stop], (ops₂.read s₂ 1).2) := by
  rw [readOne, iter_dead sim T o s₂ hD]

theorem run_dead (sim : TailSim ops₁ ops₂ R Dead) (T : Tables) (o : Opts) (resume : Bool) (s₂ : σ₂) (hD : Dead s₂) :
    run ops₂ T o resume s₂ = [.stop] := by
  rw [run_unfold, readOne_dead sim T o s₂ hD]
  simp [lastIsFrame, lastIsRaised]

theorem lastIs_append_stop (l : List Event) : lastIsFrame (l ++ [.stop]) = false ∧ lastIsRaised (l ++ [.stop]) = false := by
  induction l with
  | nil => simp [lastIsFrame, lastIsRaised]
  | cons a t ih =>
    cases t with
    | nil => simpa [lastIsFrame, lastIsRaised] using ih
    | cons b t' => simpa [lastIsFrame, lastIsRaised] using ih

theorem lastIs_getLast (l : List Event) (h : lastIsFrame l = true ∨ lastIsRaised l = true) : l.getLast? ≠ some .stop := by
  intro hs
  have : ∃ l', l = l' ++ [.stop] := by
    rcases List.eq_nil_or_concat l with h0 | ⟨l', x, hx⟩
    · subst h0; simp at hs
    · subst hx; simp at hs; subst hs; exact ⟨l', by simp⟩
  obtain ⟨l', rfl⟩ := this
  have := lastIs_append_stop l'
  rcases h with h | h <;> simp [this] at h

/-- one `read()` over the two streams: the same events and related streams again — or the first
    stream ended (`stop`, no frame) while the second produced no frame either and is now dead -/
theorem readOne_rel (sim : TailSim ops₁ ops₂ R Dead) (L₁ : Lawful ops₁) (L₂ : Lawful ops₂)
    (T : Tables) (o : Opts) (s₁ : σ₁) :
    ∀ (s₂ : σ₂), R s₁ s₂ →
      ((readOne ops₁ T o s₁).1 = (readOne ops₂ T o s₂).1 ∧ R (readOne ops₁ T o s₁).2 (readOne ops₂ T o s₂).2)
      ∨ ((∃ evs, (readOne ops₁ T o s₁).1 = evs ++ [.stop] ∧ frames evs = [])
          ∧ frames (readOne ops₂ T o s₂).1 = [] ∧ Dead (readOne ops₂ T o s₂).2) := by
  fun_induction readOne ops₁ T o s₁ with
  | case1 s₁ evs s' h =>
    intro s₂ hR
    have hrel := iter_rel sim T o s₁ s₂ hR
    rw [h] at hrel
    rcases hrel with ⟨e, t₁, t₂, ha, hb, hR'⟩ | ⟨e, t₁, t₂, ha, hb, hR'⟩ | ⟨t₁, ha, hf, hD⟩
    · simp at ha
    · injection ha with he hs
      subst he hs
      left
      rw [readOne, hb]
      exact ⟨rfl, hR'⟩
    · injection ha with he hs
      subst he hs
      right
      refine ⟨⟨[], rfl, rfl⟩, ?_⟩
      rw [readOne]
      cases hb : iter ops₂ T o s₂ with
      | done evs₂ t₂ =>
        rw [hb] at hf hD
        exact ⟨hf, hD⟩
      | again evs₂ t₂ =>
        rw [hb] at hf hD
        simp only [Step.events, Step.state] at hf hD
        have hp := iter_progress L₂ T o s₂
        rw [hb] at hp
        have hlt : lexLt (ops₂.size t₂) (ops₂.size s₂) = true := by
          rcases hp with ⟨⟨x, hx⟩, _⟩ | hp
          · simp at hx
          · exact hp
        simp only [hlt, if_true]
        rw [readOne_dead sim T o t₂ hD]
        exact ⟨by simp [frames_append, hf, frames], (sim.dead_read t₂ 1 hD).2⟩
  | case2 s₁ evs s' h hlt r ih =>
    intro s₂ hR
    have hrel := iter_rel sim T o s₁ s₂ hR
    rw [h] at hrel
    have hsh := iter_shape ops₁ T o s₁
    rw [h] at hsh
    have hnof : frames evs = [] := by
      rcases hsh with hs | ⟨raw, p, s'', hs⟩
      · simpa [Step.events] using hs
      · simp at hs
    rcases hrel with ⟨e, t₁, t₂, ha, hb, hR'⟩ | ⟨e, t₁, t₂, ha, hb, hR'⟩ | ⟨t₁, ha, hf, hD⟩
    · injection ha with he hs
      subst he hs
      have hp := iter_progress L₂ T o s₂
      rw [hb] at hp
      have hlt2 : lexLt (ops₂.size t₂) (ops₂.size s₂) = true := by
        rcases hp with ⟨⟨x, hx⟩, _⟩ | hp
        · simp at hx
        · exact hp
      have e2 : readOne ops₂ T o s₂ = (evs ++ (readOne ops₂ T o t₂).1, (readOne ops₂ T o t₂).2) := by
        rw [readOne, hb]; simp only [hlt2, if_true]
      rw [e2]
      rcases ih t₂ hR' with ⟨i1, i2⟩ | ⟨⟨ev', i1, i2⟩, i3, i4⟩
      · left; exact ⟨by simp only [r]; rw [i1], i2⟩
      · right
        refine ⟨⟨evs ++ ev', by simp only [r]; rw [i1, List.append_assoc], by simp [frames_append, hnof, i2]⟩, ?_, i4⟩
        simp [frames_append, hnof, i3]
    · simp at ha
    · simp at ha
  | case3 s₁ evs s' h hnlt =>
    intro s₂ hR
    exfalso
    have hp := iter_progress L₁ T o s₁
    rw [h] at hp
    rcases hp with ⟨⟨x, hx⟩, _⟩ | hp
    · simp at hx
    · exact hnlt hp

/-- **Same frames over both streams.** -/
theorem run_frames_eq (sim : TailSim ops₁ ops₂ R Dead) (L₁ : Lawful ops₁) (L₂ : Lawful ops₂)
    (T : Tables) (o : Opts) (resume : Bool) (s₁ : σ₁) :
    ∀ (s₂ : σ₂), R s₁ s₂ → frames (run ops₁ T o resume s₁) = frames (run ops₂ T o resume s₂) := by
  fun_induction run ops₁ T o resume s₁ with
  | case1 s₁ r hc hlt ih =>
    intro s₂ hR
    rcases readOne_rel sim L₁ L₂ T o s₁ s₂ hR with ⟨e1, hR'⟩ | ⟨⟨evs, e1, _⟩, _, _⟩
    · have hc2 : (lastIsFrame (readOne ops₂ T o s₂).1 || (resume && lastIsRaised (readOne ops₂ T o s₂).1)) = true := by
        rw [← e1]; exact hc
      have hl2 : lexLt (ops₂.size (readOne ops₂ T o s₂).2) (ops₂.size s₂) = true := by
        apply (readOne_lawful L₂ T o s₂).2.2
        apply lastIs_getLast
        simp only [Bool.or_eq_true, Bool.and_eq_true] at hc2
        rcases hc2 with h | ⟨_, h⟩
        · exact Or.inl h
        · exact Or.inr h
      rw [run_unfold ops₂, if_pos hc2, if_pos hl2, frames_append, frames_append, ih _ hR']
      simp only [r]; rw [e1]
    · exfalso
      have := lastIs_append_stop evs
      have e1' : r.1 = evs ++ [.stop] := e1
      rw [e1'] at hc
      simp [this] at hc
  | case2 s₁ r hc hnlt =>
    intro s₂ hR
    exfalso
    apply hnlt
    apply (readOne_lawful L₁ T o s₁).2.2
    apply lastIs_getLast
    simp only [Bool.or_eq_true, Bool.and_eq_true] at hc
    rcases hc with h | ⟨_, h⟩
    · exact Or.inl h
    · exact Or.inr h
  | case3 s₁ r hc =>
    intro s₂ hR
    rcases readOne_rel sim L₁ L₂ T o s₁ s₂ hR with ⟨e1, hR'⟩ | ⟨⟨evs, e1, hnf⟩, hf2, hD⟩
    · have hc2 : ¬ (lastIsFrame (readOne ops₂ T o s₂).1 || (resume && lastIsRaised (readOne ops₂ T o s₂).1)) = true := by
        rw [← e1]; exact hc
      rw [run_unfold ops₂, if_neg hc2]
      simp only [r]; rw [e1]
    · have e1' : r.1 = evs ++ [.stop] := e1
      rw [e1', frames_append, hnf]
      rw [run_unfold ops₂]
      split
      · split
        · rw [frames_append, hf2, run_dead sim T o resume _ hD]
        · rw [frames_append, hf2]; rfl
      · rw [hf2]; rfl

end
end Rtcm
