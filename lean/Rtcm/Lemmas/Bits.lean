import Rtcm.Model.Decode
/-
  The shift-and-mask of the decoder is a big-endian bit slice of the payload.
-/
namespace Rtcm

/-- big-endian value of a bit string -/
def ofBitsBE : List Bool → Nat
  | [] => 0
  | b :: rest => (if b then 2 ^ rest.length else 0) + ofBitsBE rest

/-- the payload as a bit string, most significant bit of the first byte first -/
def Payload.bits (p : Payload) : List Bool :=
  (List.range p.blen).map fun i => p.val.testBit (p.blen - 1 - i)

theorem ofBitsBE_lt (bs : List Bool) : ofBitsBE bs < 2 ^ bs.length := by
  induction bs with
  | nil => simp [ofBitsBE]
  | cons b rest ih =>
    simp only [ofBitsBE, List.length_cons, Nat.pow_succ]
    split <;> omega

theorem ofBitsBE_testBit (bs : List Bool) (j : Nat) :
    (ofBitsBE bs).testBit j = (if h : j < bs.length then bs[bs.length - 1 - j] else false) := by
  induction bs with
  | nil => simp [ofBitsBE]
  | cons b rest ih =>
    simp only [ofBitsBE, List.length_cons]
    have hlt := ofBitsBE_lt rest
    by_cases hj : j < rest.length
    · -- below the new top bit
      have e : (if b = true then 2 ^ rest.length else 0) + ofBitsBE rest
          = 2 ^ rest.length * (if b = true then 1 else 0) + ofBitsBE rest := by
        split <;> simp
      rw [e, Nat.testBit_two_pow_mul_add _ hlt, if_pos hj, ih, dif_pos hj, dif_pos (by omega)]
      rw [List.getElem_cons, dif_neg (by omega)]
      congr 1
      omega
    · by_cases hj' : j = rest.length
      · subst hj'
        rw [dif_pos (by omega)]
        have e : (if b = true then 2 ^ rest.length else 0) + ofBitsBE rest
            = 2 ^ rest.length * (if b = true then 1 else 0) + ofBitsBE rest := by
          split <;> simp
        rw [e, Nat.testBit_two_pow_mul_add _ hlt, if_neg (by omega)]
        simp
        cases b <;> simp
      · rw [dif_neg (by omega)]
        apply Nat.testBit_lt_two_pow
        have : (if b = true then 2 ^ rest.length else 0) + ofBitsBE rest < 2 ^ (rest.length + 1) := by
          rw [Nat.pow_succ]; split <;> omega
        exact Nat.lt_of_lt_of_le this (Nat.pow_le_pow_right (by omega) (by omega))

/-- **bit extraction is slicing**: when the field lies inside the payload, the extracted number is
    the big-endian value of the `w` bits that start at bit offset `off` -/
theorem extract_slice (p : Payload) (off w : Nat) (h : off + w ≤ p.blen) :
    extract p off w = some (ofBitsBE ((p.bits.drop off).take w)) := by
  unfold extract
  rw [if_pos h]
  congr 1
  apply Nat.eq_of_testBit_eq
  intro j
  rw [Nat.testBit_mod_two_pow, Nat.testBit_shiftRight, ofBitsBE_testBit]
  have hlen : ((p.bits.drop off).take w).length = w := by
    simp [Payload.bits]; omega
  by_cases hj : j < w
  · rw [dif_pos (by omega)]
    simp only [hj, decide_true, Bool.true_and, hlen]
    simp only [Payload.bits, List.getElem_take, List.getElem_drop, List.getElem_map, List.getElem_range]
    congr 1
    omega
  · rw [dif_neg (by omega)]
    simp [hj]

/-- a field read past the end is refused -/
theorem extract_none (p : Payload) (off w : Nat) (h : p.blen < off + w) : extract p off w = none := by
  unfold extract
  rw [if_neg (by omega)]

/-! ### reading the bits according to the data type -/

theorem interp_unsigned (f : FieldSpec) (w bits : Nat)
    (h : f.ty = .uint ∨ f.ty = .bit ∨ f.ty = .bitx) (hr : f.res = .none) : interp f w bits = .int bits := by
  rcases h with h | h | h <;> simp [interp, h, hr]

theorem interp_unsigned_scaled (f : FieldSpec) (w bits : Nat)
    (h : f.ty = .uint ∨ f.ty = .bit ∨ f.ty = .bitx) (hr : f.res ≠ .none) :
    interp f w bits = .scaled bits f.res := by
  rcases h with h | h | h <;> (cases hres : f.res <;> simp_all [interp])

/-- two's complement: the top bit has weight `-2^(w-1)` -/
theorem interp_twos_complement (f : FieldSpec) (w bits : Nat) (h : f.ty = .int) (hr : f.res = .none)
    (hw : 0 < w) (hb : bits < 2 ^ w) :
    interp f w bits = .int ((bits % 2 ^ (w - 1) : Nat) - (if bits.testBit (w - 1) then (2 ^ (w - 1) : Nat) else 0 : Int)) := by
  simp only [interp, h, hr]
  have hp : 2 ^ w = 2 * 2 ^ (w - 1) := by
    rw [← Nat.pow_succ']; congr 1; omega
  rw [Nat.testBit_eq_decide_div_mod_eq]
  have hmpos : 0 < 2 ^ (w - 1) := Nat.two_pow_pos _
  have hq : bits / 2 ^ (w - 1) < 2 := by
    apply Nat.div_lt_of_lt_mul; rw [Nat.mul_comm]; omega
  have hdm := Nat.div_add_mod bits (2 ^ (w - 1))
  have hmod := Nat.mod_lt bits hmpos
  rw [hp]
  generalize 2 ^ (w - 1) = m at *
  generalize bits / m = q at *
  generalize bits % m = r at *
  have hq01 : q = 0 ∨ q = 1 := by omega
  rcases hq01 with rfl | rfl
  · simp at hdm ⊢; omega
  · simp at hdm ⊢; omega

/-- sign-magnitude: the top bit is the sign, the rest the magnitude -/
theorem interp_sign_magnitude (f : FieldSpec) (w bits : Nat) (h : f.ty = .snt) (hr : f.res = .none)
    (hb : bits < 2 ^ w) (hw : 0 < w) :
    interp f w bits = .int (if bits.testBit (w - 1) then -((bits % 2 ^ (w - 1) : Nat) : Int) else (bits % 2 ^ (w - 1) : Nat)) := by
  simp only [interp, h, hr]
  have hbit : bits.testBit (w - 1) = decide (bits / 2 ^ (w - 1) % 2 = 1) := Nat.testBit_eq_decide_div_mod_eq
  by_cases hm : bits / 2 ^ (w - 1) % 2 = 1 <;> simp [hm, hbit]

theorem interp_char (f : FieldSpec) (w bits : Nat) (h : f.ty = .cha) : interp f w bits = .text [bits] := by
  simp [interp, h]

theorem interp_str (f : FieldSpec) (w bits : Nat) (h : f.ty = .str) :
    interp f w bits = .text (if bits = 0 then [] else [bits]) := by
  simp [interp, h]

end Rtcm
