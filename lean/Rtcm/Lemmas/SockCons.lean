import Rtcm.Lemmas.ReaderCons
import Rtcm.Lemmas.ReaderSim
import Rtcm.Lemmas.SockLawful
/-
  The socket wrapper without transfer encoding is a conservative stream for *every* receive
  schedule (timeouts, OS errors, close, any segmentation, any buffer size); hence everything proved
  about the reader over conservative streams (contiguous slices, well-formed frames) holds over it.
-/
namespace Rtcm

theorem fileOps_conserv : Conserv fileOps (fun s => s.data) where
  read := fun s n => fread_split s n
  read_le := fun s n => fread_len_le s n
  readline := fun s => freadline_split s

/-- `readline()` conserves the stream for every schedule -/
theorem readlineAux_spec (dec : Bytes → Bytes) (s : Sock) (line : Bytes) (hc : s.chunked = false) :
    (Sock.readlineAux dec s line).1 ++ (Sock.readlineAux dec s line).2.remaining = line ++ s.remaining
    ∧ (Sock.readlineAux dec s line).2.chunked = false := by
  fun_induction Sock.readlineAux dec s line with
  | case1 s line b s' hr hb =>
    have h := read_spec dec s 1 hc
    rw [hr] at h
    exact ⟨by simp only [List.append_assoc]; rw [h.1], h.2.2.1⟩
  | case2 s line b s' hr hb hlt ih =>
    have h := read_spec dec s 1 hc
    rw [hr] at h
    obtain ⟨i1, i2⟩ := ih h.2.2.1
    exact ⟨by rw [i1, List.append_assoc, h.1], i2⟩
  | case3 s line b s' hr hb hnlt =>
    have h := read_spec dec s 1 hc
    rw [hr] at h
    exact ⟨by simp only [List.append_assoc]; rw [h.1], h.2.2.1⟩
  | case4 s line r s' hx hr =>
    have h := read_spec dec s 1 hc
    rw [hr] at h
    rcases h.2.1 with hl | ⟨hnil, _, _⟩
    · exfalso
      simp only at hl
      match r, hl with
      | [b], _ => exact hx b rfl
    · simp only at hnil
      subst hnil
      exact ⟨by rw [← h.1]; simp, h.2.2.1⟩

theorem readline_spec (dec : Bytes → Bytes) (s : Sock) (hc : s.chunked = false) :
    (Sock.readline dec s).1 ++ (Sock.readline dec s).2.remaining = s.remaining
    ∧ (Sock.readline dec s).2.chunked = false := by
  have := readlineAux_spec dec s [] hc
  simpa [Sock.readline] using this

/-- socket wrappers without transfer encoding -/
def USock := { s : Sock // s.chunked = false }

def usockOps (dec : Bytes → Bytes) : StreamOps USock where
  read := fun s n => ((Sock.read dec s.1 n).1, ⟨(Sock.read dec s.1 n).2, (read_spec dec s.1 n s.2).2.2.1⟩)
  readline := fun s => ((Sock.readline dec s.1).1, ⟨(Sock.readline dec s.1).2, (readline_spec dec s.1 s.2).2⟩)
  size := fun s => s.1.size

theorem usockOps_conserv (dec : Bytes → Bytes) : Conserv (usockOps dec) (fun s => s.1.remaining) where
  read := fun s n => ((read_spec dec s.1 n s.2).1).symm
  read_le := fun s n => by
    rcases (read_spec dec s.1 n s.2).2.1 with h | ⟨h, _⟩
    · exact Nat.le_of_eq h
    · simp [usockOps, h]
  readline := fun s => ((readline_spec dec s.1 s.2).1).symm

theorem usockOps_lawful (dec : Bytes → Bytes) : Lawful (usockOps dec) where
  read_le := fun s n => (sockOps_lawful dec).read_le s.1 n
  read_lt := fun s n h => (sockOps_lawful dec).read_lt s.1 n h
  readline_le := fun s => (sockOps_lawful dec).readline_le s.1

theorem usock_sim (dec : Bytes → Bytes) :
    TailSim (usockOps dec) (sockOps dec) (fun u s => u.1 = s) (fun _ => False) where
  read := fun u s n h => by subst h; exact Or.inl ⟨rfl, rfl⟩
  readline := fun u s h => by subst h; exact ⟨rfl, rfl⟩
  dead_read := fun _ _ h => h.elim

/-- **The reader over a socket with any receive schedule**: the returned raw frames are
    non-overlapping contiguous slices, in order, of the bytes the connection still had to deliver,
    and every one is well-formed (and parsed from exactly those bytes when parsing is on). -/
theorem run_sock (dec : Bytes → Bytes) (T : Tables) (o : Opts) (resume : Bool) (s : Sock) (hc : s.chunked = false) :
    Sliced s.remaining ((frames (run (sockOps dec) T o resume s)).map (·.1))
    ∧ ∀ rp ∈ frames (run (sockOps dec) T o resume s), FrameOK T o rp.1 rp.2 := by
  have he := run_frames_eq (usock_sim dec) (usockOps_lawful dec) (sockOps_lawful dec) T o resume ⟨s, hc⟩ s rfl
  rw [← he]
  exact run_cons (usockOps_conserv dec) T o resume ⟨s, hc⟩

end Rtcm
