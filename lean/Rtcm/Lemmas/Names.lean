import Rtcm.Model.Names
/-
  Decimal rendering and parsing, `str.split("_")` on generated attribute names.
-/
namespace Rtcm

def isDigitC (c : Nat) : Bool := decide (48 ≤ c) && decide (c ≤ 57)

def allDigits (l : Label) : Bool := l.all isDigitC

def valD (l : Label) : Nat := l.foldl (fun a c => a * 10 + (c - 48)) 0

theorem foldlD_acc (l : Label) (acc : Nat) :
    l.foldl (fun a c => a * 10 + (c - 48)) acc = acc * 10 ^ l.length + valD l := by
  induction l generalizing acc with
  | nil => simp [valD]
  | cons c rest ih =>
    simp only [List.foldl_cons, valD, List.length_cons]
    rw [ih, ih (0 * 10 + (c - 48))]
    simp only [Nat.zero_mul, Nat.zero_add, Nat.pow_succ, Nat.add_mul]
    rw [Nat.mul_assoc, Nat.mul_comm 10, Nat.add_assoc]

theorem valD_cons (c : Nat) (l : Label) : valD (c :: l) = (c - 48) * 10 ^ l.length + valD l := by
  have := foldlD_acc l (0 * 10 + (c - 48))
  simpa [valD] using this

theorem digitsVal_eq (l : Label) (acc : Nat) (h : allDigits l = true) :
    digitsVal l acc = some (acc * 10 ^ l.length + valD l) := by
  induction l generalizing acc with
  | nil => simp [digitsVal, valD]
  | cons c rest ih =>
    simp only [allDigits, List.all_cons, Bool.and_eq_true] at h
    have hc : 48 ≤ c ∧ c ≤ 57 := by simpa [isDigitC] using h.1
    simp only [digitsVal, if_pos hc]
    rw [ih _ (by simpa [allDigits] using h.2), valD_cons]
    simp only [List.length_cons, Nat.pow_succ, Nat.add_mul]
    rw [Nat.mul_assoc, Nat.mul_comm 10, Nat.add_assoc]

theorem digitsAux_spec (fuel : Nat) : ∀ (n : Nat) (acc : Label), n < fuel → allDigits acc = true →
    allDigits (digitsAux fuel n acc) = true
    ∧ valD (digitsAux fuel n acc) = n * 10 ^ acc.length + valD acc
    ∧ acc.length < (digitsAux fuel n acc).length := by
  induction fuel with
  | zero => intro n acc hn; omega
  | succ fuel ih =>
    intro n acc hn hacc
    simp only [digitsAux]
    by_cases h10 : n < 10
    · rw [if_pos h10]
      refine ⟨?_, ?_, by simp⟩
      · simp only [allDigits, List.all_cons, Bool.and_eq_true]
        exact ⟨by simp [isDigitC]; omega, by simpa [allDigits] using hacc⟩
      · rw [valD_cons]; congr 2; omega
    · rw [if_neg h10]
      have hacc' : allDigits ((48 + n % 10) :: acc) = true := by
        simp only [allDigits, List.all_cons, Bool.and_eq_true]
        exact ⟨by simp [isDigitC]; omega, by simpa [allDigits] using hacc⟩
      obtain ⟨h1, h2, h3⟩ := ih (n / 10) ((48 + n % 10) :: acc) (by omega) hacc'
      refine ⟨h1, ?_, by simp at h3; omega⟩
      rw [h2, valD_cons]
      simp only [List.length_cons, Nat.pow_succ]
      have e : 48 + n % 10 - 48 = n % 10 := by omega
      rw [e, ← Nat.add_assoc]
      have hn := Nat.div_add_mod n 10
      have : n * 10 ^ acc.length = n / 10 * (10 ^ acc.length * 10) + n % 10 * 10 ^ acc.length := by
        conv => lhs; rw [← hn]
        rw [Nat.add_mul, Nat.mul_comm 10 (n / 10), Nat.mul_assoc, Nat.mul_comm 10 (10 ^ acc.length)]
      omega

theorem strNat_spec (n : Nat) : allDigits (strNat n) = true ∧ valD (strNat n) = n ∧ 0 < (strNat n).length := by
  obtain ⟨h1, h2, h3⟩ := digitsAux_spec (n + 1) n [] (by omega) rfl
  exact ⟨h1, by simpa [valD, strNat] using h2, by simpa [strNat] using h3⟩

theorem allDigits_append (a b : Label) : allDigits (a ++ b) = (allDigits a && allDigits b) := by
  simp [allDigits]

theorem valD_append (a b : Label) : valD (a ++ b) = valD a * 10 ^ b.length + valD b := by
  unfold valD
  rw [List.foldl_append, foldlD_acc]
  rfl

theorem replicate_zero_digits (k : Nat) : allDigits (List.replicate k 48) = true ∧ valD (List.replicate k 48) = 0 := by
  induction k with
  | zero => simp [allDigits, valD]
  | succ k ih =>
    simp only [List.replicate_succ, allDigits, List.all_cons, valD_cons]
    refine ⟨by simpa [allDigits, isDigitC] using ih.1, by simp [ih.2]⟩

theorem pad2_spec (n : Nat) : allDigits (pad2 n) = true ∧ valD (pad2 n) = n ∧ 2 ≤ (pad2 n).length := by
  obtain ⟨h1, h2, h3⟩ := strNat_spec n
  obtain ⟨z1, z2⟩ := replicate_zero_digits (2 - (strNat n).length)
  refine ⟨by simp [pad2, allDigits_append, h1, z1], by simp [pad2, valD_append, h2, z2], ?_⟩
  simp [pad2]; omega

theorem pad3_spec (n : Nat) : allDigits (pad3 n) = true ∧ valD (pad3 n) = n ∧ 3 ≤ (pad3 n).length := by
  obtain ⟨h1, h2, h3⟩ := strNat_spec n
  obtain ⟨z1, z2⟩ := replicate_zero_digits (3 - (strNat n).length)
  refine ⟨by simp [pad3, allDigits_append, h1, z1], by simp [pad3, valD_append, h2, z2], ?_⟩
  simp [pad3]; omega

/-! ### `int()` of a digit string -/

theorem digit_not_space (c : Nat) (h : isDigitC c = true) : isSpaceC c = false := by
  simp [isDigitC] at h
  simp [isSpaceC]; omega

theorem dropWhile_space_digits (l : Label) (h : allDigits l = true) : l.dropWhile isSpaceC = l := by
  cases l with
  | nil => rfl
  | cons c rest =>
    simp only [allDigits, List.all_cons, Bool.and_eq_true] at h
    simp [List.dropWhile, digit_not_space c h.1]

theorem allDigits_reverse (l : Label) : allDigits l.reverse = allDigits l := by
  simp [allDigits]

theorem parseInt_digits (l : Label) (h : allDigits l = true) (hne : l ≠ []) : parseInt l = some (valD l : Int) := by
  unfold parseInt
  have e : ((l.dropWhile isSpaceC).reverse.dropWhile isSpaceC).reverse = l := by
    rw [dropWhile_space_digits l h, dropWhile_space_digits l.reverse (by rw [allDigits_reverse]; exact h),
      List.reverse_reverse]
  simp only [e]
  match l, h, hne with
  | c :: rest, h, _ =>
    have hc : 48 ≤ c ∧ c ≤ 57 := by
      simp only [allDigits, List.all_cons, Bool.and_eq_true] at h
      simpa [isDigitC] using h.1
    have h45 : c ≠ 45 := by omega
    have h43 : c ≠ 43 := by omega
    have := digitsVal_eq (c :: rest) 0 h
    simp [h45, h43, this]

/-! ### `str.split("_")` -/

def noUnderscore (l : Label) : Bool := !l.contains 95

theorem splitUnderscore_ne_nil (l : Label) : splitUnderscore l ≠ [] := by
  induction l with
  | nil => simp [splitUnderscore]
  | cons c rest ih =>
    simp only [splitUnderscore]
    split
    · simp
    · split <;> simp

theorem splitUnderscore_noU (l : Label) (h : noUnderscore l = true) : splitUnderscore l = [l] := by
  induction l with
  | nil => rfl
  | cons c rest ih =>
    simp only [noUnderscore, List.contains_cons, Bool.not_eq_true', Bool.or_eq_false_iff] at h
    have hr : noUnderscore rest = true := by simpa [noUnderscore] using h.2
    simp only [splitUnderscore, ih hr]
    have : c ≠ 95 := by
      intro hc; subst hc; simp at h
    simp [this]

theorem splitUnderscore_append (a b : Label) (h : noUnderscore a = true) :
    splitUnderscore (a ++ 95 :: b) = a :: splitUnderscore b := by
  induction a with
  | nil =>
    simp only [List.nil_append, splitUnderscore]
    cases hb : splitUnderscore b with
    | nil => exact absurd hb (splitUnderscore_ne_nil b)
    | cons w ws => simp
  | cons c rest ih =>
    simp only [noUnderscore, List.contains_cons, Bool.not_eq_true', Bool.or_eq_false_iff] at h
    have hr : noUnderscore rest = true := by simpa [noUnderscore] using h.2
    have hc : c ≠ 95 := by
      intro hc; subst hc; simp at h
    simp only [List.cons_append, splitUnderscore, ih hr, hc, if_false]

theorem digits_noUnderscore (l : Label) (h : allDigits l = true) : noUnderscore l = true := by
  induction l with
  | nil => rfl
  | cons c rest ih =>
    simp only [allDigits, List.all_cons, Bool.and_eq_true] at h
    have hc : 48 ≤ c ∧ c ≤ 57 := by simpa [isDigitC] using h.1
    have := ih (by simpa [allDigits] using h.2)
    simp only [noUnderscore, List.contains_cons, Bool.not_eq_true', Bool.or_eq_false_iff] at this ⊢
    refine ⟨?_, by simpa [noUnderscore] using this⟩
    simp; omega

/-- splitting a generated name gives the field name and the padded indices -/
theorem split_renderName (name : Label) (idx : List Nat) (h : noUnderscore name = true) :
    splitUnderscore (renderName name idx) = name :: idx.map pad2 := by
  unfold renderName
  induction idx generalizing name with
  | nil => simp [splitUnderscore_noU name h]
  | cons i rest ih =>
    simp only [List.map_cons, List.flatten_cons]
    rw [List.cons_append, splitUnderscore_append name _ h]
    congr 1
    have := ih (pad2 i) (digits_noUnderscore _ (pad2_spec i).1)
    simpa using this

end Rtcm
