import Rtcm.Lemmas.SockExact
import Rtcm.Lemmas.Chunk
/-
  A fault-free chunked connection carrying a well-formed chunked body is an exact connection for
  the concatenation of the decoded chunk bodies: what `read()` *delivers* — not just what
  accumulates in the buffer — is that byte string, for every segmentation and buffer size.
-/
namespace Rtcm

theorem peerRecv_faultfree (sched : List Recv) (bufsize : Nat) (hff : FaultFree sched) (hb : 0 < bufsize) :
    FaultFree (peerRecv sched bufsize).2
    ∧ ((sched = [] ∧ (peerRecv sched bufsize).1 = some [] ∧ (peerRecv sched bufsize).2 = [])
       ∨ ∃ d, d ≠ [] ∧ (peerRecv sched bufsize).1 = some d ∧ pendingData sched = d ++ pendingData (peerRecv sched bufsize).2) := by
  cases sched with
  | nil => exact ⟨by simp [peerRecv, FaultFree], Or.inl ⟨rfl, rfl, rfl⟩⟩
  | cons r rest =>
    obtain ⟨bs, hr, hne⟩ := hff r (by simp)
    subst hr
    have hrest : FaultFree rest := fun x hx => hff x (by simp [hx])
    simp only [peerRecv]
    by_cases hle : bs.length ≤ bufsize
    · simp only [hle, if_true]
      exact ⟨hrest, Or.inr ⟨bs, hne, rfl, by simp [pendingData]⟩⟩
    · simp only [hle, if_false]
      have htake : List.take bufsize bs ≠ [] := by
        intro ht
        rcases List.take_eq_nil_iff.mp ht with h0 | h0
        · omega
        · exact hne h0
      refine ⟨?_, Or.inr ⟨bs.take bufsize, htake, rfl, by simp [pendingData, ← List.append_assoc]⟩⟩
      intro x hx
      simp at hx
      rcases hx with hx | hx
      · refine ⟨_, hx, ?_⟩
        intro hd
        have := congrArg List.length hd
        simp [List.length_drop] at this
        omega
      · exact hrest x hx

/-- nothing is left undecoded when the partial chunk is the whole rest of the body -/
theorem tail_complete (part : Bytes) (todo : List (Bytes × Bytes)) (ht : TailOK part todo) (h : part = body todo) :
    todo = [] := by
  cases todo with
  | nil => rfl
  | cons hc rest =>
    exfalso
    rw [body_cons] at h
    rcases ht with h0 | ⟨hc', rest', sfx, h1, h2, h3⟩
    · subst h0
      exact encChunk_ne_nil hc (List.append_eq_nil_iff.mp h.symm).1
    · injection h1 with h1a h1b
      subst h1a
      have hl := congrArg List.length h
      have hl2 := congrArg List.length h2
      simp only [List.length_append] at hl hl2
      have := List.length_pos_iff.mpr h3
      omega

/-- state of a fault-free chunked connection carrying `body cs`; `rest` = the bytes it will still
    deliver: what is buffered, then the decoded bodies of the chunks not yet complete -/
def CState (dec : Bytes → Bytes) (cs : List (Bytes × Bytes)) (s : Sock) (rest : Bytes) : Prop :=
  s.chunked = true ∧ 0 < s.bufsize ∧ FaultFree s.sched
  ∧ ∃ done todo, cs = done ++ todo ∧ TailOK s.partial_ todo
      ∧ s.partial_ ++ pendingData s.sched = body todo ∧ rest = s.buffer ++ decAll dec todo

variable {dec : Bytes → Bytes} {cs : List (Bytes × Bytes)}

theorem cstate_closed (s : Sock) (rest : Bytes) (h : CState dec cs s rest) (hs : s.sched = []) : rest = s.buffer := by
  obtain ⟨_, _, _, done, todo, _, ht, hp, hr⟩ := h
  rw [hs] at hp
  simp only [pendingData, List.append_nil] at hp
  have := tail_complete _ _ ht hp
  subst this
  simpa [decAll] using hr

theorem recv_chunked (hok : ∀ hc ∈ cs, ChunkOK hc) (s : Sock) (rest : Bytes) (h : CState dec cs s rest) :
    CState dec cs (Sock.recv dec s).2 rest
    ∧ ((Sock.recv dec s).1 = true → schedMeasure (Sock.recv dec s).2.sched < schedMeasure s.sched)
    ∧ ((Sock.recv dec s).1 = false → (Sock.recv dec s).2.sched = [] ∧ (Sock.recv dec s).2.buffer = s.buffer) := by
  obtain ⟨hc, hb, hff, done, todo, hcs, ht, hp, hr⟩ := h
  obtain ⟨hff', hcase⟩ := peerRecv_faultfree s.sched s.bufsize hff hb
  unfold Sock.recv
  rcases hcase with ⟨hs, h1, h2⟩ | ⟨d, hd, h1, h2⟩
  · -- peer closed
    cases hpr : peerRecv s.sched s.bufsize with
    | mk r sched' =>
      rw [hpr] at h1 h2
      simp only at h1 h2
      subst h1 h2
      simp only [List.length_nil, if_true]
      exact ⟨⟨hc, hb, by simp [FaultFree], done, todo, hcs, ht, by simpa [hs] using hp, hr⟩, by simp, fun _ => ⟨by simp, by simp⟩⟩
  · cases hpr : peerRecv s.sched s.bufsize with
    | mk r sched' =>
      rw [hpr] at h1 h2 hff'
      simp only at h1 h2 hff'
      subst h1
      have hlen : ¬ d.length = 0 := fun h0 => hd (List.eq_nil_of_length_eq_zero h0)
      simp only [hlen, if_false, hc, if_true]
      have hoktodo : ∀ x ∈ todo, ChunkOK x := fun x hx => hok x (by rw [hcs]; simp [hx])
      have hX : s.partial_ ++ d <+: body todo := ⟨pendingData sched', by rw [← hp, h2]; simp⟩
      obtain ⟨d', t', X', e1, e2, e3, e4⟩ := dechunk_prefix dec todo hoktodo (s.partial_ ++ d) hX []
      have hdk : dechunk dec (s.partial_ ++ d) = (decAll dec d', X') := by simpa [dechunk] using e3
      refine ⟨⟨rfl, hb, hff', done ++ d', t', by rw [hcs, e1, List.append_assoc], ?_, ?_, ?_⟩, ?_, by simp⟩
      · simpa [hdk] using e4
      · simp only [hdk]
        have : body d' ++ (X' ++ pendingData sched') = body d' ++ body t' := by
          rw [← List.append_assoc, ← e2, ← body_append, ← e1, ← hp, h2]; simp
        exact List.append_cancel_left this
      · simp only [hdk]
        rw [hr, e1, decAll_append, List.append_assoc]
      · intro _
        have := peerRecv_measure s.sched s.bufsize d (by rw [hpr]) hd
        rw [hpr] at this
        exact this

theorem fill_chunked (hok : ∀ hc ∈ cs, ChunkOK hc) (num : Nat) (s : Sock) (rest : Bytes) (h : CState dec cs s rest) :
    CState dec cs (Sock.fill dec num s).2 rest
    ∧ ((Sock.fill dec num s).1 = true → num ≤ (Sock.fill dec num s).2.buffer.length)
    ∧ ((Sock.fill dec num s).1 = false → (Sock.fill dec num s).2.buffer.length < num ∧ (Sock.fill dec num s).2.sched = []) := by
  fun_induction Sock.fill dec num s with
  | case1 s hlt s' hr =>
    have hv := recv_chunked hok s rest h
    rw [hr] at hv
    obtain ⟨h1, _, h3⟩ := hv
    obtain ⟨e1, e2⟩ := h3 rfl
    exact ⟨h1, by simp, fun _ => ⟨by simp only at e2 ⊢; rw [e2]; exact hlt, e1⟩⟩
  | case2 s hlt s' hr hm ih =>
    have hv := recv_chunked hok s rest h
    rw [hr] at hv
    exact ih hv.1
  | case3 s hlt s' hr hm =>
    exfalso
    have hv := recv_chunked hok s rest h
    rw [hr] at hv
    exact hm (hv.2.1 rfl)
  | case4 s hge => exact ⟨h, fun _ => by simp only; omega, by simp⟩

/-- **a chunked connection is exact for the decoded bytes** -/
theorem exact_chunked (dec : Bytes → Bytes) (cs : List (Bytes × Bytes)) (hok : ∀ hc ∈ cs, ChunkOK hc) :
    Exact dec (CState dec cs) where
  read := by
    intro s rest n h
    have hf := fill_chunked hok n s rest h
    unfold Sock.read
    cases hfill : Sock.fill dec n s with
    | mk ok s' =>
      rw [hfill] at hf
      obtain ⟨hst, hen, hsh⟩ := hf
      cases ok with
      | false =>
        obtain ⟨hlt, hsched⟩ := hsh rfl
        have hrest : rest = s'.buffer := cstate_closed s' rest hst hsched
        simp only at hlt ⊢
        refine ⟨fun hle => ?_, fun _ => ⟨trivial, hst⟩⟩
        exfalso; rw [hrest] at hle; omega
      | true =>
        have hlen := hen rfl
        simp only at hlen ⊢
        obtain ⟨hc, hb, hff, done, todo, hcs, ht, hp, hr⟩ := hst
        have hst' : CState dec cs { s' with buffer := s'.buffer.drop n } (rest.drop n) := by
          refine ⟨hc, hb, hff, done, todo, hcs, ht, hp, ?_⟩
          simp only
          rw [hr, List.drop_append_of_le_length hlen]
        refine ⟨fun _ => ⟨?_, hst'⟩, fun hlt => ?_⟩
        · rw [hr, List.take_append_of_le_length hlen]
        · exfalso
          rw [hr, List.length_append] at hlt
          simp only at hlt
          omega

/-- the wrapper constructed over a fault-free peer that sends `body cs` -/
theorem cstate_init (hok : ∀ hc ∈ cs, ChunkOK hc) (sched : List Recv) (bufsize : Nat) (hff : FaultFree sched)
    (hb : 0 < bufsize) (hbody : pendingData sched = body cs) :
    CState dec cs (Sock.init dec sched true bufsize) (decAll dec cs) := by
  have h0 : CState dec cs ⟨[], [], sched, true, bufsize⟩ (decAll dec cs) :=
    ⟨rfl, hb, hff, [], cs, rfl, Or.inl rfl, by simpa using hbody, by simp⟩
  exact (recv_chunked hok _ _ h0).1

end Rtcm
