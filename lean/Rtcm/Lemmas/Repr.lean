import Rtcm.Model.Repr
import Rtcm.Lemmas.Message
/-
  `eval(repr(m))` rebuilds the payload: the bytes-literal reader inverts `bytes.__repr__`.
-/
namespace Rtcm

theorem hexVal_hexDigit (k : Nat) (h : k < 16) : hexValLower (hexDigitLower k) = some k := by
  unfold hexDigitLower hexValLower
  by_cases h10 : k < 10
  · rw [if_pos h10, if_pos (by omega)]; congr 1; omega
  · rw [if_neg h10, if_neg (by omega), if_pos (by omega)]; congr 1; omega

theorem parseBody_plain (q c : Nat) (rest : List Nat) (h1 : c ≠ 92) :
    parseBody q (c :: rest) =
      if c = q then some ([], rest)
      else if c = 92 ∨ c ≥ 128 ∨ c = 10 then none
      else match parseBody q rest with
        | some (bs, t) => some (UInt8.ofNat c :: bs, t)
        | none => none := by
  rw [parseBody]
  all_goals first | rfl | (intros; exact absurd (by assumption) h1)

theorem parseBody_hex (q h1 h2 : Nat) (rest : List Nat) :
    parseBody q (92 :: 120 :: h1 :: h2 :: rest) =
      match hexValLower h1, hexValLower h2, parseBody q rest with
      | some a, some b, some (bs, t) => some (UInt8.ofNat (16 * a + b) :: bs, t)
      | _, _, _ => none := by
  rw [parseBody]
  all_goals rfl

theorem parseBody_esc (q e : Nat) (rest : List Nat) (he : e ≠ 120) :
    parseBody q (92 :: e :: rest) =
      match (if e = 116 then some 9 else if e = 110 then some 10 else if e = 114 then some 13
        else if e = 92 ∨ e = 39 ∨ e = 34 then some e else none : Option Nat), parseBody q rest with
      | some n, some (bs, t) => some (UInt8.ofNat n :: bs, t)
      | _, _ => none := by
  rw [parseBody]
  all_goals first | rfl | (intros; exact absurd (by assumption) he)

theorem ofNat_toNat (c : UInt8) : UInt8.ofNat c.toNat = c := by simp

/-- reading back one byte written by `repr` -/
theorem parseBody_reprByte (q : Nat) (hq : q = 39 ∨ q = 34) (c : UInt8) (rest : List Nat) :
    parseBody q (reprByte q c ++ rest) =
      match parseBody q rest with
      | some (bs, t) => some (c :: bs, t)
      | none => none := by
  have hlt : c.toNat < 256 := c.toNat_lt
  unfold reprByte
  simp only
  by_cases h1 : c.toNat = q ∨ c.toNat = 92
  · rw [if_pos h1]
    simp only [List.cons_append, List.nil_append]
    rw [parseBody_esc q c.toNat rest (by rcases h1 with h | h <;> rcases hq with h' | h' <;> omega)]
    have hv : (if c.toNat = 116 then some 9 else if c.toNat = 110 then some 10 else if c.toNat = 114 then some 13
        else if c.toNat = 92 ∨ c.toNat = 39 ∨ c.toNat = 34 then some c.toNat else none : Option Nat) = some c.toNat := by
      rcases h1 with h | h <;> rcases hq with h' | h' <;> simp [h, h']
    rw [hv]
    cases parseBody q rest with
    | none => rfl
    | some r => simp [ofNat_toNat]
  · rw [if_neg h1]
    have hnq : c.toNat ≠ q := fun h => h1 (Or.inl h)
    have hn92 : c.toNat ≠ 92 := fun h => h1 (Or.inr h)
    by_cases h9 : c.toNat = 9
    · rw [if_pos h9]
      simp only [List.cons_append, List.nil_append]
      rw [parseBody_esc q 116 rest (by decide)]
      have : (9 : UInt8) = c := by rw [← ofNat_toNat c, h9]; rfl
      cases parseBody q rest with
      | none => rfl
      | some r => simp [this]
    · rw [if_neg h9]
      by_cases h10 : c.toNat = 10
      · rw [if_pos h10]
        simp only [List.cons_append, List.nil_append]
        rw [parseBody_esc q 110 rest (by decide)]
        have : (10 : UInt8) = c := by rw [← ofNat_toNat c, h10]; rfl
        cases parseBody q rest with
        | none => rfl
        | some r => simp [this]
      · rw [if_neg h10]
        by_cases h13 : c.toNat = 13
        · rw [if_pos h13]
          simp only [List.cons_append, List.nil_append]
          rw [parseBody_esc q 114 rest (by decide)]
          have : (13 : UInt8) = c := by rw [← ofNat_toNat c, h13]; rfl
          cases parseBody q rest with
          | none => rfl
          | some r => simp [this]
        · rw [if_neg h13]
          by_cases hx : c.toNat < 32 ∨ c.toNat ≥ 127
          · rw [if_pos hx]
            simp only [List.cons_append, List.nil_append]
            rw [parseBody_hex, hexVal_hexDigit _ (by omega), hexVal_hexDigit _ (Nat.mod_lt _ (by decide))]
            have : UInt8.ofNat (16 * (c.toNat / 16) + c.toNat % 16) = c := by
              rw [Nat.div_add_mod]; exact ofNat_toNat c
            cases parseBody q rest with
            | none => rfl
            | some r => simp [this]
          · rw [if_neg hx]
            simp only [List.cons_append, List.nil_append]
            rw [parseBody_plain q c.toNat rest hn92, if_neg hnq, if_neg (by omega)]
            cases parseBody q rest with
            | none => rfl
            | some r => simp [ofNat_toNat]

theorem parseBody_reprBody (q : Nat) (hq : q = 39 ∨ q = 34) (bs : Bytes) (tail : List Nat) :
    parseBody q (reprBody q bs ++ q :: tail) = some (bs, tail) := by
  induction bs with
  | nil =>
    simp only [reprBody, List.nil_append]
    rw [parseBody_plain q q tail (by rcases hq with h | h <;> omega), if_pos rfl]
  | cons c rest ih =>
    simp only [reprBody, List.append_assoc]
    rw [parseBody_reprByte q hq, ih]

theorem stripPrefix_append (p s : List Nat) : stripPrefix p (p ++ s) = some s := by
  induction p with
  | nil => rfl
  | cons a t ih => simp [stripPrefix, ih]

theorem quoteFor_cases (bs : Bytes) : quoteFor bs = 39 ∨ quoteFor bs = 34 := by
  unfold quoteFor; split <;> simp

/-- **`eval(repr(m))` rebuilds the payload**, for every byte string -/
theorem evalReprPayload_msgRepr (m : Msg) : evalReprPayload (msgRepr m) = some m.payload := by
  unfold evalReprPayload msgRepr bytesRepr
  rw [List.append_assoc, stripPrefix_append]
  have hq := quoteFor_cases m.payload
  simp only [List.cons_append, List.append_assoc, List.singleton_append]
  rw [if_pos hq, parseBody_reprBody _ hq]
  rfl

end Rtcm
