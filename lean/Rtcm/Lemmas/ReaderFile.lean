import Rtcm.Lemmas.Stream
import Rtcm.Lemmas.Crc
/-
  The reader over file-like streams (`FStream` with an arbitrary schedule of short / empty reads):
  every read hands out the next bytes of the data, so whatever the loop assembles is a contiguous
  slice; a frame is assembled only from five complete reads.
-/
namespace Rtcm

theorem fread_split (s : FStream) (n : Nat) : s.data = (s.read n).1 ++ (s.read n).2.data := by
  simp [FStream.read]

theorem fread_len_le (s : FStream) (n : Nat) : (s.read n).1.length ≤ n := by
  simp only [FStream.read, List.length_take, FStream.lim]
  split <;> omega

theorem freadline_split (s : FStream) : s.data = s.readline.1 ++ s.readline.2.data := by
  simp [FStream.readline]

theorem readBytes_state {σ : Type} (ops : StreamOps σ) (s : σ) (n : Nat) :
    (readBytes ops s n).state = (ops.read s n).2 := by
  unfold readBytes
  dsimp only
  by_cases h1 : (ops.read s n).1.length = 0 ∧ n > 0
  · rw [if_pos h1]; rfl
  · rw [if_neg h1]
    by_cases h2 : 0 < (ops.read s n).1.length ∧ (ops.read s n).1.length < n
    · rw [if_pos h2]; rfl
    · rw [if_neg h2]; rfl

theorem readBytes_ok {σ : Type} (ops : StreamOps σ) (s : σ) (n : Nat) (d : Bytes) (s' : σ)
    (h : readBytes ops s n = .ok d s') : d = (ops.read s n).1 ∧ n ≤ d.length := by
  unfold readBytes at h
  dsimp only at h
  by_cases h1 : (ops.read s n).1.length = 0 ∧ n > 0
  · rw [if_pos h1] at h; simp at h
  · rw [if_neg h1] at h
    by_cases h2 : 0 < (ops.read s n).1.length ∧ (ops.read s n).1.length < n
    · rw [if_pos h2] at h; simp at h
    · rw [if_neg h2] at h
      injection h with hd _
      refine ⟨hd.symm, ?_⟩
      rw [← hd]
      show n ≤ (ops.read s n).1.length
      omega

theorem readLine_state {σ : Type} (ops : StreamOps σ) (s : σ) :
    (readLine ops s).state = (ops.readline s).2 := by
  unfold readLine
  dsimp only
  by_cases h1 : (ops.readline s).1.length = 0
  · rw [if_pos h1]; rfl
  · rw [if_neg h1]
    by_cases h2 : (ops.readline s).1.getLast? ≠ some 10
    · rw [if_pos h2]; rfl
    · rw [if_neg h2]; rfl

/-- the bytes a `_read_bytes` call removed from the stream, and — when it succeeds — that they are
    exactly the `n` bytes returned -/
theorem readBytes_file (s : FStream) (n : Nat) :
    ∃ c, s.data = c ++ (readBytes fileOps s n).state.data
      ∧ ∀ d s', readBytes fileOps s n = .ok d s' → c = d ∧ d.length = n := by
  refine ⟨(s.read n).1, ?_, ?_⟩
  · rw [readBytes_state]; exact fread_split s n
  · intro d s' h
    have := readBytes_ok fileOps s n d s' h
    have hle := fread_len_le s n
    simp only [fileOps] at this
    rw [← this.1] at hle
    exact ⟨this.1.symm, by omega⟩

theorem readLine_file (s : FStream) : ∃ c, s.data = c ++ (readLine fileOps s).state.data := by
  refine ⟨s.readline.1, ?_⟩
  rw [readLine_state]; exact freadline_split s

/-- what the reader guarantees about a returned `(raw, parsed)` pair -/
structure FrameOK (T : Tables) (o : Opts) (raw : Bytes) (p : Option Msg) : Prop where
  preamble : ∃ b, raw[0]? = some b ∧ b.toNat = 0xd3
  reserved : ∃ b, raw[1]? = some b ∧ b.toNat / 4 = 0
  len : ∃ b1 b2, raw[1]? = some b1 ∧ raw[2]? = some b2 ∧ raw.length = 6 + (b1.toNat * 256 + b2.toNat)
  parsedOn : o.parsed = true → ∃ m, p = some m ∧ parse T raw o.validate o.label = .ok m
  parsedOff : o.parsed = false → p = none

/-- `_parse_rtcm3` over a file stream: consumes a prefix of the data; if it returns a frame, the
    frame is header + exactly the consumed bytes, complete and (when parsing) parsed from them -/
theorem parseRtcm3_file (T : Tables) (o : Opts) (b1 b2 : UInt8) (s : FStream)
    (hb1 : b1.toNat = 0xd3) (hb2 : b2.toNat / 4 = 0) :
    ∃ c, s.data = c ++ (parseRtcm3 fileOps T o b1 b2 s).state.data
      ∧ ∀ raw p s', parseRtcm3 fileOps T o b1 b2 s = .done [.frame raw p] s' →
          raw = [b1, b2] ++ c ∧ FrameOK T o raw p := by
  unfold parseRtcm3
  obtain ⟨c1, hc1, hok1⟩ := readBytes_file s 1
  cases h1 : readBytes fileOps s 1 with
  | eof s1 => rw [h1] at hc1; exact ⟨c1, by simpa [Step.state, RB.state] using hc1, by intro raw p s' h; simp at h⟩
  | err s1 =>
    rw [h1] at hc1
    refine ⟨c1, by simpa [onError_state, RB.state] using hc1, ?_⟩
    intro raw p s' h
    simp only [onError] at h
    repeat' split at h
    all_goals simp at h
  | ok d1 s1 =>
    rw [h1] at hc1
    obtain ⟨e1, l1⟩ := hok1 d1 s1 h1
    subst e1
    simp only [RB.state] at hc1
    simp only
    obtain ⟨c2, hc2, hok2⟩ := readBytes_file s1 (b2.toNat * 256 + (c1.headD 0).toNat)
    cases h2 : readBytes fileOps s1 (b2.toNat * 256 + (c1.headD 0).toNat) with
    | eof s2 =>
      rw [h2] at hc2
      exact ⟨c1 ++ c2, by rw [hc1, hc2]; simp [Step.state, RB.state], by intro raw p s' h; simp at h⟩
    | err s2 =>
      rw [h2] at hc2
      refine ⟨c1 ++ c2, by rw [hc1, hc2]; simp [onError_state, RB.state], ?_⟩
      intro raw p s' h
      simp only [onError] at h
      repeat' split at h
      all_goals simp at h
    | ok d2 s2 =>
      rw [h2] at hc2
      obtain ⟨e2, l2⟩ := hok2 d2 s2 h2
      subst e2
      simp only [RB.state] at hc2
      simp only
      obtain ⟨c3, hc3, hok3⟩ := readBytes_file s2 3
      cases h3 : readBytes fileOps s2 3 with
      | eof s3 =>
        rw [h3] at hc3
        exact ⟨c1 ++ c2 ++ c3, by rw [hc1, hc2, hc3]; simp [Step.state, RB.state], by intro raw p s' h; simp at h⟩
      | err s3 =>
        rw [h3] at hc3
        refine ⟨c1 ++ c2 ++ c3, by rw [hc1, hc2, hc3]; simp [onError_state, RB.state], ?_⟩
        intro raw p s' h
        simp only [onError] at h
        repeat' split at h
        all_goals simp at h
      | ok d3 s3 =>
        rw [h3] at hc3
        obtain ⟨e3, l3⟩ := hok3 d3 s3 h3
        subst e3
        simp only [RB.state] at hc3
        simp only
        have hdata : s.data = (c1 ++ c2 ++ c3) ++ s3.data := by rw [hc1, hc2, hc3]; simp
        -- the frame, if any
        have hframe : ∀ p, (o.parsed = true → ∃ m, p = some m ∧ parse T ([b1, b2] ++ c1 ++ c2 ++ c3) o.validate o.label = .ok m) →
            (o.parsed = false → p = none) → FrameOK T o ([b1, b2] ++ c1 ++ c2 ++ c3) p := by
          intro p hp1 hp2
          match c1, l1 with
          | [h3b], _ =>
            refine ⟨⟨b1, by simp, hb1⟩, ⟨b2, by simp, hb2⟩, ⟨b2, h3b, by simp, by simp, ?_⟩, hp1, hp2⟩
            simp at l2 ⊢
            omega
        split
        · rename_i hparsed
          split
          · rename_i m hm
            refine ⟨c1 ++ c2 ++ c3, by simpa [Step.state] using hdata, ?_⟩
            intro raw p s' h
            simp at h
            obtain ⟨⟨hr, hp⟩, _⟩ := h
            subst hr; subst hp
            refine ⟨by simp, ?_⟩
            have := hframe (some m) (fun _ => ⟨m, rfl, hm⟩) (fun hf => by rw [hparsed] at hf; simp at hf)
            simpa using this
          · refine ⟨c1 ++ c2 ++ c3, by simpa [onError_state] using hdata, ?_⟩
            intro raw p s' h
            simp only [onError] at h
            repeat' split at h
            all_goals simp at h
          · refine ⟨c1 ++ c2 ++ c3, by simpa [Step.state] using hdata, ?_⟩
            intro raw p s' h
            simp at h
        · rename_i hparsed
          refine ⟨c1 ++ c2 ++ c3, by simpa [Step.state] using hdata, ?_⟩
          intro raw p s' h
          simp at h
          obtain ⟨⟨hr, hp⟩, _⟩ := h
          subst hr; subst hp
          refine ⟨by simp, ?_⟩
          have := hframe none (fun hf => absurd hf hparsed) (fun _ => rfl)
          simpa using this

end Rtcm

namespace Rtcm

theorem headD_singleton (l : Bytes) (h : l.length = 1) : [l.headD 0] = l := by
  match l, h with
  | [a], _ => rfl

/-- the `(raw, parsed)` pairs in an event list -/
def frames : List Event → List (Bytes × Option Msg)
  | [] => []
  | .frame raw p :: rest => (raw, p) :: frames rest
  | _ :: rest => frames rest

theorem frames_append (a b : List Event) : frames (a ++ b) = frames a ++ frames b := by
  induction a with
  | nil => rfl
  | cons e rest ih => cases e <;> simp [frames, ih]

theorem onError_frames (T : Tables) (o : Opts) (e : LibErr) (s : σ) : frames (onError T o e s).events = [] := by
  unfold onError
  repeat' split
  all_goals rfl

/-- a step either carries no frame at all, or is exactly `done [frame raw p]` -/
def Step.FrameShape {σ : Type} (st : Step σ) : Prop :=
  frames st.events = [] ∨ ∃ raw p s', st = .done [.frame raw p] s'

theorem shape_of_noframes {σ : Type} (st : Step σ) (h : frames st.events = []) : st.FrameShape := Or.inl h

theorem parseRtcm3_shape {σ : Type} (ops : StreamOps σ) (T : Tables) (o : Opts) (b1 b2 : UInt8) (s : σ) :
    (parseRtcm3 ops T o b1 b2 s).FrameShape := by
  unfold parseRtcm3
  dsimp only
  repeat' split
  all_goals first
    | exact Or.inl rfl
    | exact Or.inl (onError_frames T o _ _)
    | exact Or.inr ⟨_, _, _, rfl⟩

theorem parseUbx_shape {σ : Type} (ops : StreamOps σ) (T : Tables) (o : Opts) (s : σ) :
    (parseUbx ops T o s).FrameShape := by
  unfold parseUbx
  dsimp only
  repeat' split
  all_goals first
    | exact Or.inl rfl
    | exact Or.inl (onError_frames T o _ _)

theorem parseNmea_shape {σ : Type} (ops : StreamOps σ) (T : Tables) (o : Opts) (s : σ) :
    (parseNmea ops T o s).FrameShape := by
  unfold parseNmea
  repeat' split
  all_goals first
    | exact Or.inl rfl
    | exact Or.inl (onError_frames T o _ _)

theorem iter_shape {σ : Type} (ops : StreamOps σ) (T : Tables) (o : Opts) (s : σ) :
    (iter ops T o s).FrameShape := by
  unfold iter
  dsimp only
  repeat' split
  all_goals first
    | exact Or.inl rfl
    | exact Or.inl (onError_frames T o _ _)
    | exact parseRtcm3_shape ops T o _ _ _
    | exact parseUbx_shape ops T o _
    | exact parseNmea_shape ops T o _

theorem parseUbx_file (T : Tables) (o : Opts) (s : FStream) :
    ∃ c, s.data = c ++ (parseUbx fileOps T o s).state.data := by
  unfold parseUbx
  obtain ⟨c1, hc1, _⟩ := readBytes_file s 4
  cases h1 : readBytes fileOps s 4 with
  | eof s1 => rw [h1] at hc1; exact ⟨c1, by simpa [Step.state, RB.state] using hc1⟩
  | err s1 => rw [h1] at hc1; exact ⟨c1, by simpa [onError_state, RB.state] using hc1⟩
  | ok d1 s1 =>
    rw [h1] at hc1
    simp only [RB.state] at hc1
    simp only
    obtain ⟨c2, hc2, _⟩ := readBytes_file s1 ((d1.getD 2 0).toNat + 256 * (d1.getD 3 0).toNat + 2)
    cases h2 : readBytes fileOps s1 ((d1.getD 2 0).toNat + 256 * (d1.getD 3 0).toNat + 2) with
    | eof s2 => rw [h2] at hc2; exact ⟨c1 ++ c2, by rw [hc1, hc2]; simp [Step.state, RB.state]⟩
    | err s2 => rw [h2] at hc2; exact ⟨c1 ++ c2, by rw [hc1, hc2]; simp [onError_state, RB.state]⟩
    | ok d2 s2 => rw [h2] at hc2; exact ⟨c1 ++ c2, by rw [hc1, hc2]; simp [Step.state, RB.state]⟩

theorem parseNmea_file (T : Tables) (o : Opts) (s : FStream) :
    ∃ c, s.data = c ++ (parseNmea fileOps T o s).state.data := by
  unfold parseNmea
  obtain ⟨c1, hc1⟩ := readLine_file s
  cases h1 : readLine fileOps s with
  | eof s1 => rw [h1] at hc1; exact ⟨c1, by simpa [Step.state, RB.state] using hc1⟩
  | err s1 => rw [h1] at hc1; exact ⟨c1, by simpa [onError_state, RB.state] using hc1⟩
  | ok d1 s1 => rw [h1] at hc1; exact ⟨c1, by simpa [Step.state, RB.state] using hc1⟩

/-- one pass of the loop over a file stream consumes a prefix `c` of the data; if it returns a frame,
    the frame is exactly `c` (so it starts where this pass started) and is well-formed -/
theorem iter_file (T : Tables) (o : Opts) (s : FStream) :
    ∃ c, s.data = c ++ (iter fileOps T o s).state.data
      ∧ ∀ raw p s', iter fileOps T o s = .done [.frame raw p] s' → raw = c ∧ FrameOK T o raw p := by
  unfold iter
  obtain ⟨c1, hc1, hok1⟩ := readBytes_file s 1
  cases h1 : readBytes fileOps s 1 with
  | eof s1 => rw [h1] at hc1; exact ⟨c1, by simpa [Step.state, RB.state] using hc1, by intro raw p s' h; simp at h⟩
  | err s1 =>
    rw [h1] at hc1
    refine ⟨c1, by simpa [onError_state, RB.state] using hc1, ?_⟩
    intro raw p s' h
    have := onError_frames T o LibErr.stream s1
    simp only at h
    rw [h] at this
    simp [Step.events, frames] at this
  | ok d1 s1 =>
    rw [h1] at hc1
    obtain ⟨e1, l1⟩ := hok1 d1 s1 h1
    subst e1
    simp only [RB.state] at hc1
    simp only
    split
    · exact ⟨c1, by simpa [Step.state] using hc1, by intro raw p s' h; simp at h⟩
    · obtain ⟨c2, hc2, hok2⟩ := readBytes_file s1 1
      cases h2 : readBytes fileOps s1 1 with
      | eof s2 =>
        rw [h2] at hc2
        exact ⟨c1 ++ c2, by rw [hc1, hc2]; simp [Step.state, RB.state], by intro raw p s' h; simp at h⟩
      | err s2 =>
        rw [h2] at hc2
        refine ⟨c1 ++ c2, by rw [hc1, hc2]; simp [onError_state, RB.state], ?_⟩
        intro raw p s' h
        have := onError_frames T o LibErr.stream s2
        simp only at h
        rw [h] at this
        simp [Step.events, frames] at this
      | ok d2 s2 =>
        rw [h2] at hc2
        obtain ⟨e2, l2⟩ := hok2 d2 s2 h2
        subst e2
        simp only [RB.state] at hc2
        simp only
        have hpre : s.data = (c1 ++ c2) ++ s2.data := by rw [hc1, hc2]; simp
        split
        · obtain ⟨c3, hc3⟩ := parseUbx_file T o s2
          refine ⟨c1 ++ c2 ++ c3, by rw [hpre, hc3]; simp, ?_⟩
          intro raw p s' h
          rcases parseUbx_shape fileOps T o s2 with hs | ⟨r, q, t, hs⟩
          · rw [h] at hs; simp [Step.events, frames] at hs
          · exfalso
            unfold parseUbx at hs
            dsimp only at hs
            repeat' split at hs
            all_goals first
              | (simp at hs; done)
              | (have := onError_frames T o LibErr.stream (by assumption); rw [hs] at this; simp [Step.events, frames] at this)
        · split
          · obtain ⟨c3, hc3⟩ := parseNmea_file T o s2
            refine ⟨c1 ++ c2 ++ c3, by rw [hpre, hc3]; simp, ?_⟩
            intro raw p s' h
            exfalso
            unfold parseNmea at h
            repeat' split at h
            all_goals first
              | (simp at h; done)
              | (have := onError_frames T o LibErr.stream (by assumption); rw [h] at this; simp [Step.events, frames] at this)
          · split
            · rename_i hr
              obtain ⟨c3, hc3, hfr⟩ := parseRtcm3_file T o (c1.headD 0) (c2.headD 0) s2 hr.1 hr.2
              refine ⟨c1 ++ c2 ++ c3, by rw [hpre, hc3]; simp, ?_⟩
              intro raw p s' h
              obtain ⟨hraw, hok⟩ := hfr raw p s' h
              refine ⟨?_, hok⟩
              rw [hraw]
              have e1 := headD_singleton c1 l1
              have e2 := headD_singleton c2 l2
              conv => rhs; rw [← e1, ← e2]
              simp
            · refine ⟨c1 ++ c2, by simpa [onError_state] using hpre, ?_⟩
              intro raw p s' h
              have := onError_frames T o LibErr.parse s2
              rw [h] at this
              simp [Step.events, frames] at this

end Rtcm

namespace Rtcm

/-- `raws` occur in `data` as non-overlapping contiguous slices, in this order -/
inductive Sliced : Bytes → List Bytes → Prop
  | nil (data : Bytes) : Sliced data []
  | cons (gap raw rest : Bytes) (raws : List Bytes) : Sliced rest raws → Sliced (gap ++ raw ++ rest) (raw :: raws)

theorem Sliced.prepend (pre data : Bytes) (raws : List Bytes) (h : Sliced data raws) : Sliced (pre ++ data) raws := by
  cases h with
  | nil => exact Sliced.nil _
  | cons gap raw rest raws' hr =>
    have : pre ++ (gap ++ raw ++ rest) = (pre ++ gap) ++ raw ++ rest := by simp
    rw [this]
    exact Sliced.cons _ _ _ _ hr

/-- one `read()` over a file stream: a prefix of the data is consumed; at most one frame is
    returned and it is the tail end of that prefix -/
theorem readOne_file (T : Tables) (o : Opts) (s : FStream) :
    ∃ pre, s.data = pre ++ (readOne fileOps T o s).2.data
      ∧ (frames (readOne fileOps T o s).1 = []
         ∨ ∃ raw p gap, frames (readOne fileOps T o s).1 = [(raw, p)] ∧ pre = gap ++ raw ∧ FrameOK T o raw p) := by
  fun_induction readOne fileOps T o s with
  | case1 s evs s' h =>
    obtain ⟨c, hc, hfr⟩ := iter_file T o s
    rw [h] at hc
    simp only [Step.state] at hc
    refine ⟨c, hc, ?_⟩
    have hs := iter_shape fileOps T o s
    rw [h] at hs
    rcases hs with hs | ⟨raw, p, s'', hs⟩
    · exact Or.inl (by simpa [Step.events] using hs)
    · injection hs with he _
      subst he
      obtain ⟨hraw, hok⟩ := hfr raw p s' (by rw [h])
      exact Or.inr ⟨raw, p, [], by simp [frames], by simp [hraw], hok⟩
  | case2 s evs s' h hlt r ih =>
    obtain ⟨c, hc, _⟩ := iter_file T o s
    rw [h] at hc
    simp only [Step.state] at hc
    have hs := iter_shape fileOps T o s
    rw [h] at hs
    have hnof : frames evs = [] := by
      rcases hs with hs | ⟨raw, p, s'', hs⟩
      · simpa [Step.events] using hs
      · simp at hs
    obtain ⟨pre, hpre, hfr⟩ := ih
    refine ⟨c ++ pre, by rw [hc, hpre]; simp [r], ?_⟩
    simp only [frames_append, hnof, List.nil_append]
    rcases hfr with hf | ⟨raw, p, gap, hf, hg, hok⟩
    · exact Or.inl hf
    · exact Or.inr ⟨raw, p, c ++ gap, hf, by rw [hg]; simp, hok⟩
  | case3 s evs s' h hnlt =>
    obtain ⟨c, hc, _⟩ := iter_file T o s
    rw [h] at hc
    simp only [Step.state] at hc
    have hs := iter_shape fileOps T o s
    rw [h] at hs
    have hnof : frames evs = [] := by
      rcases hs with hs | ⟨raw, p, s'', hs⟩
      · simpa [Step.events] using hs
      · simp at hs
    exact ⟨c, hc, Or.inl (by simp [frames_append, hnof, frames])⟩

/-- iteration over a file stream: the returned raw frames are non-overlapping contiguous slices of
    the data in stream order, and every one is well-formed -/
theorem run_file (T : Tables) (o : Opts) (resume : Bool) (s : FStream) :
    Sliced s.data ((frames (run fileOps T o resume s)).map (·.1))
    ∧ ∀ rp ∈ frames (run fileOps T o resume s), FrameOK T o rp.1 rp.2 := by
  fun_induction run fileOps T o resume s with
  | case1 s r hc hlt ih =>
    obtain ⟨pre, hpre, hfr⟩ := readOne_file T o s
    simp only [frames_append, List.map_append]
    rcases hfr with hf | ⟨raw, p, gap, hf, hg, hok⟩
    · have hf' : frames r.1 = [] := hf
      rw [hf']
      simp only [List.map_nil, List.nil_append]
      refine ⟨?_, ih.2⟩
      rw [hpre]
      exact Sliced.prepend _ _ _ ih.1
    · have hf' : frames r.1 = [(raw, p)] := hf
      rw [hf']
      refine ⟨?_, ?_⟩
      · simp only [List.map_cons, List.map_nil, List.cons_append, List.nil_append]
        rw [hpre, hg]
        exact Sliced.cons _ _ _ _ ih.1
      · intro rp hrp
        simp only [List.cons_append, List.nil_append, List.mem_cons] at hrp
        rcases hrp with h | h
        · rw [h]; exact hok
        · exact ih.2 rp h
  | case2 s r hc hnlt =>
    obtain ⟨pre, hpre, hfr⟩ := readOne_file T o s
    simp only [frames_append, List.map_append]
    have : frames [Event.stuck] = [] := rfl
    rw [this]
    simp only [List.map_nil, List.append_nil]
    rcases hfr with hf | ⟨raw, p, gap, hf, hg, hok⟩
    · have hf' : frames r.1 = [] := hf
      rw [hf']
      exact ⟨Sliced.nil _, by intro rp h; simp at h⟩
    · have hf' : frames r.1 = [(raw, p)] := hf
      rw [hf']
      refine ⟨?_, by intro rp h; simp at h; rw [h]; exact hok⟩
      simp only [List.map_cons, List.map_nil]
      rw [hpre, hg]
      have := Sliced.cons gap raw r.2.data [] (Sliced.nil _)
      simpa using this
  | case3 s r hc =>
    obtain ⟨pre, hpre, hfr⟩ := readOne_file T o s
    rcases hfr with hf | ⟨raw, p, gap, hf, hg, hok⟩
    · have hf' : frames r.1 = [] := hf
      rw [hf']
      exact ⟨Sliced.nil _, by intro rp h; simp at h⟩
    · have hf' : frames r.1 = [(raw, p)] := hf
      rw [hf']
      refine ⟨?_, by intro rp h; simp at h; rw [h]; exact hok⟩
      simp only [List.map_cons, List.map_nil]
      rw [hpre, hg]
      have := Sliced.cons gap raw r.2.data [] (Sliced.nil _)
      simpa using this

end Rtcm
