import Rtcm.Model.Socket
/-
  The chunked-transfer decoder: complete chunks are decoded and consumed, an incomplete tail is
  handed back verbatim as `partial`; hence decoding is independent of segmentation.
-/
namespace Rtcm

def CRLF : Bytes := [13, 10]

/-- `h` is a chunk-size line body for length `n`: no LF inside, and Python's
    `int((h + b"\r\n").strip(), 16)` is `n` -/
structure SizeLine (h : Bytes) (n : Nat) : Prop where
  noLF : ∀ b ∈ h, b.toNat ≠ 10
  value : parseHex (strip (h ++ CRLF)) = some (n : Int)

def encChunk (hc : Bytes × Bytes) : Bytes := hc.1 ++ CRLF ++ hc.2 ++ CRLF

/-- a well-formed chunk: size line matches the (non-zero) data length -/
def ChunkOK (hc : Bytes × Bytes) : Prop := SizeLine hc.1 hc.2.length ∧ hc.2 ≠ []

def body (cs : List (Bytes × Bytes)) : Bytes := (cs.map encChunk).flatten

theorem splitLine_noLF (l : Bytes) (h : ∀ b ∈ l, b.toNat ≠ 10) : splitLine l = (l, []) := by
  induction l with
  | nil => rfl
  | cons b rest ih =>
    simp only [splitLine]
    have hb : b.toNat ≠ 10 := h b (by simp)
    rw [if_neg hb, ih (fun x hx => h x (by simp [hx]))]

theorem splitLine_append_LF (l rest : Bytes) (h : ∀ b ∈ l, b.toNat ≠ 10) :
    splitLine (l ++ (10 : UInt8) :: rest) = (l ++ [10], rest) := by
  induction l with
  | nil => simp [splitLine]
  | cons b t ih =>
    simp only [List.cons_append, splitLine]
    have hb : b.toNat ≠ 10 := h b (by simp)
    rw [if_neg hb, ih (fun x hx => h x (by simp [hx]))]

theorem endsCRLF_append (l : Bytes) : endsCRLF (l ++ CRLF) = true := by
  simp [endsCRLF, CRLF, List.reverse_append]

theorem endsCRLF_noLF (l : Bytes) (h : ∀ b ∈ l, b.toNat ≠ 10) : endsCRLF l = false := by
  unfold endsCRLF
  cases hr : l.reverse with
  | nil => rfl
  | cons b t =>
    cases t with
    | nil => rfl
    | cons a t' =>
      have hb : b ∈ l := by
        have : b ∈ l.reverse := by rw [hr]; simp
        simpa using this
      have := h b hb
      simp [this]

/-- one complete chunk at the head of the stream is decoded and consumed -/
theorem dechunkLoop_chunk (dec : Bytes → Bytes) (hc : Bytes × Bytes) (ok : ChunkOK hc) (rest chunks : Bytes) :
    dechunkLoop dec (encChunk hc ++ rest) chunks = dechunkLoop dec rest (chunks ++ dec hc.2) := by
  obtain ⟨h, c⟩ := hc
  obtain ⟨hs, hne⟩ := ok
  simp only at hs hne
  have hsplit : splitLine (encChunk (h, c) ++ rest) = (h ++ CRLF, c ++ CRLF ++ rest) := by
    have : encChunk (h, c) ++ rest = (h ++ [13]) ++ (10 : UInt8) :: (c ++ CRLF ++ rest) := by
      simp [encChunk, CRLF]
    rw [this, splitLine_append_LF]
    · simp [CRLF]
    · intro b hb
      simp at hb
      rcases hb with hb | hb
      · exact hs.noLF b hb
      · subst hb; decide
  rw [dechunkLoop]
  simp only [hsplit, endsCRLF_append, Bool.not_true, Bool.false_eq_true, dite_false, hs.value]
  have hlen0 : ((c.length : Nat) : Int) ≠ 0 := by
    have := List.length_pos_iff.mpr hne
    omega
  simp only [hlen0, if_false]
  have htake : takeChunk (c ++ CRLF ++ rest) (c.length : Int) = (c, CRLF ++ rest) := by
    unfold takeChunk
    have : ¬ ((c.length : Int) < 0) := by omega
    simp [this, List.append_assoc]
  have hsplit2 : splitLine (CRLF ++ rest) = (CRLF, rest) := by
    simp [CRLF, splitLine]
  simp only [htake, hsplit2]
  have : endsCRLF CRLF = true := by decide
  simp [this]

/-- an incomplete chunk (any proper prefix of its encoding) is handed back untouched -/
theorem dechunkLoop_partial (dec : Bytes → Bytes) (hc : Bytes × Bytes) (ok : ChunkOK hc) (pre sfx chunks : Bytes)
    (hp : encChunk hc = pre ++ sfx) (hs : sfx ≠ []) :
    dechunkLoop dec pre chunks = (chunks, pre) := by
  obtain ⟨h, c⟩ := hc
  obtain ⟨hsz, hne⟩ := ok
  simp only at hsz hne
  -- either the cut is inside `h ++ [CR]` (no LF seen yet) or after the size line
  by_cases hcut : pre.length ≤ h.length + 1
  · -- pre is a prefix of h ++ [13]: no LF, not CRLF-terminated
    have hpre : ∀ b ∈ pre, b.toNat ≠ 10 := by
      intro b hb
      have hpp : pre <+: h ++ [13] ++ ((10 : UInt8) :: (c ++ CRLF)) := by
        refine ⟨sfx, ?_⟩
        rw [← hp]; simp [encChunk, CRLF]
      have : pre <+: h ++ [13] := by
        have h1 : h ++ [13] <+: h ++ [13] ++ ((10 : UInt8) :: (c ++ CRLF)) := List.prefix_append _ _
        rcases List.prefix_or_prefix_of_prefix hpp h1 with hh | hh
        · exact hh
        · have hl := hh.length_le
          simp at hl
          have := List.IsPrefix.eq_of_length hh (by simp; omega)
          rw [← this]
          exact List.prefix_refl _
      have hb' : b ∈ h ++ [13] := this.subset hb
      simp at hb'
      rcases hb' with hb' | hb'
      · exact hsz.noLF b hb'
      · subst hb'; decide
    rw [dechunkLoop]
    simp [splitLine_noLF pre hpre, endsCRLF_noLF pre hpre]
  · -- pre = h ++ CRLF ++ c' ; the size line is complete
    have hlen : h.length + 2 ≤ pre.length := by omega
    have hpre : ∃ t, pre = h ++ CRLF ++ t ∧ c ++ CRLF = t ++ sfx := by
      have hp' : (h ++ CRLF) ++ (c ++ CRLF) = pre ++ sfx := by rw [← hp]; simp [encChunk]
      have : h ++ CRLF <+: pre := by
        have h1 : h ++ CRLF <+: pre ++ sfx := ⟨c ++ CRLF, hp'⟩
        have h2 : pre <+: pre ++ sfx := List.prefix_append _ _
        rcases List.prefix_or_prefix_of_prefix h1 h2 with h3 | h3
        · exact h3
        · have := h3.length_le
          simp [CRLF] at this
          have : pre.length = h.length + 2 := by omega
          have := List.IsPrefix.eq_of_length h3 (by simp [CRLF]; omega)
          rw [this]
          exact List.prefix_refl _
      obtain ⟨t, ht⟩ := this
      refine ⟨t, ht.symm, ?_⟩
      rw [← ht] at hp'
      simp only [List.append_assoc] at hp'
      exact List.append_cancel_left (List.append_cancel_left hp')
    obtain ⟨t, rfl, htc⟩ := hpre
    have hsplit : splitLine (h ++ CRLF ++ t) = (h ++ CRLF, t) := by
      have : h ++ CRLF ++ t = (h ++ [13]) ++ (10 : UInt8) :: t := by simp [CRLF]
      rw [this, splitLine_append_LF]
      · simp [CRLF]
      · intro b hb
        simp at hb
        rcases hb with hb | hb
        · exact hsz.noLF b hb
        · subst hb; decide
    rw [dechunkLoop]
    simp only [hsplit, endsCRLF_append, Bool.not_true, Bool.false_eq_true, dite_false, hsz.value]
    have hlen0 : ((c.length : Nat) : Int) ≠ 0 := by
      have := List.length_pos_iff.mpr hne
      omega
    simp only [hlen0, if_false]
    have hnn : ¬ ((c.length : Int) < 0) := by omega
    -- t is a proper prefix of c ++ CRLF
    have htlen : t.length < c.length + 2 := by
      have := congrArg List.length htc
      simp [CRLF] at this
      have := List.length_pos_iff.mpr hs
      omega
    by_cases htc' : t.length < c.length
    · -- data incomplete
      have htk : takeChunk t (c.length : Int) = (t, []) := by
        unfold takeChunk
        simp [hnn, List.take_of_length_le (Nat.le_of_lt htc'), List.drop_of_length_le (Nat.le_of_lt htc')]
      simp only [htk, splitLine]
      have : ((t.length : Nat) : Int) ≠ (c.length : Int) := by omega
      simp [this]
    · -- data complete, terminator incomplete: t = c ++ term with term ∈ {[], [13]}
      have hct : ∃ term, t = c ++ term ∧ CRLF = term ++ sfx := by
        have h1 : c <+: t ++ sfx := ⟨CRLF, htc⟩
        have h2 : t <+: t ++ sfx := List.prefix_append _ _
        rcases List.prefix_or_prefix_of_prefix h1 h2 with h3 | h3
        · obtain ⟨term, hterm⟩ := h3
          refine ⟨term, hterm.symm, ?_⟩
          rw [← hterm, List.append_assoc] at htc
          exact List.append_cancel_left htc
        · have := h3.length_le
          have := List.IsPrefix.eq_of_length h3 (by omega)
          refine ⟨[], by simp [this], ?_⟩
          rw [this] at htc
          simpa using List.append_cancel_left htc
      obtain ⟨term, rfl, hterm⟩ := hct
      have hterm' : term = [] ∨ term = [13] := by
        have hl := congrArg List.length hterm
        simp [CRLF] at hl
        have hs' := List.length_pos_iff.mpr hs
        match term, hterm with
        | [], _ => exact Or.inl rfl
        | [a], ht =>
          simp [CRLF] at ht
          exact Or.inr (by rw [ht.1])
        | a :: b :: r, _ => simp at hl; omega
      have htk : takeChunk (c ++ term) (c.length : Int) = (c, term) := by
        unfold takeChunk
        simp [hnn]
      simp only [htk]
      rcases hterm' with rfl | rfl
      · simp [splitLine, endsCRLF]
      · have : splitLine [(13 : UInt8)] = ([13], []) := by decide
        simp [this, endsCRLF]

end Rtcm

namespace Rtcm

def decAll (dec : Bytes → Bytes) (cs : List (Bytes × Bytes)) : Bytes := (cs.map fun hc => dec hc.2).flatten

theorem body_cons (hc : Bytes × Bytes) (rest : List (Bytes × Bytes)) : body (hc :: rest) = encChunk hc ++ body rest := by
  simp [body]

theorem body_append (a b : List (Bytes × Bytes)) : body (a ++ b) = body a ++ body b := by
  simp [body]

theorem decAll_append (dec : Bytes → Bytes) (a b : List (Bytes × Bytes)) : decAll dec (a ++ b) = decAll dec a ++ decAll dec b := by
  simp [decAll]

theorem encChunk_ne_nil (hc : Bytes × Bytes) : encChunk hc ≠ [] := by
  simp [encChunk, CRLF]

theorem dechunkLoop_nil (dec : Bytes → Bytes) (chunks : Bytes) : dechunkLoop dec [] chunks = (chunks, []) := by
  rw [dechunkLoop]
  simp [splitLine, endsCRLF]

/-- what remains undecoded after a prefix of a chunked body: nothing, or a proper prefix of the next chunk -/
def TailOK (X' : Bytes) (todo' : List (Bytes × Bytes)) : Prop :=
  X' = [] ∨ ∃ hc rest sfx, todo' = hc :: rest ∧ encChunk hc = X' ++ sfx ∧ sfx ≠ []

/-- decoding any prefix of a well-formed chunked body: all complete chunks are decoded in order and
    the incomplete tail comes back as `partial` -/
theorem dechunk_prefix (dec : Bytes → Bytes) (todo : List (Bytes × Bytes)) (hok : ∀ hc ∈ todo, ChunkOK hc) :
    ∀ (X : Bytes), X <+: body todo → ∀ (out0 : Bytes),
      ∃ done' todo' X', todo = done' ++ todo' ∧ X = body done' ++ X'
        ∧ dechunkLoop dec X out0 = (out0 ++ decAll dec done', X') ∧ TailOK X' todo' := by
  induction todo with
  | nil =>
    intro X hX out0
    have : X = [] := by simpa [body] using hX
    subst this
    exact ⟨[], [], [], rfl, by simp [body], by simp [dechunkLoop_nil, decAll], Or.inl rfl⟩
  | cons hc rest ih =>
    intro X hX out0
    rw [body_cons] at hX
    have hE : encChunk hc <+: encChunk hc ++ body rest := List.prefix_append _ _
    rcases List.prefix_or_prefix_of_prefix hE hX with h1 | h1
    · -- the whole first chunk is there
      obtain ⟨X2, hX2⟩ := h1
      have hX2p : X2 <+: body rest := by
        rw [← hX2] at hX
        exact (List.prefix_append_right_inj _).mp hX
      obtain ⟨d, t, X', h1, h2, h3, h4⟩ := ih (fun x hx => hok x (by simp [hx])) X2 hX2p (out0 ++ dec hc.2)
      refine ⟨hc :: d, t, X', by simp [h1], ?_, ?_, h4⟩
      · rw [← hX2, h2, body_cons, List.append_assoc]
      · rw [← hX2, dechunkLoop_chunk dec hc (hok hc (by simp)), h3]
        simp [decAll, List.append_assoc]
    · -- only part of the first chunk
      by_cases hfull : X = encChunk hc
      · -- exactly one chunk: treat as complete with empty tail
        subst hfull
        obtain ⟨d, t, X', h1, h2, h3, h4⟩ := ih (fun x hx => hok x (by simp [hx])) [] (List.nil_prefix) (out0 ++ dec hc.2)
        have hd : d = [] ∧ X' = [] := by
          have hb : body d ++ X' = [] := h2.symm
          have hbd : body d = [] := (List.append_eq_nil_iff.mp hb).1
          have hx : X' = [] := (List.append_eq_nil_iff.mp hb).2
          refine ⟨?_, hx⟩
          cases d with
          | nil => rfl
          | cons a b => rw [body_cons] at hbd; exact absurd (List.append_eq_nil_iff.mp hbd).1 (encChunk_ne_nil a)
        obtain ⟨rfl, rfl⟩ := hd
        refine ⟨[hc], rest, [], by simp, by simp [body], ?_, Or.inl rfl⟩
        have := dechunkLoop_chunk dec hc (hok hc (by simp)) [] out0
        simp only [List.append_nil] at this
        rw [this, dechunkLoop_nil]
        simp [decAll]
      · obtain ⟨sfx, hsfx⟩ := h1
        have hs : sfx ≠ [] := by
          intro h; subst h; simp at hsfx; exact hfull hsfx
        refine ⟨[], hc :: rest, X, rfl, by simp [body], ?_, Or.inr ⟨hc, rest, sfx, rfl, hsfx.symm, hs⟩⟩
        rw [dechunkLoop_partial dec hc (hok hc (by simp)) X sfx out0 hsfx.symm hs]
        simp [decAll]

/-- one receive in chunked mode: `(partial, buffer) ↦ (partial', buffer ++ decoded)` -/
def feedSeg (dec : Bytes → Bytes) (st : Bytes × Bytes) (seg : Bytes) : Bytes × Bytes :=
  ((dechunk dec (st.1 ++ seg)).2, st.2 ++ (dechunk dec (st.1 ++ seg)).1)

theorem feed_invariant (dec : Bytes → Bytes) (cs : List (Bytes × Bytes)) (hok : ∀ hc ∈ cs, ChunkOK hc) :
    ∀ (segs : List Bytes) (done todo : List (Bytes × Bytes)) (part buf : Bytes),
      cs = done ++ todo → buf = decAll dec done → part ++ segs.flatten = body todo → TailOK part todo →
      segs.foldl (feedSeg dec) (part, buf) = ([], decAll dec cs) := by
  intro segs
  induction segs with
  | nil =>
    intro done todo part buf hcs hbuf hpart htail
    simp only [List.flatten_nil, List.append_nil] at hpart
    have htodo : todo = [] := by
      cases todo with
      | nil => rfl
      | cons hc rest =>
        exfalso
        rw [body_cons] at hpart
        rcases htail with h | ⟨hc', rest', sfx, h1, h2, h3⟩
        · subst h
          exact encChunk_ne_nil hc (List.append_eq_nil_iff.mp hpart.symm).1
        · injection h1 with h1a h1b
          subst h1a
          have := congrArg List.length hpart
          have hl := congrArg List.length h2
          simp only [List.length_append] at this hl
          have := List.length_pos_iff.mpr h3
          omega
    subst htodo
    simp only [body, List.map_nil, List.flatten_nil] at hpart
    subst hpart
    simp [hcs, hbuf]
  | cons seg rest ih =>
    intro done todo part buf hcs hbuf hpart htail
    simp only [List.foldl_cons]
    have hX : part ++ seg <+: body todo := by
      refine ⟨rest.flatten, ?_⟩
      rw [← hpart]; simp
    have hoktodo : ∀ hc ∈ todo, ChunkOK hc := fun x hx => hok x (by rw [hcs]; simp [hx])
    obtain ⟨d, t, X', h1, h2, h3, h4⟩ := dechunk_prefix dec todo hoktodo (part ++ seg) hX []
    have hfeed : feedSeg dec (part, buf) seg = (X', buf ++ decAll dec d) := by
      simp [feedSeg, dechunk, h3]
    rw [hfeed]
    apply ih (done ++ d) t X' (buf ++ decAll dec d)
    · rw [hcs, h1, List.append_assoc]
    · rw [hbuf, decAll_append]
    · have : body d ++ (X' ++ rest.flatten) = body d ++ body t := by
        rw [← List.append_assoc, ← h2, ← body_append, ← h1, ← hpart]
        simp
      exact List.append_cancel_left this
    · exact h4

end Rtcm
