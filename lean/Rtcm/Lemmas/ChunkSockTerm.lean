import Rtcm.Lemmas.ChunkSock
import Rtcm.Lemmas.ChunkTerm
/-
  The same as ChunkSock.lean for a chunked body followed by the terminating zero chunk
  `z CRLF CRLF`: what `read()` delivers is the concatenation of the decoded chunk bodies, for every
  segmentation (also inside the terminator) and buffer size.
-/
namespace Rtcm

/-- an invariant of chunked connections from which exactness follows -/
structure RecvInv (dec : Bytes → Bytes) (C : Sock → Bytes → Prop) : Prop where
  recv : ∀ s rest, C s rest →
    C (Sock.recv dec s).2 rest
    ∧ ((Sock.recv dec s).1 = true → schedMeasure (Sock.recv dec s).2.sched < schedMeasure s.sched)
    ∧ ((Sock.recv dec s).1 = false → (Sock.recv dec s).2.sched = [] ∧ (Sock.recv dec s).2.buffer = s.buffer)
  closed : ∀ s rest, C s rest → s.sched = [] → rest = s.buffer
  split : ∀ s rest, C s rest → ∃ tail, rest = s.buffer ++ tail
  drop : ∀ s rest n, C s rest → n ≤ s.buffer.length → C { s with buffer := s.buffer.drop n } (rest.drop n)

variable {dec : Bytes → Bytes} {C : Sock → Bytes → Prop}

theorem fill_inv (I : RecvInv dec C) (num : Nat) (s : Sock) (rest : Bytes) (h : C s rest) :
    C (Sock.fill dec num s).2 rest
    ∧ ((Sock.fill dec num s).1 = true → num ≤ (Sock.fill dec num s).2.buffer.length)
    ∧ ((Sock.fill dec num s).1 = false → (Sock.fill dec num s).2.buffer.length < num ∧ (Sock.fill dec num s).2.sched = []) := by
  fun_induction Sock.fill dec num s with
  | case1 s hlt s' hr =>
    have hv := I.recv s rest h
    rw [hr] at hv
    obtain ⟨h1, _, h3⟩ := hv
    obtain ⟨e1, e2⟩ := h3 rfl
    exact ⟨h1, by simp, fun _ => ⟨by simp only at e2 ⊢; rw [e2]; exact hlt, e1⟩⟩
  | case2 s hlt s' hr hm ih =>
    have hv := I.recv s rest h
    rw [hr] at hv
    exact ih hv.1
  | case3 s hlt s' hr hm =>
    exfalso
    have hv := I.recv s rest h
    rw [hr] at hv
    exact hm (hv.2.1 rfl)
  | case4 s hge => exact ⟨h, fun _ => by simp only; omega, by simp⟩

theorem exact_of_inv (I : RecvInv dec C) : Exact dec C where
  read := by
    intro s rest n h
    have hf := fill_inv I n s rest h
    unfold Sock.read
    cases hfill : Sock.fill dec n s with
    | mk ok s' =>
      rw [hfill] at hf
      obtain ⟨hst, hen, hsh⟩ := hf
      cases ok with
      | false =>
        obtain ⟨hlt, hsched⟩ := hsh rfl
        have hrest : rest = s'.buffer := I.closed s' rest hst hsched
        simp only at hlt ⊢
        refine ⟨fun hle => ?_, fun _ => ⟨trivial, hst⟩⟩
        exfalso; rw [hrest] at hle; omega
      | true =>
        have hlen := hen rfl
        simp only at hlen ⊢
        obtain ⟨tail, hr⟩ := I.split s' rest hst
        refine ⟨fun _ => ⟨?_, I.drop s' rest n hst hlen⟩, fun hlt => ?_⟩
        · rw [hr, List.take_append_of_le_length hlen]
        · exfalso
          rw [hr, List.length_append] at hlt
          omega

/-- state of a fault-free chunked connection carrying `body cs ++ z CRLF CRLF` -/
def CStateT (dec : Bytes → Bytes) (cs : List (Bytes × Bytes)) (z : Bytes) (s : Sock) (rest : Bytes) : Prop :=
  s.chunked = true ∧ 0 < s.bufsize ∧ FaultFree s.sched
  ∧ ((∃ done todo, cs = done ++ todo ∧ TailOK s.partial_ todo
        ∧ s.partial_ ++ pendingData s.sched = body todo ++ termBytes z ∧ rest = s.buffer ++ decAll dec todo)
     ∨ (s.partial_ ++ pendingData s.sched = termBytes z ∧ s.partial_ <+: z ++ [13] ∧ rest = s.buffer)
     ∨ (TailSet (s.partial_ ++ pendingData s.sched) ∧ rest = s.buffer))

variable {cs : List (Bytes × Bytes)} {z : Bytes}

theorem tailset_nil_cases (a b : Bytes) (h : TailSet (a ++ b)) (hb : b = []) : TailSet a := by
  subst hb; simpa using h

theorem recvT (hok : ∀ hc ∈ cs, ChunkOK hc) (hz : SizeLine z 0) (s : Sock) (rest : Bytes) (h : CStateT dec cs z s rest) :
    CStateT dec cs z (Sock.recv dec s).2 rest
    ∧ ((Sock.recv dec s).1 = true → schedMeasure (Sock.recv dec s).2.sched < schedMeasure s.sched)
    ∧ ((Sock.recv dec s).1 = false → (Sock.recv dec s).2.sched = [] ∧ (Sock.recv dec s).2.buffer = s.buffer) := by
  obtain ⟨hc, hb, hff, hph⟩ := h
  obtain ⟨hff', hcase⟩ := peerRecv_faultfree s.sched s.bufsize hff hb
  unfold Sock.recv
  rcases hcase with ⟨hs, h1, h2⟩ | ⟨d, hd, h1, h2⟩
  · cases hpr : peerRecv s.sched s.bufsize with
    | mk r sched' =>
      rw [hpr] at h1 h2
      simp only at h1 h2
      subst h1 h2
      simp only [List.length_nil, if_true]
      refine ⟨⟨hc, hb, by simp [FaultFree], ?_⟩, by simp, fun _ => ⟨by simp, by simp⟩⟩
      simpa [hs] using hph
  · cases hpr : peerRecv s.sched s.bufsize with
    | mk r sched' =>
      rw [hpr] at h1 h2 hff'
      simp only at h1 h2 hff'
      subst h1
      have hlen : ¬ d.length = 0 := fun h0 => hd (List.eq_nil_of_length_eq_zero h0)
      simp only [hlen, if_false, hc, if_true]
      have hmeas : schedMeasure sched' < schedMeasure s.sched := by
        have := peerRecv_measure s.sched s.bufsize d (by rw [hpr]) hd
        rw [hpr] at this
        exact this
      refine ⟨⟨rfl, hb, hff', ?_⟩, fun _ => hmeas, by simp⟩
      simp only
      rcases hph with ⟨done, todo, hcs, ht, hp, hr⟩ | ⟨hp, hpre, hr⟩ | ⟨hts, hr⟩
      · -- inside the body
        have hoktodo : ∀ x ∈ todo, ChunkOK x := fun x hx => hok x (by rw [hcs]; simp [hx])
        have hstream : (s.partial_ ++ d) ++ pendingData sched' = body todo ++ termBytes z := by
          rw [← hp, h2]; simp
        by_cases hin : s.partial_ ++ d <+: body todo
        · obtain ⟨d', t', X', e1, e2, e3, e4⟩ := dechunk_prefix dec todo hoktodo (s.partial_ ++ d) hin []
          have hdk : dechunk dec (s.partial_ ++ d) = (decAll dec d', X') := by simpa [dechunk] using e3
          left
          refine ⟨done ++ d', t', by rw [hcs, e1, List.append_assoc], by simpa [hdk] using e4, ?_, ?_⟩
          · simp only [hdk]
            have : body d' ++ (X' ++ pendingData sched') = body d' ++ (body t' ++ termBytes z) := by
              rw [← List.append_assoc, ← e2, ← List.append_assoc, ← body_append, ← e1]
              exact hstream
            exact List.append_cancel_left this
          · simp only [hdk]
            rw [hr, e1, decAll_append, List.append_assoc]
        · have hX : s.partial_ ++ d <+: body todo ++ termBytes z := ⟨pendingData sched', hstream⟩
          have hB : body todo <+: body todo ++ termBytes z := List.prefix_append _ _
          rcases List.prefix_or_prefix_of_prefix hX hB with h1 | ⟨Y, hY⟩
          · exact absurd h1 hin
          · have hYR : Y ++ pendingData sched' = termBytes z := by
              have : body todo ++ (Y ++ pendingData sched') = body todo ++ termBytes z := by
                rw [← List.append_assoc, hY]; exact hstream
              exact List.append_cancel_left this
            have hd' : dechunk dec (s.partial_ ++ d) = dechunkLoop dec Y (decAll dec todo) := by
              unfold dechunk
              rw [← hY, dechunkLoop_body dec todo hoktodo]
              simp
            obtain ⟨ho, hp'⟩ := term_step dec z hz Y (pendingData sched') (decAll dec todo) hYR
            have hbuf : s.buffer ++ (dechunk dec (s.partial_ ++ d)).1 = rest := by rw [hd', ho, hr]
            rcases hp' with ⟨hp1, hp2⟩ | hp'
            · right; left
              exact ⟨by rw [hd']; exact hp1, by rw [hd']; exact hp2, hbuf.symm⟩
            · right; right
              exact ⟨by rw [hd']; exact hp', hbuf.symm⟩
      · -- inside the zero-size line
        have hYR : (s.partial_ ++ d) ++ pendingData sched' = termBytes z := by rw [← hp, h2]; simp
        obtain ⟨ho, hp'⟩ := term_step dec z hz (s.partial_ ++ d) (pendingData sched') [] hYR
        have hbuf : s.buffer ++ (dechunk dec (s.partial_ ++ d)).1 = rest := by
          unfold dechunk; rw [ho, hr]; simp
        rcases hp' with ⟨hp1, hp2⟩ | hp'
        · right; left
          exact ⟨by simpa [dechunk] using hp1, by simpa [dechunk] using hp2, hbuf.symm⟩
        · right; right
          exact ⟨by simpa [dechunk] using hp', hbuf.symm⟩
      · -- after the zero chunk
        have hT : TailSet ((s.partial_ ++ d) ++ pendingData sched') := by
          rw [h2] at hts; simpa using hts
        obtain ⟨ho, hp'⟩ := tail_step dec (s.partial_ ++ d) (pendingData sched') hT
        right; right
        exact ⟨hp', by rw [ho, hr]; simp⟩

theorem closedT (s : Sock) (rest : Bytes) (h : CStateT dec cs z s rest) (hs : s.sched = []) : rest = s.buffer := by
  obtain ⟨_, _, _, hph⟩ := h
  rcases hph with ⟨done, todo, hcs, ht, hp, hr⟩ | ⟨_, _, hr⟩ | ⟨_, hr⟩
  · exfalso
    rw [hs] at hp
    simp only [pendingData, List.append_nil] at hp
    rcases ht with h0 | ⟨hc, rest', sfx, h1, h2, h3⟩
    · rw [h0] at hp
      exact termBytes_ne_nil z (List.append_eq_nil_iff.mp hp.symm).2
    · subst h1
      rw [body_cons] at hp
      have hl := congrArg List.length hp
      have hl2 := congrArg List.length h2
      simp only [List.length_append] at hl hl2
      have h4 := List.length_pos_iff.mpr h3
      omega
  · exact hr
  · exact hr

theorem recvInvT (dec : Bytes → Bytes) (cs : List (Bytes × Bytes)) (hok : ∀ hc ∈ cs, ChunkOK hc) (z : Bytes)
    (hz : SizeLine z 0) : RecvInv dec (CStateT dec cs z) where
  recv := fun s rest h => recvT hok hz s rest h
  closed := fun s rest h hs => closedT s rest h hs
  split := by
    intro s rest ⟨_, _, _, hph⟩
    rcases hph with ⟨done, todo, _, _, _, hr⟩ | ⟨_, _, hr⟩ | ⟨_, hr⟩
    · exact ⟨_, hr⟩
    · exact ⟨[], by simpa using hr⟩
    · exact ⟨[], by simpa using hr⟩
  drop := by
    intro s rest n ⟨hc, hb, hff, hph⟩ hn
    refine ⟨hc, hb, hff, ?_⟩
    rcases hph with ⟨done, todo, hcs, ht, hp, hr⟩ | ⟨hp, hpre, hr⟩ | ⟨hts, hr⟩
    · left; exact ⟨done, todo, hcs, ht, hp, by simp only; rw [hr, List.drop_append_of_le_length hn]⟩
    · right; left; exact ⟨hp, hpre, by simp only; rw [hr]⟩
    · right; right; exact ⟨hts, by simp only; rw [hr]⟩

theorem cstateT_init (hok : ∀ hc ∈ cs, ChunkOK hc) (hz : SizeLine z 0) (sched : List Recv) (bufsize : Nat)
    (hff : FaultFree sched) (hb : 0 < bufsize) (hbody : pendingData sched = body cs ++ termBytes z) :
    CStateT dec cs z (Sock.init dec sched true bufsize) (decAll dec cs) := by
  have h0 : CStateT dec cs z ⟨[], [], sched, true, bufsize⟩ (decAll dec cs) :=
    ⟨rfl, hb, hff, Or.inl ⟨[], cs, rfl, Or.inl rfl, by simpa using hbody, by simp⟩⟩
  exact (recvT hok hz _ _ h0).1

end Rtcm
