import Rtcm.Lemmas.ReaderSim
import Rtcm.Lemmas.SockLawful
/-
  The reader over a fault-free socket connection returns the same frames as over a file holding
  the same bytes.
-/
namespace Rtcm

theorem splitLine_cat (d : Bytes) : (splitLine d).1 ++ (splitLine d).2 = d := by
  induction d with
  | nil => rfl
  | cons b rest ih =>
    simp only [splitLine]
    split
    · rfl
    · simp [ih]

/-- socket state versus file state: a fault-free connection whose bytes still to come are the
    file's unread data (no fault schedule on the file) -/
def SockFileRel (s : Sock) (f : FStream) : Prop := SockOK s ∧ s.remaining = f.data ∧ f.sched = []

def FileDead (f : FStream) : Prop := f.data = [] ∧ f.sched = []

theorem lim_nil (f : FStream) (h : f.sched = []) (n : Nat) : f.lim n = n := by
  simp [FStream.lim, h]

theorem sock_file_sim (dec : Bytes → Bytes) : TailSim (sockOps dec) fileOps SockFileRel FileDead where
  read := by
    intro s f n ⟨hok, hrem, hs⟩
    have hr := read_faultfree dec s n hok
    simp only [sockOps, fileOps, FStream.read, lim_nil f hs]
    by_cases hle : n ≤ s.remaining.length
    · left
      obtain ⟨h1, h2⟩ := hr.2.1 hle
      exact ⟨by rw [h1, hrem], hr.1, by rw [h2, hrem], by simp [hs]⟩
    · right
      obtain ⟨h1, _⟩ := hr.2.2 (by omega)
      have hlen : f.data.length < n := by rw [← hrem]; omega
      refine ⟨h1, by simp [List.length_take]; omega, ?_, by simp [hs]⟩
      simp only
      exact List.drop_eq_nil_of_le (by omega)
  readline := by
    intro s f ⟨hok, hrem, hs⟩
    obtain ⟨h1, h2, h3⟩ := readline_faultfree dec s hok
    simp only [sockOps, fileOps, FStream.readline, lim_nil f hs]
    have hc := splitLine_cat f.data
    have ht : f.data.take (splitLine f.data).1.length = (splitLine f.data).1 := by
      have := List.take_left' (l₁ := (splitLine f.data).1) (l₂ := (splitLine f.data).2) rfl
      rwa [hc] at this
    have hd : f.data.drop (splitLine f.data).1.length = (splitLine f.data).2 := by
      have := List.drop_left' (l₁ := (splitLine f.data).1) (l₂ := (splitLine f.data).2) rfl
      rwa [hc] at this
    exact ⟨by rw [h1, hrem, ht], h3, by rw [h2, hrem, hd], by simp [hs]⟩
  dead_read := by
    intro f n ⟨hd, hs⟩
    simp [fileOps, FStream.read, hd, hs, FileDead]

/-- **Reader over socket = reader over file.**  For every fault-free connection (any
    segmentation into receive results, any buffer size, anything already buffered), every option
    setting and every byte stream: iterating `RTCMReader` over the socket wrapper returns exactly
    the (raw, parsed) pairs that iterating over a file holding the same bytes returns. -/
theorem reader_sock_eq_file (dec : Bytes → Bytes) (T : Tables) (o : Opts) (resume : Bool) (s : Sock) (h : SockOK s) :
    frames (run (sockOps dec) T o resume s) = frames (run fileOps T o resume ⟨s.remaining, []⟩) :=
  run_frames_eq (sock_file_sim dec) (sockOps_lawful dec) fileOps_lawful T o resume s ⟨s.remaining, []⟩ ⟨h, rfl, rfl⟩

end Rtcm
