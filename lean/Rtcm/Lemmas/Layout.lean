import Rtcm.Model.Layout
import Rtcm.Lemmas.Decode
import Rtcm.Lemmas.Crc
/-
  Round trip: parsing a payload that starts with the packed layout of a value list yields exactly
  the attributes the layout walk assigned (C03).
-/
namespace Rtcm

def Fits (cells : List Cell) : Prop := ∀ c ∈ cells, c.2 < 2 ^ c.1

theorem pack_append_singleton (cs : List Cell) (c : Cell) : pack (cs ++ [c]) = (pack cs).push c := by
  simp [pack, List.foldl_append]

theorem Payload.prefix_trans {a b c : Payload} (h1 : Payload.Prefix a b) (h2 : Payload.Prefix b c) : Payload.Prefix a c := by
  obtain ⟨k1, r1, hb1, hv1, hr1⟩ := h1
  obtain ⟨k2, r2, hb2, hv2, hr2⟩ := h2
  refine ⟨k1 + k2, r1 * 2 ^ k2 + r2, by omega, ?_, ?_⟩
  · rw [hv2, hv1, Nat.pow_add, Nat.add_mul, Nat.mul_assoc, Nat.add_assoc]
  · rw [Nat.pow_add]
    calc r1 * 2 ^ k2 + r2 < r1 * 2 ^ k2 + 2 ^ k2 := by omega
      _ = (r1 + 1) * 2 ^ k2 := by rw [Nat.add_mul, Nat.one_mul]
      _ ≤ 2 ^ k1 * 2 ^ k2 := Nat.mul_le_mul_right _ hr1

theorem prefix_push (p : Payload) (c : Cell) (h : c.2 < 2 ^ c.1) : Payload.Prefix p (p.push c) :=
  ⟨c.1, c.2, rfl, rfl, h⟩

theorem prefix_pack_append (a b : List Cell) (hb : Fits b) : Payload.Prefix (pack a) (pack (a ++ b)) := by
  induction b generalizing a with
  | nil => simpa using Payload.prefix_refl (pack a)
  | cons c rest ih =>
    have e : a ++ c :: rest = (a ++ [c]) ++ rest := by simp
    rw [e]
    have h1 : Payload.Prefix (pack a) (pack (a ++ [c])) := by
      rw [pack_append_singleton]; exact prefix_push _ c (hb c (by simp))
    exact Payload.prefix_trans h1 (ih (a ++ [c]) (fun x hx => hb x (by simp [hx])))

/-- reading the cell just written gives back its bits -/
theorem extract_push (p : Payload) (w v : Nat) (h : v < 2 ^ w) : extract (p.push (w, v)) p.blen w = some v := by
  unfold extract Payload.push
  simp only
  rw [if_pos (Nat.le_refl _)]
  congr 1
  rw [show p.blen + w - p.blen - w = 0 by omega, Nat.shiftRight_zero, Nat.add_comm, Nat.add_mul_mod_self_right,
    Nat.mod_eq_of_lt h]

theorem fits_append {a b : List Cell} (ha : Fits a) (hb : Fits b) : Fits (a ++ b) := by
  intro c hc
  simp at hc
  rcases hc with h | h
  · exact ha c h
  · exact hb c h

theorem isLabel_eq (t : FType) : t.isLabel = isLabelTy t := rfl

/-- a label reads no bits: its value does not depend on the payload -/
theorem fieldValue_label (p q : Payload) (f : FieldSpec) (w : Nat) (idx : List Nat) (s : DState)
    (hl : isLabelTy f.ty = true) : fieldValue p f w idx s = fieldValue q f w idx s := by
  unfold fieldValue
  cases hty : f.ty <;> simp [hty, isLabelTy] at hl <;> rfl

theorem fieldValue_bits (p : Payload) (f : FieldSpec) (w : Nat) (idx : List Nat) (s : DState)
    (hl : isLabelTy f.ty = false) : fieldValue p f w idx s =
      if (f.ty = .int ∨ f.ty = .snt) ∧ w = 0 then .error .badType
      else match extract p s.off w with
        | none => .error .short
        | some bits => .ok (interp f w bits, bits) := by
  unfold fieldValue
  cases hty : f.ty <;> simp [hty, isLabelTy] at hl <;> rfl

/-- invariant of the layout walk against the parser: the offset is the number of bits written -/
structure LInv (ls : LState) : Prop where
  off : ls.s.off = (pack ls.cells).blen
  fits : Fits ls.cells

/-- the step relation we prove for every piece of the walk: cells only grow, the invariant is kept,
    and the parser run on any payload starting with the *new* cells does the same thing -/
def Sim (T : Tables) (id : Ident) (label : Nat)
    (run : Ctx → DState → Except DecErr DState) (ls ls' : LState) : Prop :=
  (∃ delta, ls'.cells = ls.cells ++ delta ∧ Fits delta) ∧ LInv ls'
  ∧ ∀ p, Payload.Prefix (pack ls'.cells) p → run ⟨T, p, id, label⟩ ls.s = .ok ls'.s

theorem layField_sim (c : Ctx) (hz : LabelsZero c.T) (fid : Nat) (idx : List Nat) (ls ls' : LState)
    (hinv : LInv ls) (h : layField c fid idx ls = .ok ls') :
    Sim c.T c.id c.label (fun cp s => decField cp fid idx s) ls ls' := by
  unfold layField at h
  cases hf : c.T.field? fid with
  | none => simp [hf] at h
  | some f =>
    simp only [hf] at h
    cases hw : fieldWidth c.T f fid ls.s with
    | error e => simp [hw] at h
    | ok w =>
      simp only [hw] at h
      cases hv : layValue f w idx ls with
      | error e => simp [hv] at h
      | ok r =>
        obtain ⟨⟨v, bits⟩, vals, cells⟩ := r
        simp only [hv] at h
        cases hst : fieldStore f fid idx ls.s.attrs v with
        | error e => simp [hst] at h
        | ok attrs =>
          simp only [hst] at h
          cases hsp : fieldSpecial c.T c.id c.label f fid idx w bits { ls.s with off := ls.s.off + w, attrs := attrs } with
          | error e => simp [hsp] at h
          | ok s' =>
            simp only [hsp] at h
            injection h with h
            subst h
            have hoff' : s'.off = ls.s.off + w := fieldSpecial_off _ _ _ _ _ _ _ _ _ _ hsp
            -- what the value step did to the cells, and what the parser reads
            have key : (∃ delta, cells = ls.cells ++ delta ∧ Fits delta ∧ (pack cells).blen = (pack ls.cells).blen + w)
                ∧ ∀ p, Payload.Prefix (pack cells) p → fieldValue p f w idx ls.s = .ok (v, bits) := by
              unfold layValue at hv
              rw [isLabel_eq] at hv
              cases hl : isLabelTy f.ty with
              | true =>
                have hne : ¬ (some fid = c.T.special.df396) := fun h396 =>
                  fieldSpecial_label_df396 _ _ _ _ _ _ _ _ _ _ hl h396 hsp
                have hw0 : w = 0 := by
                  unfold fieldWidth at hw
                  rw [if_neg hne] at hw
                  injection hw with hw
                  rw [← hw, hz fid f hf hl]
                simp only [hl, if_true] at hv
                cases hfv : fieldValue ⟨0, 0⟩ f w idx ls.s with
                | error e => simp [hfv] at hv
                | ok r =>
                  simp only [hfv] at hv
                  injection hv with hv
                  simp only [Prod.mk.injEq] at hv
                  obtain ⟨hr, hv3, hv4⟩ := hv
                  subst hr hv4
                  exact ⟨⟨[], by simp, by intro x hx; simp at hx, by simp [hw0]⟩,
                    fun p _ => by rw [fieldValue_label p ⟨0, 0⟩ f w idx ls.s hl]; exact hfv⟩
              | false =>
                simp only [hl, Bool.false_eq_true, if_false] at hv
                by_cases hc0 : (f.ty = .int ∨ f.ty = .snt) ∧ w = 0
                · rw [if_pos hc0] at hv; simp at hv
                · rw [if_neg hc0] at hv
                  cases hvals : ls.vals with
                  | nil => simp [hvals] at hv
                  | cons x rest =>
                    simp only [hvals] at hv
                    by_cases hx : x < 2 ^ w
                    · rw [if_pos hx] at hv
                      injection hv with hv
                      simp only [Prod.mk.injEq] at hv
                      obtain ⟨⟨hv1, hv2⟩, hv3, hv4⟩ := hv
                      subst hv1 hv2 hv4
                      refine ⟨⟨[(w, x)], rfl, by intro c hc; simp at hc; subst hc; exact hx,
                        by rw [pack_append_singleton]; rfl⟩, fun p hp => ?_⟩
                      have hex : extract p ls.s.off w = some x := by
                        rw [hinv.off]
                        apply extract_mono _ p hp
                        rw [pack_append_singleton]
                        exact extract_push _ w x hx
                      rw [fieldValue_bits p f w idx ls.s hl, if_neg hc0, hex]
                    · rw [if_neg hx] at hv; simp at hv
            obtain ⟨⟨delta, hd1, hd2, hd3⟩, hread⟩ := key
            refine ⟨⟨delta, hd1, hd2⟩, ⟨by simp only; rw [hoff', hinv.off, hd3], by rw [hd1]; exact fits_append hinv.fits hd2⟩, ?_⟩
            intro p hp
            simp only
            unfold decField
            simp only [hf, hw, hread p hp, hst, hsp]


theorem sim_refl (T : Tables) (id : Ident) (label : Nat) (ls : LState) (hinv : LInv ls) :
    Sim T id label (fun _ s => .ok s) ls ls :=
  ⟨⟨[], by simp, by intro x hx; simp at hx⟩, hinv, fun _ _ => rfl⟩

/-- cells written later extend the payloads that start with the cells written so far -/
theorem sim_prefix {ls1 ls2 : LState} (h : ∃ delta, ls2.cells = ls1.cells ++ delta ∧ Fits delta)
    (p : Payload) (hp : Payload.Prefix (pack ls2.cells) p) : Payload.Prefix (pack ls1.cells) p := by
  obtain ⟨delta, hd, hf⟩ := h
  rw [hd] at hp
  exact Payload.prefix_trans (prefix_pack_append _ _ hf) hp

theorem sim_delta_trans {a b c : LState} (h1 : ∃ d, b.cells = a.cells ++ d ∧ Fits d)
    (h2 : ∃ d, c.cells = b.cells ++ d ∧ Fits d) : ∃ d, c.cells = a.cells ++ d ∧ Fits d := by
  obtain ⟨d1, e1, f1⟩ := h1
  obtain ⟨d2, e2, f2⟩ := h2
  exact ⟨d1 ++ d2, by rw [e2, e1, List.append_assoc], fits_append f1 f2⟩

theorem layLoop_sim (T : Tables) (id : Ident) (label : Nat)
    (f : Nat → LState → Except DecErr LState) (g : Ctx → Nat → DState → Except DecErr DState)
    (hfg : ∀ i ls ls', LInv ls → f i ls = .ok ls' → Sim T id label (fun cp s => g cp i s) ls ls')
    (n i : Nat) (ls ls' : LState) (hinv : LInv ls) (h : layLoop f n i ls = .ok ls') :
    Sim T id label (fun cp s => repLoop (g cp) n i s) ls ls' := by
  induction n generalizing i ls with
  | zero =>
    simp only [layLoop] at h
    injection h with h
    subst h
    simpa [repLoop] using sim_refl T id label ls hinv
  | succ n ih =>
    simp only [layLoop] at h
    cases hf : f i ls with
    | error e => simp [hf] at h
    | ok ls1 =>
      simp only [hf] at h
      obtain ⟨d1, inv1, run1⟩ := hfg i ls ls1 hinv hf
      obtain ⟨d2, inv2, run2⟩ := ih (i + 1) ls1 inv1 h
      refine ⟨sim_delta_trans d1 d2, inv2, fun p hp => ?_⟩
      simp only [repLoop]
      have r1 := run1 p (sim_prefix d2 p hp)
      have r2 := run2 p hp
      simp only at r1 r2
      rw [r1]
      exact r2

mutual
theorem layItem_sim (c : Ctx) (hz : LabelsZero c.T) :
    ∀ (it : Item) (idx : List Nat) (ls ls' : LState), LInv ls → layItem c it idx ls = .ok ls' →
      Sim c.T c.id c.label (fun cp s => decItem cp it idx s) ls ls'
  | .field fid, idx, ls, ls', hinv, h => by
    simp only [layItem] at h
    simpa [decItem] using layField_sim c hz fid idx ls ls' hinv h
  | .group cnt body, idx, ls, ls', hinv, h => by
    simp only [layItem] at h
    cases hc : countOf c cnt idx ls.s with
    | error e => simp [hc] at h
    | ok n =>
      simp only [hc] at h
      have hl := layLoop_sim c.T c.id c.label (fun i s => layItems c body (idx ++ [i]) s)
        (fun cp i s => decItems cp body (idx ++ [i]) s)
        (fun i a b ha hab => layItems_sim c hz body (idx ++ [i]) a b ha hab) n 1 ls ls' hinv h
      obtain ⟨d, inv, run⟩ := hl
      refine ⟨d, inv, fun p hp => ?_⟩
      simp only [decItem]
      rw [countOf_ctx c ⟨c.T, p, c.id, c.label⟩ rfl, hc]
      exact run p hp
  | .opt fid v body, idx, ls, ls', hinv, h => by
    simp only [layItem] at h
    cases hg : ls.s.attrs.get? (fid, []) with
    | none => simp [hg] at h
    | some a =>
      simp only [hg] at h
      by_cases he : optMatches a v = true
      · rw [if_pos he] at h
        obtain ⟨d, inv, run⟩ := layItems_sim c hz body idx ls ls' hinv h
        refine ⟨d, inv, fun p hp => ?_⟩
        simp only [decItem, hg, if_pos he]
        exact run p hp
      · rw [if_neg he] at h
        injection h with h
        subst h
        obtain ⟨d, inv, _⟩ := sim_refl c.T c.id c.label ls hinv
        refine ⟨d, inv, fun p _ => ?_⟩
        simp only [decItem, hg, if_neg he]
  | .malformed _, idx, ls, ls', hinv, h => by simp [layItem] at h
theorem layItems_sim (c : Ctx) (hz : LabelsZero c.T) :
    ∀ (l : List Item) (idx : List Nat) (ls ls' : LState), LInv ls → layItems c l idx ls = .ok ls' →
      Sim c.T c.id c.label (fun cp s => decItems cp l idx s) ls ls'
  | [], idx, ls, ls', hinv, h => by
    simp only [layItems] at h
    injection h with h
    subst h
    simpa [decItems] using sim_refl c.T c.id c.label ls hinv
  | it :: rest, idx, ls, ls', hinv, h => by
    simp only [layItems] at h
    cases hi : layItem c it idx ls with
    | error e => simp [hi] at h
    | ok ls1 =>
      simp only [hi] at h
      obtain ⟨d1, inv1, run1⟩ := layItem_sim c hz it idx ls ls1 hinv hi
      obtain ⟨d2, inv2, run2⟩ := layItems_sim c hz rest idx ls1 ls' inv1 h
      refine ⟨sim_delta_trans d1 d2, inv2, fun p hp => ?_⟩
      simp only [decItems]
      have r1 := run1 p (sim_prefix d2 p hp)
      have r2 := run2 p hp
      simp only at r1 r2
      rw [r1]
      exact r2
end

theorem linv_init (vals : List Nat) : LInv ⟨DState.init, vals, []⟩ :=
  ⟨rfl, by intro x hx; simp at hx⟩

/-- **Round trip** (any tables with zero-width labels): if laying the definition out from a list of
    raw values succeeds, then parsing any payload that starts with the packed cells gives back
    exactly the decoder state (attributes, maps, offset) the layout assigned, and the number of bits
    consumed is the total width of the cells. -/
theorem layout_roundtrip (T : Tables) (hz : LabelsZero T) (id : Ident) (label : Nat) (d : List Item)
    (vals : List Nat) (ls : LState) (h : layout T id label d vals = .ok ls) :
    Fits ls.cells ∧ ls.s.off = (pack ls.cells).blen ∧
    ∀ p, Payload.Prefix (pack ls.cells) p → decItems ⟨T, p, id, label⟩ d [] DState.init = .ok ls.s := by
  obtain ⟨⟨d', hd, hf⟩, inv, run⟩ := layItems_sim ⟨T, ⟨0, 0⟩, id, label⟩ hz d [] _ ls (linv_init vals) h
  simp only [List.nil_append] at hd
  exact ⟨inv.fits, inv.off, run⟩

/-! ### packed cells as bytes -/

theorem natToBytes_length (k v : Nat) : (natToBytes k v).length = k := by
  induction k generalizing v with
  | zero => rfl
  | succ k ih => simp [natToBytes, ih]

theorem bytesToNat_natToBytes (k v : Nat) : bytesToNat (natToBytes k v) = v % 2 ^ (8 * k) := by
  induction k generalizing v with
  | zero => simp [natToBytes, bytesToNat, Nat.mod_one]
  | succ k ih =>
    simp only [natToBytes]
    rw [bytesToNat_append, ih]
    have h1 : bytesToNat [UInt8.ofNat (v % 256)] = v % 256 := by
      simp [bytesToNat, UInt8.toNat_ofNat']
    rw [h1]
    simp only [List.length_cons, List.length_nil]
    rw [show 8 * (k + 1) = 8 + 8 * k by omega, Nat.pow_add, show (2:Nat) ^ (8 * (0 + 1)) = 256 by decide,
      Nat.mod_mul]
    omega

theorem pack_val_lt (cells : List Cell) (h : Fits cells) : (pack cells).val < 2 ^ (pack cells).blen := by
  obtain ⟨k, r, hb, hv, hr⟩ := prefix_pack_append [] cells h
  simp only [List.nil_append] at hb hv
  have h0 : (pack []).val = 0 ∧ (pack []).blen = 0 := ⟨rfl, rfl⟩
  rw [hv, hb, h0.1, h0.2]
  simpa using hr

theorem prefix_packBytes (cells : List Cell) (h : Fits cells) :
    Payload.Prefix (pack cells) (Payload.ofBytes (packBytes cells)) := by
  have hlt := pack_val_lt cells h
  unfold packBytes Payload.ofBytes
  simp only
  generalize pack cells = P at hlt ⊢
  refine ⟨8 * ((P.blen + 7) / 8) - P.blen, 0, ?_, ?_, Nat.two_pow_pos _⟩
  · simp only [natToBytes_length]; omega
  · simp only [bytesToNat_natToBytes, Nat.add_zero]
    apply Nat.mod_eq_of_lt
    calc P.val * 2 ^ (8 * ((P.blen + 7) / 8) - P.blen) < 2 ^ P.blen * 2 ^ (8 * ((P.blen + 7) / 8) - P.blen) :=
          Nat.mul_lt_mul_of_pos_right hlt (Nat.two_pow_pos _)
      _ = 2 ^ (8 * ((P.blen + 7) / 8)) := by rw [← Nat.pow_add]; congr 1; omega

/-! ### the converse: every successful parse is the layout of the values it extracted -/

theorem extract_lt' (p : Payload) (off w b : Nat) (h : extract p off w = some b) : b < 2 ^ w := by
  unfold extract at h
  split at h
  · injection h with h; rw [← h]; exact Nat.mod_lt _ (Nat.two_pow_pos w)
  · simp at h

/-- if `q` is a prefix of `p`, the `w` bits of `p` right after `q` extend the prefix -/
theorem prefix_push_of_extract (q p : Payload) (w bits : Nat) (hq : Payload.Prefix q p)
    (he : extract p q.blen w = some bits) : Payload.Prefix (q.push (w, bits)) p := by
  obtain ⟨k, r, hb, hv, hr⟩ := hq
  unfold extract at he
  split at he
  · rename_i hle
    injection he with he
    have hwk : w ≤ k := by omega
    obtain ⟨j, rfl⟩ : ∃ j, k = w + j := ⟨k - w, by omega⟩
    have hsh : p.blen - q.blen - w = j := by omega
    rw [hsh, Nat.shiftRight_eq_div_pow, hv] at he
    have e1 : q.val * 2 ^ (w + j) + r = r + (q.val * 2 ^ w) * 2 ^ j := by
      rw [Nat.pow_add, Nat.mul_assoc, Nat.add_comm]
    have hrj : r / 2 ^ j < 2 ^ w := by
      apply Nat.div_lt_of_lt_mul
      rw [← Nat.pow_add, Nat.add_comm]; exact hr
    rw [e1, Nat.add_mul_div_right _ _ (Nat.two_pow_pos j), Nat.add_comm, Nat.mul_add_mod_self_right,
      Nat.mod_eq_of_lt hrj] at he
    refine ⟨j, r % 2 ^ j, ?_, ?_, Nat.mod_lt _ (Nat.two_pow_pos j)⟩
    · simp only [Payload.push]; omega
    · simp only [Payload.push]
      rw [hv, ← he, Nat.add_mul, Nat.add_assoc, Nat.div_add_mod' r (2 ^ j), Nat.pow_add, Nat.mul_assoc]
  · simp at he

/-- parser-side invariant: the cells written so far are a prefix of the payload and the offset is
    their total width -/
structure CInv (cells : List Cell) (s : DState) (p : Payload) : Prop where
  pre : Payload.Prefix (pack cells) p
  off : s.off = (pack cells).blen
  fits : Fits cells

/-- the layout context that goes with a parser context (the layout walk never reads a payload) -/
def Ctx.lay (c : Ctx) : Ctx := ⟨c.T, ⟨0, 0⟩, c.id, c.label⟩

theorem layField_complete (c : Ctx) (hz : LabelsZero c.T) (fid : Nat) (idx : List Nat) (s s' : DState)
    (cells : List Cell) (h : decField c fid idx s = .ok s') (hinv : CInv cells s c.p) :
    ∃ vs cells', (∀ tail, layField c.lay fid idx ⟨s, vs ++ tail, cells⟩ = .ok ⟨s', tail, cells'⟩)
      ∧ CInv cells' s' c.p := by
  unfold decField at h
  cases hf : c.T.field? fid with
  | none => simp [hf] at h
  | some f =>
    simp only [hf] at h
    cases hw : fieldWidth c.T f fid s with
    | error e => simp [hw] at h
    | ok w =>
      simp only [hw] at h
      cases hv : fieldValue c.p f w idx s with
      | error e => simp [hv] at h
      | ok r =>
        obtain ⟨v, bits⟩ := r
        simp only [hv] at h
        cases hst : fieldStore f fid idx s.attrs v with
        | error e => simp [hst] at h
        | ok attrs =>
          simp only [hst] at h
          have hoff' : s'.off = s.off + w := fieldSpecial_off _ _ _ _ _ _ _ _ _ _ h
          cases hl : isLabelTy f.ty with
          | true =>
            have hne : ¬ (some fid = c.T.special.df396) := fun h396 =>
              fieldSpecial_label_df396 _ _ _ _ _ _ _ _ _ _ hl h396 h
            have hw0 : w = 0 := by
              unfold fieldWidth at hw
              rw [if_neg hne] at hw
              injection hw with hw
              rw [← hw, hz fid f hf hl]
            refine ⟨[], cells, fun tail => ?_, ⟨hinv.pre, by rw [hoff', hinv.off, hw0]; rfl, hinv.fits⟩⟩
            unfold layField
            simp only [Ctx.lay, hf, hw, layValue, isLabel_eq, hl, if_true, List.nil_append]
            rw [fieldValue_label ⟨0, 0⟩ c.p f w idx s hl, hv]
            simp only [hst, h]
          | false =>
            rw [fieldValue_bits c.p f w idx s hl] at hv
            by_cases hc0 : (f.ty = .int ∨ f.ty = .snt) ∧ w = 0
            · rw [if_pos hc0] at hv; simp at hv
            · rw [if_neg hc0] at hv
              cases he : extract c.p s.off w with
              | none => rw [he] at hv; simp at hv
              | some b =>
                rw [he] at hv
                injection hv with hv
                simp only [Prod.mk.injEq] at hv
                obtain ⟨hv1, hv2⟩ := hv
                subst hv1 hv2
                have hlt := extract_lt' _ _ _ _ he
                refine ⟨[b], cells ++ [(w, b)], fun tail => ?_, ?_⟩
                · unfold layField
                  simp only [Ctx.lay, hf, hw, layValue, isLabel_eq, hl, Bool.false_eq_true, if_false, if_neg hc0,
                    List.singleton_append, if_pos hlt, hst, h]
                · refine ⟨?_, ?_, fits_append hinv.fits (by intro x hx; simp at hx; subst hx; exact hlt)⟩
                  · rw [pack_append_singleton]
                    exact prefix_push_of_extract _ _ _ _ hinv.pre (by rw [← hinv.off]; exact he)
                  · rw [hoff', hinv.off, pack_append_singleton]; rfl


/-- completeness statement for a piece of the walk: some list of raw values `vs` makes the layout
    walk do exactly what the parser did, whatever values follow -/
def Complete (lay : LState → Except DecErr LState) (s s' : DState) (cells : List Cell) (p : Payload) : Prop :=
  ∃ vs cells', (∀ tail, lay ⟨s, vs ++ tail, cells⟩ = .ok ⟨s', tail, cells'⟩) ∧ CInv cells' s' p

theorem layLoop_complete (p : Payload) (f : Nat → LState → Except DecErr LState) (g : Nat → DState → Except DecErr DState)
    (hfg : ∀ i s s' cells, g i s = .ok s' → CInv cells s p → Complete (f i) s s' cells p)
    (n i : Nat) (s s' : DState) (cells : List Cell) (h : repLoop g n i s = .ok s') (hinv : CInv cells s p) :
    Complete (layLoop f n i) s s' cells p := by
  induction n generalizing i s cells with
  | zero =>
    simp only [repLoop] at h
    injection h with h; subst h
    exact ⟨[], cells, fun tail => by simp [layLoop], hinv⟩
  | succ n ih =>
    simp only [repLoop] at h
    cases hg : g i s with
    | error e => simp [hg] at h
    | ok s1 =>
      simp only [hg] at h
      obtain ⟨vs1, c1, l1, i1⟩ := hfg i s s1 cells hg hinv
      obtain ⟨vs2, c2, l2, i2⟩ := ih (i + 1) s1 c1 h i1
      refine ⟨vs1 ++ vs2, c2, fun tail => ?_, i2⟩
      simp only [layLoop]
      rw [List.append_assoc, l1 (vs2 ++ tail)]
      exact l2 tail

mutual
theorem layItem_complete (c : Ctx) (hz : LabelsZero c.T) :
    ∀ (it : Item) (idx : List Nat) (s s' : DState) (cells : List Cell),
      decItem c it idx s = .ok s' → CInv cells s c.p → Complete (layItem c.lay it idx) s s' cells c.p
  | .field fid, idx, s, s', cells, h, hinv => by
    simp only [decItem] at h
    obtain ⟨vs, c', l, i⟩ := layField_complete c hz fid idx s s' cells h hinv
    exact ⟨vs, c', fun tail => by simp only [layItem]; exact l tail, i⟩
  | .group cnt body, idx, s, s', cells, h, hinv => by
    simp only [decItem] at h
    cases hc : countOf c cnt idx s with
    | error e => simp [hc] at h
    | ok n =>
      simp only [hc] at h
      obtain ⟨vs, c', l, i⟩ := layLoop_complete c.p (fun i s => layItems c.lay body (idx ++ [i]) s)
        (fun i s => decItems c body (idx ++ [i]) s)
        (fun i a b cl hab hcl => layItems_complete c hz body (idx ++ [i]) a b cl hab hcl) n 1 s s' cells h hinv
      refine ⟨vs, c', fun tail => ?_, i⟩
      simp only [layItem]
      rw [countOf_ctx c c.lay rfl, hc]
      exact l tail
  | .opt fid v body, idx, s, s', cells, h, hinv => by
    simp only [decItem] at h
    cases hg : s.attrs.get? (fid, []) with
    | none => simp [hg] at h
    | some a =>
      simp only [hg] at h
      by_cases he : optMatches a v = true
      · rw [if_pos he] at h
        obtain ⟨vs, c', l, i⟩ := layItems_complete c hz body idx s s' cells h hinv
        exact ⟨vs, c', fun tail => by simp only [layItem, hg, if_pos he]; exact l tail, i⟩
      · rw [if_neg he] at h
        injection h with h; subst h
        exact ⟨[], cells, fun tail => by simp [layItem, hg, he], hinv⟩
  | .malformed _, idx, s, s', cells, h, hinv => by simp [decItem] at h
theorem layItems_complete (c : Ctx) (hz : LabelsZero c.T) :
    ∀ (l : List Item) (idx : List Nat) (s s' : DState) (cells : List Cell),
      decItems c l idx s = .ok s' → CInv cells s c.p → Complete (layItems c.lay l idx) s s' cells c.p
  | [], idx, s, s', cells, h, hinv => by
    simp only [decItems] at h
    injection h with h; subst h
    exact ⟨[], cells, fun tail => by simp [layItems], hinv⟩
  | it :: rest, idx, s, s', cells, h, hinv => by
    simp only [decItems] at h
    cases hi : decItem c it idx s with
    | error e => simp [hi] at h
    | ok s1 =>
      simp only [hi] at h
      obtain ⟨vs1, c1, l1, i1⟩ := layItem_complete c hz it idx s s1 cells hi hinv
      obtain ⟨vs2, c2, l2, i2⟩ := layItems_complete c hz rest idx s1 s' c1 h i1
      refine ⟨vs1 ++ vs2, c2, fun tail => ?_, i2⟩
      simp only [layItems]
      rw [List.append_assoc, l1 (vs2 ++ tail)]
      exact l2 tail
end

theorem prefix_nil (p : Payload) (h : p.val < 2 ^ p.blen) : Payload.Prefix (pack []) p :=
  ⟨p.blen, p.val, by simp [pack], by simp [pack], h⟩

/-- **Converse of the round trip**: whenever the parser accepts a (proper) payload, the decoder
    state it reaches is the layout of some list of raw values — the values it extracted, in order —
    all of which are consumed; the cells of that layout, packed in order, are exactly the first
    `s.off` bits of the payload. -/
theorem layout_complete (T : Tables) (hz : LabelsZero T) (id : Ident) (label : Nat) (d : List Item)
    (p : Payload) (hp : p.val < 2 ^ p.blen) (s : DState)
    (h : decItems ⟨T, p, id, label⟩ d [] DState.init = .ok s) :
    ∃ vals cells, layout T id label d vals = .ok ⟨s, [], cells⟩
      ∧ Payload.Prefix (pack cells) p ∧ s.off = (pack cells).blen := by
  obtain ⟨vs, cells, l, i⟩ := layItems_complete ⟨T, p, id, label⟩ hz d [] DState.init s []
    h ⟨prefix_nil p hp, rfl, by intro x hx; simp at hx⟩
  refine ⟨vs, cells, ?_, i.pre, i.off⟩
  have := l []
  simpa [layout, Ctx.lay] using this

end Rtcm
