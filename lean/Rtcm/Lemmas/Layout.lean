import Rtcm.Model.Layout
import Rtcm.Lemmas.Decode
import Rtcm.Lemmas.Crc
/-
  Round trip: parsing a payload that starts with the packed layout of a value list yields exactly
  the attributes the layout walk assigned (C03).
-/
namespace Rtcm

def Fits (cells : List Cell) : Prop := ∀ c ∈ cells, c.2 < 2 ^ c.1

theorem pack_append_singleton (cs : List Cell) (c : Cell) : pack (cs ++ [c]) = (pack cs).push c := by
  simp [pack, List.foldl_append]

theorem Payload.prefix_trans {a b c : Payload} (h1 : Payload.Prefix a b) (h2 : Payload.Prefix b c) : Payload.Prefix a c := by
  obtain ⟨k1, r1, hb1, hv1, hr1⟩ := h1
  obtain ⟨k2, r2, hb2, hv2, hr2⟩ := h2
  refine ⟨k1 + k2, r1 * 2 ^ k2 + r2, by omega, ?_, ?_⟩
  · rw [hv2, hv1, Nat.pow_add, Nat.add_mul, Nat.mul_assoc, Nat.add_assoc]
  · rw [Nat.pow_add]
    calc r1 * 2 ^ k2 + r2 < r1 * 2 ^ k2 + 2 ^ k2 := by omega
      _ = (r1 + 1) * 2 ^ k2 := by rw [Nat.add_mul, Nat.one_mul]
      _ ≤ 2 ^ k1 * 2 ^ k2 := Nat.mul_le_mul_right _ hr1

theorem prefix_push (p : Payload) (c : Cell) (h : c.2 < 2 ^ c.1) : Payload.Prefix p (p.push c) :=
  ⟨c.1, c.2, rfl, rfl, h⟩

theorem prefix_pack_append (a b : List Cell) (hb : Fits b) : Payload.Prefix (pack a) (pack (a ++ b)) := by
  induction b generalizing a with
  | nil => simpa using Payload.prefix_refl (pack a)
  | cons c rest ih =>
    have e : a ++ c :: rest = (a ++ [c]) ++ rest := by simp
    rw [e]
    have h1 : Payload.Prefix (pack a) (pack (a ++ [c])) := by
      rw [pack_append_singleton]; exact prefix_push _ c (hb c (by simp))
    exact Payload.prefix_trans h1 (ih (a ++ [c]) (fun x hx => hb x (by simp [hx])))

/-- reading the cell just written gives back its bits -/
theorem extract_push (p : Payload) (w v : Nat) (h : v < 2 ^ w) : extract (p.push (w, v)) p.blen w = some v := by
  unfold extract Payload.push
  simp only
  rw [if_pos (Nat.le_refl _)]
  congr 1
  rw [show p.blen + w - p.blen - w = 0 by omega, Nat.shiftRight_zero, Nat.add_comm, Nat.add_mul_mod_self_right,
    Nat.mod_eq_of_lt h]

theorem fits_append {a b : List Cell} (ha : Fits a) (hb : Fits b) : Fits (a ++ b) := by
  intro c hc
  simp at hc
  rcases hc with h | h
  · exact ha c h
  · exact hb c h

theorem isLabel_eq (t : FType) : t.isLabel = isLabelTy t := rfl

/-- a label reads no bits: its value does not depend on the payload -/
theorem fieldValue_label (p q : Payload) (f : FieldSpec) (w : Nat) (idx : List Nat) (s : DState)
    (hl : isLabelTy f.ty = true) : fieldValue p f w idx s = fieldValue q f w idx s := by
  unfold fieldValue
  cases hty : f.ty <;> simp [hty, isLabelTy] at hl <;> rfl

theorem fieldValue_bits (p : Payload) (f : FieldSpec) (w : Nat) (idx : List Nat) (s : DState)
    (hl : isLabelTy f.ty = false) : fieldValue p f w idx s =
      if (f.ty = .int ∨ f.ty = .snt) ∧ w = 0 then .error .badType
      else match extract p s.off w with
        | none => .error .short
        | some bits => .ok (interp f w bits, bits) := by
  unfold fieldValue
  cases hty : f.ty <;> simp [hty, isLabelTy] at hl <;> rfl

/-- invariant of the layout walk against the parser: the offset is the number of bits written -/
structure LInv (ls : LState) : Prop where
  off : ls.s.off = (pack ls.cells).blen
  fits : Fits ls.cells

/-- the step relation we prove for every piece of the walk: cells only grow, the invariant is kept,
    and the parser run on any payload starting with the *new* cells does the same thing -/
def Sim (T : Tables) (id : Ident) (label : Nat)
    (run : Ctx → DState → Except DecErr DState) (ls ls' : LState) : Prop :=
  (∃ delta, ls'.cells = ls.cells ++ delta ∧ Fits delta) ∧ LInv ls'
  ∧ ∀ p, Payload.Prefix (pack ls'.cells) p → run ⟨T, p, id, label⟩ ls.s = .ok ls'.s

theorem layField_sim (c : Ctx) (hz : LabelsZero c.T) (fid : Nat) (idx : List Nat) (ls ls' : LState)
    (hinv : LInv ls) (h : layField c fid idx ls = .ok ls') :
    Sim c.T c.id c.label (fun cp s => decField cp fid idx s) ls ls' := by
  unfold layField at h
  cases hf : c.T.field? fid with
  | none => simp [hf] at h
  | some f =>
    simp only [hf] at h
    cases hw : fieldWidth c.T f fid ls.s with
    | error e => simp [hw] at h
    | ok w =>
      simp only [hw] at h
      cases hv : layValue f w idx ls with
      | error e => simp [hv] at h
      | ok r =>
        obtain ⟨⟨v, bits⟩, vals, cells⟩ := r
        simp only [hv] at h
        cases hst : fieldStore f fid idx ls.s.attrs v with
        | error e => simp [hst] at h
        | ok attrs =>
          simp only [hst] at h
          cases hsp : fieldSpecial c.T c.id c.label f fid idx w bits { ls.s with off := ls.s.off + w, attrs := attrs } with
          | error e => simp [hsp] at h
          | ok s' =>
            simp only [hsp] at h
            injection h with h
            subst h
            have hoff' : s'.off = ls.s.off + w := fieldSpecial_off _ _ _ _ _ _ _ _ _ _ hsp
            -- what the value step did to the cells, and what the parser reads
            have key : (∃ delta, cells = ls.cells ++ delta ∧ Fits delta ∧ (pack cells).blen = (pack ls.cells).blen + w)
                ∧ ∀ p, Payload.Prefix (pack cells) p → fieldValue p f w idx ls.s = .ok (v, bits) := by
              unfold layValue at hv
              rw [isLabel_eq] at hv
              cases hl : isLabelTy f.ty with
              | true =>
                have hne : ¬ (some fid = c.T.special.df396) := fun h396 =>
                  fieldSpecial_label_df396 _ _ _ _ _ _ _ _ _ _ hl h396 hsp
                have hw0 : w = 0 := by
                  unfold fieldWidth at hw
                  rw [if_neg hne] at hw
                  injection hw with hw
                  rw [← hw, hz fid f hf hl]
                simp only [hl, if_true] at hv
                cases hfv : fieldValue ⟨0, 0⟩ f w idx ls.s with
                | error e => simp [hfv] at hv
                | ok r =>
                  simp only [hfv] at hv
                  injection hv with hv
                  simp only [Prod.mk.injEq] at hv
                  obtain ⟨hr, hv3, hv4⟩ := hv
                  subst hr hv4
                  exact ⟨⟨[], by simp, by intro x hx; simp at hx, by simp [hw0]⟩,
                    fun p _ => by rw [fieldValue_label p ⟨0, 0⟩ f w idx ls.s hl]; exact hfv⟩
              | false =>
                simp only [hl, Bool.false_eq_true, if_false] at hv
                by_cases hc0 : (f.ty = .int ∨ f.ty = .snt) ∧ w = 0
                · rw [if_pos hc0] at hv; simp at hv
                · rw [if_neg hc0] at hv
                  cases hvals : ls.vals with
                  | nil => simp [hvals] at hv
                  | cons x rest =>
                    simp only [hvals] at hv
                    by_cases hx : x < 2 ^ w
                    · rw [if_pos hx] at hv
                      injection hv with hv
                      simp only [Prod.mk.injEq] at hv
                      obtain ⟨⟨hv1, hv2⟩, hv3, hv4⟩ := hv
                      subst hv1 hv2 hv4
                      refine ⟨⟨[(w, x)], rfl, by intro c hc; simp at hc; subst hc; exact hx,
                        by rw [pack_append_singleton]; rfl⟩, fun p hp => ?_⟩
                      have hex : extract p ls.s.off w = some x := by
                        rw [hinv.off]
                        apply extract_mono _ p hp
                        rw [pack_append_singleton]
                        exact extract_push _ w x hx
                      rw [fieldValue_bits p f w idx ls.s hl, if_neg hc0, hex]
                    · rw [if_neg hx] at hv; simp at hv
            obtain ⟨⟨delta, hd1, hd2, hd3⟩, hread⟩ := key
            refine ⟨⟨delta, hd1, hd2⟩, ⟨by simp only; rw [hoff', hinv.off, hd3], by rw [hd1]; exact fits_append hinv.fits hd2⟩, ?_⟩
            intro p hp
            simp only
            unfold decField
            simp only [hf, hw, hread p hp, hst, hsp]


theorem sim_refl (T : Tables) (id : Ident) (label : Nat) (ls : LState) (hinv : LInv ls) :
    Sim T id label (fun _ s => .ok s) ls ls :=
  ⟨⟨[], by simp, by intro x hx; simp at hx⟩, hinv, fun _ _ => rfl⟩

/-- cells written later extend the payloads that start with the cells written so far -/
theorem sim_prefix {ls1 ls2 : LState} (h : ∃ delta, ls2.cells = ls1.cells ++ delta ∧ Fits delta)
    (p : Payload) (hp : Payload.Prefix (pack ls2.cells) p) : Payload.Prefix (pack ls1.cells) p := by
  obtain ⟨delta, hd, hf⟩ := h
  rw [hd] at hp
  exact Payload.prefix_trans (prefix_pack_append _ _ hf) hp

theorem sim_delta_trans {a b c : LState} (h1 : ∃ d, b.cells = a.cells ++ d ∧ Fits d)
    (h2 : ∃ d, c.cells = b.cells ++ d ∧ Fits d) : ∃ d, c.cells = a.cells ++ d ∧ Fits d := by
  obtain ⟨d1, e1, f1⟩ := h1
  obtain ⟨d2, e2, f2⟩ := h2
  exact ⟨d1 ++ d2, by rw [e2, e1, List.append_assoc], fits_append f1 f2⟩

theorem layLoop_sim (T : Tables) (id : Ident) (label : Nat)
    (f : Nat → LState → Except DecErr LState) (g : Ctx → Nat → DState → Except DecErr DState)
    (hfg : ∀ i ls ls', LInv ls → f i ls = .ok ls' → Sim T id label (fun cp s => g cp i s) ls ls')
    (n i : Nat) (ls ls' : LState) (hinv : LInv ls) (h : layLoop f n i ls = .ok ls') :
    Sim T id label (fun cp s => repLoop (g cp) n i s) ls ls' := by
  induction n generalizing i ls with
  | zero =>
    simp only [layLoop] at h
    injection h with h
    subst h
    simpa [repLoop] using sim_refl T id label ls hinv
  | succ n ih =>
    simp only [layLoop] at h
    cases hf : f i ls with
    | error e => simp [hf] at h
    | ok ls1 =>
      simp only [hf] at h
      obtain ⟨d1, inv1, run1⟩ := hfg i ls ls1 hinv hf
      obtain ⟨d2, inv2, run2⟩ := ih (i + 1) ls1 inv1 h
      refine ⟨sim_delta_trans d1 d2, inv2, fun p hp => ?_⟩
      simp only [repLoop]
      have r1 := run1 p (sim_prefix d2 p hp)
      have r2 := run2 p hp
      simp only at r1 r2
      rw [r1]
      exact r2

mutual
theorem layItem_sim (c : Ctx) (hz : LabelsZero c.T) :
    ∀ (it : Item) (idx : List Nat) (ls ls' : LState), LInv ls → layItem c it idx ls = .ok ls' →
      Sim c.T c.id c.label (fun cp s => decItem cp it idx s) ls ls'
  | .field fid, idx, ls, ls', hinv, h => by
    simp only [layItem] at h
    simpa [decItem] using layField_sim c hz fid idx ls ls' hinv h
  | .group cnt body, idx, ls, ls', hinv, h => by
    simp only [layItem] at h
    cases hc : countOf c cnt idx ls.s with
    | error e => simp [hc] at h
    | ok n =>
      simp only [hc] at h
      have hl := layLoop_sim c.T c.id c.label (fun i s => layItems c body (idx ++ [i]) s)
        (fun cp i s => decItems cp body (idx ++ [i]) s)
        (fun i a b ha hab => layItems_sim c hz body (idx ++ [i]) a b ha hab) n 1 ls ls' hinv h
      obtain ⟨d, inv, run⟩ := hl
      refine ⟨d, inv, fun p hp => ?_⟩
      simp only [decItem]
      rw [countOf_ctx c ⟨c.T, p, c.id, c.label⟩ rfl, hc]
      exact run p hp
  | .opt fid v body, idx, ls, ls', hinv, h => by
    simp only [layItem] at h
    cases hg : ls.s.attrs.get? (fid, []) with
    | none => simp [hg] at h
    | some a =>
      simp only [hg] at h
      by_cases he : optMatches a v = true
      · rw [if_pos he] at h
        obtain ⟨d, inv, run⟩ := layItems_sim c hz body idx ls ls' hinv h
        refine ⟨d, inv, fun p hp => ?_⟩
        simp only [decItem, hg, if_pos he]
        exact run p hp
      · rw [if_neg he] at h
        injection h with h
        subst h
        obtain ⟨d, inv, _⟩ := sim_refl c.T c.id c.label ls hinv
        refine ⟨d, inv, fun p _ => ?_⟩
        simp only [decItem, hg, if_neg he]
  | .malformed _, idx, ls, ls', hinv, h => by simp [layItem] at h
theorem layItems_sim (c : Ctx) (hz : LabelsZero c.T) :
    ∀ (l : List Item) (idx : List Nat) (ls ls' : LState), LInv ls → layItems c l idx ls = .ok ls' →
      Sim c.T c.id c.label (fun cp s => decItems cp l idx s) ls ls'
  | [], idx, ls, ls', hinv, h => by
    simp only [layItems] at h
    injection h with h
    subst h
    simpa [decItems] using sim_refl c.T c.id c.label ls hinv
  | it :: rest, idx, ls, ls', hinv, h => by
    simp only [layItems] at h
    cases hi : layItem c it idx ls with
    | error e => simp [hi] at h
    | ok ls1 =>
      simp only [hi] at h
      obtain ⟨d1, inv1, run1⟩ := layItem_sim c hz it idx ls ls1 hinv hi
      obtain ⟨d2, inv2, run2⟩ := layItems_sim c hz rest idx ls1 ls' inv1 h
      refine ⟨sim_delta_trans d1 d2, inv2, fun p hp => ?_⟩
      simp only [decItems]
      have r1 := run1 p (sim_prefix d2 p hp)
      have r2 := run2 p hp
      simp only at r1 r2
      rw [r1]
      exact r2
end

theorem linv_init (vals : List Nat) : LInv ⟨DState.init, vals, []⟩ :=
  ⟨rfl, by intro x hx; simp at hx⟩

/-- **Round trip** (any tables with zero-width labels): if laying the definition out from a list of
    raw values succeeds, then parsing any payload that starts with the packed cells gives back
    exactly the decoder state (attributes, maps, offset) the layout assigned, and the number of bits
    consumed is the total width of the cells. -/
theorem layout_roundtrip (T : Tables) (hz : LabelsZero T) (id : Ident) (label : Nat) (d : List Item)
    (vals : List Nat) (ls : LState) (h : layout T id label d vals = .ok ls) :
    Fits ls.cells ∧ ls.s.off = (pack ls.cells).blen ∧
    ∀ p, Payload.Prefix (pack ls.cells) p → decItems ⟨T, p, id, label⟩ d [] DState.init = .ok ls.s := by
  obtain ⟨⟨d', hd, hf⟩, inv, run⟩ := layItems_sim ⟨T, ⟨0, 0⟩, id, label⟩ hz d [] _ ls (linv_init vals) h
  simp only [List.nil_append] at hd
  exact ⟨inv.fits, inv.off, run⟩

/-! ### packed cells as bytes -/

theorem natToBytes_length (k v : Nat) : (natToBytes k v).length = k := by
  induction k generalizing v with
  | zero => rfl
  | succ k ih => simp [natToBytes, ih]

theorem bytesToNat_natToBytes (k v : Nat) : bytesToNat (natToBytes k v) = v % 2 ^ (8 * k) := by
  induction k generalizing v with
  | zero => simp [natToBytes, bytesToNat, Nat.mod_one]
  | succ k ih =>
    simp only [natToBytes]
    rw [bytesToNat_append, ih]
    have h1 : bytesToNat [UInt8.ofNat (v % 256)] = v % 256 := by
      simp [bytesToNat, UInt8.toNat_ofNat']
    rw [h1]
    simp only [List.length_cons, List.length_nil]
    rw [show 8 * (k + 1) = 8 + 8 * k by omega, Nat.pow_add, show (2:Nat) ^ (8 * (0 + 1)) = 256 by decide,
      Nat.mod_mul]
    omega

theorem pack_val_lt (cells : List Cell) (h : Fits cells) : (pack cells).val < 2 ^ (pack cells).blen := by
  obtain ⟨k, r, hb, hv, hr⟩ := prefix_pack_append [] cells h
  simp only [List.nil_append] at hb hv
  have h0 : (pack []).val = 0 ∧ (pack []).blen = 0 := ⟨rfl, rfl⟩
  rw [hv, hb, h0.1, h0.2]
  simpa using hr

theorem prefix_packBytes (cells : List Cell) (h : Fits cells) :
    Payload.Prefix (pack cells) (Payload.ofBytes (packBytes cells)) := by
  have hlt := pack_val_lt cells h
  unfold packBytes Payload.ofBytes
  simp only
  generalize pack cells = P at hlt ⊢
  refine ⟨8 * ((P.blen + 7) / 8) - P.blen, 0, ?_, ?_, Nat.two_pow_pos _⟩
  · simp only [natToBytes_length]; omega
  · simp only [bytesToNat_natToBytes, Nat.add_zero]
    apply Nat.mod_eq_of_lt
    calc P.val * 2 ^ (8 * ((P.blen + 7) / 8) - P.blen) < 2 ^ P.blen * 2 ^ (8 * ((P.blen + 7) / 8) - P.blen) :=
          Nat.mul_lt_mul_of_pos_right hlt (Nat.two_pow_pos _)
      _ = 2 ^ (8 * ((P.blen + 7) / 8)) := by rw [← Nat.pow_add]; congr 1; omega

end Rtcm
