import Rtcm.Model.Message
/-
  The MSM label option: decoding the same payload under two label options runs in lock step;
  the two states agree on everything except the text of CELLSIG-typed attributes.
-/
namespace Rtcm

def isCsigFid (T : Tables) (fid : Nat) : Bool :=
  match T.field? fid with
  | some f => f.ty == .csig
  | none => false

/-- values agree, except that under a CELLSIG-typed field both are (possibly different) texts -/
def ValRel (T : Tables) (fid : Nat) (v1 v2 : Val) : Prop :=
  if isCsigFid T fid = true then (∃ a b, v1 = .text a ∧ v2 = .text b) else v1 = v2

inductive AttrsRel (T : Tables) : Attrs → Attrs → Prop
  | nil : AttrsRel T [] []
  | cons (k : AttrKey) (v1 v2 : Val) (r1 r2 : Attrs) :
      ValRel T k.1 v1 v2 → AttrsRel T r1 r2 → AttrsRel T ((k, v1) :: r1) ((k, v2) :: r2)

inductive CellRel : Option (List (Label × Label)) → Option (List (Label × Label)) → Prop
  | nn : CellRel none none
  | ss (a b : List (Label × Label)) : a.length = b.length →
      (∀ i : Nat, (a[i]?).map (fun (x : Label × Label) => x.1) = (b[i]?).map (fun (x : Label × Label) => x.1)) →
      CellRel (some a) (some b)

structure StRel (T : Tables) (s1 s2 : DState) : Prop where
  off : s1.off = s2.off
  sat : s1.satmap = s2.satmap
  cell : CellRel s1.cellmap s2.cellmap
  attrs : AttrsRel T s1.attrs s2.attrs

theorem ValRel.refl (T : Tables) (fid : Nat) (v : Val) (h : isCsigFid T fid = true → ∃ a, v = .text a) :
    ValRel T fid v v := by
  unfold ValRel
  split
  · rename_i hc
    obtain ⟨a, ha⟩ := h hc
    exact ⟨a, a, ha, ha⟩
  · rfl

theorem ValRel.asInt_eq (T : Tables) (fid : Nat) (v1 v2 : Val) (h : ValRel T fid v1 v2) : v1.asInt? = v2.asInt? := by
  unfold ValRel at h
  split at h
  · obtain ⟨a, b, h1, h2⟩ := h
    rw [h1, h2]; rfl
  · rw [h]

theorem ValRel.optMatches_eq (T : Tables) (fid : Nat) (v1 v2 : Val) (c : Int) (h : ValRel T fid v1 v2) :
    optMatches v1 c = optMatches v2 c := by
  unfold ValRel at h
  split at h
  · obtain ⟨a, b, h1, h2⟩ := h
    rw [h1, h2]; rfl
  · rw [h]

theorem AttrsRel.get_rel (T : Tables) (a1 a2 : Attrs) (h : AttrsRel T a1 a2) (k : AttrKey) :
    (a1.get? k = none ∧ a2.get? k = none) ∨ ∃ v1 v2, a1.get? k = some v1 ∧ a2.get? k = some v2 ∧ ValRel T k.1 v1 v2 := by
  induction h with
  | nil => left; exact ⟨rfl, rfl⟩
  | cons k' v1 v2 r1 r2 hv _ ih =>
    simp only [Attrs.get?]
    by_cases hk : k' = k
    · right
      subst hk
      exact ⟨v1, v2, by simp, by simp, hv⟩
    · simp only [hk, if_false]
      exact ih

theorem AttrsRel.set_rel (T : Tables) (a1 a2 : Attrs) (h : AttrsRel T a1 a2) (k : AttrKey) (v1 v2 : Val)
    (hv : ValRel T k.1 v1 v2) : AttrsRel T (a1.set k v1) (a2.set k v2) := by
  induction h with
  | nil => exact AttrsRel.cons k v1 v2 [] [] hv AttrsRel.nil
  | cons k' w1 w2 r1 r2 hw hr ih =>
    simp only [Attrs.set]
    by_cases hk : k' = k
    · simp only [hk, if_true]
      exact AttrsRel.cons k v1 v2 r1 r2 hv hr
    · simp only [hk, if_false]
      exact AttrsRel.cons k' w1 w2 _ _ hw ih

theorem AttrsRel.set_same (T : Tables) (a1 a2 : Attrs) (h : AttrsRel T a1 a2) (k : AttrKey) (v : Val)
    (hk : isCsigFid T k.1 = false) : AttrsRel T (a1.set k v) (a2.set k v) := by
  apply AttrsRel.set_rel T a1 a2 h k v v
  unfold ValRel
  simp [hk]

theorem StRel.getInt_eq (T : Tables) (s1 s2 : DState) (h : StRel T s1 s2) (k : AttrKey) :
    getInt s1 k = getInt s2 k := by
  unfold getInt
  rcases AttrsRel.get_rel T _ _ h.attrs k with ⟨h1, h2⟩ | ⟨v1, v2, h1, h2, hv⟩
  · rw [h1, h2]
  · rw [h1, h2]; simp only; rw [hv.asInt_eq]

theorem StRel.getNat_eq (T : Tables) (s1 s2 : DState) (h : StRel T s1 s2) (k : AttrKey) :
    getNat s1 k = getNat s2 k := by
  unfold getNat
  rw [h.getInt_eq]

theorem fieldWidth_rel (T : Tables) (f : FieldSpec) (fid : Nat) (s1 s2 : DState) (h : StRel T s1 s2) :
    fieldWidth T f fid s1 = fieldWidth T f fid s2 := by
  unfold fieldWidth
  rw [h.getNat_eq, h.getNat_eq]

end Rtcm

namespace Rtcm

/-- results of the two runs: both fail alike, or both succeed with related states -/
def ExRel (T : Tables) (r1 r2 : Except DecErr DState) : Prop :=
  match r1, r2 with
  | .ok s1, .ok s2 => StRel T s1 s2
  | .error e1, .error e2 => e1 = e2
  | _, _ => False

theorem CellRel.lookup (m1 m2 : List (Label × Label)) (h : CellRel (some m1) (some m2)) (i : Nat) :
    (m1[i]? = none ∧ m2[i]? = none) ∨ ∃ l1 l2, m1[i]? = some l1 ∧ m2[i]? = some l2 ∧ l1.1 = l2.1 := by
  cases h with
  | ss a b hl hm =>
    have := hm i
    cases h1 : m1[i]? with
    | none =>
      cases h2 : m2[i]? with
      | none => exact Or.inl ⟨rfl, rfl⟩
      | some y => rw [h1, h2] at this; simp at this
    | some x =>
      cases h2 : m2[i]? with
      | none => rw [h1, h2] at this; simp at this
      | some y =>
        rw [h1, h2] at this
        simp at this
        exact Or.inr ⟨x, y, rfl, rfl, this⟩

/-- the value read for a field in the two runs -/
def ValResRel (csig : Bool) (r1 r2 : Except DecErr (Val × Nat)) : Prop :=
  match r1, r2 with
  | .ok (v1, b1), .ok (v2, b2) => b1 = b2 ∧ (if csig then ∃ a b, v1 = .text a ∧ v2 = .text b else v1 = v2)
  | .error e1, .error e2 => e1 = e2
  | _, _ => False

theorem ValResRel.refl_of_not_csig (r : Except DecErr (Val × Nat)) : ValResRel false r r := by
  unfold ValResRel
  cases r with
  | error e => rfl
  | ok x => obtain ⟨v, b⟩ := x; exact ⟨rfl, by simp⟩

theorem fieldValue_rel (T : Tables) (p : Payload) (f : FieldSpec) (w : Nat) (idx : List Nat) (s1 s2 : DState)
    (h : StRel T s1 s2) :
    ValResRel (f.ty == .csig) (fieldValue p f w idx s1) (fieldValue p f w idx s2) := by
  unfold fieldValue
  cases hty : f.ty
  case prn =>
    simp only [hty]
    rw [h.sat]
    exact ValResRel.refl_of_not_csig _
  case cprn =>
    simp only [hty]
    have hc := h.cell
    cases h1 : s1.cellmap with
    | none =>
      cases h2 : s2.cellmap with
      | none => exact ValResRel.refl_of_not_csig _
      | some m2 => rw [h1, h2] at hc; cases hc
    | some m1 =>
      rw [h1] at hc
      cases h2 : s2.cellmap with
      | none => rw [h2] at hc; cases hc
      | some m2 =>
        rw [h2] at hc
        cases idx with
        | nil => simp [ValResRel]
        | cons i rest =>
          simp only
          by_cases hi : i = 0
          · simp [hi, ValResRel]
          · simp only [hi, if_false]
            rcases CellRel.lookup m1 m2 hc (i - 1) with ⟨e1, e2⟩ | ⟨l1, l2, e1, e2, he⟩
            · rw [e1, e2]; simp [ValResRel]
            · rw [e1, e2]; simp [ValResRel, he]
  case csig =>
    simp only [hty]
    have hc := h.cell
    cases h1 : s1.cellmap with
    | none =>
      cases h2 : s2.cellmap with
      | none => cases idx <;> simp [ValResRel]
      | some m2 => rw [h1, h2] at hc; cases hc
    | some m1 =>
      rw [h1] at hc
      cases h2 : s2.cellmap with
      | none => rw [h2] at hc; cases hc
      | some m2 =>
        rw [h2] at hc
        cases idx with
        | nil => simp [ValResRel]
        | cons i rest =>
          simp only
          by_cases hi : i = 0
          · simp [hi, ValResRel]
          · simp only [hi, if_false]
            rcases CellRel.lookup m1 m2 hc (i - 1) with ⟨e1, e2⟩ | ⟨l1, l2, e1, e2, he⟩
            · rw [e1, e2]; simp [ValResRel]
            · rw [e1, e2]; simp [ValResRel]
  all_goals (
    simp only [hty]
    rw [h.off]
    exact ValResRel.refl_of_not_csig _)

end Rtcm

namespace Rtcm

/-- the derived counters (NSat …) are not CELLSIG-typed data fields -/
def DerivedPlain (T : Tables) : Prop := ∀ k, k < 5 → isCsigFid T (T.nf + k) = false

def AttrsResRel (T : Tables) (r1 r2 : Except DecErr Attrs) : Prop :=
  match r1, r2 with
  | .ok a1, .ok a2 => AttrsRel T a1 a2
  | .error e1, .error e2 => e1 = e2
  | _, _ => False

theorem fieldStore_rel (T : Tables) (f : FieldSpec) (fid : Nat) (idx : List Nat) (a1 a2 : Attrs) (v1 v2 : Val)
    (hf : T.field? fid = some f) (ha : AttrsRel T a1 a2)
    (hv : if (f.ty == .csig) = true then ∃ a b, v1 = .text a ∧ v2 = .text b else v1 = v2) :
    AttrsResRel T (fieldStore f fid idx a1 v1) (fieldStore f fid idx a2 v2) := by
  have hcs : isCsigFid T fid = (f.ty == .csig) := by simp [isCsigFid, hf]
  have hvr : ValRel T fid v1 v2 := by unfold ValRel; rw [hcs]; exact hv
  unfold fieldStore
  by_cases hstr : f.ty = .str
  · simp only [hstr, if_true]
    have hns : isCsigFid T fid = false := by rw [hcs, hstr]; rfl
    have hveq : v1 = v2 := by
      unfold ValRel at hvr; rw [hns] at hvr; simpa using hvr
    subst hveq
    rcases AttrsRel.get_rel T a1 a2 ha (fid, []) with ⟨h1, h2⟩ | ⟨w1, w2, h1, h2, hw⟩
    · rw [h1, h2]
      exact AttrsRel.set_same T a1 a2 ha (fid, []) v1 hns
    · have hweq : w1 = w2 := by
        unfold ValRel at hw; simp only at hw; rw [hns] at hw; simpa using hw
      subst hweq
      rw [h1, h2]
      cases w1 with
      | text old =>
        cases v1 with
        | text new => exact AttrsRel.set_same T a1 a2 ha (fid, []) _ hns
        | int i => simp [AttrsResRel]
        | scaled r x => simp [AttrsResRel]
      | int i => simp [AttrsResRel]
      | scaled r x => simp [AttrsResRel]
  · simp only [hstr, if_false]
    exact AttrsRel.set_rel T a1 a2 ha (fid, idx) v1 v2 hvr

theorem satCellMaps_rel (T : Tables) (id : Ident) (l1 l2 a b d : Nat) :
    match satCellMaps T id l1 a b d, satCellMaps T id l2 a b d with
    | .ok (s1, c1), .ok (s2, c2) => s1 = s2 ∧ CellRel (some c1) (some c2)
    | .error e1, .error e2 => e1 = e2
    | _, _ => False := by
  unfold satCellMaps
  cases (ident3 id).bind (assocGet T.prnsig) with
  | none => simp
  | some pm =>
    obtain ⟨prnmap, sigmap⟩ := pm
    simp only
    refine ⟨trivial, ?_⟩
    apply CellRel.ss
    · simp
    · intro i
      simp only [List.length_map, List.getElem?_map]
      cases (setCells d ((setIdx a 64).length * (setIdx b 32).length))[i]? <;> simp

theorem msmSpecial_rel (T : Tables) (hd : DerivedPlain T) (id : Ident) (l1 l2 : Nat) (f : FieldSpec) (fid : Nat)
    (w bits : Nat) (s1 s2 : DState) (h : StRel T s1 s2) :
    ExRel T (msmSpecial T id l1 f fid w bits s1) (msmSpecial T id l2 f fid w bits s2) := by
  have hNSat : isCsigFid T T.fidNSat = false := by have := hd 0 (by omega); simpa [Tables.fidNSat] using this
  have hNSig : isCsigFid T T.fidNSig = false := hd 1 (by omega)
  have hNCell : isCsigFid T T.fidNCell = false := hd 2 (by omega)
  unfold msmSpecial
  by_cases h394 : some fid = T.special.df394
  · simp only [h394, if_true]
    by_cases hl : (f.ty = .prn ∨ f.ty = .cprn ∨ f.ty = .csig)
    · simp [hl, ExRel]
    · simp only [hl, if_false, ExRel]
      exact ⟨h.off, h.sat, h.cell, AttrsRel.set_same T _ _ h.attrs _ _ hNSat⟩
  · simp only [h394, if_false]
    by_cases h395 : some fid = T.special.df395
    · simp only [h395, if_true]
      by_cases hl : (f.ty = .prn ∨ f.ty = .cprn ∨ f.ty = .csig)
      · simp [hl, ExRel]
      · simp only [hl, if_false, ExRel]
        exact ⟨h.off, h.sat, h.cell, AttrsRel.set_same T _ _ h.attrs _ _ hNSig⟩
    · simp only [h395, if_false]
      by_cases h396 : some fid = T.special.df396
      · simp only [h396, if_true]
        by_cases hl : (f.ty = .prn ∨ f.ty = .cprn ∨ f.ty = .csig)
        · simp [hl, ExRel]
        · simp only [hl, if_false]
          have hA := AttrsRel.set_same T _ _ h.attrs (T.fidNCell, []) (.int (popcount bits w)) hNCell
          cases T.special.df394 with
          | none => simp [ExRel]
          | some f394 =>
            cases T.special.df395 with
            | none => simp [ExRel]
            | some f395 =>
              simp only
              rcases AttrsRel.get_rel T _ _ hA (f394, []) with ⟨e1, e2⟩ | ⟨x1, x2, e1, e2, hx⟩
              · rw [e1, e2]; simp [ExRel]
              · rw [e1, e2]
                rcases AttrsRel.get_rel T _ _ hA (f395, []) with ⟨g1, g2⟩ | ⟨y1, y2, g1, g2, hy⟩
                · rw [g1, g2]; simp [ExRel]
                · rw [g1, g2]
                  rcases AttrsRel.get_rel T _ _ hA (fid, []) with ⟨k1, k2⟩ | ⟨z1, z2, k1, k2, hz⟩
                  · rw [k1, k2]; simp [ExRel]
                  · rw [k1, k2]
                    simp only
                    rw [hx.asInt_eq, hy.asInt_eq, hz.asInt_eq]
                    cases x2.asInt? with
                    | none => simp [ExRel]
                    | some a =>
                      cases y2.asInt? with
                      | none => simp [ExRel]
                      | some b =>
                        cases z2.asInt? with
                        | none => simp [ExRel]
                        | some d =>
                          simp only
                          by_cases hneg : a < 0 ∨ b < 0 ∨ d < 0
                          · simp [hneg, ExRel]
                          · simp only [hneg, if_false]
                            have hsc := satCellMaps_rel T id l1 l2 a.toNat b.toNat d.toNat
                            cases r1 : satCellMaps T id l1 a.toNat b.toNat d.toNat with
                            | error e1 =>
                              cases r2 : satCellMaps T id l2 a.toNat b.toNat d.toNat with
                              | error e2 => rw [r1, r2] at hsc; simpa [ExRel] using hsc
                              | ok q2 => rw [r1, r2] at hsc; simp at hsc
                            | ok q1 =>
                              cases r2 : satCellMaps T id l2 a.toNat b.toNat d.toNat with
                              | error e2 => rw [r1, r2] at hsc; obtain ⟨_, _⟩ := q1; simp at hsc
                              | ok q2 =>
                                rw [r1, r2] at hsc
                                obtain ⟨sm1, cm1⟩ := q1
                                obtain ⟨sm2, cm2⟩ := q2
                                simp only at hsc
                                simp only [ExRel]
                                exact ⟨h.off, by simp [hsc.1], hsc.2, hA⟩
      · simp only [h396, if_false, ExRel]
        exact h

theorem harmSpecial_rel (T : Tables) (hd : DerivedPlain T) (fid : Nat) (idx : List Nat) (s1 s2 : DState)
    (h : StRel T s1 s2) : ExRel T (harmSpecial T fid idx s1) (harmSpecial T fid idx s2) := by
  have hHC : isCsigFid T T.fidNHarmC = false := hd 3 (by omega)
  have hHS : isCsigFid T T.fidNHarmS = false := hd 4 (by omega)
  unfold harmSpecial
  by_cases h038 : some fid = T.special.idf038
  · simp only [h038, if_true]
    cases idx with
    | nil => cases T.special.idf037 <;> simp [ExRel]
    | cons i rest =>
      cases T.special.idf037 with
      | none => simp [ExRel]
      | some f037 =>
        simp only
        rw [h.getInt_eq, h.getInt_eq]
        cases getInt s2 (f037, [i]) with
        | error e => simp [ExRel]
        | ok n0 =>
          cases getInt s2 (fid, [i]) with
          | error e => simp [ExRel]
          | ok m0 =>
            simp only [ExRel]
            exact ⟨h.off, h.sat, h.cell,
              AttrsRel.set_same T _ _ (AttrsRel.set_same T _ _ h.attrs _ _ hHC) _ _ hHS⟩
  · simp only [h038, if_false, ExRel]
    exact h

theorem fieldSpecial_rel (T : Tables) (hd : DerivedPlain T) (id : Ident) (l1 l2 : Nat) (f : FieldSpec) (fid : Nat)
    (idx : List Nat) (w bits : Nat) (s1 s2 : DState) (h : StRel T s1 s2) :
    ExRel T (fieldSpecial T id l1 f fid idx w bits s1) (fieldSpecial T id l2 f fid idx w bits s2) := by
  unfold fieldSpecial
  have hm := msmSpecial_rel T hd id l1 l2 f fid w bits s1 s2 h
  cases r1 : msmSpecial T id l1 f fid w bits s1 with
  | error e1 =>
    cases r2 : msmSpecial T id l2 f fid w bits s2 with
    | error e2 => rw [r1, r2] at hm; simpa [ExRel] using hm
    | ok t2 => rw [r1, r2] at hm; simp [ExRel] at hm
  | ok t1 =>
    cases r2 : msmSpecial T id l2 f fid w bits s2 with
    | error e2 => rw [r1, r2] at hm; simp [ExRel] at hm
    | ok t2 =>
      rw [r1, r2] at hm
      exact harmSpecial_rel T hd fid idx t1 t2 hm

/-- one field, two label options: the runs stay in lock step -/
theorem decField_rel (c1 c2 : Ctx) (hT : c2.T = c1.T) (hp : c2.p = c1.p) (hid : c2.id = c1.id)
    (hd : DerivedPlain c1.T) (fid : Nat) (idx : List Nat) (s1 s2 : DState) (h : StRel c1.T s1 s2) :
    ExRel c1.T (decField c1 fid idx s1) (decField c2 fid idx s2) := by
  unfold decField
  rw [hT, hp, hid]
  cases hf : c1.T.field? fid with
  | none => simp [ExRel]
  | some f =>
    simp only
    rw [fieldWidth_rel c1.T f fid s1 s2 h]
    cases hw : fieldWidth c1.T f fid s2 with
    | error e => simp [ExRel]
    | ok w =>
      simp only
      have hv := fieldValue_rel c1.T c1.p f w idx s1 s2 h
      cases r1 : fieldValue c1.p f w idx s1 with
      | error e1 =>
        cases r2 : fieldValue c1.p f w idx s2 with
        | error e2 => rw [r1, r2] at hv; simpa [ExRel, ValResRel] using hv
        | ok q2 => rw [r1, r2] at hv; obtain ⟨_, _⟩ := q2; simp [ValResRel] at hv
      | ok q1 =>
        cases r2 : fieldValue c1.p f w idx s2 with
        | error e2 => rw [r1, r2] at hv; obtain ⟨_, _⟩ := q1; simp [ValResRel] at hv
        | ok q2 =>
          rw [r1, r2] at hv
          obtain ⟨v1, b1⟩ := q1
          obtain ⟨v2, b2⟩ := q2
          simp only [ValResRel] at hv
          obtain ⟨hb, hvv⟩ := hv
          subst hb
          simp only
          have hst := fieldStore_rel c1.T f fid idx s1.attrs s2.attrs v1 v2 hf h.attrs hvv
          cases a1 : fieldStore f fid idx s1.attrs v1 with
          | error e1 =>
            cases a2 : fieldStore f fid idx s2.attrs v2 with
            | error e2 => rw [a1, a2] at hst; simpa [ExRel, AttrsResRel] using hst
            | ok x2 => rw [a1, a2] at hst; simp [AttrsResRel] at hst
          | ok x1 =>
            cases a2 : fieldStore f fid idx s2.attrs v2 with
            | error e2 => rw [a1, a2] at hst; simp [AttrsResRel] at hst
            | ok x2 =>
              rw [a1, a2] at hst
              simp only [AttrsResRel] at hst
              simp only
              apply fieldSpecial_rel c1.T hd
              exact ⟨by simp [h.off], h.sat, h.cell, hst⟩

theorem repLoop_rel (T : Tables) (f g : Nat → DState → Except DecErr DState)
    (hfg : ∀ i s1 s2, StRel T s1 s2 → ExRel T (f i s1) (g i s2)) (n i : Nat) (s1 s2 : DState)
    (h : StRel T s1 s2) : ExRel T (repLoop f n i s1) (repLoop g n i s2) := by
  induction n generalizing i s1 s2 with
  | zero => simpa [repLoop, ExRel] using h
  | succ n ih =>
    simp only [repLoop]
    have := hfg i s1 s2 h
    cases r1 : f i s1 with
    | error e1 =>
      cases r2 : g i s2 with
      | error e2 => rw [r1, r2] at this; simpa [ExRel] using this
      | ok t2 => rw [r1, r2] at this; simp [ExRel] at this
    | ok t1 =>
      cases r2 : g i s2 with
      | error e2 => rw [r1, r2] at this; simp [ExRel] at this
      | ok t2 =>
        rw [r1, r2] at this
        exact ih _ _ _ this

theorem countOf_rel (c1 c2 : Ctx) (hT : c2.T = c1.T) (cnt : Count) (idx : List Nat) (s1 s2 : DState)
    (h : StRel c1.T s1 s2) : countOf c1 cnt idx s1 = countOf c2 cnt idx s2 := by
  unfold countOf
  rw [hT]
  cases cnt with
  | fixed n => rfl
  | attr fid nest =>
    simp only
    rw [h.getInt_eq]

mutual
theorem decItem_rel (c1 c2 : Ctx) (hT : c2.T = c1.T) (hp : c2.p = c1.p) (hid : c2.id = c1.id) (hd : DerivedPlain c1.T) :
    ∀ (it : Item) (idx : List Nat) (s1 s2 : DState), StRel c1.T s1 s2 →
      ExRel c1.T (decItem c1 it idx s1) (decItem c2 it idx s2)
  | .field fid, idx, s1, s2, h => by
    simp only [decItem]
    exact decField_rel c1 c2 hT hp hid hd fid idx s1 s2 h
  | .group cnt body, idx, s1, s2, h => by
    simp only [decItem]
    rw [countOf_rel c1 c2 hT cnt idx s1 s2 h]
    cases countOf c2 cnt idx s2 with
    | error e => simp [ExRel]
    | ok n =>
      simp only
      exact repLoop_rel c1.T _ _ (fun i t1 t2 ht => decItems_rel c1 c2 hT hp hid hd body (idx ++ [i]) t1 t2 ht) n 1 s1 s2 h
  | .opt fid v body, idx, s1, s2, h => by
    simp only [decItem]
    rcases AttrsRel.get_rel c1.T _ _ h.attrs (fid, []) with ⟨e1, e2⟩ | ⟨x1, x2, e1, e2, hx⟩
    · rw [e1, e2]; simp [ExRel]
    · rw [e1, e2]
      simp only
      rw [hx.optMatches_eq]
      by_cases hm : optMatches x2 v = true
      · simp only [hm, if_true]
        exact decItems_rel c1 c2 hT hp hid hd body idx s1 s2 h
      · simp only [hm, if_false, ExRel]
        exact h
  | .malformed _, idx, s1, s2, h => by simp [decItem, ExRel]
theorem decItems_rel (c1 c2 : Ctx) (hT : c2.T = c1.T) (hp : c2.p = c1.p) (hid : c2.id = c1.id) (hd : DerivedPlain c1.T) :
    ∀ (l : List Item) (idx : List Nat) (s1 s2 : DState), StRel c1.T s1 s2 →
      ExRel c1.T (decItems c1 l idx s1) (decItems c2 l idx s2)
  | [], idx, s1, s2, h => by simpa [decItems, ExRel] using h
  | it :: rest, idx, s1, s2, h => by
    simp only [decItems]
    have := decItem_rel c1 c2 hT hp hid hd it idx s1 s2 h
    cases r1 : decItem c1 it idx s1 with
    | error e1 =>
      cases r2 : decItem c2 it idx s2 with
      | error e2 => rw [r1, r2] at this; simpa [ExRel] using this
      | ok t2 => rw [r1, r2] at this; simp [ExRel] at this
    | ok t1 =>
      cases r2 : decItem c2 it idx s2 with
      | error e2 => rw [r1, r2] at this; simp [ExRel] at this
      | ok t2 =>
        rw [r1, r2] at this
        exact decItems_rel c1 c2 hT hp hid hd rest idx t1 t2 this
end

theorem StRel.init (T : Tables) : StRel T DState.init DState.init :=
  ⟨rfl, rfl, CellRel.nn, AttrsRel.nil⟩

end Rtcm

namespace Rtcm

/-! ### when the label option does not matter at all -/

mutual
def fidsItem' : Item → List Nat
  | .field fid => [fid]
  | .group _ body => fidsItems' body
  | .opt _ _ body => fidsItems' body
  | .malformed _ => []
def fidsItems' : List Item → List Nat
  | [] => []
  | it :: rest => fidsItem' it ++ fidsItems' rest
end

theorem repLoop_congr (f g : Nat → DState → Except DecErr DState) (hfg : ∀ i s, f i s = g i s) (n i : Nat) (s : DState) :
    repLoop f n i s = repLoop g n i s := by
  induction n generalizing i s with
  | zero => rfl
  | succ n ih =>
    simp only [repLoop, hfg]
    cases g i s with
    | error e => rfl
    | ok s' => exact ih _ _

mutual
theorem decItem_congr (c1 c2 : Ctx) (hT : c2.T = c1.T) :
    ∀ (it : Item), (∀ fid ∈ fidsItem' it, ∀ idx s, decField c1 fid idx s = decField c2 fid idx s) →
      ∀ idx s, decItem c1 it idx s = decItem c2 it idx s
  | .field fid, h, idx, s => by
    simp only [decItem]
    exact h fid (by simp [fidsItem']) idx s
  | .group cnt body, h, idx, s => by
    simp only [decItem]
    have hc : countOf c1 cnt idx s = countOf c2 cnt idx s := by unfold countOf; rw [hT]
    rw [hc]
    cases countOf c2 cnt idx s with
    | error e => rfl
    | ok n =>
      simp only
      exact repLoop_congr _ _ (fun i t => decItems_congr c1 c2 hT body (fun fid hf => h fid (by simpa [fidsItem'] using hf)) (idx ++ [i]) t) n 1 s
  | .opt fid v body, h, idx, s => by
    simp only [decItem]
    cases s.attrs.get? (fid, []) with
    | none => rfl
    | some a =>
      simp only
      by_cases hm : optMatches a v = true
      · simp only [hm, if_true]
        exact decItems_congr c1 c2 hT body (fun fid hf => h fid (by simpa [fidsItem'] using hf)) idx s
      · rw [if_neg hm, if_neg hm]
  | .malformed _, h, idx, s => by simp [decItem]
theorem decItems_congr (c1 c2 : Ctx) (hT : c2.T = c1.T) :
    ∀ (l : List Item), (∀ fid ∈ fidsItems' l, ∀ idx s, decField c1 fid idx s = decField c2 fid idx s) →
      ∀ idx s, decItems c1 l idx s = decItems c2 l idx s
  | [], h, idx, s => by simp [decItems]
  | it :: rest, h, idx, s => by
    simp only [decItems]
    rw [decItem_congr c1 c2 hT it (fun fid hf => h fid (by simp [fidsItems', hf])) idx s]
    cases decItem c2 it idx s with
    | error e => rfl
    | ok s' =>
      simp only
      exact decItems_congr c1 c2 hT rest (fun fid hf => h fid (by simp [fidsItems', hf])) idx s'
end

/-- only the value 2 selects the band labels: every other option value behaves like 1 -/
theorem sigLabel_norm (T : Tables) (sm : List (Nat × Label × Label)) (l idx : Nat) (h : l ≠ 2) :
    sigLabel T sm l idx = sigLabel T sm 1 idx := by
  unfold sigLabel
  cases assocGet sm idx with
  | none => rfl
  | some bc => simp [h]

theorem satCellMaps_norm (T : Tables) (id : Ident) (l a b d : Nat) (h : l ≠ 2) :
    satCellMaps T id l a b d = satCellMaps T id 1 a b d := by
  unfold satCellMaps
  cases (ident3 id).bind (assocGet T.prnsig) with
  | none => rfl
  | some pm =>
    obtain ⟨pmap, smap⟩ := pm
    simp only
    have : (fun i => sigLabel T smap l i) = (fun i => sigLabel T smap 1 i) := by
      funext i; exact sigLabel_norm T smap l i h
    have e : sigLabel T smap l = sigLabel T smap 1 := this
    rw [e]

theorem decField_label_norm (T : Tables) (p : Payload) (id : Ident) (l : Nat) (h : l ≠ 2) (fid : Nat) (idx : List Nat)
    (s : DState) : decField ⟨T, p, id, l⟩ fid idx s = decField ⟨T, p, id, 1⟩ fid idx s := by
  unfold decField fieldSpecial msmSpecial
  simp only [satCellMaps_norm T id l _ _ _ h]

/-- a field other than the cell mask is decoded identically under every label option -/
theorem decField_label_indep (T : Tables) (p : Payload) (id : Ident) (l1 l2 : Nat) (fid : Nat)
    (h396 : some fid ≠ T.special.df396) (idx : List Nat) (s : DState) :
    decField ⟨T, p, id, l1⟩ fid idx s = decField ⟨T, p, id, l2⟩ fid idx s := by
  unfold decField fieldSpecial msmSpecial
  simp only [if_neg h396]

end Rtcm
