import Rtcm.Lemmas.Socket
import Rtcm.Lemmas.Stream
/-
  The socket wrapper is a lawful stream for the reader (its own measure decreases whenever it
  delivers bytes), in every mode; and on a fault-free connection `readline` returns the next line
  of the remaining byte string.
-/
namespace Rtcm

theorem peerRecv_measure_le (sched : List Recv) (bufsize : Nat) :
    schedMeasure (peerRecv sched bufsize).2 ≤ schedMeasure sched := by
  cases sched with
  | nil => simp [peerRecv]
  | cons r rest =>
    cases r with
    | closed => simp [peerRecv]
    | timeout => simp [peerRecv, schedMeasure]
    | oserror => simp [peerRecv, schedMeasure]
    | data bs =>
      simp only [peerRecv]
      by_cases hle : bs.length ≤ bufsize
      · simp [hle, schedMeasure]
      · simp [hle, schedMeasure, List.length_drop]

/-- one `_recv()` in any mode: success strictly shrinks the schedule; failure leaves the buffer alone -/
theorem recv_size (dec : Bytes → Bytes) (s : Sock) :
    ((Sock.recv dec s).1 = true → schedMeasure (Sock.recv dec s).2.sched < schedMeasure s.sched)
    ∧ ((Sock.recv dec s).1 = false →
        schedMeasure (Sock.recv dec s).2.sched ≤ schedMeasure s.sched ∧ (Sock.recv dec s).2.buffer = s.buffer) := by
  have hle := peerRecv_measure_le s.sched s.bufsize
  unfold Sock.recv
  cases hp : peerRecv s.sched s.bufsize with
  | mk r sched' =>
    rw [hp] at hle
    cases r with
    | none => exact ⟨by simp, fun _ => ⟨hle, rfl⟩⟩
    | some d =>
      simp only
      by_cases hd : d.length = 0
      · simp only [hd, if_true]
        exact ⟨by simp, fun _ => ⟨hle, by simp⟩⟩
      · have hne : d ≠ [] := fun h => hd (by simp [h])
        have hlt := peerRecv_measure s.sched s.bufsize d (by rw [hp]) hne
        rw [hp] at hlt
        simp only [hd, if_false]
        split <;> exact ⟨fun _ => hlt, by simp⟩

/-- the refill loop in any mode: either the schedule strictly shrank, or it did not grow and the
    buffer is what it was -/
theorem fill_size (dec : Bytes → Bytes) (num : Nat) (s : Sock) :
    schedMeasure (Sock.fill dec num s).2.sched < schedMeasure s.sched
    ∨ (schedMeasure (Sock.fill dec num s).2.sched ≤ schedMeasure s.sched ∧ (Sock.fill dec num s).2.buffer = s.buffer) := by
  fun_induction Sock.fill dec num s with
  | case1 s hlt s' hr =>
    have h := (recv_size dec s).2
    rw [hr] at h
    exact Or.inr (h rfl)
  | case2 s hlt s' hr hm ih =>
    left
    rcases ih with h | ⟨h, _⟩ <;> omega
  | case3 s hlt s' hr hm =>
    exfalso
    have h := (recv_size dec s).1
    rw [hr] at h
    exact hm (h rfl)
  | case4 s hge => exact Or.inr ⟨Nat.le_refl _, rfl⟩

theorem sock_read_le (dec : Bytes → Bytes) (s : Sock) (n : Nat) :
    sizeLe (Sock.read dec s n).2.size s.size = true := by
  have h := fill_size dec n s
  unfold Sock.read
  cases hf : Sock.fill dec n s with
  | mk ok s' =>
    rw [hf] at h
    simp only at h
    cases ok with
    | false =>
      simp only [sizeLe_iff, Sock.size]
      rcases h with h | ⟨h, hb⟩
      · left; exact h
      · rw [hb]; omega
    | true =>
      simp only [sizeLe_iff, Sock.size, List.length_drop]
      rcases h with h | ⟨h, hb⟩
      · left; exact h
      · rw [hb]; omega

theorem sock_read_lt (dec : Bytes → Bytes) (s : Sock) (n : Nat) (hne : (Sock.read dec s n).1 ≠ []) :
    lexLt (Sock.read dec s n).2.size s.size = true := by
  have h := fill_size dec n s
  unfold Sock.read at hne ⊢
  cases hf : Sock.fill dec n s with
  | mk ok s' =>
    rw [hf] at h hne
    simp only at h hne
    cases ok with
    | false => simp at hne
    | true =>
      simp only at hne ⊢
      simp only [lexLt_iff, Sock.size, List.length_drop]
      have hpos : 0 < (s'.buffer.take n).length := List.length_pos_iff.mpr hne
      rw [List.length_take] at hpos
      rcases h with h | ⟨h, hb⟩
      · left; exact h
      · rw [hb] at hpos ⊢; omega

theorem sock_readlineAux_le (dec : Bytes → Bytes) (s : Sock) (line : Bytes) :
    sizeLe (Sock.readlineAux dec s line).2.size s.size = true := by
  fun_induction Sock.readlineAux dec s line with
  | case1 s line b s' hr hb =>
    have := sock_read_le dec s 1
    rw [hr] at this; exact this
  | case2 s line b s' hr hb hlt ih =>
    have := sock_read_le dec s 1
    rw [hr] at this
    exact sizeLe_trans ih this
  | case3 s line b s' hr hb hnlt =>
    have := sock_read_le dec s 1
    rw [hr] at this; exact this
  | case4 s line r s' hx hr =>
    have := sock_read_le dec s 1
    rw [hr] at this; exact this

/-- the socket wrapper is a lawful stream in every mode: `RTCMReader.read` over it terminates and
    never reaches the model-only `stuck` event -/
theorem sockOps_lawful (dec : Bytes → Bytes) : Lawful (sockOps dec) where
  read_le := fun s n => sock_read_le dec s n
  read_lt := fun s n h => sock_read_lt dec s n h
  readline_le := fun s => sock_readlineAux_le dec s []

end Rtcm

namespace Rtcm

/-- on a fault-free connection `readline()` returns the next line of the bytes still to come
    (up to and including the first LF, or everything if there is none) and leaves the rest -/
theorem readlineAux_faultfree (dec : Bytes → Bytes) (s : Sock) (line : Bytes) (h : SockOK s) :
    (Sock.readlineAux dec s line).1 = line ++ (splitLine s.remaining).1
    ∧ (Sock.readlineAux dec s line).2.remaining = (splitLine s.remaining).2
    ∧ SockOK (Sock.readlineAux dec s line).2 := by
  fun_induction Sock.readlineAux dec s line with
  | case1 s line b s' hr hb =>
    have hf := read_faultfree dec s 1 h
    rw [hr] at hf
    obtain ⟨hok, h1, h2⟩ := hf
    by_cases hlen : 1 ≤ s.remaining.length
    · obtain ⟨ht, hd⟩ := h1 hlen
      cases hrem : s.remaining with
      | nil => rw [hrem] at hlen; simp at hlen
      | cons x rest =>
        rw [hrem] at ht hd
        simp at ht hd
        subst ht
        simp [splitLine, hb, hd, hok]
    · have := (h2 (by omega)).1
      simp at this
  | case2 s line b s' hr hb hlt ih =>
    have hf := read_faultfree dec s 1 h
    rw [hr] at hf
    obtain ⟨hok, h1, h2⟩ := hf
    by_cases hlen : 1 ≤ s.remaining.length
    · obtain ⟨ht, hd⟩ := h1 hlen
      cases hrem : s.remaining with
      | nil => rw [hrem] at hlen; simp at hlen
      | cons x rest =>
        rw [hrem] at ht hd
        simp at ht hd
        subst ht
        obtain ⟨i1, i2, i3⟩ := ih hok
        rw [hd] at i1 i2
        simp [splitLine, hb, i1, i2, i3]
    · have := (h2 (by omega)).1
      simp at this
  | case3 s line b s' hr hb hnlt =>
    exfalso
    have := sock_read_lt dec s 1 (by rw [hr]; simp)
    rw [hr] at this
    exact hnlt this
  | case4 s line r s' hx hr =>
    have hf := read_faultfree dec s 1 h
    rw [hr] at hf
    obtain ⟨hok, h1, h2⟩ := hf
    by_cases hlen : 1 ≤ s.remaining.length
    · obtain ⟨ht, hd⟩ := h1 hlen
      cases hrem : s.remaining with
      | nil => rw [hrem] at hlen; simp at hlen
      | cons x rest =>
        rw [hrem] at ht
        simp at ht
        exact absurd ht (hx x)
    · have hnil : s.remaining = [] := List.eq_nil_of_length_eq_zero (by omega)
      have := (h2 (by omega)).2
      simp only at this
      simp [hnil, splitLine, this, hok]

theorem readline_faultfree (dec : Bytes → Bytes) (s : Sock) (h : SockOK s) :
    (Sock.readline dec s).1 = (splitLine s.remaining).1
    ∧ (Sock.readline dec s).2.remaining = (splitLine s.remaining).2
    ∧ SockOK (Sock.readline dec s).2 := by
  have := readlineAux_faultfree dec s [] h
  simpa [Sock.readline] using this

end Rtcm
