import Rtcm.Model.Decodable
import Rtcm.Lemmas.Frame
import Rtcm.Lemmas.Msm
import Rtcm.Lemmas.Layout
/-
  Soundness of the static check `ckDef`: a definition it accepts can only fail to decode because
  the payload is too short.
-/
namespace Rtcm

/-! ### attribute store -/

theorem Attrs.get?_set_eq (a : Attrs) (k : AttrKey) (v : Val) : (a.set k v).get? k = some v := by
  induction a with
  | nil => simp [Attrs.set, Attrs.get?]
  | cons kv rest ih =>
    obtain ⟨k0, v0⟩ := kv
    simp only [Attrs.set]
    by_cases h0 : k0 = k
    · simp [h0, Attrs.get?]
    · simp [h0, Attrs.get?, ih]

theorem Attrs.get?_set (a : Attrs) (k k' : AttrKey) (v : Val) :
    (a.set k' v).get? k = if k' = k then some v else a.get? k := by
  by_cases h : k' = k
  · subst h; simp [Attrs.get?_set_eq]
  · simp [h, Attrs.get?_set_ne a k k' v h]

theorem Attrs.isSome_set (a : Attrs) (k k' : AttrKey) (v : Val) (h : (a.get? k).isSome = true) :
    ((a.set k' v).get? k).isSome = true := by
  rw [Attrs.get?_set]; split <;> simp [h]

/-! ### table hygiene -/

structure Hyg (T : Tables) : Prop where
  below : ∀ fid f, T.field? fid = some f → fid < T.nf
  s394 : ∃ a, T.special.df394 = some a ∧ a < T.nf
  s395 : ∃ a, T.special.df395 = some a ∧ a < T.nf
  s396 : ∃ a, T.special.df396 = some a ∧ a < T.nf
  s035 : ∃ a, T.special.idf035 = some a ∧ a < T.nf
  s037 : ∃ a, T.special.idf037 = some a ∧ a < T.nf
  s038 : ∃ a, T.special.idf038 = some a ∧ a < T.nf
  d1 : T.special.df394 ≠ T.special.df395
  d2 : T.special.df394 ≠ T.special.df396
  d3 : T.special.df394 ≠ T.special.idf038
  d4 : T.special.df395 ≠ T.special.df396
  d5 : T.special.df395 ≠ T.special.idf038
  d6 : T.special.df396 ≠ T.special.idf038

theorem FTree.get?_below (n : Nat) : ∀ (t : FTree) (i : Nat) (f : FieldSpec),
    t.keysBelow n = true → t.get? i = some f → i < n
  | .leaf, i, f, _, h => by simp [FTree.get?] at h
  | .node l k v r, i, f, hb, h => by
    simp only [FTree.keysBelow, Bool.and_eq_true, decide_eq_true_eq] at hb
    simp only [FTree.get?] at h
    split at h
    · exact FTree.get?_below n l i f hb.1.2 h
    · split at h
      · exact FTree.get?_below n r i f hb.2 h
      · omega

theorem hyg_of_B (T : Tables) (h : hygB T = true) : Hyg T := by
  unfold hygB at h
  simp only [Bool.and_eq_true] at h
  obtain ⟨hk, hs⟩ := h
  split at hs
  · rename_i a b c e g hh h1 h2 h3 h4 h5 h6
    simp only [Bool.and_eq_true, decide_eq_true_eq, bne_iff_ne, ne_eq] at hs
    obtain ⟨⟨⟨⟨⟨⟨⟨⟨⟨⟨⟨ha, hb⟩, hc⟩, he⟩, hg⟩, hhh⟩, n1⟩, n2⟩, n3⟩, n4⟩, n5⟩, n6⟩ := hs
    exact {
      below := fun fid f hf => FTree.get?_below T.nf T.ftree fid f hk hf
      s394 := ⟨a, h1, ha⟩, s395 := ⟨b, h2, hb⟩, s396 := ⟨c, h3, hc⟩, s035 := ⟨e, h4, he⟩
      s037 := ⟨g, h5, hg⟩, s038 := ⟨hh, h6, hhh⟩
      d1 := by rw [h1, h2]; simpa using n1
      d2 := by rw [h1, h3]; simpa using n2
      d3 := by rw [h1, h6]; simpa using n3
      d4 := by rw [h2, h3]; simpa using n4
      d5 := by rw [h2, h6]; simpa using n5
      d6 := by rw [h3, h6]; simpa using n6 }
  · simp at hs

/-! ### typing of the attribute store -/

/-- every stored value has the Python type its field promises: plain unsigned unscaled fields and
    the derived counters hold ints (non-negative for fields), text fields hold strings -/
def Typed (T : Tables) (a : Attrs) : Prop :=
  ∀ k v, a.get? k = some v →
    (∀ f, T.field? k.1 = some f → isCounterTy f = true → ∃ n : Nat, v = .int n)
    ∧ (∀ f, T.field? k.1 = some f → f.ty = .str → ∃ t, v = .text t)
    ∧ (T.nf ≤ k.1 → ∃ i : Int, v = .int i)

theorem typed_nil (T : Tables) : Typed T [] := by
  intro k v h; simp [Attrs.get?] at h

theorem typed_set (T : Tables) (a : Attrs) (k : AttrKey) (v : Val) (h : Typed T a)
    (h1 : ∀ f, T.field? k.1 = some f → isCounterTy f = true → ∃ n : Nat, v = .int n)
    (h2 : ∀ f, T.field? k.1 = some f → f.ty = .str → ∃ t, v = .text t)
    (h3 : T.nf ≤ k.1 → ∃ i : Int, v = .int i) : Typed T (a.set k v) := by
  intro k' v' hg
  rw [Attrs.get?_set] at hg
  split at hg
  · rename_i he
    injection hg with hg
    subst he hg
    exact ⟨h1, h2, h3⟩
  · exact h k' v' hg

theorem getInt_of_int (s : DState) (k : AttrKey) (i : Int) (h : s.attrs.get? k = some (.int i)) :
    getInt s k = .ok i := by
  simp [getInt, h, Val.asInt?]


/-! ### the invariant -/

theorem has_cons (sc : Scope) (a b fid dp : Nat) :
    Scope.has ((a, b) :: sc) fid dp = ((a == fid && b == dp) || sc.has fid dp) := by
  simp [Scope.has]

structure Inv (T : Tables) (env : CEnv) (d : Nat) (idx : List Nat) (s : DState) : Prop where
  len : idx.length = d
  typed : Typed T s.attrs
  scope : ∀ fid dp, env.scope.has fid dp = true → dp ≤ d ∧ (s.attrs.get? (fid, idx.take dp)).isSome = true
  maps : env.maps = true → ∃ sm cm, s.satmap = some sm ∧ s.cellmap = some cm
      ∧ s.attrs.get? (T.fidNSat, []) = some (.int sm.length) ∧ s.attrs.get? (T.fidNCell, []) = some (.int cm.length)
  bound : ∀ i rest, idx = i :: rest → 1 ≤ i
      ∧ (env.maps = true → env.outer = some T.fidNSat → ∃ sm, s.satmap = some sm ∧ i ≤ sm.length)
      ∧ (env.maps = true → env.outer = some T.fidNCell → ∃ cm, s.cellmap = some cm ∧ i ≤ cm.length)
  m394 : env.scope.has T.fidNSat 0 = true → ∀ a, T.special.df394 = some a →
      ∃ m : Nat, m < 2 ^ 64 ∧ s.attrs.get? (a, []) = some (.int m)
        ∧ s.attrs.get? (T.fidNSat, []) = some (.int (popcount m 64))
  m395 : env.scope.has T.fidNSig 0 = true → ∀ a, T.special.df395 = some a →
      ∃ m : Nat, m < 2 ^ 32 ∧ s.attrs.get? (a, []) = some (.int m)
        ∧ s.attrs.get? (T.fidNSig, []) = some (.int (popcount m 32))
  m396 : env.maps = true → ∀ a4 a5 a6, T.special.df394 = some a4 → T.special.df395 = some a5 → T.special.df396 = some a6 →
      ∃ m4 m5 d : Nat, s.attrs.get? (a4, []) = some (.int m4) ∧ s.attrs.get? (a5, []) = some (.int m5)
        ∧ s.attrs.get? (a6, []) = some (.int d)
        ∧ s.attrs.get? (T.fidNSat, []) = some (.int (popcount m4 64))
        ∧ s.attrs.get? (T.fidNSig, []) = some (.int (popcount m5 32))
        ∧ s.attrs.get? (T.fidNCell, []) = some (.int (popcount d (popcount m4 64 * popcount m5 32)))

/-- after the cell mask: the three counts are the popcounts of the three stored masks -/
def M396 (T : Tables) (env : CEnv) (s : DState) : Prop :=
  env.maps = true → ∀ a4 a5 a6, T.special.df394 = some a4 → T.special.df395 = some a5 → T.special.df396 = some a6 →
    ∃ m4 m5 d : Nat, s.attrs.get? (a4, []) = some (.int m4) ∧ s.attrs.get? (a5, []) = some (.int m5)
      ∧ s.attrs.get? (a6, []) = some (.int d)
      ∧ s.attrs.get? (T.fidNSat, []) = some (.int (popcount m4 64))
      ∧ s.attrs.get? (T.fidNSig, []) = some (.int (popcount m5 32))
      ∧ s.attrs.get? (T.fidNCell, []) = some (.int (popcount d (popcount m4 64 * popcount m5 32)))

def M394 (T : Tables) (env : CEnv) (s : DState) : Prop :=
  env.scope.has T.fidNSat 0 = true → ∀ a, T.special.df394 = some a →
      ∃ m : Nat, m < 2 ^ 64 ∧ s.attrs.get? (a, []) = some (.int m)
        ∧ s.attrs.get? (T.fidNSat, []) = some (.int (popcount m 64))

def M395 (T : Tables) (env : CEnv) (s : DState) : Prop :=
  env.scope.has T.fidNSig 0 = true → ∀ a, T.special.df395 = some a →
      ∃ m : Nat, m < 2 ^ 32 ∧ s.attrs.get? (a, []) = some (.int m)
        ∧ s.attrs.get? (T.fidNSig, []) = some (.int (popcount m 32))

/-- storing a well-typed value under the key of a field occurrence and recording it in scope keeps
    the invariant, provided the mask bookkeeping facts are supplied for the new state -/
theorem inv_set_core (T : Tables) (env : CEnv) (d : Nat) (idx : List Nat) (s s' : DState)
    (fid dp : Nat) (v : Val) (hinv : Inv T env d idx s)
    (hlt : fid < T.nf) (hdp : dp ≤ d)
    (h1 : ∀ f, T.field? fid = some f → isCounterTy f = true → ∃ n : Nat, v = .int n)
    (h2 : ∀ f, T.field? fid = some f → f.ty = .str → ∃ t, v = .text t)
    (ha : s'.attrs = s.attrs.set (fid, idx.take dp) v) (hsm : s'.satmap = s.satmap) (hcm : s'.cellmap = s.cellmap)
    (hm394 : M394 T (env.add fid dp) s') (hm395 : M395 T (env.add fid dp) s') (hm396 : M396 T (env.add fid dp) s') :
    Inv T (env.add fid dp) d idx s' := by
  have hne : ∀ x, T.nf ≤ x → ∀ l, ((fid, idx.take dp) : AttrKey) ≠ (x, l) := by
    intro x hx l he; injection he with he _; omega
  have keep : ∀ x, T.nf ≤ x → ∀ l, s'.attrs.get? (x, l) = s.attrs.get? (x, l) := by
    intro x hx l; rw [ha, Attrs.get?_set_ne _ _ _ _ (hne x hx l)]
  refine ⟨hinv.len, ?_, ?_, ?_, ?_, hm394, hm395, hm396⟩
  · rw [ha]; exact typed_set T _ _ _ hinv.typed h1 h2 (fun h => by simp at h; omega)
  · intro f dp' hh
    simp only [CEnv.add, has_cons, Bool.or_eq_true, Bool.and_eq_true, beq_iff_eq] at hh
    rcases hh with ⟨rfl, rfl⟩ | hh
    · exact ⟨hdp, by rw [ha, Attrs.get?_set_eq]; rfl⟩
    · obtain ⟨h1', h2'⟩ := hinv.scope f dp' hh
      exact ⟨h1', by rw [ha]; exact Attrs.isSome_set _ _ _ _ h2'⟩
  · intro hm
    obtain ⟨sm, cm, e1, e2, e3, e4⟩ := hinv.maps hm
    exact ⟨sm, cm, by rw [hsm, e1], by rw [hcm, e2],
      by rw [keep _ (by simp [Tables.fidNSat])]; exact e3, by rw [keep _ (by simp [Tables.fidNCell])]; exact e4⟩
  · intro i rest hi
    obtain ⟨b1, b2, b3⟩ := hinv.bound i rest hi
    exact ⟨b1, fun hm ho => by rw [hsm]; exact b2 hm ho, fun hm ho => by rw [hcm]; exact b3 hm ho⟩

/-- … for an ordinary field (not DF394 / DF395) the mask facts carry over -/
theorem inv_set (T : Tables) (hy : Hyg T) (env : CEnv) (d : Nat) (idx : List Nat) (s s' : DState)
    (fid dp : Nat) (v : Val) (hinv : Inv T env d idx s)
    (hlt : fid < T.nf) (hdp : dp ≤ d)
    (h394 : T.special.df394 ≠ some fid) (h395 : T.special.df395 ≠ some fid) (h396 : T.special.df396 ≠ some fid)
    (h1 : ∀ f, T.field? fid = some f → isCounterTy f = true → ∃ n : Nat, v = .int n)
    (h2 : ∀ f, T.field? fid = some f → f.ty = .str → ∃ t, v = .text t)
    (ha : s'.attrs = s.attrs.set (fid, idx.take dp) v) (hsm : s'.satmap = s.satmap) (hcm : s'.cellmap = s.cellmap) :
    Inv T (env.add fid dp) d idx s' := by
  have hne : ∀ x, T.nf ≤ x → ∀ l, ((fid, idx.take dp) : AttrKey) ≠ (x, l) := by
    intro x hx l he; injection he with he _; omega
  have keep : ∀ x, T.nf ≤ x → ∀ l, s'.attrs.get? (x, l) = s.attrs.get? (x, l) := by
    intro x hx l; rw [ha, Attrs.get?_set_ne _ _ _ _ (hne x hx l)]
  refine inv_set_core T env d idx s s' fid dp v hinv hlt hdp h1 h2 ha hsm hcm ?_ ?_ ?_
  · intro hh a hs
    have hfa : fid ≠ a := fun e => h394 (by rw [hs, e])
    simp only [CEnv.add, has_cons, Bool.or_eq_true, Bool.and_eq_true, beq_iff_eq] at hh
    have hh' : env.scope.has T.fidNSat 0 = true := by
      rcases hh with ⟨e, _⟩ | hh
      · simp [Tables.fidNSat] at e; omega
      · exact hh
    obtain ⟨m, hm, g1, g2⟩ := hinv.m394 hh' a hs
    refine ⟨m, hm, ?_, by rw [keep _ (by simp [Tables.fidNSat])]; exact g2⟩
    rw [ha, Attrs.get?_set_ne _ _ _ _ (by intro e; injection e with e _; exact hfa e)]
    exact g1
  · intro hh a hs
    have hfa : fid ≠ a := fun e => h395 (by rw [hs, e])
    simp only [CEnv.add, has_cons, Bool.or_eq_true, Bool.and_eq_true, beq_iff_eq] at hh
    have hh' : env.scope.has T.fidNSig 0 = true := by
      rcases hh with ⟨e, _⟩ | hh
      · simp [Tables.fidNSig] at e; omega
      · exact hh
    obtain ⟨m, hm, g1, g2⟩ := hinv.m395 hh' a hs
    refine ⟨m, hm, ?_, by rw [keep _ (by simp [Tables.fidNSig])]; exact g2⟩
    rw [ha, Attrs.get?_set_ne _ _ _ _ (by intro e; injection e with e _; exact hfa e)]
    exact g1

  · intro hm a4 a5 a6 e4 e5 e6
    have hm' : env.maps = true := hm
    obtain ⟨m4, m5, dd, g1, g2, g3, g4, g5, g6⟩ := hinv.m396 hm' a4 a5 a6 e4 e5 e6
    have n4 : fid ≠ a4 := fun e => h394 (by rw [e4, e])
    have n5 : fid ≠ a5 := fun e => h395 (by rw [e5, e])
    have n6 : fid ≠ a6 := fun e => h396 (by rw [e6, e])
    have kf : ∀ x, x ≠ fid → s'.attrs.get? (x, []) = s.attrs.get? (x, []) := by
      intro x hx; rw [ha, Attrs.get?_set_ne _ _ _ _ (by intro e; injection e with e _; exact hx e.symm)]
    exact ⟨m4, m5, dd, by rw [kf _ (Ne.symm n4)]; exact g1, by rw [kf _ (Ne.symm n5)]; exact g2,
      by rw [kf _ (Ne.symm n6)]; exact g3,
      by rw [keep _ (by simp [Tables.fidNSat])]; exact g4, by rw [keep _ (by simp [Tables.fidNSig])]; exact g5,
      by rw [keep _ (by simp [Tables.fidNCell])]; exact g6⟩

theorem inv_weaken (T : Tables) (e1 e2 : CEnv) (d : Nat) (idx : List Nat) (s : DState) (h : Inv T e1 d idx s)
    (hs : ∀ f dp, e2.scope.has f dp = true → e1.scope.has f dp = true)
    (hm : e2.maps = true → e1.maps = true) (ho : e2.outer = e1.outer) : Inv T e2 d idx s :=
  ⟨h.len, h.typed, fun f dp hh => h.scope f dp (hs f dp hh), fun hm2 => h.maps (hm hm2),
   fun i rest hi => ⟨(h.bound i rest hi).1, fun a b => (h.bound i rest hi).2.1 (hm a) (ho ▸ b),
     fun a b => (h.bound i rest hi).2.2 (hm a) (ho ▸ b)⟩,
   fun hh => h.m394 (hs _ _ hh), fun hh => h.m395 (hs _ _ hh), fun hm2 => h.m396 (hm hm2)⟩

/-- setting one of the harmonic-coefficient counters -/
theorem inv_set_derived (T : Tables) (hy : Hyg T) (env : CEnv) (d : Nat) (idx : List Nat) (s s' : DState)
    (x : Nat) (i : Int) (hinv : Inv T env d idx s) (hx : x = T.fidNHarmC ∨ x = T.fidNHarmS)
    (ha : s'.attrs = s.attrs.set (x, []) (.int i)) (hsm : s'.satmap = s.satmap) (hcm : s'.cellmap = s.cellmap) :
    Inv T (env.add x 0) d idx s' := by
  have hxn : T.nf + 3 ≤ x := by rcases hx with h | h <;> simp [h, Tables.fidNHarmC, Tables.fidNHarmS]
  have keep : ∀ k : AttrKey, k.1 ≠ x → s'.attrs.get? k = s.attrs.get? k := by
    intro k hk; rw [ha, Attrs.get?_set_ne _ _ _ _ (by intro e; apply hk; rw [← e])]
  have nofield : ∀ f, T.field? x ≠ some f := fun f hf => by have := hy.below x f hf; omega
  refine ⟨hinv.len, ?_, ?_, ?_, ?_, ?_, ?_, ?_⟩
  · rw [ha]
    exact typed_set T _ _ _ hinv.typed (fun f hf => absurd hf (nofield f)) (fun f hf => absurd hf (nofield f))
      (fun _ => ⟨i, rfl⟩)
  · intro f dp' hh
    simp only [CEnv.add, has_cons, Bool.or_eq_true, Bool.and_eq_true, beq_iff_eq] at hh
    rcases hh with ⟨rfl, rfl⟩ | hh
    · exact ⟨Nat.zero_le _, by rw [ha]; simp [Attrs.get?_set_eq]⟩
    · obtain ⟨h1', h2'⟩ := hinv.scope f dp' hh
      exact ⟨h1', by rw [ha]; exact Attrs.isSome_set _ _ _ _ h2'⟩
  · intro hm
    obtain ⟨sm, cm, e1, e2, e3, e4⟩ := hinv.maps hm
    exact ⟨sm, cm, by rw [hsm, e1], by rw [hcm, e2],
      by rw [keep _ (by simp [Tables.fidNSat]; omega)]; exact e3,
      by rw [keep _ (by simp [Tables.fidNCell]; omega)]; exact e4⟩
  · intro i' rest hi
    obtain ⟨b1, b2, b3⟩ := hinv.bound i' rest hi
    exact ⟨b1, fun hm ho => by rw [hsm]; exact b2 hm ho, fun hm ho => by rw [hcm]; exact b3 hm ho⟩
  · intro hh a hs
    obtain ⟨a', ha', hlt⟩ := hy.s394
    rw [hs] at ha'; injection ha' with ha'; subst ha'
    simp only [CEnv.add, has_cons, Bool.or_eq_true, Bool.and_eq_true, beq_iff_eq] at hh
    have hh' : env.scope.has T.fidNSat 0 = true := by
      rcases hh with ⟨e, _⟩ | hh
      · simp [Tables.fidNSat] at e; omega
      · exact hh
    obtain ⟨m, hm, g1, g2⟩ := hinv.m394 hh' a hs
    exact ⟨m, hm, by rw [keep _ (by simp; omega)]; exact g1, by rw [keep _ (by simp [Tables.fidNSat]; omega)]; exact g2⟩
  · intro hh a hs
    obtain ⟨a', ha', hlt⟩ := hy.s395
    rw [hs] at ha'; injection ha' with ha'; subst ha'
    simp only [CEnv.add, has_cons, Bool.or_eq_true, Bool.and_eq_true, beq_iff_eq] at hh
    have hh' : env.scope.has T.fidNSig 0 = true := by
      rcases hh with ⟨e, _⟩ | hh
      · simp [Tables.fidNSig] at e; omega
      · exact hh
    obtain ⟨m, hm, g1, g2⟩ := hinv.m395 hh' a hs
    exact ⟨m, hm, by rw [keep _ (by simp; omega)]; exact g1, by rw [keep _ (by simp [Tables.fidNSig]; omega)]; exact g2⟩
  · intro hm a4 a5 a6 e4 e5 e6
    have hm' : env.maps = true := hm
    obtain ⟨m4, m5, dd, g1, g2, g3, g4, g5, g6⟩ := hinv.m396 hm' a4 a5 a6 e4 e5 e6
    obtain ⟨b4, f4, l4⟩ := hy.s394
    obtain ⟨b5, f5, l5⟩ := hy.s395
    obtain ⟨b6, f6, l6⟩ := hy.s396
    rw [e4] at f4; injection f4 with f4; subst f4
    rw [e5] at f5; injection f5 with f5; subst f5
    rw [e6] at f6; injection f6 with f6; subst f6
    exact ⟨m4, m5, dd, by rw [keep _ (by simp; omega)]; exact g1, by rw [keep _ (by simp; omega)]; exact g2,
      by rw [keep _ (by simp; omega)]; exact g3,
      by rw [keep _ (by simp [Tables.fidNSat]; omega)]; exact g4,
      by rw [keep _ (by simp [Tables.fidNSig]; omega)]; exact g5,
      by rw [keep _ (by simp [Tables.fidNCell]; omega)]; exact g6⟩


/-! ### one field -/

theorem extract_lt (p : Payload) (off w b : Nat) (h : extract p off w = some b) : b < 2 ^ w := by
  unfold extract at h
  split at h
  · injection h with h; rw [← h]; exact Nat.mod_lt _ (Nat.two_pow_pos w)
  · simp at h

/-- what `fieldStore` does on a typed store -/
def StoreOK (f : FieldSpec) (fid : Nat) (idx : List Nat) (a : Attrs) (w bits : Nat) (a' : Attrs) : Prop :=
  (f.ty ≠ .str ∧ a' = a.set (fid, idx) (interp f w bits)) ∨ (f.ty = .str ∧ ∃ t, a' = a.set (fid, []) (.text t))

theorem fieldStore_ok (T : Tables) (f : FieldSpec) (fid : Nat) (idx : List Nat) (a : Attrs) (w bits : Nat)
    (hf : T.field? fid = some f) (ht : Typed T a) :
    ∃ a', fieldStore f fid idx a (interp f w bits) = .ok a' ∧ StoreOK f fid idx a w bits a' := by
  unfold fieldStore
  by_cases hs : f.ty = .str
  · rw [if_pos hs]
    have hv : interp f w bits = .text (if bits = 0 then [] else [bits]) := interp_str f w bits hs
    rw [hv]
    cases hg : a.get? (fid, []) with
    | none => exact ⟨_, rfl, Or.inr ⟨hs, _, rfl⟩⟩
    | some old =>
      obtain ⟨t, ht'⟩ := (ht (fid, []) old hg).2.1 f hf hs
      subst ht'
      exact ⟨_, rfl, Or.inr ⟨hs, _, rfl⟩⟩
  · rw [if_neg hs]
    exact ⟨_, rfl, Or.inl ⟨hs, rfl⟩⟩

/-- a bit-carrying field: either the payload is too short, or the field's bits are stored and the
    special-field bookkeeping runs on the updated state -/
theorem decField_pre (c : Ctx) (fid : Nat) (idx : List Nat) (s : DState) (f : FieldSpec) (w : Nat)
    (hf : c.T.field? fid = some f) (hl : isLabelTy f.ty = false) (hw : fieldWidth c.T f fid s = .ok w)
    (h0 : ¬ ((f.ty = .int ∨ f.ty = .snt) ∧ w = 0)) (ht : Typed c.T s.attrs) :
    decField c fid idx s = .error .short
    ∨ ∃ bits a', bits < 2 ^ w ∧ StoreOK f fid idx s.attrs w bits a'
        ∧ decField c fid idx s
            = fieldSpecial c.T c.id c.label f fid idx w bits { s with off := s.off + w, attrs := a' } := by
  unfold decField
  simp only [hf, hw]
  rw [fieldValue_bits c.p f w idx s hl, if_neg h0]
  cases he : extract c.p s.off w with
  | none => left; rfl
  | some bits =>
    right
    obtain ⟨a', h1, h2⟩ := fieldStore_ok c.T f fid idx s.attrs w bits hf ht
    refine ⟨bits, a', extract_lt _ _ _ _ he, h2, ?_⟩
    simp only [h1]

theorem not_special (T : Tables) (fid : Nat) (h : isSpecial T fid = false) :
    some fid ≠ T.special.df394 ∧ some fid ≠ T.special.df395 ∧ some fid ≠ T.special.df396 ∧ some fid ≠ T.special.idf038 := by
  simp only [isSpecial, Bool.or_eq_false_iff, beq_eq_false_iff_ne, ne_eq] at h
  exact ⟨h.1.1.1, h.1.1.2, h.1.2, h.2⟩

theorem fieldSpecial_plain (T : Tables) (id : Ident) (label : Nat) (f : FieldSpec) (fid : Nat) (idx : List Nat)
    (w bits : Nat) (s1 : DState) (h : isSpecial T fid = false) :
    fieldSpecial T id label f fid idx w bits s1 = .ok s1 := by
  obtain ⟨h1, h2, h3, h4⟩ := not_special T fid h
  simp [fieldSpecial, msmSpecial, harmSpecial, h1, h2, h3, h4]

theorem interp_counter (f : FieldSpec) (w bits : Nat) (h : isCounterTy f = true) : interp f w bits = .int bits := by
  simp only [isCounterTy, Bool.and_eq_true, Bool.or_eq_true, beq_iff_eq] at h
  exact interp_unsigned f w bits (by rcases h.1 with (h | h) | h <;> simp [h]) h.2

theorem isCounter_not_str (f : FieldSpec) (h : isCounterTy f = true) : f.ty ≠ .str := by
  simp only [isCounterTy, Bool.and_eq_true, Bool.or_eq_true, beq_iff_eq] at h
  rcases h.1 with (h | h) | h <;> simp [h]


/-! ### the scope / typing part of the invariant on its own (for the mask fields, whose
    bookkeeping takes two stores) -/

structure Base (T : Tables) (sc : Scope) (d : Nat) (idx : List Nat) (s : DState) : Prop where
  len : idx.length = d
  typed : Typed T s.attrs
  scope : ∀ fid dp, sc.has fid dp = true → dp ≤ d ∧ (s.attrs.get? (fid, idx.take dp)).isSome = true

theorem Inv.base {T : Tables} {env : CEnv} {d : Nat} {idx : List Nat} {s : DState} (h : Inv T env d idx s) :
    Base T env.scope d idx s := ⟨h.len, h.typed, h.scope⟩

theorem base_set_field (T : Tables) (sc : Scope) (d : Nat) (idx : List Nat) (s s' : DState)
    (fid dp : Nat) (v : Val) (hb : Base T sc d idx s) (hlt : fid < T.nf) (hdp : dp ≤ d)
    (h1 : ∀ f, T.field? fid = some f → isCounterTy f = true → ∃ n : Nat, v = .int n)
    (h2 : ∀ f, T.field? fid = some f → f.ty = .str → ∃ t, v = .text t)
    (ha : s'.attrs = s.attrs.set (fid, idx.take dp) v) : Base T ((fid, dp) :: sc) d idx s' := by
  refine ⟨hb.len, ?_, ?_⟩
  · rw [ha]; exact typed_set T _ _ _ hb.typed h1 h2 (fun h => by simp at h; omega)
  · intro f dp' hh
    simp only [has_cons, Bool.or_eq_true, Bool.and_eq_true, beq_iff_eq] at hh
    rcases hh with ⟨rfl, rfl⟩ | hh
    · exact ⟨hdp, by rw [ha, Attrs.get?_set_eq]; rfl⟩
    · obtain ⟨h1', h2'⟩ := hb.scope f dp' hh
      exact ⟨h1', by rw [ha]; exact Attrs.isSome_set _ _ _ _ h2'⟩

theorem base_set_derived (T : Tables) (hy : Hyg T) (sc : Scope) (d : Nat) (idx : List Nat) (s s' : DState)
    (x : Nat) (i : Int) (hb : Base T sc d idx s) (hx : T.nf ≤ x)
    (ha : s'.attrs = s.attrs.set (x, []) (.int i)) : Base T ((x, 0) :: sc) d idx s' := by
  have nofield : ∀ f, T.field? x ≠ some f := fun f hf => by have := hy.below x f hf; omega
  refine ⟨hb.len, ?_, ?_⟩
  · rw [ha]
    exact typed_set T _ _ _ hb.typed (fun f hf => absurd hf (nofield f)) (fun f hf => absurd hf (nofield f))
      (fun _ => ⟨i, rfl⟩)
  · intro f dp' hh
    simp only [has_cons, Bool.or_eq_true, Bool.and_eq_true, beq_iff_eq] at hh
    rcases hh with ⟨rfl, rfl⟩ | hh
    · exact ⟨Nat.zero_le _, by rw [ha]; simp [Attrs.get?_set_eq]⟩
    · obtain ⟨h1', h2'⟩ := hb.scope f dp' hh
      exact ⟨h1', by rw [ha]; exact Attrs.isSome_set _ _ _ _ h2'⟩

/-- the conclusion we prove about every piece of the walk -/
def Sound (T : Tables) (env' : CEnv) (d : Nat) (idx : List Nat) (s : DState) (r : Except DecErr DState) : Prop :=
  (∀ e, r = .error e → e = .short)
  ∧ (∀ s', r = .ok s' → Inv T env' d idx s' ∧ (1 ≤ d → s'.satmap = s.satmap ∧ s'.cellmap = s.cellmap))

theorem sound_short (T : Tables) (env' : CEnv) (d : Nat) (idx : List Nat) (s : DState) :
    Sound T env' d idx s (.error .short) :=
  ⟨fun e h => by injection h with h; exact h.symm, fun s' h => by simp at h⟩

theorem sound_ok (T : Tables) (env' : CEnv) (d : Nat) (idx : List Nat) (s s' : DState)
    (h : Inv T env' d idx s') (hm : 1 ≤ d → s'.satmap = s.satmap ∧ s'.cellmap = s.cellmap) :
    Sound T env' d idx s (.ok s') :=
  ⟨fun e he => by simp at he, fun s'' he => by injection he with he; subst he; exact ⟨h, hm⟩⟩

theorem fieldWidth_plain (T : Tables) (f : FieldSpec) (fid : Nat) (s : DState) (h : some fid ≠ T.special.df396) :
    fieldWidth T f fid s = .ok f.width := by
  simp [fieldWidth, h]

/-- an ordinary bit-carrying field -/
theorem sound_plain (c : Ctx) (hy : Hyg c.T) (env : CEnv) (d fid : Nat) (idx : List Nat) (s : DState) (f : FieldSpec)
    (hf : c.T.field? fid = some f) (hl : isLabelTy f.ty = false) (hsp : isSpecial c.T fid = false)
    (h0 : ¬ ((f.ty = .int ∨ f.ty = .snt) ∧ f.width = 0)) (hinv : Inv c.T env d idx s) :
    Sound c.T (env.add fid (if f.ty = .str then 0 else d)) d idx s (decField c fid idx s) := by
  obtain ⟨n1, n2, n3, n4⟩ := not_special c.T fid hsp
  have hw := fieldWidth_plain c.T f fid s n3
  rcases decField_pre c fid idx s f f.width hf hl hw h0 hinv.typed with h | ⟨bits, a', hb, hst, h⟩
  · rw [h]; exact sound_short _ _ _ _ _
  · rw [h, fieldSpecial_plain c.T c.id c.label f fid idx f.width bits _ hsp]
    apply sound_ok
    · have hlt := hy.below fid f hf
      rcases hst with ⟨hns, ha'⟩ | ⟨hs, t, ha'⟩
      · rw [if_neg hns]
        apply inv_set c.T hy env d idx s _ fid d (interp f f.width bits) hinv hlt (Nat.le_refl _)
          (fun e => n1 e.symm) (fun e => n2 e.symm) (fun e => n3 e.symm)
        · intro f' hf' hc; rw [hf] at hf'; injection hf' with hf'; subst hf'
          exact ⟨bits, interp_counter f _ _ hc⟩
        · intro f' hf' hc; rw [hf] at hf'; injection hf' with hf'; subst hf'
          exact absurd hc hns
        · simp only; rw [ha', ← hinv.len, List.take_length]
        · rfl
        · rfl
      · rw [if_pos hs]
        apply inv_set c.T hy env d idx s _ fid 0 (.text t) hinv hlt (Nat.zero_le _)
          (fun e => n1 e.symm) (fun e => n2 e.symm) (fun e => n3 e.symm)
        · intro f' hf' hc; rw [hf] at hf'; injection hf' with hf'; subst hf'
          exact absurd hs (isCounter_not_str f hc)
        · intro _ _ _; exact ⟨t, rfl⟩
        · simp only; rw [ha']; simp
        · rfl
        · rfl
    · intro _; exact ⟨rfl, rfl⟩


theorem label_not_counter (f : FieldSpec) (h : isLabelTy f.ty = true) : isCounterTy f = false := by
  cases hty : f.ty <;> simp [hty, isLabelTy] at h <;> simp [isCounterTy, hty]

theorem label_not_str (f : FieldSpec) (h : isLabelTy f.ty = true) : f.ty ≠ .str := by
  cases hty : f.ty <;> simp [hty, isLabelTy] at h <;> simp

/-- a derived label inside a group driven by NSat (PRN) or NCell (CELLPRN / CELLSIG) -/
theorem sound_label (c : Ctx) (hy : Hyg c.T) (env : CEnv) (d fid : Nat) (idx : List Nat) (s : DState) (f : FieldSpec)
    (hf : c.T.field? fid = some f) (hl : isLabelTy f.ty = true) (hsp : isSpecial c.T fid = false)
    (hw0 : f.width = 0) (hd : 1 ≤ d) (hm : env.maps = true)
    (ho : (f.ty = .prn → env.outer = some c.T.fidNSat) ∧ (f.ty ≠ .prn → env.outer = some c.T.fidNCell))
    (hinv : Inv c.T env d idx s) :
    Sound c.T (env.add fid d) d idx s (decField c fid idx s) := by
  obtain ⟨n1, n2, n3, n4⟩ := not_special c.T fid hsp
  have hw := fieldWidth_plain c.T f fid s n3
  obtain ⟨sm, cm, hsm, hcm, _, _⟩ := hinv.maps hm
  have hidx : ∃ i rest, idx = i :: rest := by
    cases idx with
    | nil => have := hinv.len; simp at this; omega
    | cons i rest => exact ⟨i, rest, rfl⟩
  obtain ⟨i, rest, hi⟩ := hidx
  obtain ⟨hi1, hbs, hbc⟩ := hinv.bound i rest hi
  have hi0 : ¬ i = 0 := by omega
  -- the label value
  have hval : ∃ l, fieldValue c.p f f.width idx s = .ok (.text l, 0) := by
    unfold fieldValue
    cases hty : f.ty <;> simp [hty, isLabelTy] at hl
    · obtain ⟨sm', e1, e2⟩ := hbs hm (ho.1 hty)
      rw [hsm] at e1; injection e1 with e1; subst e1
      have hlt : i - 1 < sm.length := by omega
      refine ⟨sm[i - 1], ?_⟩
      simp [hsm, hi, hi0, List.getElem?_eq_getElem hlt]
    · obtain ⟨cm', e1, e2⟩ := hbc hm (ho.2 (by rw [hty]; simp))
      rw [hcm] at e1; injection e1 with e1; subst e1
      have hlt : i - 1 < cm.length := by omega
      refine ⟨(cm[i - 1]).1, ?_⟩
      simp [hcm, hi, hi0, List.getElem?_eq_getElem hlt]
    · obtain ⟨cm', e1, e2⟩ := hbc hm (ho.2 (by rw [hty]; simp))
      rw [hcm] at e1; injection e1 with e1; subst e1
      have hlt : i - 1 < cm.length := by omega
      refine ⟨(cm[i - 1]).2, ?_⟩
      simp [hcm, hi, hi0, List.getElem?_eq_getElem hlt]
  obtain ⟨l, hv⟩ := hval
  have hns := label_not_str f hl
  have hdec : decField c fid idx s = .ok { s with off := s.off + f.width, attrs := s.attrs.set (fid, idx) (.text l) } := by
    unfold decField
    simp only [hf, hw, hv, fieldStore, if_neg hns]
    exact fieldSpecial_plain c.T c.id c.label f fid idx f.width 0 _ hsp
  rw [hdec]
  apply sound_ok
  · apply inv_set c.T hy env d idx s _ fid d (.text l) hinv (hy.below fid f hf) (Nat.le_refl _)
      (fun e => n1 e.symm) (fun e => n2 e.symm) (fun e => n3 e.symm)
    · intro f' hf' hc; rw [hf] at hf'; injection hf' with hf'; subst hf'
      rw [label_not_counter f hl] at hc; simp at hc
    · intro f' hf' hc; rw [hf] at hf'; injection hf' with hf'; subst hf'
      exact absurd hc hns
    · simp only; rw [← hinv.len, List.take_length]
    · rfl
    · rfl
  · intro _; exact ⟨rfl, rfl⟩


theorem counter_not_label (f : FieldSpec) (h : isCounterTy f = true) : isLabelTy f.ty = false := by
  cases hl : isLabelTy f.ty with
  | false => rfl
  | true => rw [label_not_counter f hl] at h; simp at h

theorem counter_not_lbl3 (f : FieldSpec) (h : isCounterTy f = true) : ¬ (f.ty = .prn ∨ f.ty = .cprn ∨ f.ty = .csig) := by
  have := counter_not_label f h
  intro hh
  rcases hh with hh | hh | hh <;> simp [hh, isLabelTy] at this

theorem counter_h0 (f : FieldSpec) (w : Nat) (h : isCounterTy f = true) : ¬ ((f.ty = .int ∨ f.ty = .snt) ∧ w = 0) := by
  simp only [isCounterTy, Bool.and_eq_true, Bool.or_eq_true, beq_iff_eq] at h
  intro hh
  rcases h.1 with (h1 | h1) | h1 <;> rcases hh.1 with h2 | h2 <;> rw [h1] at h2 <;> simp at h2

/-- the satellite mask DF394 (top level, before the maps are built) -/
theorem sound_df394 (c : Ctx) (hy : Hyg c.T) (env : CEnv) (fid : Nat) (idx : List Nat) (s : DState) (f : FieldSpec)
    (hf : c.T.field? fid = some f) (hc : isCounterTy f = true) (hw64 : f.width = 64)
    (hsp : some fid = c.T.special.df394) (hm : env.maps = false) (hinv : Inv c.T env 0 idx s) :
    Sound c.T ((env.add fid 0).add c.T.fidNSat 0) 0 idx s (decField c fid idx s) := by
  have hlt := hy.below fid f hf
  have n396 : some fid ≠ c.T.special.df396 := by rw [hsp]; exact hy.d2
  have n038 : some fid ≠ c.T.special.idf038 := by rw [hsp]; exact hy.d3
  have n395 : some fid ≠ c.T.special.df395 := by rw [hsp]; exact hy.d1
  have hw := fieldWidth_plain c.T f fid s n396
  have hidx : idx = [] := List.eq_nil_of_length_eq_zero hinv.len
  rcases decField_pre c fid idx s f f.width hf (counter_not_label f hc) hw (counter_h0 f _ hc) hinv.typed with
    h | ⟨bits, a', hb, hst, h⟩
  · rw [h]; exact sound_short _ _ _ _ _
  · have ha' : a' = s.attrs.set (fid, []) (.int bits) := by
      rcases hst with ⟨_, e⟩ | ⟨e, _⟩
      · rw [e, interp_counter f _ _ hc, hidx]
      · exact absurd e (isCounter_not_str f hc)
    have hfs : fieldSpecial c.T c.id c.label f fid idx f.width bits { s with off := s.off + f.width, attrs := a' }
        = .ok { s with off := s.off + f.width, attrs := a'.set (c.T.fidNSat, []) (.int (popcount bits f.width)) } := by
      unfold fieldSpecial msmSpecial
      rw [if_pos hsp, if_neg (counter_not_lbl3 f hc)]
      simp only
      unfold harmSpecial
      rw [if_neg n038]
    rw [h, hfs]
    apply sound_ok
    · have b1 : Base c.T ((fid, 0) :: env.scope) 0 idx { s with off := s.off + f.width, attrs := a' } := by
        apply base_set_field c.T env.scope 0 idx s _ fid 0 (.int bits) hinv.base hlt (Nat.le_refl _)
        · intro _ _ _; exact ⟨bits, rfl⟩
        · intro f' hf' hs'; rw [hf] at hf'; injection hf' with hf'; subst hf'
          exact absurd hs' (isCounter_not_str f hc)
        · simp only; rw [ha']; simp
      have b2 := base_set_derived c.T hy _ 0 idx _
        { s with off := s.off + f.width, attrs := a'.set (c.T.fidNSat, []) (.int (popcount bits f.width)) }
        c.T.fidNSat (popcount bits f.width) b1 (by simp [Tables.fidNSat]) rfl
      have keyNe : ∀ x l, x < c.T.nf → ((c.T.fidNSat, ([] : List Nat)) : AttrKey) ≠ (x, l) := by
        intro x l hx e; injection e with e _; simp [Tables.fidNSat] at e; omega
      have hOwn : M394 c.T ((env.add fid 0).add c.T.fidNSat 0)
          { s with off := s.off + f.width, attrs := a'.set (c.T.fidNSat, []) (.int (popcount bits f.width)) } := by
        intro _ a hs
        rw [← hsp] at hs; injection hs with hs; subst hs
        refine ⟨bits, by rw [← hw64]; exact hb, ?_, ?_⟩
        · simp only
          rw [Attrs.get?_set_ne _ _ _ _ (keyNe _ _ hlt), ha', Attrs.get?_set_eq]
        · simp only
          rw [Attrs.get?_set_eq, hw64]
      have hOther : M395 c.T ((env.add fid 0).add c.T.fidNSat 0)
          { s with off := s.off + f.width, attrs := a'.set (c.T.fidNSat, []) (.int (popcount bits f.width)) } := by
        intro hh a hs
        obtain ⟨a5, e5, l5⟩ := hy.s395
        rw [hs] at e5; injection e5 with e5; subst e5
        have hne : a ≠ fid := by
          intro e; apply n395; rw [hs, e]
        simp only [CEnv.add, has_cons, Bool.or_eq_true, Bool.and_eq_true, beq_iff_eq] at hh
        have hh' : env.scope.has c.T.fidNSig 0 = true := by
          rcases hh with ⟨e, _⟩ | ⟨e, _⟩ | hh
          · simp [Tables.fidNSat, Tables.fidNSig] at e
          · simp [Tables.fidNSig] at e; omega
          · exact hh
        obtain ⟨m, hm', g1, g2⟩ := hinv.m395 hh' a hs
        refine ⟨m, hm', ?_, ?_⟩
        · simp only
          rw [Attrs.get?_set_ne _ _ _ _ (keyNe _ _ l5), ha',
            Attrs.get?_set_ne _ _ _ _ (by intro e; injection e with e _; exact hne e.symm)]
          exact g1
        · simp only
          rw [Attrs.get?_set_ne _ _ _ _ (by intro e; injection e with e _; simp [Tables.fidNSat, Tables.fidNSig] at e), ha',
            Attrs.get?_set_ne _ _ _ _ (by intro e; injection e with e _; simp [Tables.fidNSig] at e; omega)]
          exact g2
      exact ⟨b2.len, b2.typed, b2.scope, fun hm' => by simp [CEnv.add, hm] at hm',
        fun i rest hi => by rw [hidx] at hi; simp at hi, hOwn, hOther, fun hm' => by simp [CEnv.add, hm] at hm'⟩
    · intro h1; omega

/-- the signal mask DF395 (top level, before the maps are built) -/
theorem sound_df395 (c : Ctx) (hy : Hyg c.T) (env : CEnv) (fid : Nat) (idx : List Nat) (s : DState) (f : FieldSpec)
    (hf : c.T.field? fid = some f) (hc : isCounterTy f = true) (hw32 : f.width = 32)
    (hsp : some fid = c.T.special.df395) (hm : env.maps = false) (hinv : Inv c.T env 0 idx s) :
    Sound c.T ((env.add fid 0).add c.T.fidNSig 0) 0 idx s (decField c fid idx s) := by
  have hlt := hy.below fid f hf
  have n396 : some fid ≠ c.T.special.df396 := by rw [hsp]; exact hy.d4
  have n038 : some fid ≠ c.T.special.idf038 := by rw [hsp]; exact hy.d5
  have n394 : some fid ≠ c.T.special.df394 := by rw [hsp]; exact fun e => hy.d1 e.symm
  have hw := fieldWidth_plain c.T f fid s n396
  have hidx : idx = [] := List.eq_nil_of_length_eq_zero hinv.len
  rcases decField_pre c fid idx s f f.width hf (counter_not_label f hc) hw (counter_h0 f _ hc) hinv.typed with
    h | ⟨bits, a', hb, hst, h⟩
  · rw [h]; exact sound_short _ _ _ _ _
  · have ha' : a' = s.attrs.set (fid, []) (.int bits) := by
      rcases hst with ⟨_, e⟩ | ⟨e, _⟩
      · rw [e, interp_counter f _ _ hc, hidx]
      · exact absurd e (isCounter_not_str f hc)
    have hfs : fieldSpecial c.T c.id c.label f fid idx f.width bits { s with off := s.off + f.width, attrs := a' }
        = .ok { s with off := s.off + f.width, attrs := a'.set (c.T.fidNSig, []) (.int (popcount bits f.width)) } := by
      unfold fieldSpecial msmSpecial
      rw [if_neg n394, if_pos hsp, if_neg (counter_not_lbl3 f hc)]
      simp only
      unfold harmSpecial
      rw [if_neg n038]
    rw [h, hfs]
    apply sound_ok
    · have b1 : Base c.T ((fid, 0) :: env.scope) 0 idx { s with off := s.off + f.width, attrs := a' } := by
        apply base_set_field c.T env.scope 0 idx s _ fid 0 (.int bits) hinv.base hlt (Nat.le_refl _)
        · intro _ _ _; exact ⟨bits, rfl⟩
        · intro f' hf' hs'; rw [hf] at hf'; injection hf' with hf'; subst hf'
          exact absurd hs' (isCounter_not_str f hc)
        · simp only; rw [ha']; simp
      have b2 := base_set_derived c.T hy _ 0 idx _
        { s with off := s.off + f.width, attrs := a'.set (c.T.fidNSig, []) (.int (popcount bits f.width)) }
        c.T.fidNSig (popcount bits f.width) b1 (by simp [Tables.fidNSig]) rfl
      have keyNe : ∀ x l, x < c.T.nf → ((c.T.fidNSig, ([] : List Nat)) : AttrKey) ≠ (x, l) := by
        intro x l hx e; injection e with e _; simp [Tables.fidNSig] at e; omega
      have hOwn : M395 c.T ((env.add fid 0).add c.T.fidNSig 0)
          { s with off := s.off + f.width, attrs := a'.set (c.T.fidNSig, []) (.int (popcount bits f.width)) } := by
        intro _ a hs
        rw [← hsp] at hs; injection hs with hs; subst hs
        refine ⟨bits, by rw [← hw32]; exact hb, ?_, ?_⟩
        · simp only
          rw [Attrs.get?_set_ne _ _ _ _ (keyNe _ _ hlt), ha', Attrs.get?_set_eq]
        · simp only
          rw [Attrs.get?_set_eq, hw32]
      have hOther : M394 c.T ((env.add fid 0).add c.T.fidNSig 0)
          { s with off := s.off + f.width, attrs := a'.set (c.T.fidNSig, []) (.int (popcount bits f.width)) } := by
        intro hh a hs
        obtain ⟨a5, e5, l5⟩ := hy.s394
        rw [hs] at e5; injection e5 with e5; subst e5
        have hne : a ≠ fid := by
          intro e; apply n394; rw [hs, e]
        simp only [CEnv.add, has_cons, Bool.or_eq_true, Bool.and_eq_true, beq_iff_eq] at hh
        have hh' : env.scope.has c.T.fidNSat 0 = true := by
          rcases hh with ⟨e, _⟩ | ⟨e, _⟩ | hh
          · simp [Tables.fidNSig, Tables.fidNSat] at e
          · simp [Tables.fidNSat] at e; omega
          · exact hh
        obtain ⟨m, hm', g1, g2⟩ := hinv.m394 hh' a hs
        refine ⟨m, hm', ?_, ?_⟩
        · simp only
          rw [Attrs.get?_set_ne _ _ _ _ (keyNe _ _ l5), ha',
            Attrs.get?_set_ne _ _ _ _ (by intro e; injection e with e _; exact hne e.symm)]
          exact g1
        · simp only
          rw [Attrs.get?_set_ne _ _ _ _ (by intro e; injection e with e _; simp [Tables.fidNSig, Tables.fidNSat] at e), ha',
            Attrs.get?_set_ne _ _ _ _ (by intro e; injection e with e _; simp [Tables.fidNSat] at e; omega)]
          exact g2
      exact ⟨b2.len, b2.typed, b2.scope, fun hm' => by simp [CEnv.add, hm] at hm',
        fun i rest hi => by rw [hidx] at hi; simp at hi, hOther, hOwn, fun hm' => by simp [CEnv.add, hm] at hm'⟩
    · intro h1; omega


theorem satCellMaps_ok (T : Tables) (id : Ident) (label a b d : Nat)
    (h : ((ident3 id).bind (assocGet T.prnsig)).isSome = true) (ha : a < 2 ^ 64) (hb : b < 2 ^ 32) :
    ∃ sm cm, satCellMaps T id label a b d = .ok (sm, cm) ∧ sm.length = popcount a 64
      ∧ cm.length = popcount d (popcount a 64 * popcount b 32) := by
  unfold satCellMaps
  cases hp : (ident3 id).bind (assocGet T.prnsig) with
  | none => rw [hp] at h; simp at h
  | some pm =>
    obtain ⟨prnmap, sigmap⟩ := pm
    refine ⟨_, _, rfl, ?_, ?_⟩
    · simp [setIdx_length_of_lt a 64 ha]
    · simp [setCells_length, setIdx_length_of_lt a 64 ha, setIdx_length_of_lt b 32 hb]

theorem getNat_of_int (s : DState) (k : AttrKey) (n : Nat) (h : s.attrs.get? k = some (.int n)) :
    getNat s k = .ok n := by
  simp [getNat, getInt_of_int s k n h]


/-- the cell mask DF396: its width is NSat × NSig, and decoding it builds the maps -/
theorem sound_df396 (c : Ctx) (hy : Hyg c.T) (env : CEnv) (fid : Nat) (idx : List Nat) (s : DState) (f : FieldSpec)
    (hf : c.T.field? fid = some f) (hc : isCounterTy f = true)
    (hsp : some fid = c.T.special.df396) (hm : env.maps = false)
    (hs1 : env.scope.has c.T.fidNSat 0 = true) (hs2 : env.scope.has c.T.fidNSig 0 = true)
    (hprn : ((ident3 c.id).bind (assocGet c.T.prnsig)).isSome = true)
    (hinv : Inv c.T env 0 idx s) :
    Sound c.T { ((env.add fid 0).add c.T.fidNCell 0) with maps := true } 0 idx s (decField c fid idx s) := by
  have hlt := hy.below fid f hf
  obtain ⟨a4, e4, l4⟩ := hy.s394
  obtain ⟨a5, e5, l5⟩ := hy.s395
  have n394 : some fid ≠ c.T.special.df394 := by rw [hsp]; exact fun e => hy.d2 e.symm
  have n395 : some fid ≠ c.T.special.df395 := by rw [hsp]; exact fun e => hy.d4 e.symm
  have n038 : some fid ≠ c.T.special.idf038 := by rw [hsp]; exact hy.d6
  have hf4 : fid ≠ a4 := fun e => n394 (by rw [e4, e])
  have hf5 : fid ≠ a5 := fun e => n395 (by rw [e5, e])
  have hidx : idx = [] := List.eq_nil_of_length_eq_zero hinv.len
  obtain ⟨m4, hm4, g41, g42⟩ := hinv.m394 hs1 a4 e4
  obtain ⟨m5, hm5, g51, g52⟩ := hinv.m395 hs2 a5 e5
  have hw : fieldWidth c.T f fid s = .ok (popcount m4 64 * popcount m5 32) := by
    unfold fieldWidth
    rw [if_pos hsp, getNat_of_int s _ _ g42, getNat_of_int s _ _ g52]
  rcases decField_pre c fid idx s f _ hf (counter_not_label f hc) hw (counter_h0 f _ hc) hinv.typed with
    h | ⟨bits, a', hb, hst, h⟩
  · rw [h]; exact sound_short _ _ _ _ _
  · have ha' : a' = s.attrs.set (fid, []) (.int bits) := by
      rcases hst with ⟨_, e⟩ | ⟨e, _⟩
      · rw [e, interp_counter f _ _ hc, hidx]
      · exact absurd e (isCounter_not_str f hc)
    obtain ⟨sm, cm, hsc, hsl, hcl⟩ := satCellMaps_ok c.T c.id c.label m4 m5 bits hprn hm4 hm5
    let w := popcount m4 64 * popcount m5 32
    let A := a'.set (c.T.fidNCell, []) (.int (popcount bits w))
    have keyNe : ∀ x l, x < c.T.nf → ((c.T.fidNCell, ([] : List Nat)) : AttrKey) ≠ (x, l) := by
      intro x l hx e; injection e with e _; simp [Tables.fidNCell] at e; omega
    have gA4 : A.get? (a4, []) = some (.int m4) := by
      simp only [A]
      rw [Attrs.get?_set_ne _ _ _ _ (keyNe _ _ l4), ha',
        Attrs.get?_set_ne _ _ _ _ (by intro e; injection e with e _; exact hf4 e)]
      exact g41
    have gA5 : A.get? (a5, []) = some (.int m5) := by
      simp only [A]
      rw [Attrs.get?_set_ne _ _ _ _ (keyNe _ _ l5), ha',
        Attrs.get?_set_ne _ _ _ _ (by intro e; injection e with e _; exact hf5 e)]
      exact g51
    have gAf : A.get? (fid, []) = some (.int bits) := by
      simp only [A]
      rw [Attrs.get?_set_ne _ _ _ _ (keyNe _ _ hlt), ha', Attrs.get?_set_eq]
    have hfs : fieldSpecial c.T c.id c.label f fid idx w bits { s with off := s.off + w, attrs := a' }
        = .ok { s with off := s.off + w, attrs := A, satmap := some sm, cellmap := some cm } := by
      unfold fieldSpecial msmSpecial
      rw [if_neg n394, if_neg n395, if_pos hsp, if_neg (counter_not_lbl3 f hc)]
      simp only [e4, e5]
      rw [gA4, gA5, gAf]
      simp only [Val.asInt?]
      have hnn : ¬ ((m4 : Int) < 0 ∨ (m5 : Int) < 0 ∨ (bits : Int) < 0) := by omega
      rw [if_neg hnn]
      simp only [Int.toNat_natCast, hsc]
      unfold harmSpecial
      rw [if_neg n038]
    rw [h, hfs]
    apply sound_ok
    · have b1 : Base c.T ((fid, 0) :: env.scope) 0 idx { s with off := s.off + w, attrs := a' } := by
        apply base_set_field c.T env.scope 0 idx s _ fid 0 (.int bits) hinv.base hlt (Nat.le_refl _)
        · intro _ _ _; exact ⟨bits, rfl⟩
        · intro f' hf' hs'; rw [hf] at hf'; injection hf' with hf'; subst hf'
          exact absurd hs' (isCounter_not_str f hc)
        · simp only; rw [ha']; simp
      have b2 := base_set_derived c.T hy _ 0 idx _
        { s with off := s.off + w, attrs := A, satmap := some sm, cellmap := some cm }
        c.T.fidNCell (popcount bits w) b1 (by simp [Tables.fidNCell]) rfl
      have gNSat : A.get? (c.T.fidNSat, []) = some (.int (popcount m4 64)) := by
        simp only [A]
        rw [Attrs.get?_set_ne _ _ _ _ (by intro e; injection e with e _; simp [Tables.fidNCell, Tables.fidNSat] at e), ha',
          Attrs.get?_set_ne _ _ _ _ (by intro e; injection e with e _; simp [Tables.fidNSat] at e; omega)]
        exact g42
      have gNSig : A.get? (c.T.fidNSig, []) = some (.int (popcount m5 32)) := by
        simp only [A]
        rw [Attrs.get?_set_ne _ _ _ _ (by intro e; injection e with e _; simp [Tables.fidNCell, Tables.fidNSig] at e), ha',
          Attrs.get?_set_ne _ _ _ _ (by intro e; injection e with e _; simp [Tables.fidNSig] at e; omega)]
        exact g52
      refine ⟨b2.len, b2.typed, b2.scope, ?_, ?_, ?_, ?_, ?_⟩
      · intro _
        refine ⟨sm, cm, rfl, rfl, ?_, ?_⟩
        · simp only; rw [gNSat, hsl]
        · simp only; simp only [A]; rw [Attrs.get?_set_eq, hcl]
      · intro i rest hi; rw [hidx] at hi; simp at hi
      · intro _ a hs
        rw [e4] at hs; injection hs with hs; subst hs
        exact ⟨m4, hm4, gA4, gNSat⟩
      · intro _ a hs
        rw [e5] at hs; injection hs with hs; subst hs
        exact ⟨m5, hm5, gA5, gNSig⟩
      · intro _ b4 b5 b6 f4 f5 f6
        rw [e4] at f4; injection f4 with f4; subst f4
        rw [e5] at f5; injection f5 with f5; subst f5
        rw [← hsp] at f6; injection f6 with f6; subst f6
        refine ⟨m4, m5, bits, gA4, gA5, gAf, gNSat, gNSig, ?_⟩
        simp only [A]; rw [Attrs.get?_set_eq]
    · intro h1; omega


/-- IDF038 (order of a 4076_201 layer): derives the two coefficient counts -/
theorem sound_idf038 (c : Ctx) (hy : Hyg c.T) (env : CEnv) (fid g : Nat) (idx : List Nat) (s : DState) (f : FieldSpec)
    (hf : c.T.field? fid = some f) (hc : isCounterTy f = true)
    (hsp : some fid = c.T.special.idf038) (h037 : c.T.special.idf037 = some g)
    (hg1 : env.scope.has g 1 = true) (hg2 : counterField c.T g = true)
    (hinv : Inv c.T env 1 idx s) :
    Sound c.T (((env.add fid 1).add c.T.fidNHarmC 0).add c.T.fidNHarmS 0) 1 idx s (decField c fid idx s) := by
  have hlt := hy.below fid f hf
  have n394 : some fid ≠ c.T.special.df394 := by rw [hsp]; exact fun e => hy.d3 e.symm
  have n395 : some fid ≠ c.T.special.df395 := by rw [hsp]; exact fun e => hy.d5 e.symm
  have n396 : some fid ≠ c.T.special.df396 := by rw [hsp]; exact fun e => hy.d6 e.symm
  have hw := fieldWidth_plain c.T f fid s n396
  obtain ⟨i, hidx⟩ : ∃ i, idx = [i] := by
    match idx, hinv.len with
    | [i], _ => exact ⟨i, rfl⟩
  rcases decField_pre c fid idx s f f.width hf (counter_not_label f hc) hw (counter_h0 f _ hc) hinv.typed with
    h | ⟨bits, a', hb, hst, h⟩
  · rw [h]; exact sound_short _ _ _ _ _
  · have ha' : a' = s.attrs.set (fid, idx) (.int bits) := by
      rcases hst with ⟨_, e⟩ | ⟨e, _⟩
      · rw [e, interp_counter f _ _ hc]
      · exact absurd e (isCounter_not_str f hc)
    -- invariant after the plain store
    have inv1 : Inv c.T (env.add fid 1) 1 idx { s with off := s.off + f.width, attrs := a' } := by
      apply inv_set c.T hy env 1 idx s _ fid 1 (.int bits) hinv hlt (Nat.le_refl _)
        (fun e => n394 e.symm) (fun e => n395 e.symm) (fun e => n396 e.symm)
      · intro _ _ _; exact ⟨bits, rfl⟩
      · intro f' hf' hs'; rw [hf] at hf'; injection hf' with hf'; subst hf'
        exact absurd hs' (isCounter_not_str f hc)
      · simp only; rw [ha', ← hinv.len, List.take_length]
      · rfl
      · rfl
    -- the degree attribute is an int
    obtain ⟨n0, hn0⟩ : ∃ n0 : Nat, a'.get? (g, [i]) = some (.int n0) := by
      have hsome := (inv1.scope g 1 (by simp [CEnv.add, has_cons, hg1])).2
      simp only [hidx, List.take_succ_cons, List.take_zero] at hsome
      cases hv : a'.get? (g, [i]) with
      | none => rw [hv] at hsome; simp at hsome
      | some v =>
        simp only [counterField] at hg2
        cases hfg : c.T.field? g with
        | none => rw [hfg] at hg2; simp at hg2
        | some fg =>
          rw [hfg] at hg2
          obtain ⟨n, hn⟩ := (inv1.typed (g, [i]) v hv).1 fg hfg hg2
          exact ⟨n, by rw [hn]⟩
    have hm0 : a'.get? (fid, [i]) = some (.int bits) := by rw [ha', hidx, Attrs.get?_set_eq]
    obtain ⟨nc, ns, hfs⟩ : ∃ nc ns : Int,
        fieldSpecial c.T c.id c.label f fid idx f.width bits { s with off := s.off + f.width, attrs := a' }
        = .ok { s with off := s.off + f.width,
                       attrs := (a'.set (c.T.fidNHarmC, []) (.int nc)).set (c.T.fidNHarmS, []) (.int ns) } := by
      refine ⟨(((n0 : Int) + 1 + 1) * ((n0 : Int) + 1 + 2) / 2
          - (((n0 : Int) + 1) - ((bits : Int) + 1)) * (((n0 : Int) + 1) - ((bits : Int) + 1) + 1) / 2),
        (((n0 : Int) + 1 + 1) * ((n0 : Int) + 1 + 2) / 2
          - (((n0 : Int) + 1) - ((bits : Int) + 1)) * (((n0 : Int) + 1) - ((bits : Int) + 1) + 1) / 2) - ((n0 : Int) + 1 + 1), ?_⟩
      unfold fieldSpecial msmSpecial
      rw [if_neg n394, if_neg n395, if_neg n396]
      simp only
      unfold harmSpecial
      rw [if_pos hsp]
      simp only [hidx, h037]
      rw [getInt_of_int _ _ _ hn0, getInt_of_int _ _ _ hm0]
    rw [h, hfs]
    apply sound_ok
    · have inv2 := inv_set_derived c.T hy (env.add fid 1) 1 idx _
        { s with off := s.off + f.width, attrs := a'.set (c.T.fidNHarmC, []) (.int nc) }
        c.T.fidNHarmC nc inv1 (Or.inl rfl) rfl rfl rfl
      exact inv_set_derived c.T hy _ 1 idx _
        { s with off := s.off + f.width, attrs := (a'.set (c.T.fidNHarmC, []) (.int nc)).set (c.T.fidNHarmS, []) (.int ns) }
        c.T.fidNHarmS ns inv2 (Or.inr rfl) rfl rfl rfl
    · intro _; exact ⟨rfl, rfl⟩


/-- the `| _ =>` branch of `ckField`: unsigned fields, among them the four special ones -/
theorem sound_unsigned (c : Ctx) (hy : Hyg c.T) (env env' : CEnv) (d fid : Nat) (idx : List Nat) (s : DState)
    (f : FieldSpec) (hf : c.T.field? fid = some f) (hu : f.ty = .bit ∨ f.ty = .bitx ∨ f.ty = .uint)
    (hck : (if some fid == c.T.special.df394 then
        if d == 0 && !env.maps && isCounterTy f && f.width == 64 then some ((env.add fid d).add c.T.fidNSat 0) else none
      else if some fid == c.T.special.df395 then
        if d == 0 && !env.maps && isCounterTy f && f.width == 32 then some ((env.add fid d).add c.T.fidNSig 0) else none
      else if some fid == c.T.special.df396 then
        if d == 0 && !env.maps && isCounterTy f && env.scope.has c.T.fidNSat 0 && env.scope.has c.T.fidNSig 0
            && (c.T.special.df394.any fun a => env.scope.has a 0)
            && (c.T.special.df395.any fun a => env.scope.has a 0)
            && ((ident3 c.id).bind (assocGet c.T.prnsig)).isSome then
          some { ((env.add fid d).add c.T.fidNCell 0) with maps := true } else none
      else if some fid == c.T.special.idf038 then
        if d == 1 && isCounterTy f && (c.T.special.idf037.any fun a => env.scope.has a 1 && counterField c.T a) then
          some (((env.add fid d).add c.T.fidNHarmC 0).add c.T.fidNHarmS 0) else none
      else some (env.add fid d)) = some env')
    (hinv : Inv c.T env d idx s) : Sound c.T env' d idx s (decField c fid idx s) := by
  have hl : isLabelTy f.ty = false := by rcases hu with h | h | h <;> simp [h, isLabelTy]
  have hns : f.ty ≠ .str := by rcases hu with h | h | h <;> simp [h]
  have h0 : ¬ ((f.ty = .int ∨ f.ty = .snt) ∧ f.width = 0) := by
    rcases hu with h | h | h <;> simp [h]
  by_cases c1 : some fid = c.T.special.df394
  · simp only [c1, beq_self_eq_true, if_true] at hck
    split at hck
    · rename_i hc
      injection hck with hck; subst hck
      simp only [Bool.and_eq_true, beq_iff_eq, Bool.not_eq_true'] at hc
      obtain ⟨⟨⟨hd, hm⟩, hcnt⟩, hw⟩ := hc
      subst hd
      exact sound_df394 c hy env fid idx s f hf hcnt hw c1 hm hinv
    · simp at hck
  · have c1' : (some fid == c.T.special.df394) = false := by simpa using c1
    simp only [c1', Bool.false_eq_true, if_false] at hck
    by_cases c2 : some fid = c.T.special.df395
    · simp only [c2, beq_self_eq_true, if_true] at hck
      split at hck
      · rename_i hc
        injection hck with hck; subst hck
        simp only [Bool.and_eq_true, beq_iff_eq, Bool.not_eq_true'] at hc
        obtain ⟨⟨⟨hd, hm⟩, hcnt⟩, hw⟩ := hc
        subst hd
        exact sound_df395 c hy env fid idx s f hf hcnt hw c2 hm hinv
      · simp at hck
    · have c2' : (some fid == c.T.special.df395) = false := by simpa using c2
      simp only [c2', Bool.false_eq_true, if_false] at hck
      by_cases c3 : some fid = c.T.special.df396
      · simp only [c3, beq_self_eq_true, if_true] at hck
        split at hck
        · rename_i hc
          injection hck with hck; subst hck
          simp only [Bool.and_eq_true, beq_iff_eq, Bool.not_eq_true'] at hc
          obtain ⟨⟨⟨⟨⟨⟨⟨hd, hm⟩, hcnt⟩, hs1⟩, hs2⟩, _⟩, _⟩, hprn⟩ := hc
          subst hd
          exact sound_df396 c hy env fid idx s f hf hcnt c3 hm hs1 hs2 hprn hinv
        · simp at hck
      · have c3' : (some fid == c.T.special.df396) = false := by simpa using c3
        simp only [c3', Bool.false_eq_true, if_false] at hck
        by_cases c4 : some fid = c.T.special.idf038
        · simp only [c4, beq_self_eq_true, if_true] at hck
          split at hck
          · rename_i hc
            injection hck with hck; subst hck
            simp only [Bool.and_eq_true, beq_iff_eq] at hc
            obtain ⟨⟨hd, hcnt⟩, hany⟩ := hc
            subst hd
            cases h037 : c.T.special.idf037 with
            | none => rw [h037] at hany; simp at hany
            | some g =>
              rw [h037] at hany
              simp only [Option.any_some, Bool.and_eq_true] at hany
              exact sound_idf038 c hy env fid g idx s f hf hcnt c4 h037 hany.1 hany.2 hinv
          · simp at hck
        · have c4' : (some fid == c.T.special.idf038) = false := by simpa using c4
          simp only [c4', Bool.false_eq_true, if_false] at hck
          injection hck with hck; subst hck
          have hsp : isSpecial c.T fid = false := by
            simp [isSpecial, c1', c2', c3', c4']
          have := sound_plain c hy env d fid idx s f hf hl hsp h0 hinv
          rwa [if_neg hns] at this


/-- **one field occurrence**: if the checker accepts it in `env`, decoding it from a state satisfying
    the invariant either runs out of payload or re-establishes the invariant for the new `env'` -/
theorem ckField_sound (c : Ctx) (hy : Hyg c.T) (env env' : CEnv) (d fid : Nat) (idx : List Nat) (s : DState)
    (hck : ckField c.T c.id env d fid = some env') (hinv : Inv c.T env d idx s) :
    Sound c.T env' d idx s (decField c fid idx s) := by
  unfold ckField at hck
  cases hf : c.T.field? fid with
  | none => simp [hf] at hck
  | some f =>
    simp only [hf] at hck
    cases hty : f.ty <;> simp only [hty] at hck
    case bit => exact sound_unsigned c hy env env' d fid idx s f hf (Or.inl hty) hck hinv
    case bitx => exact sound_unsigned c hy env env' d fid idx s f hf (Or.inr (Or.inl hty)) hck hinv
    case uint => exact sound_unsigned c hy env env' d fid idx s f hf (Or.inr (Or.inr hty)) hck hinv
    case other => simp at hck
    case cha =>
      split at hck
      · rename_i hc
        injection hck with hck; subst hck
        simp only [Bool.not_eq_true'] at hc
        have := sound_plain c hy env d fid idx s f hf (by simp [hty, isLabelTy]) hc (by simp [hty]) hinv
        rwa [if_neg (by simp [hty])] at this
      · simp at hck
    case str =>
      split at hck
      · rename_i hc
        injection hck with hck; subst hck
        simp only [Bool.not_eq_true'] at hc
        have := sound_plain c hy env d fid idx s f hf (by simp [hty, isLabelTy]) hc (by simp [hty]) hinv
        rwa [if_pos hty] at this
      · simp at hck
    case int =>
      split at hck
      · rename_i hc
        injection hck with hck; subst hck
        simp only [Bool.and_eq_true, bne_iff_ne, ne_eq, Bool.not_eq_true'] at hc
        have := sound_plain c hy env d fid idx s f hf (by simp [hty, isLabelTy]) hc.2 (by simp [hc.1]) hinv
        rwa [if_neg (by simp [hty])] at this
      · simp at hck
    case snt =>
      split at hck
      · rename_i hc
        injection hck with hck; subst hck
        simp only [Bool.and_eq_true, bne_iff_ne, ne_eq, Bool.not_eq_true'] at hc
        have := sound_plain c hy env d fid idx s f hf (by simp [hty, isLabelTy]) hc.2 (by simp [hc.1]) hinv
        rwa [if_neg (by simp [hty])] at this
      · simp at hck
    case prn =>
      split at hck
      · rename_i hc
        injection hck with hck; subst hck
        simp only [Bool.and_eq_true, decide_eq_true_eq, beq_iff_eq, Bool.not_eq_true'] at hc
        obtain ⟨⟨⟨⟨hd, hm⟩, ho⟩, hw⟩, hsp⟩ := hc
        exact sound_label c hy env d fid idx s f hf (by simp [hty, isLabelTy]) hsp hw hd hm
          ⟨fun _ => ho, fun h => absurd hty h⟩ hinv
      · simp at hck
    case cprn =>
      split at hck
      · rename_i hc
        injection hck with hck; subst hck
        simp only [Bool.and_eq_true, decide_eq_true_eq, beq_iff_eq, Bool.not_eq_true'] at hc
        obtain ⟨⟨⟨⟨hd, hm⟩, ho⟩, hw⟩, hsp⟩ := hc
        exact sound_label c hy env d fid idx s f hf (by simp [hty, isLabelTy]) hsp hw hd hm
          ⟨fun h => by rw [hty] at h; simp at h, fun _ => ho⟩ hinv
      · simp at hck
    case csig =>
      split at hck
      · rename_i hc
        injection hck with hck; subst hck
        simp only [Bool.and_eq_true, decide_eq_true_eq, beq_iff_eq, Bool.not_eq_true'] at hc
        obtain ⟨⟨⟨⟨hd, hm⟩, ho⟩, hw⟩, hsp⟩ := hc
        exact sound_label c hy env d fid idx s f hf (by simp [hty, isLabelTy]) hsp hw hd hm
          ⟨fun h => by rw [hty] at h; simp at h, fun _ => ho⟩ hinv
      · simp at hck


/-! ### the checker only ever adds to the scope -/

structure Mono (d : Nat) (e e' : CEnv) : Prop where
  scope : ∀ f dp, e.scope.has f dp = true → e'.scope.has f dp = true
  maps : e.maps = true → e'.maps = true
  outer : e'.outer = e.outer
  deep : 1 ≤ d → e'.maps = e.maps

theorem mono_refl (d : Nat) (e : CEnv) : Mono d e e := ⟨fun _ _ h => h, fun h => h, rfl, fun _ => rfl⟩

theorem mono_trans {d : Nat} {a b c : CEnv} (h1 : Mono d a b) (h2 : Mono d b c) : Mono d a c :=
  ⟨fun f dp h => h2.scope f dp (h1.scope f dp h), fun h => h2.maps (h1.maps h), h2.outer.trans h1.outer,
   fun hd => (h2.deep hd).trans (h1.deep hd)⟩

theorem mono_add (d : Nat) (e : CEnv) (f dp : Nat) : Mono d e (e.add f dp) :=
  ⟨fun f' dp' h => by simp [CEnv.add, has_cons, h], fun h => h, rfl, fun _ => rfl⟩

theorem ckField_mono (T : Tables) (id : Ident) (env env' : CEnv) (d fid : Nat)
    (h : ckField T id env d fid = some env') : Mono d env env' := by
  unfold ckField at h
  cases hf : T.field? fid with
  | none => simp [hf] at h
  | some f =>
    simp only [hf] at h
    have a1 := mono_add d env fid d
    have a0 := mono_add d env fid 0
    cases hty : f.ty <;> simp only [hty] at h
    case other => simp at h
    case prn =>
      split at h
      · injection h with h; subst h; exact a1
      · simp at h
    case cprn =>
      split at h
      · injection h with h; subst h; exact a1
      · simp at h
    case csig =>
      split at h
      · injection h with h; subst h; exact a1
      · simp at h
    case int =>
      split at h
      · injection h with h; subst h; exact a1
      · simp at h
    case snt =>
      split at h
      · injection h with h; subst h; exact a1
      · simp at h
    case cha =>
      split at h
      · injection h with h; subst h; exact a1
      · simp at h
    case str =>
      split at h
      · injection h with h; subst h; exact a0
      · simp at h
    all_goals (
      split at h
      · split at h
        · injection h with h; subst h; exact mono_trans a1 (mono_add d _ _ _)
        · simp at h
      · split at h
        · split at h
          · injection h with h; subst h; exact mono_trans a1 (mono_add d _ _ _)
          · simp at h
        · split at h
          · split at h
            · rename_i hc
              injection h with h; subst h
              simp only [Bool.and_eq_true, beq_iff_eq] at hc
              have hd0 : d = 0 := hc.1.1.1.1.1.1.1
              refine ⟨fun f' dp' hh => by simp [CEnv.add, has_cons, hh], fun _ => rfl, rfl, fun hd => by omega⟩
            · simp at h
          · split at h
            · split at h
              · injection h with h; subst h
                exact mono_trans a1 (mono_trans (mono_add d _ _ _) (mono_add d _ _ _))
              · simp at h
            · injection h with h; subst h; exact a1)

theorem map_const_some {α β : Type} (o : Option α) (b b' : β) (h : o.map (fun _ => b) = some b') :
    b' = b ∧ ∃ a, o = some a := by
  cases o with
  | none => simp at h
  | some a => simp at h; exact ⟨h.symm, a, rfl⟩

theorem ckItem_mono (T : Tables) (id : Ident) (d : Nat) (it : Item) (env env' : CEnv)
    (h : ckItem T id d it env = some env') : Mono d env env' := by
  cases it with
  | field fid => simp only [ckItem] at h; exact ckField_mono T id env env' d fid h
  | group cnt body =>
    cases cnt with
    | fixed n =>
      simp only [ckItem] at h
      rw [(map_const_some _ _ _ h).1]; exact mono_refl d env
    | attr fid nest =>
      simp only [ckItem] at h
      split at h
      · rw [(map_const_some _ _ _ h).1]; exact mono_refl d env
      · simp at h
  | opt fid v body =>
    simp only [ckItem] at h
    split at h
    · rw [(map_const_some _ _ _ h).1]; exact mono_refl d env
    · simp at h
  | malformed m => simp [ckItem] at h

theorem ckItems_mono (T : Tables) (id : Ident) (d : Nat) (l : List Item) (env env' : CEnv)
    (h : ckItems T id d l env = some env') : Mono d env env' := by
  induction l generalizing env with
  | nil => simp only [ckItems] at h; injection h with h; subst h; exact mono_refl d env
  | cons it rest ih =>
    simp only [ckItems] at h
    cases hi : ckItem T id d it env with
    | none => simp [hi] at h
    | some e1 =>
      simp only [hi] at h
      exact mono_trans (ckItem_mono T id d it env e1 hi) (ih e1 h)


/-! ### groups -/

theorem repLoop_sound (f : Nat → DState → Except DecErr DState) (P : DState → Prop) (n : Nat)
    (hstep : ∀ i s, 1 ≤ i → i ≤ n → P s →
      (∀ e, f i s = .error e → e = .short) ∧ (∀ s', f i s = .ok s' → P s')) :
    ∀ (k i : Nat) (s : DState), 1 ≤ i → i + k ≤ n + 1 → P s →
      (∀ e, repLoop f k i s = .error e → e = .short) ∧ (∀ s', repLoop f k i s = .ok s' → P s') := by
  intro k
  induction k with
  | zero =>
    intro i s _ _ hp
    simp only [repLoop]
    exact ⟨fun e h => by simp at h, fun s' h => by injection h with h; subst h; exact hp⟩
  | succ k ih =>
    intro i s hi hk hp
    simp only [repLoop]
    obtain ⟨h1, h2⟩ := hstep i s hi (by omega) hp
    cases hf : f i s with
    | error e =>
      simp only
      exact ⟨fun e' h => by injection h with h; subst h; exact h1 e hf, fun s' h => by simp at h⟩
    | ok s1 =>
      simp only
      exact ih (i + 1) s1 (by omega) (by omega) (h2 s1 hf)

/-- the repeat count of a group the checker accepted is an integer attribute that is set -/
theorem countOf_ok (c : Ctx) (hy : Hyg c.T) (env : CEnv) (d : Nat) (idx : List Nat) (s : DState) (fid nest : Nat)
    (hck : ckCounter c.T env d fid nest = true) (hinv : Inv c.T env d idx s) :
    ∃ n, countOf c (.attr fid nest) idx s = .ok n
      ∧ (nest = 0 → env.maps = true → fid = c.T.fidNSat → ∃ sm, s.satmap = some sm ∧ n = sm.length)
      ∧ (nest = 0 → env.maps = true → fid = c.T.fidNCell → ∃ cm, s.cellmap = some cm ∧ n = cm.length) := by
  simp only [ckCounter, Bool.and_eq_true, Bool.or_eq_true, decide_eq_true_eq] at hck
  obtain ⟨⟨hn, hsc⟩, hty⟩ := hck
  obtain ⟨_, hsome⟩ := hinv.scope fid nest hsc
  have hlen : ¬ idx.length < nest := by rw [hinv.len]; omega
  cases hv : s.attrs.get? (fid, idx.take nest) with
  | none => rw [hv] at hsome; simp at hsome
  | some v =>
    obtain ⟨i, hi⟩ : ∃ i : Int, v = .int i := by
      rcases hty with hcf | hge
      · simp only [counterField] at hcf
        cases hf : c.T.field? fid with
        | none => rw [hf] at hcf; simp at hcf
        | some f =>
          rw [hf] at hcf
          obtain ⟨n, hn⟩ := (hinv.typed _ v hv).1 f hf hcf
          exact ⟨n, hn⟩
      · exact (hinv.typed _ v hv).2.2 hge
    subst hi
    have hgi : getInt s (fid, idx.take nest) = .ok i := getInt_of_int s _ i hv
    refine ⟨(if nest = 0 ∧ some fid = c.T.special.idf035 then i + 1 else i).toNat,
      by simp only [countOf, if_neg hlen, hgi], ?_, ?_⟩
    · intro h0 hm hf
      subst h0 hf
      obtain ⟨sm, cm, e1, _, e3, _⟩ := hinv.maps hm
      simp only [List.take_zero] at hv
      rw [e3] at hv; injection hv with hv; injection hv with hv
      have hne : ¬ (0 = 0 ∧ some c.T.fidNSat = c.T.special.idf035) := by
        obtain ⟨a, ea, la⟩ := hy.s035
        intro hh; rw [ea] at hh
        have := hh.2; injection this with this; simp [Tables.fidNSat] at this; omega
      exact ⟨sm, e1, by rw [if_neg hne, ← hv]; simp⟩
    · intro h0 hm hf
      subst h0 hf
      obtain ⟨sm, cm, _, e2, _, e4⟩ := hinv.maps hm
      simp only [List.take_zero] at hv
      rw [e4] at hv; injection hv with hv; injection hv with hv
      have hne : ¬ (0 = 0 ∧ some c.T.fidNCell = c.T.special.idf035) := by
        obtain ⟨a, ea, la⟩ := hy.s035
        intro hh; rw [ea] at hh
        have := hh.2; injection this with this; simp [Tables.fidNCell] at this; omega
      exact ⟨cm, e2, by rw [if_neg hne, ← hv]; simp⟩

/-- entering iteration `i` of a group -/
theorem inv_enter (T : Tables) (env : CEnv) (d : Nat) (idx : List Nat) (s : DState) (i : Nat) (o' : Option Nat)
    (hinv : Inv T env d idx s) (hi : 1 ≤ i) (ho : 1 ≤ d → o' = env.outer)
    (hbS : d = 0 → env.maps = true → o' = some T.fidNSat → ∃ sm, s.satmap = some sm ∧ i ≤ sm.length)
    (hbC : d = 0 → env.maps = true → o' = some T.fidNCell → ∃ cm, s.cellmap = some cm ∧ i ≤ cm.length) :
    Inv T { env with outer := o' } (d + 1) (idx ++ [i]) s := by
  refine ⟨by simp [hinv.len], hinv.typed, ?_, hinv.maps, ?_, hinv.m394, hinv.m395, hinv.m396⟩
  · intro f dp hh
    obtain ⟨h1, h2⟩ := hinv.scope f dp hh
    refine ⟨by omega, ?_⟩
    rw [List.take_append_of_le_length (by rw [hinv.len]; exact h1)]
    exact h2
  · intro j rest hj
    cases idx with
    | nil =>
      have hd : d = 0 := by have := hinv.len; simpa using this.symm
      simp only [List.nil_append, List.cons.injEq] at hj
      obtain ⟨rfl, _⟩ := hj
      exact ⟨hi, fun hm hoo => hbS hd hm hoo, fun hm hoo => hbC hd hm hoo⟩
    | cons i0 r0 =>
      have hd : 1 ≤ d := by have := hinv.len; simp at this; omega
      simp only [List.cons_append, List.cons.injEq] at hj
      obtain ⟨rfl, _⟩ := hj
      obtain ⟨b1, b2, b3⟩ := hinv.bound i0 r0 rfl
      have := ho hd
      exact ⟨b1, fun hm hoo => b2 hm (by rw [← this]; exact hoo), fun hm hoo => b3 hm (by rw [← this]; exact hoo)⟩

/-- leaving an iteration: back to the enclosing scope -/
theorem inv_leave (T : Tables) (env envB' : CEnv) (d : Nat) (idx : List Nat) (s1 s' : DState) (i : Nat)
    (hpre : Inv T env d idx s1) (hin : Inv T envB' (d + 1) (idx ++ [i]) s')
    (hsc : ∀ f dp, env.scope.has f dp = true → envB'.scope.has f dp = true)
    (hmp : envB'.maps = env.maps)
    (hsm : s'.satmap = s1.satmap) (hcm : s'.cellmap = s1.cellmap) : Inv T env d idx s' := by
  refine ⟨hpre.len, hin.typed, ?_, fun hm => hin.maps (by rw [hmp]; exact hm), ?_,
    fun hh => hin.m394 (hsc _ _ hh), fun hh => hin.m395 (hsc _ _ hh), fun hm => hin.m396 (by rw [hmp]; exact hm)⟩
  · intro f dp hh
    obtain ⟨h1, _⟩ := hpre.scope f dp hh
    obtain ⟨_, h2⟩ := hin.scope f dp (hsc f dp hh)
    rw [List.take_append_of_le_length (by rw [hpre.len]; exact h1)] at h2
    exact ⟨h1, h2⟩
  · intro j rest hj
    obtain ⟨b1, b2, b3⟩ := hpre.bound j rest hj
    exact ⟨b1, fun hm ho => by rw [hsm]; exact b2 hm ho, fun hm ho => by rw [hcm]; exact b3 hm ho⟩


theorem group_sound (c : Ctx) (env envB' : CEnv) (d : Nat) (idx : List Nat) (s : DState)
    (body : List Item) (o' : Option Nat) (n : Nat)
    (hck : ckItems c.T c.id (d + 1) body { env with outer := o' } = some envB')
    (IH : ∀ idx' s1, Inv c.T { env with outer := o' } (d + 1) idx' s1 →
      Sound c.T envB' (d + 1) idx' s1 (decItems c body idx' s1))
    (hinv : Inv c.T env d idx s) (ho : 1 ≤ d → o' = env.outer)
    (hbS : d = 0 → env.maps = true → o' = some c.T.fidNSat → ∃ sm, s.satmap = some sm ∧ n ≤ sm.length)
    (hbC : d = 0 → env.maps = true → o' = some c.T.fidNCell → ∃ cm, s.cellmap = some cm ∧ n ≤ cm.length) :
    Sound c.T env d idx s (repLoop (fun i s => decItems c body (idx ++ [i]) s) n 1 s) := by
  have hmono := ckItems_mono c.T c.id (d + 1) body _ envB' hck
  let P : DState → Prop := fun s1 => Inv c.T env d idx s1 ∧ s1.satmap = s.satmap ∧ s1.cellmap = s.cellmap
  have hstep : ∀ i s1, 1 ≤ i → i ≤ n → P s1 →
      (∀ e, (fun i s => decItems c body (idx ++ [i]) s) i s1 = .error e → e = .short)
      ∧ (∀ s', (fun i s => decItems c body (idx ++ [i]) s) i s1 = .ok s' → P s') := by
    intro i s1 hi hin ⟨hp, hsm, hcm⟩
    have henter := inv_enter c.T env d idx s1 i o' hp hi ho
      (fun hd hm hoo => by
        obtain ⟨sm, e1, e2⟩ := hbS hd hm hoo
        exact ⟨sm, by rw [hsm]; exact e1, by omega⟩)
      (fun hd hm hoo => by
        obtain ⟨cm, e1, e2⟩ := hbC hd hm hoo
        exact ⟨cm, by rw [hcm]; exact e1, by omega⟩)
    obtain ⟨h1, h2⟩ := IH (idx ++ [i]) s1 henter
    refine ⟨h1, fun s' hs' => ?_⟩
    obtain ⟨hin', hfr⟩ := h2 s' hs'
    obtain ⟨f1, f2⟩ := hfr (by omega)
    exact ⟨inv_leave c.T env envB' d idx s1 s' i hp hin' hmono.scope (hmono.deep (by omega)) f1 f2,
      f1.trans hsm, f2.trans hcm⟩
  obtain ⟨r1, r2⟩ := repLoop_sound _ P n hstep n 1 s (Nat.le_refl 1) (by omega) ⟨hinv, rfl, rfl⟩
  exact ⟨r1, fun s' hs' => ⟨(r2 s' hs').1, fun _ => (r2 s' hs').2⟩⟩

theorem sound_frame_trans (T : Tables) (env' : CEnv) (d : Nat) (idx : List Nat) (s s1 : DState)
    (r : Except DecErr DState) (h : Sound T env' d idx s1 r)
    (hm : 1 ≤ d → s1.satmap = s.satmap ∧ s1.cellmap = s.cellmap) : Sound T env' d idx s r :=
  ⟨h.1, fun s' hs' => ⟨(h.2 s' hs').1, fun hd =>
    ⟨((h.2 s' hs').2 hd).1.trans (hm hd).1, ((h.2 s' hs').2 hd).2.trans (hm hd).2⟩⟩⟩

mutual
/-- **soundness of the checker, one item** -/
theorem ckItem_sound (c : Ctx) (hy : Hyg c.T) :
    ∀ (it : Item) (env env' : CEnv) (d : Nat) (idx : List Nat) (s : DState),
      ckItem c.T c.id d it env = some env' → Inv c.T env d idx s → Sound c.T env' d idx s (decItem c it idx s)
  | .field fid, env, env', d, idx, s, hck, hinv => by
    simp only [ckItem] at hck
    simp only [decItem]
    exact ckField_sound c hy env env' d fid idx s hck hinv
  | .group (.fixed n) body, env, env', d, idx, s, hck, hinv => by
    simp only [ckItem] at hck
    obtain ⟨he, envB', hB⟩ := map_const_some _ _ _ hck
    subst he
    simp only [decItem, countOf]
    refine group_sound c env' envB' d idx s body _ n hB
      (fun idx' s1 h1 => ckItems_sound c hy body _ envB' (d + 1) idx' s1 hB h1) hinv ?_ ?_ ?_
    · intro hd; rw [if_neg (by omega)]
    · intro hd _ ho; rw [if_pos hd] at ho; simp at ho
    · intro hd _ ho; rw [if_pos hd] at ho; simp at ho
  | .group (.attr fid nest) body, env, env', d, idx, s, hck, hinv => by
    simp only [ckItem] at hck
    split at hck
    · rename_i hcnt
      obtain ⟨he, envB', hB⟩ := map_const_some _ _ _ hck
      subst he
      obtain ⟨n, hn, hS, hC⟩ := countOf_ok c hy env' d idx s fid nest hcnt hinv
      simp only [decItem, hn]
      refine group_sound c env' envB' d idx s body _ n hB
        (fun idx' s1 h1 => ckItems_sound c hy body _ envB' (d + 1) idx' s1 hB h1) hinv ?_ ?_ ?_
      · intro hd; rw [if_neg (by omega)]
      · intro hd hm ho
        rw [if_pos hd] at ho
        by_cases h0 : nest = 0
        · rw [if_pos h0] at ho; injection ho with ho
          obtain ⟨sm, e1, e2⟩ := hS h0 hm ho
          exact ⟨sm, e1, by omega⟩
        · rw [if_neg h0] at ho; simp at ho
      · intro hd hm ho
        rw [if_pos hd] at ho
        by_cases h0 : nest = 0
        · rw [if_pos h0] at ho; injection ho with ho
          obtain ⟨cm, e1, e2⟩ := hC h0 hm ho
          exact ⟨cm, e1, by omega⟩
        · rw [if_neg h0] at ho; simp at ho
    · simp at hck
  | .opt fid v body, env, env', d, idx, s, hck, hinv => by
    simp only [ckItem] at hck
    split at hck
    · rename_i hsc
      obtain ⟨he, envB', hB⟩ := map_const_some _ _ _ hck
      subst he
      obtain ⟨_, hsome⟩ := hinv.scope fid 0 hsc
      simp only [List.take_zero] at hsome
      simp only [decItem]
      cases hg : s.attrs.get? (fid, []) with
      | none => rw [hg] at hsome; simp at hsome
      | some a =>
        simp only
        by_cases hm : optMatches a v = true
        · rw [if_pos hm]
          have hb := ckItems_sound c hy body env' envB' d idx s hB hinv
          have hmono := ckItems_mono c.T c.id d body env' envB' hB
          exact ⟨hb.1, fun s' hs' => ⟨inv_weaken c.T envB' env' d idx s' (hb.2 s' hs').1 hmono.scope hmono.maps
            hmono.outer.symm, (hb.2 s' hs').2⟩⟩
        · rw [if_neg hm]
          exact sound_ok c.T env' d idx s s hinv (fun _ => ⟨rfl, rfl⟩)
    · simp at hck
  | .malformed m, env, env', d, idx, s, hck, hinv => by simp [ckItem] at hck
/-- **soundness of the checker, item lists** -/
theorem ckItems_sound (c : Ctx) (hy : Hyg c.T) :
    ∀ (l : List Item) (env env' : CEnv) (d : Nat) (idx : List Nat) (s : DState),
      ckItems c.T c.id d l env = some env' → Inv c.T env d idx s → Sound c.T env' d idx s (decItems c l idx s)
  | [], env, env', d, idx, s, hck, hinv => by
    simp only [ckItems] at hck
    injection hck with hck; subst hck
    simp only [decItems]
    exact sound_ok c.T env d idx s s hinv (fun _ => ⟨rfl, rfl⟩)
  | it :: rest, env, env', d, idx, s, hck, hinv => by
    simp only [ckItems] at hck
    cases hi : ckItem c.T c.id d it env with
    | none => simp [hi] at hck
    | some e1 =>
      simp only [hi] at hck
      have h1 := ckItem_sound c hy it env e1 d idx s hi hinv
      simp only [decItems]
      cases hd : decItem c it idx s with
      | error e =>
        simp only
        exact ⟨fun e' he => by injection he with he; subst he; exact h1.1 e hd, fun s' hs' => by simp at hs'⟩
      | ok s1 =>
        simp only
        obtain ⟨i1, f1⟩ := h1.2 s1 hd
        exact sound_frame_trans c.T env' d idx s s1 _ (ckItems_sound c hy rest e1 env' d idx s1 hck i1) f1
end


theorem inv_init (T : Tables) : Inv T ⟨[], false, none⟩ 0 [] DState.init :=
  ⟨rfl, typed_nil T, fun f dp h => by simp [Scope.has] at h, fun h => by simp at h,
   fun i rest h => by simp at h, fun h => by simp [Scope.has] at h, fun h => by simp [Scope.has] at h, fun h => by simp at h⟩

/-- **Soundness of `ckDef`.**  For tables passing the hygiene check and a definition the checker
    accepts for identity `id`: whatever the payload and the label option, decoding can fail in one
    way only — a field extends past the end of the payload. -/
theorem ck_sound (T : Tables) (hy : Hyg T) (id : Ident) (label : Nat) (p : Payload) (d : List Item)
    (h : ckDef T id d = true) (e : DecErr)
    (he : decItems ⟨T, p, id, label⟩ d [] DState.init = .error e) : e = .short := by
  unfold ckDef at h
  cases hc : ckItems T id 0 d ⟨[], false, none⟩ with
  | none => rw [hc] at h; simp at h
  | some env' =>
    exact (ckItems_sound ⟨T, p, id, label⟩ hy d _ env' 0 [] DState.init hc (inv_init T)).1 e he

/-- the final invariant of a successful decode of a checked definition -/
theorem ck_final_inv (T : Tables) (hy : Hyg T) (id : Ident) (label : Nat) (p : Payload) (d : List Item)
    (env' : CEnv) (hck : ckItems T id 0 d ⟨[], false, none⟩ = some env') (s : DState)
    (h : decItems ⟨T, p, id, label⟩ d [] DState.init = .ok s) : Inv T env' 0 [] s :=
  ((ckItems_sound ⟨T, p, id, label⟩ hy d _ env' 0 [] DState.init hck (inv_init T)).2 s h).1

end Rtcm
