import Rtcm.Model.Decodable
import Rtcm.Lemmas.Frame
import Rtcm.Lemmas.Msm
/-
  Soundness of the static check `ckDef`: a definition it accepts can only fail to decode because
  the payload is too short.
-/
namespace Rtcm

/-! ### attribute store -/

theorem Attrs.get?_set_eq (a : Attrs) (k : AttrKey) (v : Val) : (a.set k v).get? k = some v := by
  induction a with
  | nil => simp [Attrs.set, Attrs.get?]
  | cons kv rest ih =>
    obtain ⟨k0, v0⟩ := kv
    simp only [Attrs.set]
    by_cases h0 : k0 = k
    · simp [h0, Attrs.get?]
    · simp [h0, Attrs.get?, ih]

theorem Attrs.get?_set (a : Attrs) (k k' : AttrKey) (v : Val) :
    (a.set k' v).get? k = if k' = k then some v else a.get? k := by
  by_cases h : k' = k
  · subst h; simp [Attrs.get?_set_eq]
  · simp [h, Attrs.get?_set_ne a k k' v h]

theorem Attrs.isSome_set (a : Attrs) (k k' : AttrKey) (v : Val) (h : (a.get? k).isSome = true) :
    ((a.set k' v).get? k).isSome = true := by
  rw [Attrs.get?_set]; split <;> simp [h]

/-! ### table hygiene -/

structure Hyg (T : Tables) : Prop where
  below : ∀ fid f, T.field? fid = some f → fid < T.nf
  s394 : ∃ a, T.special.df394 = some a ∧ a < T.nf
  s395 : ∃ a, T.special.df395 = some a ∧ a < T.nf
  s396 : ∃ a, T.special.df396 = some a ∧ a < T.nf
  s035 : ∃ a, T.special.idf035 = some a ∧ a < T.nf
  s037 : ∃ a, T.special.idf037 = some a ∧ a < T.nf
  s038 : ∃ a, T.special.idf038 = some a ∧ a < T.nf
  d1 : T.special.df394 ≠ T.special.df395
  d2 : T.special.df394 ≠ T.special.df396
  d3 : T.special.df394 ≠ T.special.idf038
  d4 : T.special.df395 ≠ T.special.df396
  d5 : T.special.df395 ≠ T.special.idf038
  d6 : T.special.df396 ≠ T.special.idf038

theorem FTree.get?_below (n : Nat) : ∀ (t : FTree) (i : Nat) (f : FieldSpec),
    t.keysBelow n = true → t.get? i = some f → i < n
  | .leaf, i, f, _, h => by simp [FTree.get?] at h
  | .node l k v r, i, f, hb, h => by
    simp only [FTree.keysBelow, Bool.and_eq_true, decide_eq_true_eq] at hb
    simp only [FTree.get?] at h
    split at h
    · exact FTree.get?_below n l i f hb.1.2 h
    · split at h
      · exact FTree.get?_below n r i f hb.2 h
      · omega

theorem hyg_of_B (T : Tables) (h : hygB T = true) : Hyg T := by
  unfold hygB at h
  simp only [Bool.and_eq_true] at h
  obtain ⟨hk, hs⟩ := h
  split at hs
  · rename_i a b c e g hh h1 h2 h3 h4 h5 h6
    simp only [Bool.and_eq_true, decide_eq_true_eq, bne_iff_ne, ne_eq] at hs
    obtain ⟨⟨⟨⟨⟨⟨⟨⟨⟨⟨⟨ha, hb⟩, hc⟩, he⟩, hg⟩, hhh⟩, n1⟩, n2⟩, n3⟩, n4⟩, n5⟩, n6⟩ := hs
    exact {
      below := fun fid f hf => FTree.get?_below T.nf T.ftree fid f hk hf
      s394 := ⟨a, h1, ha⟩, s395 := ⟨b, h2, hb⟩, s396 := ⟨c, h3, hc⟩, s035 := ⟨e, h4, he⟩
      s037 := ⟨g, h5, hg⟩, s038 := ⟨hh, h6, hhh⟩
      d1 := by rw [h1, h2]; simpa using n1
      d2 := by rw [h1, h3]; simpa using n2
      d3 := by rw [h1, h6]; simpa using n3
      d4 := by rw [h2, h3]; simpa using n4
      d5 := by rw [h2, h6]; simpa using n5
      d6 := by rw [h3, h6]; simpa using n6 }
  · simp at hs

/-! ### typing of the attribute store -/

/-- every stored value has the Python type its field promises: plain unsigned unscaled fields and
    the derived counters hold ints (non-negative for fields), text fields hold strings -/
def Typed (T : Tables) (a : Attrs) : Prop :=
  ∀ k v, a.get? k = some v →
    (∀ f, T.field? k.1 = some f → isCounterTy f = true → ∃ n : Nat, v = .int n)
    ∧ (∀ f, T.field? k.1 = some f → f.ty = .str → ∃ t, v = .text t)
    ∧ (T.nf ≤ k.1 → ∃ i : Int, v = .int i)

theorem typed_nil (T : Tables) : Typed T [] := by
  intro k v h; simp [Attrs.get?] at h

theorem typed_set (T : Tables) (a : Attrs) (k : AttrKey) (v : Val) (h : Typed T a)
    (h1 : ∀ f, T.field? k.1 = some f → isCounterTy f = true → ∃ n : Nat, v = .int n)
    (h2 : ∀ f, T.field? k.1 = some f → f.ty = .str → ∃ t, v = .text t)
    (h3 : T.nf ≤ k.1 → ∃ i : Int, v = .int i) : Typed T (a.set k v) := by
  intro k' v' hg
  rw [Attrs.get?_set] at hg
  split at hg
  · rename_i he
    injection hg with hg
    subst he hg
    exact ⟨h1, h2, h3⟩
  · exact h k' v' hg

theorem getInt_of_int (s : DState) (k : AttrKey) (i : Int) (h : s.attrs.get? k = some (.int i)) :
    getInt s k = .ok i := by
  simp [getInt, h, Val.asInt?]

end Rtcm
