import Rtcm.Model.Message
/-
  Facts about the table-driven decoder that hold for *every* table and definition:
  * a field is only ever read from inside the payload, offsets only grow;
  * extending the payload (trailing bytes) changes nothing that was decoded;
  * hence a truncated complete message is rejected.
-/
namespace Rtcm

/-- `q` is a leading part of `p` (as bit strings) -/
def Payload.Prefix (q p : Payload) : Prop :=
  ∃ a R, p.blen = q.blen + a ∧ p.val = q.val * 2 ^ a + R ∧ R < 2 ^ a

theorem Payload.prefix_refl (p : Payload) : Payload.Prefix p p := ⟨0, 0, by simp, by simp, by simp⟩

/-- bits read inside the shorter payload are the same bits in the longer one -/
theorem extract_mono (q p : Payload) (h : Payload.Prefix q p) (off w b : Nat)
    (hq : extract q off w = some b) : extract p off w = some b := by
  obtain ⟨a, R, hb, hv, hR⟩ := h
  unfold extract at hq ⊢
  split at hq
  · rename_i hle
    rw [if_pos (by omega)]
    injection hq with hq
    rw [← hq, hb, hv]
    congr 1
    simp only [Nat.shiftRight_eq_div_pow]
    rw [show q.blen + a - off - w = a + (q.blen - off - w) by omega, Nat.pow_add,
      ← Nat.div_div_eq_div_mul]
    congr 1
    rw [Nat.mul_comm, Nat.mul_add_div (Nat.two_pow_pos a), Nat.div_eq_of_lt hR, Nat.add_zero]
  · simp at hq

theorem ofBytes_prefix (bs ext : Bytes) : Payload.Prefix (Payload.ofBytes bs) (Payload.ofBytes (bs ++ ext)) := by
  refine ⟨8 * ext.length, bytesToNat ext, ?_, ?_, ?_⟩
  · simp [Payload.ofBytes]; omega
  · simp only [Payload.ofBytes]
    unfold bytesToNat
    rw [List.foldl_append]
    -- foldl from accumulator N = N * 2^(8 len) + foldl from 0
    have key : ∀ (m : Bytes) (N : Nat), m.foldl (fun a b => a * 256 + b.toNat) N
        = N * 2 ^ (8 * m.length) + m.foldl (fun a b => a * 256 + b.toNat) 0 := by
      intro m
      induction m with
      | nil => intro N; simp
      | cons b rest ih =>
        intro N
        simp only [List.foldl_cons, List.length_cons]
        rw [ih, ih (0 * 256 + b.toNat)]
        rw [show 8 * (rest.length + 1) = 8 + 8 * rest.length by omega, Nat.pow_add]
        simp only [Nat.zero_mul, Nat.zero_add, Nat.add_mul]
        rw [show (2 : Nat) ^ 8 = 256 by decide, Nat.mul_assoc, Nat.add_assoc]
    exact key ext _
  · have key : ∀ (m : Bytes) (N K : Nat), N < 2 ^ K → m.foldl (fun a b => a * 256 + b.toNat) N < 2 ^ (K + 8 * m.length) := by
      intro m
      induction m with
      | nil => intro N K h; simpa using h
      | cons b rest ih =>
        intro N K h
        simp only [List.foldl_cons, List.length_cons]
        rw [show K + 8 * (rest.length + 1) = (K + 8) + 8 * rest.length by omega]
        apply ih
        have := UInt8.toNat_lt b
        rw [Nat.pow_add]; omega
    have := key ext 0 0 (by simp)
    simpa [bytesToNat] using this

end Rtcm

namespace Rtcm

/-! ### extending the payload -/

theorem bitsValue_mono (q p : Payload) (h : Payload.Prefix q p) (f : FieldSpec) (w off : Nat)
    (c : Prop) [Decidable c] (r : Val × Nat)
    (hq : (if c then (Except.error DecErr.badType : Except DecErr (Val × Nat)) else
            match extract q off w with
            | none => .error .short
            | some bits => .ok (interp f w bits, bits)) = .ok r) :
    (if c then (Except.error DecErr.badType : Except DecErr (Val × Nat)) else
      match extract p off w with
      | none => .error .short
      | some bits => .ok (interp f w bits, bits)) = .ok r := by
  by_cases hc : c
  · rw [if_pos hc] at hq; simp at hq
  · rw [if_neg hc] at hq ⊢
    cases he : extract q off w with
    | none => simp [he] at hq
    | some b => rw [extract_mono q p h _ _ _ he]; simpa [he] using hq

theorem fieldValue_mono (q p : Payload) (h : Payload.Prefix q p) (f : FieldSpec) (w : Nat) (idx : List Nat)
    (s : DState) (r : Val × Nat) (hq : fieldValue q f w idx s = .ok r) : fieldValue p f w idx s = .ok r := by
  unfold fieldValue at hq ⊢
  cases hty : f.ty <;> simp only [hty] at hq ⊢ <;> first | exact hq | exact bitsValue_mono q p h f w s.off _ r hq

/-- two decoding contexts that differ only in that one payload extends the other -/
structure CtxExt (cq cp : Ctx) : Prop where
  T : cp.T = cq.T
  id : cp.id = cq.id
  label : cp.label = cq.label
  pre : Payload.Prefix cq.p cp.p

theorem decField_mono (cq cp : Ctx) (hx : CtxExt cq cp) (fid : Nat) (idx : List Nat) (s s' : DState)
    (h : decField cq fid idx s = .ok s') : decField cp fid idx s = .ok s' := by
  unfold decField at h ⊢
  rw [hx.T, hx.id, hx.label]
  split
  · rename_i hf; simp [hf] at h
  · rename_i f hf
    simp only [hf] at h
    split
    · rename_i e hw; simp [hw] at h
    · rename_i w hw
      simp only [hw] at h
      cases hv : fieldValue cq.p f w idx s with
      | error e => simp [hv] at h
      | ok r =>
        rw [fieldValue_mono cq.p cp.p hx.pre f w idx s r hv]
        simpa [hv] using h

theorem repLoop_mono (f g : Nat → DState → Except DecErr DState)
    (hfg : ∀ i s r, f i s = .ok r → g i s = .ok r) (n i : Nat) (s r : DState)
    (h : repLoop f n i s = .ok r) : repLoop g n i s = .ok r := by
  induction n generalizing i s with
  | zero => simpa [repLoop] using h
  | succ n ih =>
    simp only [repLoop] at h ⊢
    cases hf : f i s with
    | error e => simp [hf] at h
    | ok s1 =>
      rw [hfg i s s1 hf]
      simp only [hf] at h
      exact ih _ _ h

theorem countOf_ctx (cq cp : Ctx) (hT : cp.T = cq.T) (cnt : Count) (idx : List Nat) (s : DState) :
    countOf cp cnt idx s = countOf cq cnt idx s := by
  unfold countOf
  rw [hT]

mutual
theorem decItem_mono (cq cp : Ctx) (hx : CtxExt cq cp) :
    ∀ (it : Item) (idx : List Nat) (s r : DState), decItem cq it idx s = .ok r → decItem cp it idx s = .ok r
  | .field fid, idx, s, r, h => by
    simp only [decItem] at h ⊢
    exact decField_mono cq cp hx fid idx s r h
  | .group cnt body, idx, s, r, h => by
    simp only [decItem] at h ⊢
    rw [countOf_ctx cq cp hx.T]
    cases hc : countOf cq cnt idx s with
    | error e => simp [hc] at h
    | ok n =>
      simp only [hc] at h ⊢
      exact repLoop_mono _ _ (fun i s r hr => decItems_mono cq cp hx body (idx ++ [i]) s r hr) n 1 s r h
  | .opt fid v body, idx, s, r, h => by
    simp only [decItem] at h ⊢
    cases hg : s.attrs.get? (fid, []) with
    | none => simp [hg] at h
    | some a =>
      simp only [hg] at h ⊢
      by_cases he : optMatches a v = true
      · rw [if_pos he] at h ⊢
        exact decItems_mono cq cp hx body idx s r h
      · rw [if_neg he] at h ⊢
        exact h
  | .malformed _, idx, s, r, h => by simp [decItem] at h
theorem decItems_mono (cq cp : Ctx) (hx : CtxExt cq cp) :
    ∀ (l : List Item) (idx : List Nat) (s r : DState), decItems cq l idx s = .ok r → decItems cp l idx s = .ok r
  | [], idx, s, r, h => by simpa [decItems] using h
  | it :: rest, idx, s, r, h => by
    simp only [decItems] at h ⊢
    cases hi : decItem cq it idx s with
    | error e => simp [hi] at h
    | ok s1 =>
      rw [decItem_mono cq cp hx it idx s s1 hi]
      simp only [hi] at h
      exact decItems_mono cq cp hx rest idx s1 r h
end

end Rtcm

namespace Rtcm

/-! ### offsets: nothing is read past the end -/

def isLabelTy (t : FType) : Bool := t == .prn || t == .cprn || t == .csig

/-- derived label fields (PRN, CELLPRN, CELLSIG) occupy no bits -/
def LabelsZero (T : Tables) : Prop :=
  ∀ fid f, T.field? fid = some f → isLabelTy f.ty = true → f.width = 0

theorem msmSpecial_off (T : Tables) (id : Ident) (label : Nat) (f : FieldSpec) (fid : Nat)
    (w bits : Nat) (s1 s2 : DState) (h : msmSpecial T id label f fid w bits s1 = .ok s2) :
    s2.off = s1.off := by
  unfold msmSpecial at h
  repeat' split at h
  all_goals first
    | (simp at h; done)
    | (injection h with h; rw [← h])

theorem harmSpecial_off (T : Tables) (fid : Nat) (idx : List Nat) (s1 s2 : DState)
    (h : harmSpecial T fid idx s1 = .ok s2) : s2.off = s1.off := by
  unfold harmSpecial at h
  repeat' split at h
  all_goals first
    | (simp at h; done)
    | (injection h with h; rw [← h])

theorem fieldSpecial_off (T : Tables) (id : Ident) (label : Nat) (f : FieldSpec) (fid : Nat) (idx : List Nat)
    (w bits : Nat) (s1 s2 : DState) (h : fieldSpecial T id label f fid idx w bits s1 = .ok s2) :
    s2.off = s1.off := by
  unfold fieldSpecial at h
  split at h
  · simp at h
  · rename_i s' hs'
    rw [harmSpecial_off T fid idx s' s2 h, msmSpecial_off T id label f fid w bits s1 s' hs']

theorem fieldSpecial_label_df396 (T : Tables) (id : Ident) (label : Nat) (f : FieldSpec) (fid : Nat) (idx : List Nat)
    (w bits : Nat) (s1 s2 : DState) (hl : isLabelTy f.ty = true) (h396 : some fid = T.special.df396)
    (h : fieldSpecial T id label f fid idx w bits s1 = .ok s2) : False := by
  unfold fieldSpecial at h
  have hd : f.ty = .prn ∨ f.ty = .cprn ∨ f.ty = .csig := by
    simp [isLabelTy] at hl
    rcases hl with (h | h) | h
    · exact Or.inl h
    · exact Or.inr (Or.inl h)
    · exact Or.inr (Or.inr h)
  have hm : ∃ e, msmSpecial T id label f fid w bits s1 = .error e := by
    unfold msmSpecial
    simp only [h396, hd, if_true]
    repeat' split
    all_goals exact ⟨_, rfl⟩
  obtain ⟨e, he⟩ := hm
  rw [he] at h
  simp at h

theorem fieldValue_bits_bound (p : Payload) (f : FieldSpec) (w : Nat) (idx : List Nat) (s : DState) (r : Val × Nat)
    (hl : isLabelTy f.ty = false) (h : fieldValue p f w idx s = .ok r) : s.off + w ≤ p.blen := by
  unfold fieldValue at h
  cases hty : f.ty <;> simp [hty, isLabelTy] at hl <;> simp only [hty] at h
  all_goals (
    split at h
    · simp at h
    · cases he : extract p s.off w with
      | none => simp [he] at h
      | some b =>
        unfold extract at he
        split at he
        · assumption
        · simp at he)

theorem decField_off (c : Ctx) (hz : LabelsZero c.T) (fid : Nat) (idx : List Nat) (s s' : DState)
    (h : decField c fid idx s = .ok s') :
    s.off ≤ s'.off ∧ (s.off ≤ c.p.blen → s'.off ≤ c.p.blen) := by
  unfold decField at h
  split at h
  · simp at h
  · rename_i f hf
    split at h
    · simp at h
    · rename_i w hw
      split at h
      · simp at h
      · rename_i v bits hv
        split at h
        · simp at h
        · rename_i attrs hst
          have hoff := fieldSpecial_off _ _ _ _ _ _ _ _ _ _ h
          simp only at hoff
          rw [hoff]
          refine ⟨by omega, fun hle => ?_⟩
          cases hl : isLabelTy f.ty
          · exact fieldValue_bits_bound _ _ _ _ _ _ hl hv
          · -- label field: zero width (it cannot be DF396)
            have hne : ¬ (some fid = c.T.special.df396) := fun h396 =>
              fieldSpecial_label_df396 _ _ _ _ _ _ _ _ _ _ hl h396 h
            unfold fieldWidth at hw
            rw [if_neg hne] at hw
            injection hw with hw
            rw [← hw, hz fid f hf hl]
            exact hle

theorem repLoop_off (f : Nat → DState → Except DecErr DState) (B : Nat)
    (hf : ∀ i s r, f i s = .ok r → s.off ≤ r.off ∧ (s.off ≤ B → r.off ≤ B)) (n i : Nat) (s r : DState)
    (h : repLoop f n i s = .ok r) : s.off ≤ r.off ∧ (s.off ≤ B → r.off ≤ B) := by
  induction n generalizing i s with
  | zero => simp [repLoop] at h; subst h; exact ⟨Nat.le_refl _, id⟩
  | succ n ih =>
    simp only [repLoop] at h
    cases hfi : f i s with
    | error e => simp [hfi] at h
    | ok s1 =>
      simp only [hfi] at h
      have h1 := hf i s s1 hfi
      have h2 := ih _ _ h
      exact ⟨Nat.le_trans h1.1 h2.1, fun hb => h2.2 (h1.2 hb)⟩

mutual
theorem decItem_off (c : Ctx) (hz : LabelsZero c.T) :
    ∀ (it : Item) (idx : List Nat) (s r : DState), decItem c it idx s = .ok r →
      s.off ≤ r.off ∧ (s.off ≤ c.p.blen → r.off ≤ c.p.blen)
  | .field fid, idx, s, r, h => by
    simp only [decItem] at h
    exact decField_off c hz fid idx s r h
  | .group cnt body, idx, s, r, h => by
    simp only [decItem] at h
    cases hc : countOf c cnt idx s with
    | error e => simp [hc] at h
    | ok n =>
      simp only [hc] at h
      exact repLoop_off _ c.p.blen (fun i s r hr => decItems_off c hz body (idx ++ [i]) s r hr) n 1 s r h
  | .opt fid v body, idx, s, r, h => by
    simp only [decItem] at h
    cases hg : s.attrs.get? (fid, []) with
    | none => simp [hg] at h
    | some a =>
      simp only [hg] at h
      by_cases he : optMatches a v = true
      · rw [if_pos he] at h
        exact decItems_off c hz body idx s r h
      · rw [if_neg he] at h
        injection h with h; subst h
        exact ⟨Nat.le_refl _, id⟩
  | .malformed _, idx, s, r, h => by simp [decItem] at h
theorem decItems_off (c : Ctx) (hz : LabelsZero c.T) :
    ∀ (l : List Item) (idx : List Nat) (s r : DState), decItems c l idx s = .ok r →
      s.off ≤ r.off ∧ (s.off ≤ c.p.blen → r.off ≤ c.p.blen)
  | [], idx, s, r, h => by
    simp [decItems] at h; subst h; exact ⟨Nat.le_refl _, id⟩
  | it :: rest, idx, s, r, h => by
    simp only [decItems] at h
    cases hi : decItem c it idx s with
    | error e => simp [hi] at h
    | ok s1 =>
      simp only [hi] at h
      have h1 := decItem_off c hz it idx s s1 hi
      have h2 := decItems_off c hz rest idx s1 r h
      exact ⟨Nat.le_trans h1.1 h2.1, fun hb => h2.2 (h1.2 hb)⟩
end

/-- decidable form of `LabelsZero` over the field list -/
def labelsZeroB (T : Tables) : Bool :=
  T.fields.all fun f => !isLabelTy f.ty || f.width == 0

end Rtcm

namespace Rtcm

def FTree.all (p : FieldSpec → Bool) : FTree → Bool
  | .leaf => true
  | .node l _ v r => FTree.all p l && p v && FTree.all p r

theorem FTree.all_get (p : FieldSpec → Bool) : ∀ (t : FTree) (i : Nat) (f : FieldSpec),
    FTree.all p t = true → t.get? i = some f → p f = true
  | .leaf, i, f, _, h => by simp [FTree.get?] at h
  | .node l k v r, i, f, ha, h => by
    simp only [FTree.all, Bool.and_eq_true] at ha
    simp only [FTree.get?] at h
    split at h
    · exact FTree.all_get p l i f ha.1.1 h
    · split at h
      · exact FTree.all_get p r i f ha.2 h
      · injection h with h; rw [← h]; exact ha.1.2

theorem labelsZero_of_tree (T : Tables)
    (h : FTree.all (fun f => !isLabelTy f.ty || f.width == 0) T.ftree = true) : LabelsZero T := by
  intro fid f hf hl
  have := FTree.all_get _ T.ftree fid f h hf
  simp [hl] at this
  exact this

/-- the complete decode of a payload reads at most the payload's bits -/
theorem decode_within_payload (T : Tables) (hz : LabelsZero T) (p : Bytes) (id : Ident) (l : Nat)
    (d : List Item) (s : DState) (h : decItems ⟨T, Payload.ofBytes p, id, l⟩ d [] DState.init = .ok s) :
    s.off ≤ 8 * p.length := by
  have := (decItems_off ⟨T, Payload.ofBytes p, id, l⟩ hz d [] DState.init s h).2
  simpa [DState.init, Payload.ofBytes] using this

/-- trailing bytes change nothing: whatever decodes from `p` decodes identically from `p ++ ext` -/
theorem decode_trailing (T : Tables) (p ext : Bytes) (id : Ident) (l : Nat) (d : List Item) (s : DState)
    (h : decItems ⟨T, Payload.ofBytes p, id, l⟩ d [] DState.init = .ok s) :
    decItems ⟨T, Payload.ofBytes (p ++ ext), id, l⟩ d [] DState.init = .ok s :=
  decItems_mono ⟨T, Payload.ofBytes p, id, l⟩ ⟨T, Payload.ofBytes (p ++ ext), id, l⟩
    ⟨rfl, rfl, rfl, ofBytes_prefix p ext⟩ d [] DState.init s h

/-- a payload cut before the end of its last field is not decoded -/
theorem decode_truncated (T : Tables) (hz : LabelsZero T) (p : Bytes) (k : Nat) (id : Ident) (l : Nat)
    (d : List Item) (s : DState) (h : decItems ⟨T, Payload.ofBytes p, id, l⟩ d [] DState.init = .ok s)
    (hk : 8 * k < s.off) :
    ∀ s', decItems ⟨T, Payload.ofBytes (p.take k), id, l⟩ d [] DState.init ≠ .ok s' := by
  intro s' h'
  have hext := decode_trailing T (p.take k) (p.drop k) id l d s' h'
  rw [List.take_append_drop] at hext
  rw [h] at hext
  injection hext with hext
  have hb := decode_within_payload T hz (p.take k) id l d s' h'
  rw [← hext] at hb
  simp only [List.length_take] at hb
  have : min k p.length ≤ k := Nat.min_le_left _ _
  omega

end Rtcm
