import Rtcm.Lemmas.SockFile
/-
  "Exact" connections: a relation `R s rest` between wrapper states and the byte string still to be
  delivered such that `read(n)` returns the next `n` bytes when there are that many and nothing
  otherwise.  Instances: fault-free connections without transfer encoding (`rest = remaining`) and
  fault-free chunked connections carrying a well-formed chunked body (`rest` = buffered bytes
  followed by the decoded bodies of the chunks not yet complete).  For every exact connection:
  `readline`, any sequence of reads, and the reader behave as over a file holding `rest`.
-/
namespace Rtcm

structure Exact (dec : Bytes → Bytes) (R : Sock → Bytes → Prop) : Prop where
  read : ∀ s rest n, R s rest →
    (n ≤ rest.length → (Sock.read dec s n).1 = rest.take n ∧ R (Sock.read dec s n).2 (rest.drop n))
    ∧ (rest.length < n → (Sock.read dec s n).1 = [] ∧ R (Sock.read dec s n).2 rest)

theorem exact_unchunked (dec : Bytes → Bytes) : Exact dec (fun s rest => SockOK s ∧ s.remaining = rest) where
  read := by
    intro s rest n ⟨hok, hrem⟩
    have h := read_faultfree dec s n hok
    subst hrem
    exact ⟨fun hle => ⟨(h.2.1 hle).1, h.1, (h.2.1 hle).2⟩, fun hlt => ⟨(h.2.2 hlt).1, h.1, (h.2.2 hlt).2⟩⟩

variable {dec : Bytes → Bytes} {R : Sock → Bytes → Prop}

theorem readlineAux_exact (E : Exact dec R) (s : Sock) (line rest : Bytes) (h : R s rest) :
    (Sock.readlineAux dec s line).1 = line ++ (splitLine rest).1
    ∧ R (Sock.readlineAux dec s line).2 (splitLine rest).2 := by
  fun_induction Sock.readlineAux dec s line generalizing rest with
  | case1 s line b s' hr hb =>
    have hf := E.read s rest 1 h
    rw [hr] at hf
    by_cases hlen : 1 ≤ rest.length
    · obtain ⟨ht, hd⟩ := hf.1 hlen
      cases rest with
      | nil => simp at hlen
      | cons x r =>
        simp at ht hd
        subst ht
        simp [splitLine, hb, hd]
    · have := (hf.2 (by omega)).1
      simp at this
  | case2 s line b s' hr hb hlt ih =>
    have hf := E.read s rest 1 h
    rw [hr] at hf
    by_cases hlen : 1 ≤ rest.length
    · obtain ⟨ht, hd⟩ := hf.1 hlen
      cases rest with
      | nil => simp at hlen
      | cons x r =>
        simp at ht hd
        subst ht
        obtain ⟨i1, i2⟩ := ih r hd
        simp [splitLine, hb, i1, i2]
    · have := (hf.2 (by omega)).1
      simp at this
  | case3 s line b s' hr hb hnlt =>
    exfalso
    have := sock_read_lt dec s 1 (by rw [hr]; simp)
    rw [hr] at this
    exact hnlt this
  | case4 s line r s' hx hr =>
    have hf := E.read s rest 1 h
    rw [hr] at hf
    by_cases hlen : 1 ≤ rest.length
    · obtain ⟨ht, hd⟩ := hf.1 hlen
      cases rest with
      | nil => simp at hlen
      | cons x r' =>
        simp at ht
        exact absurd ht (hx x)
    · have hnil : rest = [] := List.eq_nil_of_length_eq_zero (by omega)
      have := (hf.2 (by omega)).2
      subst hnil
      simp only at this
      simp [splitLine, this]

theorem readline_exact (E : Exact dec R) (s : Sock) (rest : Bytes) (h : R s rest) :
    (Sock.readline dec s).1 = (splitLine rest).1 ∧ R (Sock.readline dec s).2 (splitLine rest).2 := by
  have := readlineAux_exact E s [] rest h
  simpa [Sock.readline] using this

/-- any sequence of reads on an exact connection gives what the same reads give on the byte string -/
theorem reads_exact (E : Exact dec R) (ns : List Nat) : ∀ (s : Sock) (rest : Bytes), R s rest →
    Sock.reads dec s ns = specReads rest ns := by
  induction ns with
  | nil => intro s rest _; rfl
  | cons n tl ih =>
    intro s rest h
    have hr := E.read s rest n h
    simp only [Sock.reads, specReads]
    by_cases hle : n ≤ rest.length
    · rw [if_pos hle, (hr.1 hle).1, ih _ _ (hr.1 hle).2]
    · rw [if_neg hle, (hr.2 (by omega)).1, ih _ _ (hr.2 (by omega)).2]

/-- the reader over an exact connection versus the reader over a file holding `rest` -/
theorem exact_file_sim (E : Exact dec R) :
    TailSim (sockOps dec) fileOps (fun s f => R s f.data ∧ f.sched = []) FileDead where
  read := by
    intro s f n ⟨hR, hs⟩
    have hr := E.read s f.data n hR
    simp only [sockOps, fileOps, FStream.read, lim_nil f hs]
    by_cases hle : n ≤ f.data.length
    · left
      obtain ⟨h1, h2⟩ := hr.1 hle
      exact ⟨h1, h2, by simp [hs]⟩
    · right
      obtain ⟨h1, _⟩ := hr.2 (by omega)
      refine ⟨h1, by simp [List.length_take]; omega, ?_, by simp [hs]⟩
      simp only
      exact List.drop_eq_nil_of_le (by omega)
  readline := by
    intro s f ⟨hR, hs⟩
    obtain ⟨h1, h2⟩ := readline_exact E s f.data hR
    simp only [sockOps, fileOps, FStream.readline, lim_nil f hs]
    have hc := splitLine_cat f.data
    have ht : f.data.take (splitLine f.data).1.length = (splitLine f.data).1 := by
      have := List.take_left' (l₁ := (splitLine f.data).1) (l₂ := (splitLine f.data).2) rfl
      rwa [hc] at this
    have hd : f.data.drop (splitLine f.data).1.length = (splitLine f.data).2 := by
      have := List.drop_left' (l₁ := (splitLine f.data).1) (l₂ := (splitLine f.data).2) rfl
      rwa [hc] at this
    exact ⟨by rw [h1, ht], by rw [hd]; exact h2, by simp [hs]⟩
  dead_read := by
    intro f n ⟨hd, hs⟩
    simp [fileOps, FStream.read, hd, hs, FileDead]

theorem reader_exact_eq_file (E : Exact dec R) (T : Tables) (o : Opts) (resume : Bool) (s : Sock) (rest : Bytes)
    (h : R s rest) :
    frames (run (sockOps dec) T o resume s) = frames (run fileOps T o resume ⟨rest, []⟩) :=
  run_frames_eq (exact_file_sim E) (sockOps_lawful dec) fileOps_lawful T o resume s ⟨rest, []⟩ ⟨h, rfl⟩

end Rtcm
