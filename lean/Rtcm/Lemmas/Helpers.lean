import Rtcm.Model.Helpers
import Rtcm.Lemmas.Repr
import Rtcm.Lemmas.Bits
import Rtcm.Lemmas.Crc
/-
  Lemmas about the helpers of Model/Helpers.lean.
-/
namespace Rtcm

/-! ### get_bit -/

theorem testBit_mul256_add (x b j : Nat) (hb : b < 256) :
    (x * 256 + b).testBit j = if j < 8 then b.testBit j else x.testBit (j - 8) := by
  have h := mul_two_pow_add_eq_xor x b 8 (by simpa using hb)
  rw [show (2 : Nat) ^ 8 = 256 by decide] at h
  rw [h, Nat.testBit_xor, Nat.testBit_shiftLeft]
  by_cases hj : j < 8
  · have : ¬ (j ≥ 8) := by omega
    simp [hj, this]
  · have h8 : j ≥ 8 := by omega
    have : b.testBit j = false := by
      apply Nat.testBit_lt_two_pow
      exact Nat.lt_of_lt_of_le hb (by
        calc 256 = 2 ^ 8 := by decide
          _ ≤ 2 ^ j := Nat.pow_le_pow_right (by omega) h8)
    simp [hj, h8, this]

theorem testBit_mul_pow_add (x b k j : Nat) (hb : b < 2 ^ k) :
    (x * 2 ^ k + b).testBit j = if j < k then b.testBit j else x.testBit (j - k) := by
  rw [mul_two_pow_add_eq_xor x b k hb, Nat.testBit_xor, Nat.testBit_shiftLeft]
  by_cases hj : j < k
  · have : ¬ (j ≥ k) := by omega
    simp [hj, this]
  · have hk : j ≥ k := by omega
    have : b.testBit j = false := by
      apply Nat.testBit_lt_two_pow
      exact Nat.lt_of_lt_of_le hb (Nat.pow_le_pow_right (by omega) hk)
    simp [hj, hk, this]

/-- bit `j` (from the least significant end) of the payload integer is bit `j % 8` of the byte
    `j / 8` places from the end -/
theorem bytesToNat_testBit (bs : Bytes) (j : Nat) (hj : j < 8 * bs.length) :
    (bytesToNat bs).testBit j =
      (bs[bs.length - 1 - j / 8]?.map fun b => b.toNat.testBit (j % 8)).getD false := by
  induction bs with
  | nil => simp at hj
  | cons c rest ih =>
    have happ := bytesToNat_append [c] rest
    have hc1 : bytesToNat [c] = c.toNat := by simp [bytesToNat]
    rw [hc1] at happ
    rw [show c :: rest = [c] ++ rest from rfl, happ, testBit_mul_pow_add _ _ _ _ (bytesToNat_lt rest)]
    simp only [List.length_cons] at hj
    by_cases hlt : j < 8 * rest.length
    · rw [if_pos hlt, ih hlt]
      have e1 : ([c] ++ rest).length - 1 - j / 8 = (rest.length - 1 - j / 8) + 1 := by
        simp only [List.length_append, List.length_singleton]; omega
      rw [e1]
      simp
    · rw [if_neg hlt]
      have e1 : ([c] ++ rest).length - 1 - j / 8 = 0 := by
        simp only [List.length_append, List.length_singleton]; omega
      have e2 : j - 8 * rest.length = j % 8 := by omega
      rw [e1, e2]
      simp

theorem shiftRight_mod_two (x k : Nat) : (x >>> k) % 2 = if x.testBit k then 1 else 0 := by
  rw [Nat.testBit, Nat.shiftRight_eq_div_pow]
  have : x / 2 ^ k % 2 < 2 := Nat.mod_lt _ (by omega)
  rcases Nat.mod_two_eq_zero_or_one (x / 2 ^ k) with h | h <;> simp [h, Nat.shiftRight_eq_div_pow]

/-- **`get_bit` is the decoder's one-bit extraction**: inside the data both give bit `num` counted
    from the most significant end -/
theorem getBit_eq_extract (bs : Bytes) (num : Nat) (h : num < 8 * bs.length) :
    getBit bs num = extract (Payload.ofBytes bs) num 1 := by
  unfold getBit extract Payload.ofBytes
  simp only
  rw [if_pos (by omega)]
  have hlt : num / 8 < bs.length := by omega
  rw [List.getElem?_eq_getElem hlt]
  simp only [Nat.pow_one]
  rw [shiftRight_mod_two, shiftRight_mod_two, bytesToNat_testBit bs _ (by omega)]
  have e1 : bs.length - 1 - (8 * bs.length - num - 1) / 8 = num / 8 := by omega
  have e2 : (8 * bs.length - num - 1) % 8 = 7 - num % 8 := by omega
  rw [e1, e2, List.getElem?_eq_getElem hlt]
  rfl

/-- outside the data `get_bit` is an IndexError and the decoder's extraction is refused -/
theorem getBit_none (bs : Bytes) (num : Nat) (h : 8 * bs.length ≤ num) :
    getBit bs num = none ∧ extract (Payload.ofBytes bs) num 1 = none := by
  constructor
  · unfold getBit
    have : bs.length ≤ num / 8 := by omega
    rw [List.getElem?_eq_none this]
  · exact extract_none _ _ _ (by simp [Payload.ofBytes]; omega)

theorem getBit_lt_two (bs : Bytes) (num v : Nat) (h : getBit bs num = some v) : v < 2 := by
  unfold getBit at h
  split at h
  · cases h; exact Nat.mod_lt _ (by omega)
  · cases h

/-! ### escapeall -/

theorem parseBody_escBody (bs : Bytes) (tail : List Nat) :
    parseBody 39 (escBody bs ++ 39 :: tail) = some (bs, tail) := by
  induction bs with
  | nil => simp [escBody, parseBody]
  | cons c rest ih =>
    simp only [escBody, escByte, List.cons_append, List.nil_append]
    rw [parseBody_hex, hexVal_hexDigit _ (by have := UInt8.toNat_lt c; omega),
      hexVal_hexDigit _ (Nat.mod_lt _ (by omega)), ih]
    simp only
    have : 16 * (c.toNat / 16) + c.toNat % 16 = c.toNat := by omega
    rw [this, ofNat_toNat]

theorem escBody_length (bs : Bytes) : (escBody bs).length = 4 * bs.length := by
  induction bs with
  | nil => rfl
  | cons c rest ih => simp only [escBody, escByte, List.length_append, List.length_cons, List.length_nil, ih]; omega

/-! ### hextable -/

theorem hextableAux_nil (cols fuel off : Nat) : hextableAux cols fuel off [] = [] := by
  cases fuel <;> simp [hextableAux]

/-- one row: data that fits into a single line of `cols` columns is rendered by exactly one `hexRow` at offset 0 -/
theorem hextable_one_row (bs : Bytes) (cols : Nat) (hne : bs ≠ []) (hfit : bs.length ≤ 2 * cols) :
    hextable bs cols = hexRow cols 0 bs := by
  unfold hextable
  cases hb : bs with
  | nil => exact absurd hb hne
  | cons c rest =>
    have hl : (c :: rest).length ≤ 2 * cols := by rw [← hb]; exact hfit
    simp only [List.length_cons, hextableAux, List.isEmpty_cons, Bool.false_eq_true, if_false]
    rw [List.take_of_length_le hl, List.drop_of_length_le hl, hextableAux_nil, List.append_nil]

/-- two rows: the second row starts at byte offset `2 * cols` -/
theorem hextable_two_rows (a b : Bytes) (cols : Nat) (ha : a.length = 2 * cols) (hc : 0 < cols)
    (hne : b ≠ []) (hfit : b.length ≤ 2 * cols) :
    hextable (a ++ b) cols = hexRow cols 0 a ++ hexRow cols (2 * cols) b := by
  unfold hextable
  have hlen : (a ++ b).length = (a.length + b.length - 1) + 1 := by
    have : 0 < b.length := List.length_pos_iff.mpr hne
    simp only [List.length_append]; omega
  rw [hlen, hextableAux]
  have hnotempty : (a ++ b).isEmpty = false := by
    cases a with
    | nil => simp at ha; omega
    | cons x xs => rfl
  rw [hnotempty]
  simp only [Bool.false_eq_true, if_false, Nat.zero_add]
  rw [← ha, List.take_left, List.drop_left]
  have hb1 : a.length + b.length - 1 = (a.length + b.length - 2) + 1 := by
    have : 0 < b.length := List.length_pos_iff.mpr hne
    omega
  rw [hb1, hextableAux]
  cases hb : b with
  | nil => exact absurd hb hne
  | cons c rest =>
    have hl : (c :: rest).length ≤ 2 * cols := by rw [← hb]; exact hfit
    simp only [List.isEmpty_cons, Bool.false_eq_true, if_false]
    rw [List.take_of_length_le hl, List.drop_of_length_le hl, hextableAux_nil, List.append_nil]

/-! ### tow2utc -/

theorem tow2utc_range (tow : Int) :
    (tow2utc tow).h < 24 ∧ (tow2utc tow).m < 60 ∧ (tow2utc tow).s < 60 ∧ (tow2utc tow).us < 1000000 ∧
      (tow2utc tow).us % 1000 = 0 := by
  unfold tow2utc
  simp only
  have h1 : 0 ≤ (tow - 18000) % 86400000 := Int.emod_nonneg _ (by omega)
  have h2 : (tow - 18000) % 86400000 < 86400000 := Int.emod_lt_of_pos _ (by omega)
  generalize ((tow - 18000) % 86400000) = t at h1 h2
  have h3 : t.toNat < 86400000 := by omega
  generalize t.toNat = n at h3
  refine ⟨by omega, by omega, by omega, by omega, by omega⟩

theorem tow2utc_periodic (tow k : Int) : tow2utc (tow + 86400000 * k) = tow2utc tow := by
  unfold tow2utc
  have : (tow + 86400000 * k - 18000) % 86400000 = (tow - 18000) % 86400000 := by omega
  simp only [this]

end Rtcm
