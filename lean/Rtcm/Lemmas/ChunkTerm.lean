import Rtcm.Lemmas.Chunk
/-
  The terminating zero chunk `0 CRLF CRLF` after a chunked body, under arbitrary segmentation.
-/
namespace Rtcm

/-- the last-chunk marker with an empty trailer section: a size line reading 0, CRLF, CRLF -/
def termBytes (z : Bytes) : Bytes := z ++ CRLF ++ CRLF

theorem dechunkLoop_body (dec : Bytes → Bytes) (cs : List (Bytes × Bytes)) (hok : ∀ hc ∈ cs, ChunkOK hc)
    (rest out : Bytes) : dechunkLoop dec (body cs ++ rest) out = dechunkLoop dec rest (out ++ decAll dec cs) := by
  induction cs generalizing out with
  | nil => simp [body, decAll]
  | cons hc t ih =>
    rw [body_cons, List.append_assoc, dechunkLoop_chunk dec hc (hok hc (by simp)),
      ih (fun x hx => hok x (by simp [hx]))]
    simp [decAll, List.append_assoc]

theorem noLF_zero_cr (z : Bytes) (hz : SizeLine z 0) (Y : Bytes) (hY : Y <+: z ++ [13]) :
    ∀ b ∈ Y, b.toNat ≠ 10 := by
  intro b hb
  have hb' : b ∈ z ++ [13] := hY.subset hb
  simp at hb'
  rcases hb' with h | h
  · exact hz.noLF b h
  · subst h; decide

/-- an incomplete zero-size line is handed back untouched -/
theorem dechunk_zero_partial (dec : Bytes → Bytes) (z : Bytes) (hz : SizeLine z 0) (Y : Bytes)
    (hY : Y <+: z ++ [13]) (out : Bytes) : dechunkLoop dec Y out = (out, Y) := by
  have h := noLF_zero_cr z hz Y hY
  rw [dechunkLoop]
  simp [splitLine_noLF Y h, endsCRLF_noLF Y h]

/-- a complete zero-size line ends decoding; whatever follows in this segment is dropped -/
theorem dechunk_zero_done (dec : Bytes → Bytes) (z : Bytes) (hz : SizeLine z 0) (Y' out : Bytes) :
    dechunkLoop dec (z ++ CRLF ++ Y') out = (out, []) := by
  have hsplit : splitLine (z ++ CRLF ++ Y') = (z ++ CRLF, Y') := by
    have : z ++ CRLF ++ Y' = (z ++ [13]) ++ (10 : UInt8) :: Y' := by simp [CRLF]
    rw [this, splitLine_append_LF]
    · simp [CRLF]
    · exact noLF_zero_cr z hz _ (List.prefix_refl _)
  have hv := hz.value
  rw [dechunkLoop]
  simp only [hsplit, endsCRLF_append, Bool.not_true, Bool.false_eq_true, dite_false, hv]
  simp

theorem dechunk_tail_nil (dec : Bytes → Bytes) (out : Bytes) : dechunkLoop dec [] out = (out, []) :=
  dechunkLoop_nil dec out

theorem dechunk_tail_cr (dec : Bytes → Bytes) (out : Bytes) : dechunkLoop dec [13] out = (out, [13]) := by
  rw [dechunkLoop]; simp [splitLine, endsCRLF]

theorem dechunk_tail_lf (dec : Bytes → Bytes) (out : Bytes) : dechunkLoop dec [10] out = (out, [10]) := by
  rw [dechunkLoop]; simp [splitLine, endsCRLF]

theorem dechunk_tail_crlf (dec : Bytes → Bytes) (out : Bytes) : dechunkLoop dec [13, 10] out = (out, []) := by
  have hp : parseHex (strip [13, 10]) = none := by decide
  rw [dechunkLoop]
  simp [splitLine, endsCRLF, hp]

def TailSet (U : Bytes) : Prop := U = [] ∨ U = [10] ∨ U = CRLF

theorem suffix_crlf (a b : Bytes) (h : a ++ b = CRLF) : TailSet b := by
  match a, h with
  | [], h => exact Or.inr (Or.inr (by simpa using h))
  | [x], h => simp [CRLF] at h; exact Or.inr (Or.inl h.2)
  | [x, y], h => simp [CRLF] at h; exact Or.inl h.2.2
  | x :: y :: w :: t, h => simp [CRLF] at h

/-- after the zero chunk: the left-over CR / LF bytes never produce output, and what is kept as
    `partial` together with the rest of the stream stays within `{"", "\n", "\r\n"}` -/
theorem tail_step (dec : Bytes → Bytes) (X R : Bytes) (h : TailSet (X ++ R)) :
    (dechunk dec X).1 = [] ∧ TailSet ((dechunk dec X).2 ++ R) := by
  unfold dechunk
  match X, h with
  | [], h => rw [dechunk_tail_nil]; exact ⟨rfl, h⟩
  | [x], h =>
    rcases h with h | h | h
    · simp at h
    · simp at h; obtain ⟨rfl, rfl⟩ := h
      rw [dechunk_tail_lf]; exact ⟨rfl, Or.inr (Or.inl rfl)⟩
    · simp [CRLF] at h; obtain ⟨rfl, rfl⟩ := h
      rw [dechunk_tail_cr]; exact ⟨rfl, Or.inr (Or.inr rfl)⟩
  | [x, y], h =>
    rcases h with h | h | h
    · simp at h
    · simp at h
    · simp [CRLF] at h; obtain ⟨rfl, rfl, rfl⟩ := h
      rw [dechunk_tail_crlf]; exact ⟨rfl, Or.inl rfl⟩
  | x :: y :: w :: t, h =>
    rcases h with h | h | h <;> simp [CRLF] at h

/-- the three phases of decoding `body cs ++ termBytes z`; `R` is the part of the stream not yet received -/
def Phase (dec : Bytes → Bytes) (cs : List (Bytes × Bytes)) (z : Bytes) (st : Bytes × Bytes) (R : Bytes) : Prop :=
  (∃ done todo, cs = done ++ todo ∧ st.2 = decAll dec done ∧ st.1 ++ R = body todo ++ termBytes z ∧ TailOK st.1 todo)
  ∨ (st.2 = decAll dec cs ∧ st.1 ++ R = termBytes z ∧ st.1 <+: z ++ [13])
  ∨ (st.2 = decAll dec cs ∧ TailSet (st.1 ++ R))

/-- what `dechunk` does to a prefix `Y` of the terminator, with `out` already decoded -/
theorem term_step (dec : Bytes → Bytes) (z : Bytes) (hz : SizeLine z 0) (Y R out : Bytes)
    (h : Y ++ R = termBytes z) :
    (dechunkLoop dec Y out).1 = out ∧
    (((dechunkLoop dec Y out).2 ++ R = termBytes z ∧ (dechunkLoop dec Y out).2 <+: z ++ [13])
      ∨ TailSet ((dechunkLoop dec Y out).2 ++ R)) := by
  have hYp : Y <+: termBytes z := ⟨R, h⟩
  have hZp : z ++ CRLF <+: termBytes z := ⟨CRLF, rfl⟩
  have hcases : Y <+: z ++ [13] ∨ z ++ CRLF <+: Y := by
    rcases List.prefix_or_prefix_of_prefix hYp hZp with h1 | h1
    · have e : z ++ CRLF = (z ++ [13]) ++ [10] := by simp [CRLF]
      rw [e, List.prefix_concat_iff] at h1
      rcases h1 with h1 | h1
      · right; rw [h1, e]; exact List.prefix_refl _
      · left; exact h1
    · right; exact h1
  rcases hcases with h1 | ⟨Y', hY'⟩
  · rw [dechunk_zero_partial dec z hz Y h1]
    exact ⟨rfl, Or.inl ⟨h, h1⟩⟩
  · subst hY'
    rw [dechunk_zero_done dec z hz]
    refine ⟨rfl, Or.inr ?_⟩
    have : Y' ++ R = CRLF := by
      have : (z ++ CRLF) ++ (Y' ++ R) = (z ++ CRLF) ++ CRLF := by
        rw [← List.append_assoc]; exact h
      exact List.append_cancel_left this
    simpa using suffix_crlf Y' R this

theorem phase_step (dec : Bytes → Bytes) (cs : List (Bytes × Bytes)) (hok : ∀ hc ∈ cs, ChunkOK hc)
    (z : Bytes) (hz : SizeLine z 0) (st : Bytes × Bytes) (seg R : Bytes)
    (h : Phase dec cs z st (seg ++ R)) : Phase dec cs z (feedSeg dec st seg) R := by
  obtain ⟨part, buf⟩ := st
  rcases h with ⟨done, todo, hcs, hbuf, hstream, htail⟩ | ⟨hbuf, hstream, hpre⟩ | ⟨hbuf, htl⟩
  · simp only at hbuf hstream htail
    have hoktodo : ∀ hc ∈ todo, ChunkOK hc := fun x hx => hok x (by rw [hcs]; simp [hx])
    have hX : part ++ seg <+: body todo ++ termBytes z := ⟨R, by rw [← hstream]; simp⟩
    have hB : body todo <+: body todo ++ termBytes z := List.prefix_append _ _
    by_cases hin : part ++ seg <+: body todo
    · obtain ⟨d, t, X', h1, h2, h3, h4⟩ := dechunk_prefix dec todo hoktodo (part ++ seg) hin []
      have hfeed : feedSeg dec (part, buf) seg = (X', buf ++ decAll dec d) := by
        simp [feedSeg, dechunk, h3]
      rw [hfeed]
      left
      refine ⟨done ++ d, t, by rw [hcs, h1, List.append_assoc], by simp [hbuf, decAll_append], ?_, h4⟩
      simp only
      have : body d ++ (X' ++ R) = body d ++ (body t ++ termBytes z) := by
        rw [← List.append_assoc, ← h2, ← List.append_assoc, ← body_append, ← h1, ← hstream]
        simp
      exact List.append_cancel_left this
    · rcases List.prefix_or_prefix_of_prefix hX hB with h1 | ⟨Y, hY⟩
      · exact absurd h1 hin
      · have hYR : Y ++ R = termBytes z := by
          have : body todo ++ (Y ++ R) = body todo ++ termBytes z := by
            rw [← List.append_assoc, hY, ← hstream]; simp
          exact List.append_cancel_left this
        have hd : dechunk dec (part ++ seg) = dechunkLoop dec Y (decAll dec todo) := by
          unfold dechunk
          rw [← hY, dechunkLoop_body dec todo hoktodo]
          simp
        obtain ⟨ho, hp⟩ := term_step dec z hz Y R (decAll dec todo) hYR
        have hb2 : buf ++ (dechunk dec (part ++ seg)).1 = decAll dec cs := by
          rw [hd, ho, hbuf, hcs, decAll_append]
        rcases hp with ⟨hp1, hp2⟩ | hp
        · right; left
          exact ⟨by simpa [feedSeg] using hb2, by simpa [feedSeg, hd] using hp1, by simpa [feedSeg, hd] using hp2⟩
        · right; right
          exact ⟨by simpa [feedSeg] using hb2, by simpa [feedSeg, hd] using hp⟩
  · simp only at hbuf hstream hpre
    have hYR : (part ++ seg) ++ R = termBytes z := by rw [← hstream]; simp
    obtain ⟨ho, hp⟩ := term_step dec z hz (part ++ seg) R [] hYR
    have hb2 : buf ++ (dechunk dec (part ++ seg)).1 = decAll dec cs := by
      unfold dechunk; rw [ho, hbuf]; simp
    rcases hp with ⟨hp1, hp2⟩ | hp
    · right; left
      exact ⟨by simpa [feedSeg] using hb2, by simpa [feedSeg, dechunk] using hp1, by simpa [feedSeg, dechunk] using hp2⟩
    · right; right
      exact ⟨by simpa [feedSeg] using hb2, by simpa [feedSeg, dechunk] using hp⟩
  · simp only at hbuf htl
    have hT : TailSet ((part ++ seg) ++ R) := by simpa using htl
    obtain ⟨ho, hp⟩ := tail_step dec (part ++ seg) R hT
    right; right
    exact ⟨by simp [feedSeg, ho, hbuf], by simpa [feedSeg] using hp⟩

theorem termBytes_ne_nil (z : Bytes) : termBytes z ≠ [] := by simp [termBytes, CRLF]

theorem phase_final (dec : Bytes → Bytes) (cs : List (Bytes × Bytes)) (z : Bytes) (st : Bytes × Bytes)
    (h : Phase dec cs z st []) : st.2 = decAll dec cs := by
  rcases h with ⟨done, todo, hcs, hbuf, hstream, htail⟩ | ⟨hbuf, _, _⟩ | ⟨hbuf, _⟩
  · exfalso
    simp only [List.append_nil] at hstream
    rcases htail with h | ⟨hc, rest, sfx, h1, h2, h3⟩
    · rw [h] at hstream
      have := (List.append_eq_nil_iff.mp hstream.symm).2
      exact termBytes_ne_nil z this
    · subst h1
      rw [body_cons] at hstream
      have hl := congrArg List.length hstream
      have hl2 := congrArg List.length h2
      simp only [List.length_append] at hl hl2
      have h4 := List.length_pos_iff.mpr h3
      have h5 := List.length_pos_iff.mpr (termBytes_ne_nil z)
      omega
  · exact hbuf
  · exact hbuf

theorem phase_fold (dec : Bytes → Bytes) (cs : List (Bytes × Bytes)) (hok : ∀ hc ∈ cs, ChunkOK hc)
    (z : Bytes) (hz : SizeLine z 0) (segs : List Bytes) (st : Bytes × Bytes)
    (h : Phase dec cs z st segs.flatten) : (segs.foldl (feedSeg dec) st).2 = decAll dec cs := by
  induction segs generalizing st with
  | nil => exact phase_final dec cs z st (by simpa using h)
  | cons seg rest ih =>
    simp only [List.foldl_cons]
    apply ih
    apply phase_step dec cs hok z hz st seg
    simpa using h

/-- **with the terminating zero chunk**: however `body cs ++ z CRLF CRLF` is cut into receives, the
    buffer ends up holding exactly the decoded chunk bodies -/
theorem feed_with_terminator (dec : Bytes → Bytes) (cs : List (Bytes × Bytes)) (hok : ∀ hc ∈ cs, ChunkOK hc)
    (z : Bytes) (hz : SizeLine z 0) (segs : List Bytes) (hcat : segs.flatten = body cs ++ termBytes z) :
    (segs.foldl (feedSeg dec) ([], [])).2 = decAll dec cs := by
  apply phase_fold dec cs hok z hz segs
  left
  exact ⟨[], cs, rfl, by simp [decAll], by simpa using hcat, Or.inl rfl⟩

end Rtcm
