import Rtcm.Model.Machine
/-
  (1) The small-step decoder run to completion is `decItems` (`machine_decItems`, `machine_total`).
  (2) In a pool of threads whose steps touch only their own state, what a thread has computed after
      any schedule depends only on how many turns it was given (`pool_get`), so once it has
      finished its result is the sequential one (`pool_result`).
-/
namespace Rtcm

/-! ### running the machine -/

theorem MStatus.steps_add (c : Ctx) (a b : Nat) (s : MStatus) :
    MStatus.steps c (a + b) s = MStatus.steps c b (MStatus.steps c a s) := by
  induction a generalizing s with
  | zero => simp [MStatus.steps]
  | succ a ih =>
    have : a + 1 + b = (a + b) + 1 := by omega
    rw [this]
    simp only [MStatus.steps]
    exact ih _

theorem MStatus.steps_halted (c : Ctx) (n : Nat) (s : MStatus) (h : s.halted = true) :
    MStatus.steps c n s = s := by
  induction n with
  | zero => rfl
  | succ n ih =>
    simp only [MStatus.steps]
    cases s with
    | running m => simp [MStatus.halted] at h
    | done s => exact ih
    | failed e => exact ih

/-- what the machine should reach after finishing a piece of work that the big-step decoder
    evaluates to `r`, with `w` still pending -/
def after (r : Except DecErr DState) (w : List Work) : MStatus :=
  match r with
  | .ok s' => .running ⟨s', w⟩
  | .error e => .failed e

theorem after_halted_of_error (e : DecErr) (w : List Work) : (after (.error e) w).halted = true := rfl

def bindE (r : Except DecErr DState) (k : DState → Except DecErr DState) : Except DecErr DState :=
  match r with
  | .error e => .error e
  | .ok s' => k s'

/-- chaining: if a first piece of work reaches `after r₁ w'` and, when `r₁` is a state, the rest
    reaches `after (k s') w`, then the whole reaches `after (r₁ >>= k) w` -/
theorem chain (c : Ctx) (start : MStatus) (r₁ : Except DecErr DState) (w' w : List Work)
    (k : DState → Except DecErr DState)
    (h₁ : ∃ n, MStatus.steps c n start = after r₁ w')
    (h₂ : ∀ s', r₁ = .ok s' → ∃ n, MStatus.steps c n (.running ⟨s', w'⟩) = after (k s') w) :
    ∃ n, MStatus.steps c n start = after (bindE r₁ k) w := by
  obtain ⟨n₁, e₁⟩ := h₁
  cases r₁ with
  | error e => exact ⟨n₁, e₁⟩
  | ok s' =>
    obtain ⟨n₂, e₂⟩ := h₂ s' rfl
    exact ⟨n₁ + n₂, by rw [MStatus.steps_add, e₁]; exact e₂⟩

theorem ofItems_cons (it : Item) (rest : List Item) (idx : List Nat) :
    Work.ofItems (it :: rest) idx = .item it idx :: Work.ofItems rest idx := rfl

/-- the `for` loop of a group, given that its body is simulated -/
theorem machine_loop (c : Ctx) (body : List Item) (idx : List Nat)
    (hbody : ∀ (i : Nat) (s : DState) (w : List Work),
      ∃ n, MStatus.steps c n (.running ⟨s, Work.ofItems body (idx ++ [i]) ++ w⟩)
        = after (decItems c body (idx ++ [i]) s) w) :
    ∀ (k i : Nat) (s : DState) (w : List Work),
      ∃ n, MStatus.steps c n (.running ⟨s, .loop body idx k i :: w⟩)
        = after (repLoop (fun i s => decItems c body (idx ++ [i]) s) k i s) w
  | 0, i, s, w => ⟨1, by simp [MStatus.steps, MStatus.step, mstep, repLoop, after]⟩
  | k + 1, i, s, w => by
    have h := chain c (.running ⟨s, Work.ofItems body (idx ++ [i]) ++ .loop body idx k (i + 1) :: w⟩)
      (decItems c body (idx ++ [i]) s) (.loop body idx k (i + 1) :: w) w
      (fun s' => repLoop (fun i s => decItems c body (idx ++ [i]) s) k (i + 1) s')
      (hbody i s _) (fun s' _ => machine_loop c body idx hbody k (i + 1) s' w)
    obtain ⟨n, e⟩ := h
    refine ⟨n + 1, ?_⟩
    simp only [MStatus.steps, MStatus.step, mstep]
    rw [e]
    simp only [repLoop, bindE]
    cases decItems c body (idx ++ [i]) s <;> rfl

mutual
theorem machine_decItem (c : Ctx) :
    ∀ (it : Item) (idx : List Nat) (s : DState) (w : List Work),
      ∃ n, MStatus.steps c n (.running ⟨s, .item it idx :: w⟩) = after (decItem c it idx s) w
  | .field fid, idx, s, w => by
    refine ⟨1, ?_⟩
    simp only [MStatus.steps, MStatus.step, mstep, decItem]
    cases decField c fid idx s <;> rfl
  | .group cnt body, idx, s, w => by
    cases hc : countOf c cnt idx s with
    | error e =>
      refine ⟨1, ?_⟩
      simp [MStatus.steps, MStatus.step, mstep, decItem, hc, after]
    | ok n =>
      obtain ⟨m, e⟩ := machine_loop c body idx
        (fun i s w => machine_decItems c body (idx ++ [i]) s w) n 1 s w
      refine ⟨m + 1, ?_⟩
      simp only [MStatus.steps, MStatus.step, mstep, decItem, hc]
      exact e
  | .opt fid v body, idx, s, w => by
    cases hg : s.attrs.get? (fid, []) with
    | none =>
      refine ⟨1, ?_⟩
      simp [MStatus.steps, MStatus.step, mstep, decItem, hg, after]
    | some a =>
      by_cases he : optMatches a v = true
      · obtain ⟨m, e⟩ := machine_decItems c body idx s w
        refine ⟨m + 1, ?_⟩
        simp only [MStatus.steps, MStatus.step, mstep, decItem, hg, if_pos he]
        exact e
      · refine ⟨1, ?_⟩
        simp [MStatus.steps, MStatus.step, mstep, decItem, hg, he, after]
  | .malformed _, idx, s, w => ⟨1, by simp [MStatus.steps, MStatus.step, mstep, decItem, after]⟩
theorem machine_decItems (c : Ctx) :
    ∀ (items : List Item) (idx : List Nat) (s : DState) (w : List Work),
      ∃ n, MStatus.steps c n (.running ⟨s, Work.ofItems items idx ++ w⟩) = after (decItems c items idx s) w
  | [], idx, s, w => ⟨0, by simp [MStatus.steps, Work.ofItems, decItems, after]⟩
  | it :: rest, idx, s, w => by
    have h := chain c (.running ⟨s, .item it idx :: (Work.ofItems rest idx ++ w)⟩)
      (decItem c it idx s) (Work.ofItems rest idx ++ w) w (fun s' => decItems c rest idx s')
      (machine_decItem c it idx s _) (fun s' _ => machine_decItems c rest idx s' w)
    obtain ⟨n, e⟩ := h
    refine ⟨n, ?_⟩
    rw [ofItems_cons, List.cons_append, e]
    simp only [decItems, bindE]
    cases decItem c it idx s <;> rfl
end

/-- the machine started on a whole definition halts with exactly the big-step result -/
theorem machine_total (c : Ctx) (items : List Item) (s : DState) :
    ∃ n, (MStatus.steps c n (.running ⟨s, Work.ofItems items []⟩)).result = some (decItems c items [] s) := by
  obtain ⟨n, e⟩ := machine_decItems c items [] s []
  rw [List.append_nil] at e
  cases hr : decItems c items [] s with
  | error err =>
    refine ⟨n, ?_⟩
    rw [e, hr]; rfl
  | ok s' =>
    refine ⟨n + 1, ?_⟩
    rw [MStatus.steps_add, e, hr]
    simp [after, MStatus.steps, MStatus.step, mstep, MStatus.result]

/-- results are stable: once the machine has a result, more steps do not change it -/
theorem MStatus.result_stable (c : Ctx) (s : MStatus) (n : Nat) (r : Except DecErr DState)
    (h : s.result = some r) : (MStatus.steps c n s).result = some r := by
  have hh : s.halted = true := by
    cases s with
    | running m => simp [MStatus.result] at h
    | done _ => rfl
    | failed _ => rfl
  rw [MStatus.steps_halted c n s hh]; exact h

/-- determinism: whatever number of steps it took, a result is the big-step result -/
theorem machine_result_unique (c : Ctx) (items : List Item) (s : DState) (n : Nat)
    (r : Except DecErr DState)
    (h : (MStatus.steps c n (.running ⟨s, Work.ofItems items []⟩)).result = some r) :
    r = decItems c items [] s := by
  obtain ⟨m, hm⟩ := machine_total c items s
  have a := MStatus.result_stable c _ m r h
  have b := MStatus.result_stable c _ n _ hm
  rw [← MStatus.steps_add] at a b
  rw [Nat.add_comm] at b
  rw [a] at b
  exact Option.some.inj b

/-! ### one thread -/

theorem TState.steps_add (T : Tables) (a b : Nat) (s : TState) :
    TState.steps T (a + b) s = TState.steps T b (TState.steps T a s) := by
  induction a generalizing s with
  | zero => simp [TState.steps]
  | succ a ih =>
    have : a + 1 + b = (a + b) + 1 := by omega
    rw [this]
    simp only [TState.steps]
    exact ih _

theorem TState.steps_finished (T : Tables) (n : Nat) (r : Outcome Msg) :
    TState.steps T n (.finished r) = .finished r := by
  induction n with
  | zero => rfl
  | succ n ih => simp only [TState.steps, tstep]; exact ih

/-- while decoding, `n` thread steps are `n` machine steps unless the machine has halted on the way -/
theorem TState.steps_decoding (T : Tables) (p : Bytes) (label : Nat) (id : Ident) :
    ∀ (n : Nat) (m : MStatus),
      TState.steps T n (.decoding p label id m)
        = .decoding p label id (MStatus.steps ⟨T, Payload.ofBytes p, id, label⟩ n m)
      ∨ ∃ k r, k ≤ n ∧ (MStatus.steps ⟨T, Payload.ofBytes p, id, label⟩ k m).result = some r
          ∧ TState.steps T n (.decoding p label id m) = .finished (tEpilogue p label id r)
  | 0, m => Or.inl rfl
  | n + 1, m => by
    cases hr : m.result with
    | some r =>
      right
      refine ⟨0, r, Nat.zero_le _, hr, ?_⟩
      simp only [TState.steps, tstep, hr]
      exact TState.steps_finished T n _
    | none =>
      simp only [TState.steps, tstep, hr]
      rcases TState.steps_decoding T p label id n (m.step ⟨T, Payload.ofBytes p, id, label⟩) with h | ⟨k, r, hk, hres, hfin⟩
      · exact Or.inl h
      · exact Or.inr ⟨k + 1, r, by omega, hres, hfin⟩

/-- a thread that has finished has the result of the sequential constructor -/
theorem thread_result (T : Tables) (payload : Option Bytes) (label : Nat) (n : Nat) (r : Outcome Msg)
    (h : (TState.steps T n (.start payload label)).result = some r) : r = construct T payload label := by
  cases n with
  | zero => simp [TState.steps, TState.result] at h
  | succ n =>
    simp only [TState.steps, tstep] at h
    unfold tPrologue at h
    unfold construct
    cases payload with
    | none =>
      simp only [TState.steps_finished, TState.result] at h
      exact (Option.some.inj h).symm
    | some p =>
      simp only at h ⊢
      cases hid : identity p with
      | foreign e =>
        simp only [hid, TState.steps_finished, TState.result] at h
        exact (Option.some.inj h).symm
      | lib e =>
        simp only [hid, TState.steps_finished, TState.result] at h
        exact (Option.some.inj h).symm
      | ok id =>
        simp only [hid] at h ⊢
        cases hd : getDict T id with
        | none =>
          simp only [hd, TState.steps_finished, TState.result] at h
          exact (Option.some.inj h).symm
        | some d =>
          simp only [hd] at h ⊢
          rcases TState.steps_decoding T p label id n (.running ⟨DState.init, Work.ofItems d []⟩) with hdec | ⟨k, res, _, hres, hfin⟩
          · rw [hdec] at h; simp [TState.result] at h
          · rw [hfin] at h
            simp only [TState.result] at h
            have := machine_result_unique _ d DState.init k res hres
            rw [← this]
            rw [← Option.some.inj h]
            cases res <;> rfl

/-- and every thread does finish: the constructor terminates in the small-step model too -/
theorem thread_finishes (T : Tables) (payload : Option Bytes) (label : Nat) :
    ∃ n, (TState.steps T n (.start payload label)).result = some (construct T payload label) := by
  suffices h : ∃ n r, (TState.steps T n (.start payload label)).result = some r by
    obtain ⟨n, r, hr⟩ := h
    exact ⟨n, by rw [hr, thread_result T payload label n r hr]⟩
  cases payload with
  | none => exact ⟨1, .lib .message, by simp [TState.steps, tstep, tPrologue, TState.result]⟩
  | some p =>
    cases hid : identity p with
    | foreign e => exact ⟨1, .lib .message, by simp [TState.steps, tstep, tPrologue, hid, TState.result]⟩
    | lib e => exact ⟨1, .lib e, by simp [TState.steps, tstep, tPrologue, hid, TState.result]⟩
    | ok id =>
      cases hd : getDict T id with
      | none => exact ⟨1, .ok ⟨p, label, id, true, [(((T.special.df002).getD 0, []), .text id.str)], true⟩,
          by simp [TState.steps, tstep, tPrologue, hid, hd, TState.result]⟩
      | some d =>
        obtain ⟨m, hm⟩ := machine_total ⟨T, Payload.ofBytes p, id, label⟩ d DState.init
        rcases TState.steps_decoding T p label id (m + 1) (.running ⟨DState.init, Work.ofItems d []⟩) with hdec | ⟨k, res, _, _, hfin⟩
        · -- m + 1 thread steps are m + 1 machine steps; the machine had its result after m
          have hst := MStatus.result_stable ⟨T, Payload.ofBytes p, id, label⟩ _ 1 _ hm
          rw [← MStatus.steps_add] at hst
          refine ⟨1 + (m + 1) + 1, tEpilogue p label id (decItems ⟨T, Payload.ofBytes p, id, label⟩ d [] DState.init), ?_⟩
          rw [TState.steps_add, TState.steps_add]
          have h1 : TState.steps T 1 (.start (some p) label)
              = .decoding p label id (.running ⟨DState.init, Work.ofItems d []⟩) := by
            simp [TState.steps, tstep, tPrologue, hid, hd]
          rw [h1, hdec]
          simp only [TState.steps, tstep, hst, TState.result]
        · refine ⟨1 + (m + 1), tEpilogue p label id res, ?_⟩
          rw [TState.steps_add]
          have h1 : TState.steps T 1 (.start (some p) label)
              = .decoding p label id (.running ⟨DState.init, Work.ofItems d []⟩) := by
            simp [TState.steps, tstep, tPrologue, hid, hd]
          rw [h1, hfin]
          simp only [TState.result]

/-! ### the pool: non-interference -/

theorem poolStep_length (T : Tables) (pool : List TState) (tid : Nat) :
    (poolStep T pool tid).length = pool.length := by
  simp [poolStep]

theorem poolStep_get (T : Tables) (pool : List TState) (tid t : Nat) :
    (poolStep T pool tid)[t]? = if tid = t then pool[t]?.map (tstep T) else pool[t]? := by
  simp only [poolStep, List.getElem?_modify]
  by_cases h : tid = t
  · simp [h]
  · simp [h]

/-- after any schedule, thread `t` is where `count t` of its own steps take it: the other threads'
    turns, and their order, are invisible to it -/
theorem pool_get (T : Tables) (sched : List Nat) (pool : List TState) (t : Nat) :
    (poolRun T pool sched)[t]? = pool[t]?.map (TState.steps T (sched.count t)) := by
  induction sched generalizing pool with
  | nil => simp [poolRun, TState.steps]
  | cons tid rest ih =>
    have : poolRun T pool (tid :: rest) = poolRun T (poolStep T pool tid) rest := rfl
    rw [this, ih, poolStep_get]
    by_cases h : tid = t
    · subst h
      simp only [if_true, List.count_cons_self, Option.map_map]
      congr 1
    · have hne : (tid == t) = false := by simp [h]
      simp only [if_neg h, List.count_cons, hne]
      simp

/-! ### the same for any granularity: threads whose steps are functions of (shared, own state) -/

def iterN {α : Type} (f : α → α) : Nat → α → α
  | 0, a => a
  | n + 1, a => iterN f n (f a)

def gpoolRun {α : Type} (f : α → α) (pool : List α) (sched : List Nat) : List α :=
  sched.foldl (fun p tid => p.modify tid f) pool

theorem gpool_get {α : Type} (f : α → α) (sched : List Nat) (pool : List α) (t : Nat) :
    (gpoolRun f pool sched)[t]? = pool[t]?.map (iterN f (sched.count t)) := by
  induction sched generalizing pool with
  | nil => simp [gpoolRun, iterN]
  | cons tid rest ih =>
    have : gpoolRun f pool (tid :: rest) = gpoolRun f (pool.modify tid f) rest := rfl
    rw [this, ih, List.getElem?_modify]
    by_cases h : tid = t
    · subst h
      simp only [if_true, List.count_cons_self]
      cases pool[tid]? <;> simp [iterN]
    · have hne : (tid == t) = false := by simp [h]
      simp only [if_neg h, List.count_cons, hne]
      simp

theorem pool_length (T : Tables) (sched : List Nat) (pool : List TState) :
    (poolRun T pool sched).length = pool.length := by
  induction sched generalizing pool with
  | nil => rfl
  | cons tid rest ih =>
    have : poolRun T pool (tid :: rest) = poolRun T (poolStep T pool tid) rest := rfl
    rw [this, ih, poolStep_length]

end Rtcm
