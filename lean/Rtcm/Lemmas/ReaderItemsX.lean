import Rtcm.Lemmas.ReaderItems
import Rtcm.Lemmas.SockExact
/-
  `run_items` for every *exact* stream (Lemmas/ReaderItems.lean proves it for fault-free files):
  a stream related by `R` to the byte string it will still deliver, whose `read(n)` returns the next
  `n` bytes when there are that many and nothing otherwise, and whose `readline()` returns the next
  line.  Instances: fault-free files, fault-free socket connections, fault-free chunked connections.
-/
namespace Rtcm

structure XStream {σ : Type} (ops : StreamOps σ) (R : σ → Bytes → Prop) : Prop where
  read : ∀ s rest n, R s rest →
    (n ≤ rest.length → (ops.read s n).1 = rest.take n ∧ R (ops.read s n).2 (rest.drop n))
    ∧ (rest.length < n → (ops.read s n).1 = [] ∧ R (ops.read s n).2 rest)
  readline : ∀ s rest, R s rest → (ops.readline s).1 = (splitLine rest).1 ∧ R (ops.readline s).2 (splitLine rest).2
  lawful : Lawful ops

variable {σ : Type} {ops : StreamOps σ} {R : σ → Bytes → Prop}

theorem xread_exact (X : XStream ops R) (s : σ) (a b : Bytes) (h : R s (a ++ b)) :
    ∃ s', readBytes ops s a.length = .ok a s' ∧ R s' b := by
  obtain ⟨h1, h2⟩ := (X.read s (a ++ b) a.length h).1 (by simp)
  simp only [List.take_left', List.drop_left'] at h1 h2
  refine ⟨(ops.read s a.length).2, ?_, h2⟩
  unfold readBytes
  simp only [h1]
  by_cases h0 : a.length = 0
  · simp [h0]
  · simp [h0]

theorem xread_one (X : XStream ops R) (s : σ) (x : UInt8) (b : Bytes) (h : R s (x :: b)) :
    ∃ s', readBytes ops s 1 = .ok [x] s' ∧ R s' b :=
  xread_exact X s [x] b h

theorem xread_eof (X : XStream ops R) (s : σ) (h : R s []) :
    ∃ s', readBytes ops s 1 = .eof s' ∧ R s' [] := by
  obtain ⟨h1, h2⟩ := (X.read s [] 1 h).2 (by simp)
  refine ⟨(ops.read s 1).2, ?_, h2⟩
  unfold readBytes
  simp [h1]

theorem onError_eq' (T : Tables) (o : Opts) (e : LibErr) (s : σ) :
    onError T o e s = (if o.quitonerror ≠ 0 ∧ o.quitonerror = T.errRaise then Step.done (errEvents T o e) s
                       else Step.again (errEvents T o e) s) := by
  unfold onError errEvents
  by_cases h0 : o.quitonerror = 0
  · have hn : ¬ (o.quitonerror ≠ 0 ∧ o.quitonerror = T.errRaise) := fun h => h.1 h0
    simp only [if_pos h0, if_neg hn]
  · by_cases h1 : o.quitonerror = T.errRaise
    · have hp : o.quitonerror ≠ 0 ∧ o.quitonerror = T.errRaise := ⟨h0, h1⟩
      simp only [if_neg h0, if_pos h1, if_pos hp]
    · have hn : ¬ (o.quitonerror ≠ 0 ∧ o.quitonerror = T.errRaise) := fun h => h1 h.2
      by_cases h2 : o.quitonerror = T.errLog
      · simp only [if_neg h0, if_neg h1, if_pos h2, if_neg hn]
      · simp only [if_neg h0, if_neg h1, if_neg h2, if_neg hn]

theorem iter_frame_x (X : XStream ops R) (T : Tables) (hT : ReaderConsts T) (o : Opts) (s : σ) (f rest : Bytes)
    (hf : Framed f) (h : R s (f ++ rest)) :
    ∃ s', R s' rest ∧ iter ops T o s =
      (if o.parsed then
        match parse T f o.validate o.label with
        | .ok m => Step.done [.frame f (some m)] s'
        | .lib e => onError T o e s'
        | .foreign e => Step.done [.foreign e] s'
      else Step.done [.frame f none] s') := by
  obtain ⟨hi, lo, payload, crc, rfl, hhi, hlen, hcrc⟩ := hf.shape
  have e1 : ([0xd3, hi, lo] ++ payload ++ crc ++ rest : Bytes) = (0xd3 : UInt8) :: (hi :: (lo :: (payload ++ (crc ++ rest)))) := by simp
  rw [e1] at h
  obtain ⟨s1, r1, h1⟩ := xread_one X s _ _ h
  obtain ⟨s2, r2, h2⟩ := xread_one X s1 _ _ h1
  obtain ⟨s3, r3, h3⟩ := xread_one X s2 _ _ h2
  obtain ⟨s4, r4, h4⟩ := xread_exact X s3 payload (crc ++ rest) h3
  obtain ⟨s5, r5, h5⟩ := xread_exact X s4 crc rest h4
  refine ⟨s5, h5, ?_⟩
  unfold iter
  rw [r1]
  simp only [List.headD_cons]
  have hsync : isSync T (0xd3 : UInt8) = true := by unfold isSync; decide
  simp only [hsync, Bool.not_true, Bool.false_eq_true, if_false, r2, List.headD_cons]
  have h211 : (0xd3 : UInt8).toNat = 211 := by decide
  simp only [h211]
  have hub : ¬ (((211 : Nat), hi.toNat) = T.ubxHdr) := by
    rw [hT.ubx]; intro h; injection h with h1 _; exact absurd h1 (by decide)
  have hnm : T.nmeaHdr.contains ((211 : Nat), hi.toNat) = false := by
    rw [List.contains_eq_any_beq, Bool.eq_false_iff]
    intro h
    rw [List.any_eq_true] at h
    obtain ⟨e, he, heq⟩ := h
    have := hT.nmea e he
    simp at heq
    rw [← heq] at this
    simp at this
  simp only [hub, hnm, Bool.false_eq_true, if_false, hhi, and_self, if_true]
  unfold parseRtcm3
  rw [r3]
  simp only [List.headD_cons]
  rw [← hlen, r4]
  simp only
  rw [← hcrc, r5]
  simp only
  rfl

theorem iter_noise_x (X : XStream ops R) (T : Tables) (o : Opts) (s : σ) (b : UInt8) (rest : Bytes)
    (hb : isSync T b = false) (h : R s (b :: rest)) :
    ∃ s', R s' rest ∧ iter ops T o s = Step.again [] s' := by
  obtain ⟨s1, r1, h1⟩ := xread_one X s _ _ h
  refine ⟨s1, h1, ?_⟩
  unfold iter
  rw [r1]
  simp [hb]

theorem splitLine_body (body rest : Bytes) (hb : ∀ x ∈ body, x.toNat ≠ 10) :
    splitLine (body ++ (10 : UInt8) :: rest) = (body ++ [10], rest) := by
  induction body with
  | nil => simp [splitLine]
  | cons x t ih =>
    simp only [List.cons_append, splitLine]
    have hx : x.toNat ≠ 10 := hb x (by simp)
    rw [if_neg hx, ih (fun y hy => hb y (by simp [hy]))]

theorem iter_nmea_x (X : XStream ops R) (T : Tables) (hT : ReaderConsts T) (o : Opts) (s : σ) (t : UInt8)
    (body rest : Bytes)
    (hh : T.nmeaHdr.contains ((0x24 : UInt8).toNat, t.toNat) = true) (hb : ∀ x ∈ body, x.toNat ≠ 10)
    (h : R s ((0x24 : UInt8) :: t :: (body ++ (10 : UInt8) :: rest))) :
    ∃ s', R s' rest ∧ iter ops T o s = Step.again [] s' := by
  obtain ⟨s1, r1, h1⟩ := xread_one X s _ _ h
  obtain ⟨s2, r2, h2⟩ := xread_one X s1 _ _ h1
  obtain ⟨l1, l2⟩ := X.readline s2 _ h2
  rw [splitLine_body body rest hb] at l1 l2
  refine ⟨(ops.readline s2).2, l2, ?_⟩
  unfold iter
  rw [r1]
  simp only [List.headD_cons]
  have hsync : isSync T (0x24 : UInt8) = true := by unfold isSync; decide
  simp only [hsync, Bool.not_true, Bool.false_eq_true, if_false, r2, List.headD_cons]
  have h36 : (0x24 : UInt8).toNat = 36 := by decide
  simp only [h36] at hh ⊢
  have hub : ¬ (((36 : Nat), t.toNat) = T.ubxHdr) := by
    rw [hT.ubx]; intro h; injection h with h1 _; exact absurd h1 (by decide)
  simp only [hub, if_false, hh, if_true]
  unfold parseNmea readLine
  simp only [l1]
  simp

theorem iter_ubx_x (X : XStream ops R) (T : Tables) (hT : ReaderConsts T) (o : Opts) (s : σ)
    (cls id l0 l1 : UInt8) (payload ck rest : Bytes)
    (hl : payload.length = l0.toNat + 256 * l1.toNat) (hck : ck.length = 2)
    (h : R s ((0xb5 : UInt8) :: 0x62 :: ([cls, id, l0, l1] ++ (payload ++ ck) ++ rest))) :
    ∃ s', R s' rest ∧ iter ops T o s = Step.again [] s' := by
  obtain ⟨s1, r1, h1⟩ := xread_one X s _ _ h
  obtain ⟨s2, r2, h2⟩ := xread_one X s1 _ _ h1
  have e4 : ([cls, id, l0, l1] ++ (payload ++ ck) ++ rest : Bytes) = [cls, id, l0, l1] ++ ((payload ++ ck) ++ rest) := by simp
  rw [e4] at h2
  obtain ⟨s3, r3, h3⟩ := xread_exact X s2 [cls, id, l0, l1] _ h2
  obtain ⟨s4, r4, h4⟩ := xread_exact X s3 (payload ++ ck) rest h3
  refine ⟨s4, h4, ?_⟩
  unfold iter
  rw [r1]
  simp only [List.headD_cons]
  have hsync : isSync T (0xb5 : UInt8) = true := by unfold isSync; decide
  simp only [hsync, Bool.not_true, Bool.false_eq_true, if_false, r2, List.headD_cons]
  have h181 : (0xb5 : UInt8).toNat = 181 := by decide
  have h98 : (0x62 : UInt8).toNat = 98 := by decide
  simp only [h181, h98]
  have hub : (((181 : Nat), (98 : Nat)) = T.ubxHdr) := by rw [hT.ubx]
  simp only [hub, if_true]
  unfold parseUbx
  simp only [List.length_cons, List.length_nil] at r3
  rw [r3]
  simp only [List.getD_cons_succ, List.getD_cons_zero]
  have hlen : l0.toNat + 256 * l1.toNat + 2 = (payload ++ ck).length := by simp [hl, hck]
  rw [hlen, r4]

/-- one pass over a valid item consumes exactly the item and yields exactly its events -/
theorem iter_item_x (X : XStream ops R) (T : Tables) (hT : ReaderConsts T) (o : Opts) (s : σ) (it : SItem)
    (hv : it.Valid T) (rest : Bytes) (h : R s (it.bytes ++ rest)) :
    ∃ s', R s' rest ∧
      ((Quiet (it.events T o) ∧ iter ops T o s = .again (it.events T o) s')
       ∨ (Loud (it.events T o) ∧ iter ops T o s = .done (it.events T o) s')) := by
  cases it with
  | noise b =>
    obtain ⟨s', h1, h2⟩ := iter_noise_x X T o s b rest hv (by simpa [SItem.bytes] using h)
    exact ⟨s', h1, Or.inl ⟨Or.inl rfl, by simpa [SItem.events] using h2⟩⟩
  | nmea t body =>
    obtain ⟨s', h1, h2⟩ := iter_nmea_x X T hT o s t body rest hv.1 hv.2 (by simpa [SItem.bytes] using h)
    exact ⟨s', h1, Or.inl ⟨Or.inl rfl, by simpa [SItem.events] using h2⟩⟩
  | ubx cls id l0 l1 payload ck =>
    obtain ⟨s', h1, h2⟩ := iter_ubx_x X T hT o s cls id l0 l1 payload ck rest hv.1 hv.2 (by simpa [SItem.bytes] using h)
    exact ⟨s', h1, Or.inl ⟨Or.inl rfl, by simpa [SItem.events] using h2⟩⟩
  | frame f =>
    obtain ⟨s', h1, hi⟩ := iter_frame_x X T hT o s f rest hv (by simpa [SItem.bytes] using h)
    refine ⟨s', h1, ?_⟩
    simp only [SItem.events]
    rw [hi]
    by_cases hp : o.parsed = true
    · rw [if_pos hp, if_pos hp]
      cases hparse : parse T f o.validate o.label with
      | ok m => right; exact ⟨Or.inl ⟨_, _, rfl⟩, rfl⟩
      | foreign e =>
        exfalso
        have := parse_not_foreign T f o.validate o.label
        rw [hparse] at this
        simp [Outcome.isForeign] at this
      | lib e =>
        simp only
        rw [onError_eq']
        by_cases hr : o.quitonerror ≠ 0 ∧ o.quitonerror = T.errRaise
        · right
          rw [if_pos hr]
          refine ⟨Or.inr ⟨e, ?_⟩, rfl⟩
          unfold errEvents
          rw [if_neg hr.1, if_pos hr.2]
        · left
          rw [if_neg hr]
          refine ⟨?_, rfl⟩
          unfold errEvents
          by_cases h0 : o.quitonerror = 0
          · simp [h0, Quiet]
          · have h1 : ¬ o.quitonerror = T.errRaise := fun h => hr ⟨h0, h⟩
            by_cases h2 : o.quitonerror = T.errLog
            · simp only [if_neg h0, if_neg h1, if_pos h2]; exact Or.inr ⟨e, rfl⟩
            · simp only [if_neg h0, if_neg h1, if_neg h2]; exact Or.inl rfl
    · rw [if_neg hp, if_neg hp]
      right
      exact ⟨Or.inl ⟨_, _, rfl⟩, rfl⟩


theorem readOne_eof_x (X : XStream ops R) (T : Tables) (o : Opts) (s : σ) (h : R s []) :
    (readOne ops T o s).1 = [.stop] := by
  obtain ⟨s', r, _⟩ := xread_eof X s h
  rw [readOne]
  have : iter ops T o s = .done [.stop] s' := by
    unfold iter
    rw [r]
  rw [this]

theorem run_eof_x (X : XStream ops R) (T : Tables) (o : Opts) (resume : Bool) (s : σ) (h : R s []) :
    run ops T o resume s = [.stop] := by
  rw [run_unfold, readOne_eof_x X T o s h]
  simp [lastIsFrame, lastIsRaised]

theorem not_stop_of_last (l : List Event)
    (hc : (lastIsFrame l || (true && lastIsRaised l)) = true) : l.getLast? ≠ some .stop := by
  apply lastIs_getLast
  simp only [Bool.or_eq_true, Bool.and_eq_true] at hc
  rcases hc with h | ⟨_, h⟩
  · exact Or.inl h
  · exact Or.inr h

/-- **the reader on well-formed mixed input, over any exact stream**: iteration (resuming after raised
    errors) yields exactly the events of the items, in order, and then stops -/
theorem run_items_x (X : XStream ops R) (T : Tables) (hT : ReaderConsts T) (o : Opts) (items : List SItem)
    (hv : ∀ it ∈ items, it.Valid T) : ∀ (s : σ), R s (streamOf items) → run ops T o true s = expect T o items := by
  induction items with
  | nil =>
    intro s h
    simpa [streamOf, expect] using run_eof_x X T o true s (by simpa [streamOf] using h)
  | cons it rest ih =>
    intro s h
    have hvi := hv it (by simp)
    have ih' := ih (fun x hx => hv x (by simp [hx]))
    have hstream : streamOf (it :: rest) = it.bytes ++ streamOf rest := by simp [streamOf]
    have hexp : expect T o (it :: rest) = it.events T o ++ expect T o rest := by simp [expect]
    rw [hstream] at h
    obtain ⟨s', hR', hcase⟩ := iter_item_x X T hT o s it hvi (streamOf rest) h
    rw [hexp, ← ih' s' hR']
    have hL := X.lawful
    rcases hcase with ⟨hq, hi⟩ | ⟨hl, hi⟩
    · -- skipped (possibly after a handler call): `read()` goes on with the rest
      have hlt : lexLt (ops.size s') (ops.size s) = true := by
        have hp := iter_progress hL T o s
        rw [hi] at hp
        rcases hp with ⟨⟨x, hx⟩, _⟩ | hp
        · simp at hx
        · exact hp
      have hro : readOne ops T o s = (it.events T o ++ (readOne ops T o s').1, (readOne ops T o s').2) := by
        rw [readOne, hi]
        simp only [hlt, if_true]
      rw [run_unfold ops T o true s, hro, run_unfold ops T o true s']
      simp only
      have hrl := readOne_lawful hL T o s'
      have hF : lastIsFrame (it.events T o ++ (readOne ops T o s').1) = lastIsFrame (readOne ops T o s').1 := by
        rcases hq with h | ⟨e, h⟩ <;> rw [h]
        · rfl
        · exact lastIsFrame_handler e _
      have hR : lastIsRaised (it.events T o ++ (readOne ops T o s').1) = lastIsRaised (readOne ops T o s').1 := by
        rcases hq with h | ⟨e, h⟩ <;> rw [h]
        · rfl
        · exact lastIsRaised_handler e _
      rw [hF, hR]
      by_cases hc : (lastIsFrame (readOne ops T o s').1 || (true && lastIsRaised (readOne ops T o s').1)) = true
      · rw [if_pos hc, if_pos hc]
        have hlt2 := hrl.2.2 (not_stop_of_last _ hc)
        have hlt3 : lexLt (ops.size (readOne ops T o s').2) (ops.size s) = true :=
          lexLt_of_lt_of_le hlt2 (sizeLe_of_lt hlt)
        rw [if_pos hlt2, if_pos hlt3, List.append_assoc]
      · rw [if_neg hc, if_neg hc]
    · -- the item ends this `read()` (a frame is returned or an error raised); iteration resumes
      have hro : readOne ops T o s = (it.events T o, s') := by
        rw [readOne, hi]
      rw [run_unfold ops T o true s, hro]
      simp only
      have hc : (lastIsFrame (it.events T o) || (true && lastIsRaised (it.events T o))) = true := by
        rcases hl with ⟨raw, p, h⟩ | ⟨e, h⟩ <;> rw [h] <;> simp [lastIsFrame, lastIsRaised]
      have hlt : lexLt (ops.size s') (ops.size s) = true := by
        have := (readOne_lawful hL T o s).2.2
        rw [hro] at this
        exact this (not_stop_of_last _ hc)
      rw [if_pos hc, if_pos hlt]

/-! ### instances -/

theorem xstream_sock (dec : Bytes → Bytes) (R : Sock → Bytes → Prop) (E : Exact dec R) : XStream (sockOps dec) R where
  read := E.read
  readline := fun s rest h => readline_exact E s rest h
  lawful := sockOps_lawful dec

end Rtcm
