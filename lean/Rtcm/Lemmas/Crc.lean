import Rtcm.Model.Crc
import Rtcm.Model.Decode
/-
  CRC-24Q theory over `Nat` bit operations (no Mathlib, no bv_decide):
  * `polyModAux k n`  — schoolbook GF(2) long division of `n` by the generator, scanning bit
    positions `k+23 … 24` from the top: the *specification* of "remainder modulo 0x1864CFB";
  * multiples of the generator (`xorShifts`), uniqueness of the remainder, linearity,
    multiplication by x (`stepZ`);
  * the shift register of `calc_crc24q` computes that remainder of `message · x^24`.
-/
namespace Rtcm

/-! ### the generator -/

theorem poly_lt : poly < 2 ^ 25 := by decide
theorem poly_bit24 : poly.testBit 24 = true := by decide
theorem poly_bit0 : poly.testBit 0 = true := by decide

theorem poly_shift_top (k : Nat) : (poly <<< k).testBit (k + 24) = true := by
  rw [Nat.testBit_shiftLeft]
  simp [poly_bit24]

theorem poly_shift_high (k j : Nat) (h : k + 24 < j) : (poly <<< k).testBit j = false := by
  rw [Nat.testBit_shiftLeft]
  have : poly.testBit (j - k) = false := Nat.testBit_lt_two_pow (Nat.lt_of_lt_of_le poly_lt (Nat.pow_le_pow_right (by omega) (by omega)))
  simp [this]

theorem poly_shift_lt (k : Nat) : poly <<< k < 2 ^ (k + 25) := by
  rw [Nat.shiftLeft_eq, Nat.pow_add, Nat.mul_comm]
  exact Nat.mul_lt_mul_of_pos_left poly_lt (Nat.two_pow_pos k)

/-! ### long division -/

/-- schoolbook long division: for bit positions `k+23, …, 24` (downwards) cancel a set bit with
    the generator aligned to it.  For `n < 2^(k+24)` the result is `n mod g` in GF(2)[x]. -/
def polyModAux : Nat → Nat → Nat
  | 0, n => n
  | k + 1, n => polyModAux k (if n.testBit (k + 24) then n ^^^ (poly <<< k) else n)

/-- adding a generator multiple aligned below the scan window does not change the remainder -/
theorem polyModAux_xor_shift (k i n : Nat) (h : i < k) :
    polyModAux k (n ^^^ (poly <<< i)) = polyModAux k n := by
  induction k generalizing n with
  | zero => omega
  | succ k ih =>
    simp only [polyModAux]
    by_cases hik : i = k
    · subst hik
      -- the top bit is flipped: exactly one of the two is reduced, and they meet
      have hb : (n ^^^ (poly <<< i)).testBit (i + 24) = !n.testBit (i + 24) := by
        rw [Nat.testBit_xor, poly_shift_top]; simp
      cases hn : n.testBit (i + 24)
      · simp [hb, hn, Nat.xor_assoc]
      · simp [hb, hn]
    · have hlt : i < k := by omega
      have hb : (n ^^^ (poly <<< i)).testBit (k + 24) = n.testBit (k + 24) := by
        rw [Nat.testBit_xor, poly_shift_high i (k + 24) (by omega)]; simp
      rw [hb]
      cases hn : n.testBit (k + 24)
      · simp only [Bool.false_eq_true, ↓reduceIte]
        exact ih n hlt
      · simp only [↓reduceIte]
        have : n ^^^ poly <<< i ^^^ poly <<< k = (n ^^^ poly <<< k) ^^^ poly <<< i := by
          rw [Nat.xor_assoc, Nat.xor_comm (poly <<< i), ← Nat.xor_assoc]
        rw [this]
        exact ih _ hlt

/-- the remainder has degree below 24 -/
theorem polyModAux_lt (k n : Nat) (h : n < 2 ^ (k + 24)) : polyModAux k n < 2 ^ 24 := by
  induction k generalizing n with
  | zero => simpa [polyModAux] using h
  | succ k ih =>
    simp only [polyModAux]
    apply ih
    apply Nat.lt_pow_two_of_testBit
    intro j hj
    by_cases hjk : j = k + 24
    · subst hjk
      cases hn : n.testBit (k + 24)
      · simp [hn]
      · simp [hn, Nat.testBit_xor, poly_bit24]
    · have hj' : k + 24 < j := by omega
      have hnj : n.testBit j = false :=
        Nat.testBit_lt_two_pow (Nat.lt_of_lt_of_le h (Nat.pow_le_pow_right (by omega) (by omega)))
      cases hn : n.testBit (k + 24)
      · simp [hn, hnj]
      · simp [hn, Nat.testBit_xor, hnj, poly_shift_high k j hj']

/-- a number of degree below 24 is its own remainder -/
theorem polyModAux_small (k n : Nat) (h : n < 2 ^ 24) : polyModAux k n = n := by
  induction k with
  | zero => rfl
  | succ k ih =>
    simp only [polyModAux]
    have : n.testBit (k + 24) = false :=
      Nat.testBit_lt_two_pow (Nat.lt_of_lt_of_le h (Nat.pow_le_pow_right (by omega) (by omega)))
    simp [this, ih]

/-- scanning from higher than necessary changes nothing -/
theorem polyModAux_fuel (k j n : Nat) (h : n < 2 ^ (k + 24)) : polyModAux (k + j) n = polyModAux k n := by
  induction j with
  | zero => rfl
  | succ j ih =>
    have : n.testBit (k + j + 24) = false :=
      Nat.testBit_lt_two_pow (Nat.lt_of_lt_of_le h (Nat.pow_le_pow_right (by omega) (by omega)))
    rw [← Nat.add_assoc]
    simp only [polyModAux, this]
    simpa using ih

/-! ### multiples of the generator -/

/-- the GF(2) combination `Σ x^i · g` over the listed shifts -/
def xorShifts : List Nat → Nat
  | [] => 0
  | i :: rest => (poly <<< i) ^^^ xorShifts rest

theorem xorShifts_append (a b : List Nat) : xorShifts (a ++ b) = xorShifts a ^^^ xorShifts b := by
  induction a with
  | nil => simp [xorShifts]
  | cons i rest ih => simp [xorShifts, ih, Nat.xor_assoc]

theorem xorShifts_shift (qs : List Nat) (j : Nat) : xorShifts qs <<< j = xorShifts (qs.map (· + j)) := by
  induction qs with
  | nil => simp [xorShifts]
  | cons i rest ih => simp [xorShifts, Nat.shiftLeft_xor_distrib, ih, Nat.shiftLeft_add]

/-- adding any multiple (with shifts inside the scan window) does not change the remainder -/
theorem polyModAux_xorShifts (k : Nat) (qs : List Nat) (hq : ∀ i ∈ qs, i < k) (n : Nat) :
    polyModAux k (xorShifts qs ^^^ n) = polyModAux k n := by
  induction qs generalizing n with
  | nil => simp [xorShifts]
  | cons i rest ih =>
    simp only [xorShifts]
    have : poly <<< i ^^^ xorShifts rest ^^^ n = (xorShifts rest ^^^ n) ^^^ poly <<< i := by
      rw [Nat.xor_comm (poly <<< i), Nat.xor_assoc, Nat.xor_comm (poly <<< i), ← Nat.xor_assoc]
    rw [this, polyModAux_xor_shift k i _ (hq i (by simp))]
    exact ih (fun j hj => hq j (by simp [hj])) n

/-- `n` and its remainder differ by a multiple of the generator -/
theorem polyModAux_congr (k n : Nat) :
    ∃ qs : List Nat, (∀ i ∈ qs, i < k) ∧ n = xorShifts qs ^^^ polyModAux k n := by
  induction k generalizing n with
  | zero => exact ⟨[], by simp, by simp [xorShifts, polyModAux]⟩
  | succ k ih =>
    simp only [polyModAux]
    cases hn : n.testBit (k + 24)
    · obtain ⟨qs, hq, he⟩ := ih n
      exact ⟨qs, fun i hi => Nat.lt_succ_of_lt (hq i hi), by simpa using he⟩
    · obtain ⟨qs, hq, he⟩ := ih (n ^^^ poly <<< k)
      refine ⟨k :: qs, ?_, ?_⟩
      · intro i hi
        simp at hi
        rcases hi with h | h
        · omega
        · exact Nat.lt_succ_of_lt (hq i h)
      · simp only [↓reduceIte, xorShifts]
        rw [Nat.xor_assoc, ← he, ← Nat.xor_assoc, Nat.xor_comm (poly <<< k), Nat.xor_assoc]
        simp

/-- uniqueness of the remainder: whatever differs from `r` (degree < 24) by a multiple has remainder `r` -/
theorem polyModAux_unique (k : Nat) (qs : List Nat) (hq : ∀ i ∈ qs, i < k) (r : Nat) (hr : r < 2 ^ 24) :
    polyModAux k (xorShifts qs ^^^ r) = r := by
  rw [polyModAux_xorShifts k qs hq, polyModAux_small k r hr]

/-- the remainder is GF(2)-linear -/
theorem polyModAux_xor (k a b : Nat) (ha : a < 2 ^ (k + 24)) (hb : b < 2 ^ (k + 24)) :
    polyModAux k (a ^^^ b) = polyModAux k a ^^^ polyModAux k b := by
  obtain ⟨qa, hqa, ea⟩ := polyModAux_congr k a
  obtain ⟨qb, hqb, eb⟩ := polyModAux_congr k b
  have h : a ^^^ b = xorShifts (qa ++ qb) ^^^ (polyModAux k a ^^^ polyModAux k b) := by
    rw [xorShifts_append]
    conv => lhs; rw [ea, eb]
    rw [Nat.xor_assoc, Nat.xor_assoc]
    congr 1
    rw [← Nat.xor_assoc, Nat.xor_comm (polyModAux k a), Nat.xor_assoc]
  rw [h]
  apply polyModAux_unique
  · intro i hi
    simp at hi
    rcases hi with h | h
    · exact hqa i h
    · exact hqb i h
  · exact Nat.xor_lt_two_pow (polyModAux_lt k a ha) (polyModAux_lt k b hb)

end Rtcm

namespace Rtcm

/-! ### multiplication by x and the shift register -/

/-- one zero-fed step of the register: multiply by x and reduce -/
def stepZ (r : Nat) : Nat :=
  if (r <<< 1).testBit 24 then (r <<< 1) ^^^ poly else r <<< 1

theorem shift1_lt (r k : Nat) (h : r < 2 ^ k) : r <<< 1 < 2 ^ (k + 1) := by
  rw [Nat.shiftLeft_eq, Nat.pow_succ]; omega

theorem polyModAux_one (n : Nat) : polyModAux 1 n = if n.testBit 24 then n ^^^ poly else n := by
  simp [polyModAux]

/-- remainder of `x · n` from the remainder of `n` -/
theorem polyModAux_shift1 (k n : Nat) (h : n < 2 ^ (k + 24)) :
    polyModAux (k + 1) (n <<< 1) = stepZ (polyModAux k n) := by
  obtain ⟨qs, hq, he⟩ := polyModAux_congr k n
  have hr := polyModAux_lt k n h
  have h1 : n <<< 1 = xorShifts (qs.map (· + 1)) ^^^ (polyModAux k n <<< 1) := by
    conv => lhs; rw [he]
    rw [Nat.shiftLeft_xor_distrib, xorShifts_shift]
  rw [h1, polyModAux_xorShifts]
  · have h25 : polyModAux k n <<< 1 < 2 ^ (1 + 24) := shift1_lt _ 24 hr
    have := polyModAux_fuel 1 k (polyModAux k n <<< 1) h25
    rw [Nat.add_comm 1 k] at this
    rw [this, polyModAux_one, stepZ]
  · intro i hi
    simp at hi
    obtain ⟨a, ha, rfl⟩ := hi
    have := hq a ha
    omega

theorem stepZ_lt (r : Nat) (h : r < 2 ^ 24) : stepZ r < 2 ^ 24 := by
  have := polyModAux_lt 1 (r <<< 1) (shift1_lt r 24 h)
  rwa [polyModAux_one] at this

def stepZn : Nat → Nat → Nat
  | 0, r => r
  | j + 1, r => stepZn j (stepZ r)

theorem stepZn_lt (j r : Nat) (h : r < 2 ^ 24) : stepZn j r < 2 ^ 24 := by
  induction j generalizing r with
  | zero => exact h
  | succ j ih => exact ih _ (stepZ_lt r h)

theorem polyModAux_shift (k j n : Nat) (h : n < 2 ^ (k + 24)) :
    polyModAux (k + j) (n <<< j) = stepZn j (polyModAux k n) := by
  induction j generalizing k n with
  | zero => simp [stepZn]
  | succ j ih =>
    have h' : n <<< 1 < 2 ^ (k + 1 + 24) := by
      have := shift1_lt n (k + 24) h
      rwa [show k + 24 + 1 = k + 1 + 24 by omega] at this
    have := ih (k + 1) (n <<< 1) h'
    rw [← Nat.shiftLeft_add, Nat.add_comm 1 j] at this
    rw [show k + (j + 1) = k + 1 + j by omega, this, polyModAux_shift1 k n h, stepZn]

theorem and_two_pow_eq (c n : Nat) : c &&& 2 ^ n = if c.testBit n then 2 ^ n else 0 := by
  apply Nat.eq_of_testBit_eq
  intro i
  rw [Nat.testBit_and, Nat.testBit_two_pow]
  by_cases h : n = i
  · subst h; cases hc : c.testBit n <;> simp [hc]
  · cases hc : c.testBit n <;> simp [h, Nat.testBit_two_pow]

/-- the code's step (`crc <<= 1; if crc & 0x1000000: crc ^= poly`) is `stepZ` -/
theorem crcStep_eq_stepZ (c : Nat) : crcStep c = stepZ c := by
  unfold crcStep stepZ
  have : ((c <<< 1) &&& 0x1000000 ≠ 0) ↔ (c <<< 1).testBit 24 = true := by
    rw [show (0x1000000 : Nat) = 2 ^ 24 by decide, and_two_pow_eq]
    cases (c <<< 1).testBit 24 <;> simp
  simp only [this]

theorem crcStep8_eq (c : Nat) : crcStep8 c = stepZn 8 c := by
  simp [crcStep8, crcStep_eq_stepZ, stepZn]

/-! ### bytes as numbers -/

theorem mul256_add_eq_xor (n b : Nat) (hb : b < 256) : n * 256 + b = (n <<< 8) ^^^ b := by
  rw [Nat.shiftLeft_eq, show (2 : Nat) ^ 8 = 256 by decide]
  apply Nat.eq_of_testBit_eq
  intro i
  rw [Nat.testBit_xor, Nat.mul_comm, show (256 : Nat) = 2 ^ 8 by decide,
    Nat.testBit_two_pow_mul_add n (show b < 2 ^ 8 from hb), Nat.testBit_two_pow_mul]
  by_cases h : i < 8
  · have : ¬ (8 ≤ i) := by omega
    simp [h, this]
  · have hb' : b.testBit i = false :=
      Nat.testBit_lt_two_pow (Nat.lt_of_lt_of_le hb (by
        rw [show (256 : Nat) = 2 ^ 8 by decide]; exact Nat.pow_le_pow_right (by omega) (by omega)))
    have : 8 ≤ i := by omega
    simp [h, hb', this]

theorem shift24_lt (N K : Nat) (h : N < 2 ^ K) : N <<< 24 < 2 ^ (K + 24) := by
  rw [Nat.shiftLeft_eq, Nat.pow_add]
  exact Nat.mul_lt_mul_of_pos_right h (Nat.two_pow_pos 24)

/-! ### the register of `calc_crc24q` -/

/-- feeding one byte: if the register holds the remainder of `N · x^24`, it then holds the
    remainder of `(256 N + b) · x^24` -/
theorem crcFeed_spec (reg N K : Nat) (b : UInt8) (hreg : reg = polyModAux K (N <<< 24))
    (hN : N < 2 ^ K) (hlt : reg < 2 ^ 24) :
    crcFeed reg b = polyModAux (K + 8) ((N * 256 + b.toNat) <<< 24) ∧ crcFeed reg b < 2 ^ 24
      ∧ N * 256 + b.toNat < 2 ^ (K + 8) := by
  have hb : b.toNat < 256 := UInt8.toNat_lt b
  have hb16 : b.toNat <<< 16 < 2 ^ 24 := by
    rw [Nat.shiftLeft_eq]; omega
  have hN24 := shift24_lt N K hN
  have hb16' : b.toNat <<< 16 < 2 ^ (K + 24) :=
    Nat.lt_of_lt_of_le hb16 (Nat.pow_le_pow_right (by omega) (by omega))
  have hstep : crcFeed reg b = stepZn 8 (reg ^^^ (b.toNat <<< 16)) := by
    simp [crcFeed, crcStep8_eq]
  have hx : reg ^^^ (b.toNat <<< 16) < 2 ^ 24 := Nat.xor_lt_two_pow hlt hb16
  refine ⟨?_, by rw [hstep]; exact stepZn_lt 8 _ hx, by rw [Nat.pow_add]; omega⟩
  rw [hstep, mul256_add_eq_xor _ _ hb, Nat.shiftLeft_xor_distrib]
  have e1 : (N <<< 8) <<< 24 = (N <<< 24) <<< 8 := by
    rw [← Nat.shiftLeft_add, ← Nat.shiftLeft_add]
  have e2 : b.toNat <<< 24 = (b.toNat <<< 16) <<< 8 := by rw [← Nat.shiftLeft_add]
  rw [e1, e2, ← Nat.shiftLeft_xor_distrib]
  rw [polyModAux_shift K 8 _ (Nat.xor_lt_two_pow hN24 hb16')]
  rw [polyModAux_xor _ _ _ hN24 hb16', ← hreg, polyModAux_small _ _ hb16]

theorem crcFold_spec (m : Bytes) : ∀ (reg N K : Nat), reg = polyModAux K (N <<< 24) → N < 2 ^ K → reg < 2 ^ 24 →
    m.foldl crcFeed reg = polyModAux (K + 8 * m.length) ((m.foldl (fun a b => a * 256 + b.toNat) N) <<< 24)
    ∧ m.foldl crcFeed reg < 2 ^ 24
    ∧ m.foldl (fun a b => a * 256 + b.toNat) N < 2 ^ (K + 8 * m.length) := by
  induction m with
  | nil => intro reg N K h1 h2 h3; simpa using ⟨h1, h3, h2⟩
  | cons b rest ih =>
    intro reg N K h1 h2 h3
    obtain ⟨f1, f2, f3⟩ := crcFeed_spec reg N K b h1 h2 h3
    have := ih (crcFeed reg b) (N * 256 + b.toNat) (K + 8) f1 f3 f2
    simp only [List.foldl_cons, List.length_cons]
    rw [show K + 8 * (rest.length + 1) = K + 8 + 8 * rest.length by omega]
    exact this

/-- after the whole message the register holds the remainder of `message · x^24`, below 2^24 -/
theorem crcReg_spec (m : Bytes) :
    crcReg m = polyModAux (8 * m.length) (bytesToNat m <<< 24) ∧ crcReg m < 2 ^ 24 := by
  have := crcFold_spec m 0 0 0 (by simp [polyModAux]) (by simp) (by simp)
  simp only [Nat.zero_add] at this
  exact ⟨this.1, this.2.1⟩

theorem bytesToNat_lt (m : Bytes) : bytesToNat m < 2 ^ (8 * m.length) := by
  have := crcFold_spec m 0 0 0 (by simp [polyModAux]) (by simp) (by simp)
  simp only [Nat.zero_add] at this
  exact this.2.2

/-- **`calc_crc24q` is the CRC-24Q remainder**: generator 0x1864CFB, zero initial value, most
    significant bit first, no final XOR — i.e. the remainder of `message · x^24` under schoolbook
    long division; the final mask changes nothing -/
theorem calcCrc24q_spec (m : Bytes) :
    calcCrc24q m = polyModAux (8 * m.length) (bytesToNat m <<< 24) := by
  obtain ⟨h, hlt⟩ := crcReg_spec m
  unfold calcCrc24q
  rw [show (0xFFFFFF : Nat) = 2 ^ 24 - 1 by decide, Nat.and_two_pow_sub_one_of_lt_two_pow hlt, h]

theorem calcCrc24q_lt (m : Bytes) : calcCrc24q m < 2 ^ 24 := by
  rw [calcCrc24q_spec]
  apply polyModAux_lt
  rw [Nat.shiftLeft_eq, Nat.pow_add]
  exact Nat.mul_lt_mul_of_pos_right (bytesToNat_lt m) (Nat.two_pow_pos 24)

end Rtcm

namespace Rtcm

/-! ### appending the checksum -/

theorem polyModAux_fuel_eq (k1 k2 n : Nat) (h1 : n < 2 ^ (k1 + 24)) (h2 : n < 2 ^ (k2 + 24)) :
    polyModAux k1 n = polyModAux k2 n := by
  by_cases h : k1 ≤ k2
  · obtain ⟨j, rfl⟩ := Nat.exists_eq_add_of_le h
    exact (polyModAux_fuel k1 j n h1).symm
  · obtain ⟨j, rfl⟩ := Nat.exists_eq_add_of_le (Nat.le_of_not_le h)
    exact polyModAux_fuel k2 j n h2

theorem bytesToNat_fold (N : Nat) (m : Bytes) :
    m.foldl (fun a b => a * 256 + b.toNat) N = N * 2 ^ (8 * m.length) + bytesToNat m := by
  induction m generalizing N with
  | nil => simp [bytesToNat]
  | cons b rest ih =>
    simp only [List.foldl_cons, bytesToNat, List.length_cons]
    rw [ih, ih (0 * 256 + b.toNat)]
    rw [show 8 * (rest.length + 1) = 8 + 8 * rest.length by omega, Nat.pow_add]
    simp only [Nat.zero_mul, Nat.zero_add, Nat.add_mul]
    rw [show (2 : Nat) ^ 8 = 256 by decide, Nat.mul_assoc, Nat.add_assoc]

theorem bytesToNat_append (a b : Bytes) :
    bytesToNat (a ++ b) = bytesToNat a * 2 ^ (8 * b.length) + bytesToNat b := by
  unfold bytesToNat
  rw [List.foldl_append, bytesToNat_fold]
  rfl

theorem mul_two_pow_add_eq_xor (n b k : Nat) (hb : b < 2 ^ k) : n * 2 ^ k + b = (n <<< k) ^^^ b := by
  rw [Nat.shiftLeft_eq]
  apply Nat.eq_of_testBit_eq
  intro i
  rw [Nat.testBit_xor, Nat.mul_comm, Nat.testBit_two_pow_mul_add n hb, Nat.testBit_two_pow_mul]
  by_cases h : i < k
  · have : ¬ (k ≤ i) := by omega
    simp [h, this]
  · have hb' : b.testBit i = false :=
      Nat.testBit_lt_two_pow (Nat.lt_of_lt_of_le hb (Nat.pow_le_pow_right (by omega) (by omega)))
    have : k ≤ i := by omega
    simp [h, hb', this]

/-- CRC of a message followed by three more bytes -/
theorem crc_append3 (x c : Bytes) (hc : c.length = 3) :
    calcCrc24q (x ++ c) = stepZn 24 (calcCrc24q x ^^^ bytesToNat c) := by
  have hC : bytesToNat c < 2 ^ 24 := by have := bytesToNat_lt c; rwa [hc] at this
  have hX := shift24_lt _ _ (bytesToNat_lt x)
  have hC' : bytesToNat c < 2 ^ (8 * x.length + 24) :=
    Nat.lt_of_lt_of_le hC (Nat.pow_le_pow_right (by omega) (by omega))
  rw [calcCrc24q_spec, calcCrc24q_spec, bytesToNat_append, hc, show 8 * 3 = 24 by rfl,
    mul_two_pow_add_eq_xor _ _ 24 hC, List.length_append, hc,
    show 8 * (x.length + 3) = 8 * x.length + 24 by omega,
    polyModAux_shift _ 24 _ (Nat.xor_lt_two_pow hX hC'),
    polyModAux_xor _ _ _ hX hC', polyModAux_small _ _ hC]

theorem stepZ_zero : stepZ 0 = 0 := by decide

theorem stepZn_zero (j : Nat) : stepZn j 0 = 0 := by
  induction j with
  | zero => rfl
  | succ j ih => simp [stepZn, stepZ_zero, ih]

/-- multiplication by x is injective at 0 on remainders (the generator has constant term 1) -/
theorem stepZ_eq_zero (r : Nat) (h : stepZ r = 0) : r = 0 := by
  unfold stepZ at h
  split at h
  · -- (r <<< 1) ^^^ poly = 0 is impossible: bit 0 of r <<< 1 is clear, bit 0 of poly is set
    have : ((r <<< 1) ^^^ poly).testBit 0 = true := by
      rw [Nat.testBit_xor, Nat.testBit_shiftLeft, poly_bit0]; simp
    rw [h] at this
    simp at this
  · exact Nat.shiftLeft_eq_zero_iff.mp h

theorem stepZn_eq_zero (j r : Nat) (h : stepZn j r = 0) : r = 0 := by
  induction j generalizing r with
  | zero => exact h
  | succ j ih => exact stepZ_eq_zero r (ih _ h)

theorem toNat_ofNat_lt (n : Nat) (h : n < 256) : (UInt8.ofNat n).toNat = n := by
  simp [UInt8.toNat_ofNat, Nat.mod_eq_of_lt h]

theorem bytesToNat_toBytes3 (r : Nat) (h : r < 2 ^ 24) : bytesToNat (toBytes3 r) = r := by
  simp only [toBytes3, bytesToNat, List.foldl_cons, List.foldl_nil, Nat.zero_mul, Nat.zero_add]
  rw [toNat_ofNat_lt _ (Nat.mod_lt _ (by decide)), toNat_ofNat_lt _ (Nat.mod_lt _ (by decide)),
    toNat_ofNat_lt _ (Nat.mod_lt _ (by decide))]
  simp only [Nat.shiftRight_eq_div_pow]
  omega

theorem toBytes3_bytesToNat (c : Bytes) (hc : c.length = 3) : toBytes3 (bytesToNat c) = c := by
  match c, hc with
  | [a, b, d], _ =>
    have ha := UInt8.toNat_lt a
    have hb := UInt8.toNat_lt b
    have hd := UInt8.toNat_lt d
    simp only [toBytes3, bytesToNat, List.foldl_cons, List.foldl_nil, Nat.zero_mul, Nat.zero_add,
      Nat.shiftRight_eq_div_pow]
    have e1 : ((a.toNat * 256 + b.toNat) * 256 + d.toNat) / 2 ^ 16 % 256 = a.toNat := by omega
    have e2 : ((a.toNat * 256 + b.toNat) * 256 + d.toNat) / 2 ^ 8 % 256 = b.toNat := by omega
    have e3 : ((a.toNat * 256 + b.toNat) * 256 + d.toNat) % 256 = d.toNat := by omega
    rw [e1, e2, e3]
    simp

/-- the value over a message with its checksum appended is zero -/
theorem crc_self_zero (m : Bytes) : calcCrc24q (m ++ crc2bytes m) = 0 := by
  rw [crc_append3 m (crc2bytes m) (by simp [crc2bytes, toBytes3]), crc2bytes,
    bytesToNat_toBytes3 _ (calcCrc24q_lt m), Nat.xor_self, stepZn_zero]

/-- the three checksum bytes that make the whole frame check are unique -/
theorem crc_trailer_unique (x c : Bytes) (hc : c.length = 3) (h : calcCrc24q (x ++ c) = 0) :
    c = crc2bytes x := by
  rw [crc_append3 x c hc] at h
  have h0 := stepZn_eq_zero _ _ h
  have : calcCrc24q x = bytesToNat c := by
    have := congrArg (· ^^^ bytesToNat c) h0
    simpa [Nat.xor_assoc] using this
  rw [crc2bytes, this, toBytes3_bytesToNat c hc]

end Rtcm

namespace Rtcm

/-! ### error patterns -/

/-- byte-wise XOR of a frame with an error pattern -/
def xorBytes (a b : Bytes) : Bytes := List.zipWith (· ^^^ ·) a b

theorem xorBytes_length (a b : Bytes) (h : a.length = b.length) : (xorBytes a b).length = a.length := by
  simp [xorBytes, h]

theorem fold_xor (a b : Bytes) (h : a.length = b.length) (A B : Nat) :
    (xorBytes a b).foldl (fun x y => x * 256 + y.toNat) (A ^^^ B)
      = a.foldl (fun x y => x * 256 + y.toNat) A ^^^ b.foldl (fun x y => x * 256 + y.toNat) B := by
  induction a generalizing b A B with
  | nil =>
    cases b with
    | nil => simp [xorBytes]
    | cons _ _ => simp at h
  | cons x xs ih =>
    cases b with
    | nil => simp at h
    | cons y ys =>
      simp only [xorBytes, List.zipWith_cons_cons, List.foldl_cons]
      have hx := UInt8.toNat_lt x
      have hy := UInt8.toNat_lt y
      have hxy : (x ^^^ y).toNat = x.toNat ^^^ y.toNat := UInt8.toNat_xor x y
      have hlt : x.toNat ^^^ y.toNat < 256 := by
        have := Nat.xor_lt_two_pow (n := 8) hx hy; simpa using this
      have : (A ^^^ B) * 256 + (x ^^^ y).toNat = (A * 256 + x.toNat) ^^^ (B * 256 + y.toNat) := by
        rw [hxy, mul256_add_eq_xor _ _ hlt, mul256_add_eq_xor _ _ hx, mul256_add_eq_xor _ _ hy,
          Nat.shiftLeft_xor_distrib]
        rw [Nat.xor_assoc, Nat.xor_assoc]
        congr 1
        rw [← Nat.xor_assoc, ← Nat.xor_assoc, Nat.xor_comm (B <<< 8)]
      rw [this]
      exact ih ys (by simpa using h) _ _

theorem bytesToNat_xor (a b : Bytes) (h : a.length = b.length) :
    bytesToNat (xorBytes a b) = bytesToNat a ^^^ bytesToNat b := by
  have := fold_xor a b h 0 0
  simpa [bytesToNat] using this

/-- the CRC is GF(2)-linear on equal-length byte strings -/
theorem crc_xor (a b : Bytes) (h : a.length = b.length) :
    calcCrc24q (xorBytes a b) = calcCrc24q a ^^^ calcCrc24q b := by
  rw [calcCrc24q_spec, calcCrc24q_spec, calcCrc24q_spec, bytesToNat_xor a b h,
    xorBytes_length a b h, Nat.shiftLeft_xor_distrib, ← h]
  apply polyModAux_xor
  · exact shift24_lt _ _ (bytesToNat_lt a)
  · rw [h]; exact shift24_lt _ _ (bytesToNat_lt b)

/-- a damaged valid frame checks iff the error pattern itself does -/
theorem crc_damaged (f e : Bytes) (h : f.length = e.length) (hv : calcCrc24q f = 0) :
    calcCrc24q (xorBytes f e) = calcCrc24q e := by
  rw [crc_xor f e h, hv]; simp

theorem stepZn_ne_zero (j r : Nat) (h : r ≠ 0) : stepZn j r ≠ 0 :=
  fun h0 => h (stepZn_eq_zero j r h0)

/-- remainder of `B · x^s` for `B` of degree below 24 -/
theorem polyModAux_small_shift (k s B : Nat) (hB : B < 2 ^ 24) (hk : B <<< s < 2 ^ (k + 24)) :
    polyModAux k (B <<< s) = stepZn s B := by
  have h1 : B <<< s < 2 ^ (s + 24) := by
    rw [Nat.shiftLeft_eq, Nat.pow_add, Nat.mul_comm]
    exact Nat.mul_lt_mul_of_pos_left hB (Nat.two_pow_pos s)
  rw [polyModAux_fuel_eq k s _ hk h1]
  have := polyModAux_shift 0 s B (by simpa using hB)
  simpa [polyModAux] using this

/-- **bursts**: an error pattern whose set bits all lie within 24 consecutive positions
    (`E = B · x^s`, `0 < B < 2^24`) never checks — any length, any position -/
theorem detect_burst (e : Bytes) (B s : Nat) (hB0 : B ≠ 0) (hB : B < 2 ^ 24) (he : bytesToNat e = B <<< s) :
    calcCrc24q e ≠ 0 := by
  rw [calcCrc24q_spec, he, ← Nat.shiftLeft_add]
  have hlt := shift24_lt _ _ (bytesToNat_lt e)
  rw [he, ← Nat.shiftLeft_add] at hlt
  rw [polyModAux_small_shift _ _ B hB hlt]
  exact stepZn_ne_zero _ _ hB0

/-- **single bit** errors are bursts of length one -/
theorem detect_single (e : Bytes) (s : Nat) (he : bytesToNat e = 1 <<< s) : calcCrc24q e ≠ 0 :=
  detect_burst e 1 s (by decide) (by decide) he

/-! ### parity: the generator has the factor x + 1 -/

def parity : Nat → Nat → Bool
  | 0, _ => false
  | k + 1, n => (n.testBit k) ^^ parity k n

theorem parity_xor (k a b : Nat) : parity k (a ^^^ b) = (parity k a ^^ parity k b) := by
  induction k with
  | zero => rfl
  | succ k ih =>
    simp only [parity, Nat.testBit_xor, ih]
    cases a.testBit k <;> cases b.testBit k <;> cases parity k a <;> cases parity k b <;> rfl

theorem parity_small (k n : Nat) (j : Nat) (h : n < 2 ^ k) : parity (k + j) n = parity k n := by
  induction j with
  | zero => rfl
  | succ j ih =>
    have : n.testBit (k + j) = false :=
      Nat.testBit_lt_two_pow (Nat.lt_of_lt_of_le h (Nat.pow_le_pow_right (by omega) (by omega)))
    rw [← Nat.add_assoc]
    simp [parity, this, ih]

theorem parity_shift (k n s : Nat) : parity (k + s) (n <<< s) = parity k n := by
  induction k with
  | zero =>
    induction s with
    | zero => rfl
    | succ s ih =>
      simp only [Nat.zero_add] at ih ⊢
      simp only [parity, Nat.testBit_shiftLeft]
      have : ¬ (s ≥ s + 1) := by omega
      simp [this]
      -- parity s (n <<< (s+1)) : all bits below s+1 are clear
      have hz : ∀ t, t ≤ s → parity t (n <<< (s + 1)) = false := by
        intro t ht
        induction t with
        | zero => rfl
        | succ t iht =>
          simp only [parity, Nat.testBit_shiftLeft]
          have : ¬ (t ≥ s + 1) := by omega
          simp [this, iht (by omega)]
      exact hz s (Nat.le_refl s)
  | succ k ih =>
    rw [show k + 1 + s = (k + s) + 1 by omega]
    simp only [parity, Nat.testBit_shiftLeft, ih]
    have : k + s ≥ s := by omega
    simp [this]

theorem poly_parity : parity 25 poly = false := by decide

theorem xorShifts_parity (K : Nat) (qs : List Nat) (hq : ∀ i ∈ qs, i + 25 ≤ K) : parity K (xorShifts qs) = false := by
  induction qs with
  | nil =>
    simp only [xorShifts]
    induction K with
    | zero => rfl
    | succ K ih => simp [parity, ih]
  | cons i rest ih =>
    simp only [xorShifts, parity_xor]
    have hi := hq i (by simp)
    obtain ⟨j, rfl⟩ := Nat.exists_eq_add_of_le hi
    have h1 : parity (i + 25 + j) (poly <<< i) = false := by
      have hlt : poly <<< i < 2 ^ (i + 25) := poly_shift_lt i
      rw [parity_small (i + 25) _ j hlt, Nat.add_comm i 25, parity_shift, poly_parity]
    rw [h1, ih (fun a ha => hq a (by simp [ha]))]
    rfl

/-- **odd weight**: an error pattern with an odd number of flipped bits never checks -/
theorem detect_odd (e : Bytes) (hodd : parity (8 * e.length) (bytesToNat e) = true) : calcCrc24q e ≠ 0 := by
  intro h0
  rw [calcCrc24q_spec] at h0
  obtain ⟨qs, hq, he⟩ := polyModAux_congr (8 * e.length) (bytesToNat e <<< 24)
  rw [h0, Nat.xor_zero] at he
  have hp : parity (8 * e.length + 24) (bytesToNat e <<< 24) = true := by
    rw [parity_shift]; exact hodd
  have hlt : xorShifts qs < 2 ^ (8 * e.length + 24) := by
    rw [← he]; exact shift24_lt _ _ (bytesToNat_lt e)
  have := xorShifts_parity (8 * e.length + 24 + 1) qs (fun i hi => by have := hq i hi; omega)
  rw [parity_small _ _ 1 hlt, ← he, hp] at this
  exact Bool.noConfusion this

/-! ### two flipped bits: the order of x modulo the generator exceeds every frame length -/

def orbitCheck : Nat → Nat → Bool
  | 0, _ => true
  | n + 1, r => stepZ r != 1 && orbitCheck n (stepZ r)

theorem orbitCheck_sound (n r : Nat) (h : orbitCheck n r = true) :
    ∀ d, 1 ≤ d → d ≤ n → stepZn d r ≠ 1 := by
  induction n generalizing r with
  | zero => intro d h1 h2; omega
  | succ n ih =>
    intro d h1 h2
    simp only [orbitCheck, Bool.and_eq_true, bne_iff_ne] at h
    cases d with
    | zero => omega
    | succ d =>
      simp only [stepZn]
      cases d with
      | zero => simpa [stepZn] using h.1
      | succ d => exact ih _ h.2 (d + 1) (by omega) (by omega)

/-- x^d ≠ 1 modulo the generator for every distance that fits in a maximal (1029-byte) frame -/
theorem orbit_8231 : orbitCheck 8231 1 = true := by decide +kernel

/-- **two flipped bits** at distance `d ≤ 8231` (anywhere in a frame of up to 1029 bytes) never check -/
theorem detect_double (e : Bytes) (s d : Nat) (hd1 : 1 ≤ d) (hd : d ≤ 8231)
    (he : bytesToNat e = (1 ^^^ (1 <<< d)) <<< s) : calcCrc24q e ≠ 0 := by
  intro h0
  rw [calcCrc24q_spec] at h0
  have hlt := shift24_lt _ _ (bytesToNat_lt e)
  rw [he, ← Nat.shiftLeft_add] at h0 hlt
  -- split into the two bits
  have hE : (1 ^^^ 1 <<< d) <<< (s + 24) = (1 <<< (s + 24)) ^^^ (1 <<< (d + (s + 24))) := by
    rw [Nat.shiftLeft_xor_distrib, ← Nat.shiftLeft_add]
  have hb1 : (1 : Nat) <<< (s + 24) < 2 ^ (8 * e.length + 24) := by
    rw [hE] at hlt
    apply Nat.lt_pow_two_of_testBit
    intro j hj
    have hx := Nat.testBit_lt_two_pow (Nat.lt_of_lt_of_le hlt (Nat.pow_le_pow_right (by omega) hj))
    rw [Nat.testBit_xor] at hx
    simp only [Nat.one_shiftLeft, Nat.testBit_two_pow] at hx ⊢
    by_cases h1 : s + 24 = j
    · have : ¬ (d + (s + 24) = j) := by omega
      simp [h1, this] at hx
      omega
    · simp [h1]
  have hb2 : (1 : Nat) <<< (d + (s + 24)) < 2 ^ (8 * e.length + 24) := by
    rw [hE] at hlt
    apply Nat.lt_pow_two_of_testBit
    intro j hj
    have hx := Nat.testBit_lt_two_pow (Nat.lt_of_lt_of_le hlt (Nat.pow_le_pow_right (by omega) hj))
    rw [Nat.testBit_xor] at hx
    simp only [Nat.one_shiftLeft, Nat.testBit_two_pow] at hx ⊢
    by_cases h1 : d + (s + 24) = j
    · have : ¬ (s + 24 = j) := by omega
      simp [h1, this] at hx
    · simp [h1]
  rw [hE, polyModAux_xor _ _ _ hb1 hb2,
    polyModAux_small_shift _ _ 1 (by decide) hb1, polyModAux_small_shift _ _ 1 (by decide) hb2] at h0
  -- stepZn (s+24) 1 = stepZn (d + (s+24)) 1  contradicts the orbit check
  have hadd : ∀ a b r, stepZn (a + b) r = stepZn b (stepZn a r) := by
    intro a b r
    induction a generalizing r with
    | zero => simp [stepZn]
    | succ a ih => rw [show a + 1 + b = (a + b) + 1 by omega]; simp only [stepZn]; exact ih _
  have hlin : ∀ j a b, a < 2 ^ 24 → b < 2 ^ 24 → stepZn j (a ^^^ b) = stepZn j a ^^^ stepZn j b := by
    intro j a b ha hb
    have h1 := polyModAux_small_shift j j a ha (by
      rw [Nat.shiftLeft_eq, Nat.pow_add, Nat.mul_comm]; exact Nat.mul_lt_mul_of_pos_left ha (Nat.two_pow_pos j))
    have h2 := polyModAux_small_shift j j b hb (by
      rw [Nat.shiftLeft_eq, Nat.pow_add, Nat.mul_comm]; exact Nat.mul_lt_mul_of_pos_left hb (Nat.two_pow_pos j))
    have hab := Nat.xor_lt_two_pow ha hb
    have h3 := polyModAux_small_shift j j (a ^^^ b) hab (by
      rw [Nat.shiftLeft_eq, Nat.pow_add, Nat.mul_comm]; exact Nat.mul_lt_mul_of_pos_left hab (Nat.two_pow_pos j))
    rw [← h1, ← h2, ← h3, Nat.shiftLeft_xor_distrib]
    apply polyModAux_xor
    · rw [Nat.shiftLeft_eq, Nat.pow_add, Nat.mul_comm]; exact Nat.mul_lt_mul_of_pos_left ha (Nat.two_pow_pos j)
    · rw [Nat.shiftLeft_eq, Nat.pow_add, Nat.mul_comm]; exact Nat.mul_lt_mul_of_pos_left hb (Nat.two_pow_pos j)
  rw [hadd d (s + 24) 1, ← hlin (s + 24) 1 (stepZn d 1) (by decide) (stepZn_lt d 1 (by decide))] at h0
  have hz := stepZn_eq_zero _ _ h0
  have : stepZn d 1 = 1 := by
    have := congrArg (1 ^^^ ·) hz
    simpa [← Nat.xor_assoc] using this
  exact orbitCheck_sound 8231 1 orbit_8231 d hd1 hd this

end Rtcm
