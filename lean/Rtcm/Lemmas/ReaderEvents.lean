import Rtcm.Model.Reader
/-
  Event-level facts about one pass of the reader loop: no foreign exception, no `stuck`,
  raises only in raise mode.
-/
namespace Rtcm

theorem construct_not_foreign (T : Tables) (p : Option Bytes) (l : Nat) : (construct T p l).isForeign = false := by
  unfold construct
  split
  · rfl
  · split
    · rfl
    · rfl
    · split
      · rfl
      · split <;> rfl

theorem parse_not_foreign (T : Tables) (buf : Bytes) (v l : Nat) : (parse T buf v l).isForeign = false := by
  unfold parse
  split
  · rfl
  · exact construct_not_foreign T _ l

def Event.isForeign : Event → Bool | .foreign _ => true | _ => false
def Event.isRaised : Event → Bool | .raised _ => true | _ => false
def Event.isStuck : Event → Bool | .stuck => true | _ => false

def Step.events : Step σ → List Event | .again e _ => e | .done e _ => e

def EvOk (T : Tables) (o : Opts) (ev : Event) : Prop :=
  ev.isForeign = false ∧ ev.isStuck = false
    ∧ (ev.isRaised = true → o.quitonerror = T.errRaise ∧ o.quitonerror ≠ 0)

theorem onError_events (T : Tables) (o : Opts) (e : LibErr) (s : σ) :
    ∀ ev ∈ (onError T o e s).events, EvOk T o ev := by
  unfold onError
  intro ev hev
  by_cases h0 : o.quitonerror = 0
  · rw [if_pos h0] at hev; simp [Step.events] at hev
  · rw [if_neg h0] at hev
    by_cases h1 : o.quitonerror = T.errRaise
    · rw [if_pos h1] at hev
      simp only [Step.events, List.mem_singleton] at hev
      subst hev
      exact ⟨rfl, rfl, fun _ => ⟨h1, h0⟩⟩
    · rw [if_neg h1] at hev
      by_cases h2 : o.quitonerror = T.errLog
      · rw [if_pos h2] at hev
        simp only [Step.events, List.mem_singleton] at hev
        subst hev
        exact ⟨rfl, rfl, fun h => by simp [Event.isRaised] at h⟩
      · rw [if_neg h2] at hev; simp [Step.events] at hev

theorem evok_stop (T : Tables) (o : Opts) (s' : σ) : ∀ ev ∈ (Step.done [Event.stop] s').events, EvOk T o ev := by
  intro ev hev; simp [Step.events] at hev; subst hev
  exact ⟨rfl, rfl, fun h => by simp [Event.isRaised] at h⟩

theorem evok_nil (T : Tables) (o : Opts) (s' : σ) : ∀ ev ∈ (Step.again [] s').events, EvOk T o ev := by
  intro ev hev; simp [Step.events] at hev

theorem evok_frame (T : Tables) (o : Opts) (s' : σ) (raw : Bytes) (m : Option Msg) :
    ∀ ev ∈ (Step.done [Event.frame raw m] s').events, EvOk T o ev := by
  intro ev hev; simp [Step.events] at hev; subst hev
  exact ⟨rfl, rfl, fun h => by simp [Event.isRaised] at h⟩

theorem parseRtcm3_events (ops : StreamOps σ) (T : Tables) (o : Opts) (b1 b2 : UInt8) (s : σ) :
    ∀ ev ∈ (parseRtcm3 ops T o b1 b2 s).events, EvOk T o ev := by
  unfold parseRtcm3
  dsimp only
  repeat' split
  all_goals first
    | exact evok_stop T o _
    | exact evok_nil T o _
    | exact onError_events T o _ _
    | exact evok_frame T o _ _ _
    | (rename_i e he
       exact absurd (parse_not_foreign T _ _ _) (by rw [he]; simp [Outcome.isForeign]))

theorem parseUbx_events (ops : StreamOps σ) (T : Tables) (o : Opts) (s : σ) :
    ∀ ev ∈ (parseUbx ops T o s).events, EvOk T o ev := by
  unfold parseUbx
  dsimp only
  repeat' split
  all_goals first
    | exact evok_stop T o _
    | exact evok_nil T o _
    | exact onError_events T o _ _

theorem parseNmea_events (ops : StreamOps σ) (T : Tables) (o : Opts) (s : σ) :
    ∀ ev ∈ (parseNmea ops T o s).events, EvOk T o ev := by
  unfold parseNmea
  repeat' split
  all_goals first
    | exact evok_stop T o _
    | exact evok_nil T o _
    | exact onError_events T o _ _

/-- one pass through the loop body emits no foreign exception (because `parse` cannot) and raises
    only in raise mode -/
theorem iter_events (ops : StreamOps σ) (T : Tables) (o : Opts) (s : σ) :
    ∀ ev ∈ (iter ops T o s).events, EvOk T o ev := by
  unfold iter
  dsimp only
  repeat' split
  all_goals first
    | exact evok_stop T o _
    | exact evok_nil T o _
    | exact onError_events T o _ _
    | exact parseRtcm3_events ops T o _ _ _
    | exact parseUbx_events ops T o _
    | exact parseNmea_events ops T o _

end Rtcm

namespace Rtcm

end Rtcm
