import Rtcm.Lemmas.Helpers
import Rtcm.Model.Names
import Rtcm.Model.WF
import Rtcm.Gen.Tables
/-
  C18 — MSM and harmonic-coefficient array helpers agree with the flat attributes.
-/
namespace Rtcm

abbrev T18 := Rtcm.Gen.tables

/-- names of the plain fields directly inside the groups counted by attribute `cfid` -/
def groupFieldNames (T : Tables) (cfid : Nat) : List Item → List Label
  | [] => []
  | .group (.attr f _) body :: rest =>
    (if f = cfid then body.filterMap (fun it => match it with | .field x => some (T.fieldName x) | _ => none) else [])
      ++ groupFieldNames T cfid rest
  | _ :: rest => groupFieldNames T cfid rest

/-- every field that an MSM definition lays out per satellite / per cell is in the helper's
    attribute list: the helper cannot silently drop a decoded field -/
theorem C18_helper_lists_complete :
    ∀ e ∈ T18.msm,
      (groupFieldNames T18 T18.fidNSat e.2).all (fun n => msmSatAttrs.contains n) = true
      ∧ (groupFieldNames T18 T18.fidNCell e.2).all (fun n => msmCellAttrs.contains n) = true := by
  decide +kernel

/-- for every MSM definition the constellation's epoch field named by GNSSMAP is a top-level field
    of that definition (so `meta["epoch"]` exists) and DF003 too -/
theorem C18_epoch_in_def :
    ∀ e ∈ T18.msm, (match (ident3 e.1).bind (assocGet T18.gnssmap) with
      | some (_, epoch) => e.2.any (fun it => match it with | .field x => x == epoch | _ => false)
          && e.2.any (fun it => match it with | .field x => some x == T18.special.df003 | _ => false)
      | none => false) = true := by
  decide +kernel

/-- the constellation names and epoch fields of GNSSMAP are the pinned ones (RTCM 10403.3 MSM
    header: GPS / SBAS DF004, GLONASS DF034, Galileo DF248, QZSS DF428, BeiDou DF427, NavIC DF546) -/
theorem C18_epoch_fields_pinned :
    ([(107, strL "GPS", strL "DF004"), (108, strL "GLONASS", strL "DF034"), (109, strL "GALILEO", strL "DF248"),
      (110, strL "SBAS", strL "DF004"), (111, strL "QZSS", strL "DF428"), (112, strL "BEIDOU", strL "DF427"),
      (113, strL "NAVIC", strL "DF546")].all fun p =>
        (T18.gnssmap.map (fun g => (g.1, g.2.1, T18.fieldName g.2.2))).contains p) = true := by decide +kernel

/-- the helper returns nothing for a message that is not MSM -/
theorem C18_non_msm_none (T : Tables) (m : Msg) (h : m.ismsm T = false) : parseMsm T m = .ok none := by
  simp [parseMsm, h]

/-- … and nothing — rather than raising — for a message number that is merely reserved for MSM:
    such a message is a stub whose only attribute is DF002, so it has no NSat -/
theorem C18_reserved_msm_none (T : Tables) (p : Bytes) (l : Nat) (id : Ident) (m : Msg)
    (hid : identity p = .ok id) (hnone : getDict T id = none) (hc : construct T (some p) l = .ok m)
    (hname : T.fieldName ((T.special.df002).getD 0) ≠ strL "NSat") :
    parseMsm T m = .ok none := by
  have hm : m = ⟨p, l, id, true, [(((T.special.df002).getD 0, []), .text id.str)], true⟩ := by
    simp [construct, hid, hnone] at hc
    exact hc.symm
  subst hm
  unfold parseMsm
  split
  · rfl
  · have : Msg.getByName T ⟨p, l, id, true, [(((T.special.df002).getD 0, []), .text id.str)], true⟩ (strL "NSat") = none := by
      simp [Msg.getByName, render, renderName, hname]
    rw [this]

theorem C18_df002_is_not_NSat : T18.fieldName ((T18.special.df002).getD 0) ≠ strL "NSat" := by decide +kernel

/-- the coefficient helper returns nothing for every identity other than 4076_201 -/
theorem C18_other_identity_none (T : Tables) (m : Msg) (h : m.id ≠ ⟨4076, some 201⟩) :
    parse4076_201 T m = .ok none := by
  simp [parse4076_201, h]

/-- each satellite / cell row holds, for every listed attribute present on the message, exactly the
    value of the correspondingly indexed attribute, in list order -/
theorem C18_rows_are_indexed_attributes (T : Tables) (m : Msg) (names : List Label) (n i : Nat) (hi : i < n) :
    (rowsFor T m names n)[i]? = some (names.filterMap fun a =>
      (m.getByName T (renderName a [i + 1])).map fun v => (a, v)) := by
  simp [rowsFor, hi]

theorem C18_row_count (T : Tables) (m : Msg) (names : List Label) (n : Nat) : (rowsFor T m names n).length = n := by
  simp [rowsFor]

/-- the coefficient run of a layer is exactly the attributes `field_LL_01, field_LL_02, …` up to the
    first missing one: with `k` of them present and the next absent it returns those `k` values -/
theorem C18_coeff_run (T : Tables) (m : Msg) (field : Label) (lyr : Nat) :
    ∀ (fuel i : Nat) (vals : List Val),
      (∀ j, j < vals.length → m.getByName T (renderName field [lyr, i + j]) = vals[j]?) →
      m.getByName T (renderName field [lyr, i + vals.length]) = none → vals.length < fuel →
      coeffRun T m field lyr fuel i = vals
  | 0, _, _, _, _, h => by omega
  | fuel + 1, i, [], _, hend, _ => by
    simp only [coeffRun]
    simp at hend
    rw [hend]
  | fuel + 1, i, v :: vs, hv, hend, hf => by
    simp only [coeffRun]
    have h0 := hv 0 (by simp)
    simp at h0
    rw [h0]
    simp only
    congr 1
    apply C18_coeff_run T m field lyr fuel (i + 1) vs
    · intro j hj
      have := hv (j + 1) (by simp; omega)
      simp at this
      rw [show i + 1 + j = i + (j + 1) by omega]
      exact this
    · simp at hend
      rw [show i + 1 + vs.length = i + (vs.length + 1) by omega]
      exact hend
    · simp at hf; omega

/-! ### `tow2utc`: the epoch helper that turns a GPS time of week (ms) into a UTC time of day -/

/-- the result is always a valid time of day with whole milliseconds -/
theorem C18_tow2utc_valid (tow : Int) :
    (tow2utc tow).h < 24 ∧ (tow2utc tow).m < 60 ∧ (tow2utc tow).s < 60 ∧ (tow2utc tow).us < 1000000 ∧
      (tow2utc tow).us % 1000 = 0 := tow2utc_range tow

/-- it depends on the time of week only modulo one day (hence also modulo the GPS week) -/
theorem C18_tow2utc_periodic (tow k : Int) : tow2utc (tow + 86400000 * k) = tow2utc tow :=
  tow2utc_periodic tow k

/-- the 18 leap seconds: TOW 18 s is UTC midnight; TOW 0 is 23:59:42 of the previous day -/
example : tow2utc 18000 = ⟨0, 0, 0, 0⟩ ∧ tow2utc 0 = ⟨23, 59, 42, 0⟩ ∧ tow2utc 604799999 = ⟨23, 59, 41, 999000⟩ := by decide

end Rtcm
