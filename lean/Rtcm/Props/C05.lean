import Rtcm.Lemmas.ReaderItems
import Rtcm.Props.C02
/-
  C05 — a damaged frame costs exactly that frame; error modes differ only in reporting.
-/
namespace Rtcm

/-- one frame of the stream: undamaged (`good`) or with bits flipped behind the 3-byte header
    (`bad f e`: the frame `f` XOR the error pattern `0 0 0 ++ e`) -/
inductive DFrame
  | good (f : Bytes)
  | bad (f e : Bytes)

def DFrame.bytes : DFrame → Bytes
  | .good f => f
  | .bad f e => xorBytes f ([0, 0, 0] ++ e)

/-- the frame is valid (framed, checksum correct, parses); damage has the frame's length and is a
    pattern the CRC detects (C08: 1–3 flipped bits, any odd number, bursts ≤ 24 bits, …) -/
def DFrame.Valid (T : Tables) (o : Opts) : DFrame → Prop
  | .good f => Framed f ∧ ∃ m, parse T f o.validate o.label = .ok m
  | .bad f e => Framed f ∧ calcCrc24q f = 0 ∧ e.length + 3 = f.length ∧ calcCrc24q ([0, 0, 0] ++ e) ≠ 0

theorem xorBytes_append (a b c d : Bytes) (h : a.length = c.length) :
    xorBytes (a ++ b) (c ++ d) = xorBytes a c ++ xorBytes b d := by
  simp [xorBytes, List.zipWith_append, h]

/-- damage behind the header leaves the frame framed: same preamble, same length field, same size -/
theorem damaged_framed (f e : Bytes) (hf : Framed f) (hl : e.length + 3 = f.length) :
    Framed (xorBytes f ([0, 0, 0] ++ e)) := by
  obtain ⟨hi, lo, p, c, rfl, hhi, hp, hc⟩ := hf.shape
  have hlen : e.length = p.length + c.length := by simp at hl; omega
  refine ⟨⟨hi, lo, xorBytes p (e.take p.length), xorBytes c (e.drop p.length), ?_, hhi, ?_, ?_⟩⟩
  · have e1 : ([0xd3, hi, lo] ++ p ++ c : Bytes) = [0xd3, hi, lo] ++ (p ++ c) := by simp
    rw [e1, xorBytes_append [0xd3, hi, lo] (p ++ c) [0, 0, 0] e (by simp)]
    have e2 : e = e.take p.length ++ e.drop p.length := (List.take_append_drop _ _).symm
    conv => lhs; rw [e2]
    rw [xorBytes_append _ _ _ _ (by simp [List.length_take]; omega)]
    simp [xorBytes]
  · rw [xorBytes_length _ _ (by simp [List.length_take]; omega), hp]
  · rw [xorBytes_length _ _ (by simp [List.length_drop]; omega), hc]

theorem DFrame.item_valid (T : Tables) (o : Opts) (d : DFrame) (h : d.Valid T o) : (SItem.frame d.bytes).Valid T := by
  cases d with
  | good f => exact h.1
  | bad f e => exact damaged_framed f e h.1 h.2.2.1

/-- with validation on, a damaged frame is rejected with a parse error (C08) -/
theorem damaged_parse (T : Tables) (o : Opts) (f e : Bytes) (hv : o.validate &&& T.valcksum ≠ 0)
    (h : (DFrame.bad f e).Valid T o) : parse T (DFrame.bad f e).bytes o.validate o.label = .lib .parse := by
  obtain ⟨_, hcrc, hl, hdet⟩ := h
  unfold parse DFrame.bytes
  rw [if_pos ⟨hv, by rw [crc_damaged f _ (by simp; omega) hcrc]; exact hdet⟩]

/-- the events of one frame of the stream under the reader's error mode -/
def DFrame.events (T : Tables) (o : Opts) : DFrame → List Event
  | .good f => match parse T f o.validate o.label with
    | .ok m => [.frame f (some m)]
    | _ => []
  | .bad _ _ => errEvents T o .parse

/-- **Main theorem**: the exact event sequence.  For every stream of valid frames, every subset
    damaged in a detectable way, and every error mode: each good frame yields itself, each damaged
    frame yields only its error report (nothing / one handler call / one raised parse error), in
    stream order, and the iteration then stops cleanly.  The damaged frame consumed exactly its own
    bytes: the frames behind it are found where they are. -/
theorem C05_event_sequence (o : Opts) (ds : List DFrame) (hp : o.parsed = true)
    (hv : o.validate &&& T2.valcksum ≠ 0) (hd : ∀ d ∈ ds, d.Valid T2 o) :
    run fileOps T2 o true (fs (ds.map DFrame.bytes).flatten) = (ds.map (DFrame.events T2 o)).flatten ++ [.stop] := by
  have hitems := run_items T2 C02_reader_consts o (ds.map fun d => SItem.frame d.bytes) (by
    intro it hit
    simp at hit
    obtain ⟨d, hd', rfl⟩ := hit
    exact DFrame.item_valid T2 o d (hd d hd'))
  have e1 : streamOf (ds.map fun d => SItem.frame d.bytes) = (ds.map DFrame.bytes).flatten := by
    simp [streamOf, SItem.bytes, Function.comp_def]
  rw [e1] at hitems
  rw [hitems]
  simp only [expect, List.map_map]
  congr 2
  apply List.map_congr_left
  intro d hdm
  simp only [Function.comp, SItem.events, hp, if_true]
  cases d with
  | good f =>
    obtain ⟨_, m, hm⟩ := hd _ hdm
    simp [DFrame.bytes, DFrame.events, hm]
  | bad f e =>
    rw [damaged_parse T2 o f e hv (hd _ hdm)]
    rfl

def goods (T : Tables) (o : Opts) : List DFrame → List (Bytes × Option Msg)
  | [] => []
  | .good f :: rest => (match parse T f o.validate o.label with | .ok m => [(f, some m)] | _ => []) ++ goods T o rest
  | .bad _ _ :: rest => goods T o rest

def nbad : List DFrame → Nat
  | [] => 0
  | .good _ :: rest => nbad rest
  | .bad _ _ :: rest => nbad rest + 1

def countHandlers : List Event → Nat
  | [] => 0
  | .handler _ :: rest => countHandlers rest + 1
  | _ :: rest => countHandlers rest

def countRaised : List Event → Nat
  | [] => 0
  | .raised _ :: rest => countRaised rest + 1
  | _ :: rest => countRaised rest

theorem countHandlers_append (a b : List Event) : countHandlers (a ++ b) = countHandlers a + countHandlers b := by
  induction a with
  | nil => simp [countHandlers]
  | cons e rest ih => cases e <;> simp [countHandlers, ih] <;> omega

theorem countRaised_append (a b : List Event) : countRaised (a ++ b) = countRaised a + countRaised b := by
  induction a with
  | nil => simp [countRaised]
  | cons e rest ih => cases e <;> simp [countRaised, ih] <;> omega

theorem counts_of_events (o : Opts) (ds : List DFrame) :
    let E := (ds.map (DFrame.events T2 o)).flatten
    frames E = goods T2 o ds
    ∧ (o.quitonerror = 0 → countHandlers E = 0 ∧ countRaised E = 0)
    ∧ (o.quitonerror = T2.errLog → countHandlers E = nbad ds ∧ countRaised E = 0)
    ∧ (o.quitonerror = T2.errRaise → countRaised E = nbad ds ∧ countHandlers E = 0) := by
  have hlog : T2.errLog = 1 := by decide +kernel
  have hraise : T2.errRaise = 2 := by decide +kernel
  induction ds with
  | nil => simp [frames, goods, countHandlers, countRaised, nbad]
  | cons d rest ih =>
    simp only at ih ⊢
    simp only [List.map_cons, List.flatten_cons, frames_append, countHandlers_append, countRaised_append]
    cases d with
    | good f =>
      simp only [DFrame.events, goods, nbad]
      cases parse T2 f o.validate o.label with
      | ok m =>
        simp only [frames, countHandlers, countRaised, List.cons_append, List.nil_append, Nat.zero_add]
        exact ⟨by rw [ih.1], ih.2⟩
      | lib e =>
        simp only [frames, countHandlers, countRaised, List.nil_append, Nat.zero_add]
        exact ih
      | foreign e =>
        simp only [frames, countHandlers, countRaised, List.nil_append, Nat.zero_add]
        exact ih
    | bad f e =>
      simp only [DFrame.events, goods, nbad, frames_errEvents, List.nil_append]
      refine ⟨ih.1, ?_, ?_, ?_⟩
      · intro h0
        have := ih.2.1 h0
        simp only [errEvents, if_pos h0, countHandlers, countRaised, Nat.zero_add]
        exact this
      · intro h1
        have := ih.2.2.1 h1
        have h0 : o.quitonerror ≠ 0 := by rw [h1, hlog]; decide
        have h2 : o.quitonerror ≠ T2.errRaise := by rw [h1, hlog, hraise]; decide
        simp only [errEvents, if_neg h0, if_neg h2, if_pos h1, countHandlers, countRaised]
        omega
      · intro h2
        have := ih.2.2.2 h2
        have h0 : o.quitonerror ≠ 0 := by rw [h2, hraise]; decide
        simp only [errEvents, if_neg h0, if_pos h2, countHandlers, countRaised]
        omega

/-- the reader returns exactly the undamaged frames, in order, in all three modes; the error handler
    is called once per damaged frame in log mode and never in ignore mode; in raise mode exactly one
    parse error is raised per damaged frame (and the same reader keeps working afterwards) -/
theorem C05_frames_and_reports (o : Opts) (ds : List DFrame) (hp : o.parsed = true)
    (hv : o.validate &&& T2.valcksum ≠ 0) (hd : ∀ d ∈ ds, d.Valid T2 o) :
    frames (run fileOps T2 o true (fs (ds.map DFrame.bytes).flatten)) = goods T2 o ds
    ∧ (o.quitonerror = 0 → countHandlers (run fileOps T2 o true (fs (ds.map DFrame.bytes).flatten)) = 0
        ∧ countRaised (run fileOps T2 o true (fs (ds.map DFrame.bytes).flatten)) = 0)
    ∧ (o.quitonerror = T2.errLog → countHandlers (run fileOps T2 o true (fs (ds.map DFrame.bytes).flatten)) = nbad ds
        ∧ countRaised (run fileOps T2 o true (fs (ds.map DFrame.bytes).flatten)) = 0)
    ∧ (o.quitonerror = T2.errRaise → countRaised (run fileOps T2 o true (fs (ds.map DFrame.bytes).flatten)) = nbad ds
        ∧ countHandlers (run fileOps T2 o true (fs (ds.map DFrame.bytes).flatten)) = 0) := by
  rw [C05_event_sequence o ds hp hv hd]
  have h := counts_of_events o ds
  simp only at h
  simp only [frames_append, countHandlers_append, countRaised_append, frames, countHandlers, countRaised,
    List.append_nil, Nat.add_zero]
  exact h

/-- the same event sequence — good frames in order, one handler call / raise per damaged frame —
    over every exact socket connection delivering the stream (any segmentation, any buffer size) -/
theorem C05_event_sequence_over_socket (dec : Bytes → Bytes) (R : Sock → Bytes → Prop) (E : Exact dec R)
    (o : Opts) (ds : List DFrame) (hp : o.parsed = true)
    (hv : o.validate &&& T2.valcksum ≠ 0) (hd : ∀ d ∈ ds, d.Valid T2 o)
    (s : Sock) (h : R s (ds.map DFrame.bytes).flatten) :
    run (sockOps dec) T2 o true s = (ds.map (DFrame.events T2 o)).flatten ++ [.stop] := by
  have e1 : streamOf (ds.map fun d => SItem.frame d.bytes) = (ds.map DFrame.bytes).flatten := by
    simp [streamOf, SItem.bytes, Function.comp_def]
  have := C02_events_over_exact_connection dec R E o (ds.map fun d => SItem.frame d.bytes) (by
    intro it hit
    simp at hit
    obtain ⟨d, hd', rfl⟩ := hit
    exact DFrame.item_valid T2 o d (hd d hd')) s (by rw [e1]; exact h)
  rw [this, e1]
  exact C05_event_sequence o ds hp hv hd

/-- non-vacuity: a one-bit error pattern behind the header is a valid damage of a valid frame -/
example : (DFrame.bad [0xd3, 0, 2, 0xff, 0xf0, 13, 77, 124] [0, 0x10, 0, 0, 0]).Valid T2 ⟨1, 1, 1, true⟩ := by
  refine ⟨⟨⟨0, 2, [0xff, 0xf0], [13, 77, 124], rfl, by decide, by decide, by decide⟩⟩, by decide +kernel, by decide, by decide +kernel⟩

end Rtcm
