import Rtcm.Model.Message
import Rtcm.Gen.Tables
/-
  C14 — parsed messages are immutable.
  In the model a message is a value; `Msg.setattr` is `__setattr__` after construction.  The content
  of the property is (a) every constructed message has the immutable flag set — for every identity,
  implemented or stub — and (b) with the flag set every assignment, whatever the name, is the
  library's message error and leaves the whole state (hence payload, identity, attribute values,
  string form and serialised bytes, which are functions of the state) unchanged.
-/
namespace Rtcm

/-- every successfully constructed message is immutable (known types and unknown stubs alike) -/
theorem C14_constructed_is_immutable (T : Tables) (p : Option Bytes) (l : Nat) (m : Msg)
    (h : construct T p l = .ok m) : m.immutable = true := by
  unfold construct at h
  split at h
  · simp at h
  · split at h
    · simp at h
    · simp at h
    · split at h
      · injection h with h; rw [← h]
      · split at h
        · simp at h
        · injection h with h; rw [← h]

/-- one assignment attempt on an immutable message: message error, state unchanged -/
theorem C14_setattr (m : Msg) (h : m.immutable = true) (name : Label) (v : Val) :
    m.setattr name v = (m, .lib .message) := by
  simp [Msg.setattr, h]

/-- any sequence of attempted assignments -/
def attempts (m : Msg) : List (Label × Val) → Msg × List (Outcome Unit)
  | [] => (m, [])
  | (n, v) :: rest =>
    let r := m.setattr n v
    let r' := attempts r.1 rest
    (r'.1, r.2 :: r'.2)

theorem C14_all_attempts_fail_and_state_unchanged (T : Tables) (p : Option Bytes) (l : Nat) (m : Msg)
    (hc : construct T p l = .ok m) (ops : List (Label × Val)) :
    (attempts m ops).1 = m ∧ ∀ r ∈ (attempts m ops).2, r = .lib .message := by
  have him := C14_constructed_is_immutable T p l m hc
  induction ops with
  | nil => simp [attempts]
  | cons o rest ih =>
    obtain ⟨n, v⟩ := o
    simp only [attempts, C14_setattr m him]
    exact ⟨ih.1, by intro r hr; simp at hr; rcases hr with h | h; exact h; exact ih.2 r h⟩

/-- consequently everything observable is unchanged: serialised bytes, identity, attributes, payload -/
theorem C14_observables_unchanged (T : Tables) (p : Option Bytes) (l : Nat) (m : Msg)
    (hc : construct T p l = .ok m) (ops : List (Label × Val)) :
    let m' := (attempts m ops).1
    m'.serialize T = m.serialize T ∧ m'.id = m.id ∧ m'.attrs = m.attrs ∧ m'.payload = m.payload := by
  simp [(C14_all_attempts_fail_and_state_unchanged T p l m hc ops).1]

/-- non-vacuity: a concrete 1005 message and a concrete unknown-type stub are constructed -/
example : (construct Gen.tables (some [0x3e, 0xd0, 0, 3, 0, 0, 0, 0, 0, 0, 0, 0, 0, 0, 0, 0, 0, 0, 0]) 1).isOk = true := by
  decide +kernel
example : (construct Gen.tables (some [0xff, 0xf0, 1]) 1).isOk = true := by decide +kernel

end Rtcm
