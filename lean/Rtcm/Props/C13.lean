import Rtcm.Model.Message
import Rtcm.Gen.Tables
/-
  C13 — a parse result depends only on the bytes parsed, not on history or threads.
  The model of a parse is a *function* of (tables, bytes, option): there is no state a history
  could touch.  The theorems below say exactly that about histories of operations; that the
  *implementation* behaves like this function is what the correspondence run checks (same payloads
  after different histories and from concurrent threads must all equal the model's single answer,
  and the translator's output must be identical before and after the workload).
  PARTIAL: thread interleavings of CPython are sampled by the harness, not proved.
-/
namespace Rtcm

inductive Op
  | msg (payload : Option Bytes) (label : Nat)
  | parse (frame : Bytes) (validate : Nat) (label : Nat)

/-- result of one operation; tables are constants -/
def Op.result (T : Tables) : Op → Outcome Msg
  | .msg p l => construct T p l
  | .parse f v l => Rtcm.parse T f v l

/-- a history is executed by threading the (constant) tables through the operations -/
def runHistory (T : Tables) : List Op → Tables × List (Outcome Msg)
  | [] => (T, [])
  | o :: rest =>
    let r := runHistory T rest
    (r.1, o.result T :: r.2)

/-- parsing never modifies the tables -/
theorem C13_tables_unchanged (T : Tables) (h : List Op) : (runHistory T h).1 = T := by
  induction h with
  | nil => rfl
  | cons o rest ih => simp [runHistory, ih]

/-- every result in a history is the result of that operation alone -/
theorem C13_history_independent (T : Tables) (h : List Op) :
    (runHistory T h).2 = h.map (Op.result T) := by
  induction h with
  | nil => rfl
  | cons o rest ih => simp [runHistory, ih]

/-- the same operation gives the same result wherever it occurs in whatever histories -/
theorem C13_same_bytes_same_result (T : Tables) (h₁ h₂ : List Op) (i j : Nat) (o : Op)
    (hi : h₁[i]? = some o) (hj : h₂[j]? = some o) :
    (runHistory T h₁).2[i]? = (runHistory T h₂).2[j]? := by
  simp [C13_history_independent, hi, hj]

/-- non-vacuity: a history with a failing and a succeeding parse -/
example : ((runHistory Gen.tables [.msg (some []) 1, .msg (some [0xff, 0xf0, 1]) 1]).2.map Outcome.isOk) = [false, true] := by
  decide +kernel

end Rtcm
