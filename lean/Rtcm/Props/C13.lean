import Rtcm.Model.Message
import Rtcm.Lemmas.Machine
import Rtcm.Gen.Tables
/-
  C13 — a parse result depends only on the bytes parsed, not on history or threads.
  The model of a parse is a *function* of (tables, bytes, option): there is no state a history
  could touch.  The theorems below say exactly that about histories of operations; that the
  *implementation* behaves like this function is what the correspondence run checks (same payloads
  after different histories and from concurrent threads must all equal the model's single answer,
  and the translator's output must be identical before and after the workload).
  Threads: `Model/Machine.lean` is a small-step version of the constructor (one step = at most one
  field, or one piece of group / optional control) and a pool of such threads run under an arbitrary
  schedule over shared read-only tables.  `C13_threads_*` prove that in that pool no schedule —
  any interleaving, any unfairness, any number of threads — changes what a thread computes: when it
  has a result, it is `construct` of its own arguments, and every schedule that gives each thread
  enough turns ends with exactly the sequential results.  What this rests on, and what a proof about
  the model cannot establish, is that a step of the *implementation* touches only the instance and
  its locals; the correspondence run samples exactly that (concurrent threads at a minimal switch
  interval, tables digested before and after).  `C13_threads_any_granularity` states the same for
  any private state type and any atomic step that is a function of (tables, own state), so the
  choice of one field per step is not essential.
-/
namespace Rtcm

inductive Op
  | msg (payload : Option Bytes) (label : Nat)
  | parse (frame : Bytes) (validate : Nat) (label : Nat)

/-- result of one operation; tables are constants -/
def Op.result (T : Tables) : Op → Outcome Msg
  | .msg p l => construct T p l
  | .parse f v l => Rtcm.parse T f v l

/-- a history is executed by threading the (constant) tables through the operations -/
def runHistory (T : Tables) : List Op → Tables × List (Outcome Msg)
  | [] => (T, [])
  | o :: rest =>
    let r := runHistory T rest
    (r.1, o.result T :: r.2)

/-- parsing never modifies the tables -/
theorem C13_tables_unchanged (T : Tables) (h : List Op) : (runHistory T h).1 = T := by
  induction h with
  | nil => rfl
  | cons o rest ih => simp [runHistory, ih]

/-- every result in a history is the result of that operation alone -/
theorem C13_history_independent (T : Tables) (h : List Op) :
    (runHistory T h).2 = h.map (Op.result T) := by
  induction h with
  | nil => rfl
  | cons o rest ih => simp [runHistory, ih]

/-- the same operation gives the same result wherever it occurs in whatever histories -/
theorem C13_same_bytes_same_result (T : Tables) (h₁ h₂ : List Op) (i j : Nat) (o : Op)
    (hi : h₁[i]? = some o) (hj : h₂[j]? = some o) :
    (runHistory T h₁).2[i]? = (runHistory T h₂).2[j]? := by
  simp [C13_history_independent, hi, hj]

/-! ### threads -/

/-- a pool of threads, each about to call `RTCMMessage(payload, labelmsm)` -/
def jobs (js : List (Option Bytes × Nat)) : List TState := js.map fun j => .start j.1 j.2

/-- whatever the schedule, a thread that has a result has the sequential result of its own
    arguments: nothing the other threads did, and no order in which they did it, shows -/
theorem C13_threads_noninterference (T : Tables) (js : List (Option Bytes × Nat)) (sched : List Nat)
    (t : Nat) (j : Option Bytes × Nat) (hj : js[t]? = some j) (r : Outcome Msg)
    (h : (poolRun T (jobs js) sched)[t]?.bind TState.result = some r) :
    r = construct T j.1 j.2 := by
  rw [pool_get] at h
  simp only [jobs, List.getElem?_map, hj, Option.map_some, Option.bind_some] at h
  exact thread_result T j.1 j.2 _ r h

/-- a thread's state after a schedule depends only on the number of turns it had -/
theorem C13_threads_only_own_turns (T : Tables) (js : List (Option Bytes × Nat)) (s₁ s₂ : List Nat)
    (t : Nat) (h : s₁.count t = s₂.count t) :
    (poolRun T (jobs js) s₁)[t]? = (poolRun T (jobs js) s₂)[t]? := by
  rw [pool_get, pool_get, h]

/-- every thread finishes: there is a number of turns after which, under every schedule that
    gives each thread at least that many, all results are there and are the sequential ones -/
theorem C13_threads_fair_schedules (T : Tables) (js : List (Option Bytes × Nat)) :
    ∃ N, ∀ sched : List Nat, (∀ t, t < js.length → N ≤ sched.count t) →
      (poolRun T (jobs js) sched).map TState.result = js.map fun j => some (construct T j.1 j.2) := by
  -- a bound for every job
  have hb : ∃ N, ∀ j ∈ js, ∀ n, N ≤ n →
      (TState.steps T n (.start j.1 j.2)).result = some (construct T j.1 j.2) := by
    induction js with
    | nil => exact ⟨0, by simp⟩
    | cons j rest ih =>
      obtain ⟨N, hN⟩ := ih
      obtain ⟨n₀, h₀⟩ := thread_finishes T j.1 j.2
      refine ⟨max N n₀, ?_⟩
      intro j' hj' n hn
      rcases List.mem_cons.mp hj' with rfl | hm
      · have : n = n₀ + (n - n₀) := by omega
        rw [this, TState.steps_add]
        cases hs : TState.steps T n₀ (.start j'.1 j'.2) with
        | finished r =>
          rw [hs] at h₀
          rw [TState.steps_finished]; exact h₀
        | start _ _ => rw [hs] at h₀; simp [TState.result] at h₀
        | decoding _ _ _ _ => rw [hs] at h₀; simp [TState.result] at h₀
      · exact hN j' hm n (by omega)
  obtain ⟨N, hN⟩ := hb
  refine ⟨N, fun sched hfair => ?_⟩
  apply List.ext_getElem?
  intro t
  rw [List.getElem?_map, pool_get, List.getElem?_map]
  simp only [jobs, List.getElem?_map]
  cases hj : js[t]? with
  | none => simp
  | some j =>
    have hlt : t < js.length := by
      rcases Nat.lt_or_ge t js.length with h | h
      · exact h
      · rw [List.getElem?_eq_none h] at hj; cases hj
    simp only [Option.map_some]
    rw [hN j (List.mem_of_getElem? hj) _ (hfair t hlt)]

/-- The same at **any** granularity.  Let a thread's private state be of any type `L`, and let one
    atomic step be any function of the shared tables and that private state (a bytecode, a line, a
    field — whatever the scheduler treats as indivisible).  If such a thread, run alone, can only
    ever show the constructor's result, then in a pool under any schedule it can only ever show
    the constructor's result: the premise "a step is a function of (tables, own state)" is all
    that non-interference needs. -/
theorem C13_threads_any_granularity {L : Type} (T : Tables) (step : Tables → L → L)
    (init : Option Bytes × Nat → L) (result : L → Option (Outcome Msg))
    (alone : ∀ j n r, result (iterN (step T) n (init j)) = some r → r = construct T j.1 j.2)
    (js : List (Option Bytes × Nat)) (sched : List Nat) (t : Nat) (j : Option Bytes × Nat)
    (hj : js[t]? = some j) (r : Outcome Msg)
    (h : (gpoolRun (step T) (js.map init) sched)[t]?.bind result = some r) :
    r = construct T j.1 j.2 := by
  rw [gpool_get] at h
  simp only [List.getElem?_map, hj, Option.map_some, Option.bind_some] at h
  exact alone j _ r h

theorem steps_eq_iter (T : Tables) (n : Nat) (s : TState) : TState.steps T n s = iterN (tstep T) n s := by
  induction n generalizing s with
  | zero => rfl
  | succ n ih => simp only [TState.steps, iterN]; exact ih _

/-- the premise of `C13_threads_any_granularity` is met by the field-granularity model -/
example (T : Tables) : ∀ (j : Option Bytes × Nat) n r,
    TState.result (iterN (tstep T) n ((fun j : Option Bytes × Nat => TState.start j.1 j.2) j)) = some r →
      r = construct T j.1 j.2 := by
  intro j n r h
  rw [← steps_eq_iter] at h
  exact thread_result T j.1 j.2 n r h

/-- the pool never has more or fewer threads, and a step has no access to change the tables
    (`tstep` takes them as an argument and returns only the thread) -/
theorem C13_threads_pool_size (T : Tables) (js : List (Option Bytes × Nat)) (sched : List Nat) :
    (poolRun T (jobs js) sched).length = js.length := by
  simp [pool_length, jobs]

/-- the small-step constructor is the constructor: run alone, a thread ends with `construct` -/
theorem C13_small_step_is_construct (T : Tables) (payload : Option Bytes) (label : Nat) :
    ∃ n, (TState.steps T n (.start payload label)).result = some (construct T payload label) :=
  thread_finishes T payload label

/-- non-vacuity: three threads (a failing parse, a stub, a 1005) under a ragged schedule all finish
    with the sequential results -/
example :
    let js : List (Option Bytes × Nat) :=
      [(some [], 1), (some [0xff, 0xf0, 1], 1),
       (some [0x3e, 0xd0, 0, 3, 0, 0, 0, 0, 0, 0, 0, 0, 0, 0, 0, 0, 0, 0, 0], 1)]
    ((poolRun Gen.tables (jobs js) ([2, 0, 2, 1, 2, 2, 7, 2, 0] ++ List.replicate 40 2)).map
        fun t => (t.result.map Outcome.isOk)) = [some false, some true, some true] := by
  decide +kernel

/-- non-vacuity: a history with a failing and a succeeding parse -/
example : ((runHistory Gen.tables [.msg (some []) 1, .msg (some [0xff, 0xf0, 1]) 1]).2.map Outcome.isOk) = [false, true] := by
  decide +kernel

end Rtcm
