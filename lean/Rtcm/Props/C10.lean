import Rtcm.Model.WF
import Rtcm.Gen.Tables
import Rtcm.Pinned.Sizes
import Rtcm.Pinned.Defs
import Rtcm.Lemmas.Decodable
import Rtcm.Props.Base
/-
  C10 — message layouts conform to the published standards and to each other.
  All statements are about the tables regenerated from the current source (`Gen.tables`).
-/
namespace Rtcm
open Rtcm.Gen

/-- every field named is a defined data field, every repeat count / condition refers to a field
    decoded earlier in scope, no malformed node, no attribute laid out twice -/
theorem C10_all_wf : ∀ e ∈ allDefs, wfDef T e.2 = true := allDefs_wf

/-- the translator met no table key that is unreachable and no field spec it could not represent -/
theorem C10_tables_clean : T.badKeys = 0 ∧ T.badFields = 0 ∧ ftreeAgrees T = true := by decide +kernel

/-- every definition is reachable: dispatch on its own identity yields exactly that definition
    (the string-range test of `_get_dict` hides none and no table shadows another) -/
theorem C10_dispatch_reaches_every_def : ∀ e ∈ allDefs, getDict T e.1 = some e.2 := by
  have h : ∀ e ∈ allDefs, dispatchesTo T e.1 e.2 = true := by decide +kernel
  exact fun e he => dispatchesTo_eq (h e he)

/-- every definition starts with the message number field, so the decoded DF002 is the identity's number -/
theorem C10_first_is_DF002 : ∀ e ∈ allDefs, firstFieldIs e.2 T.special.df002 = true := by decide +kernel

/-- every 4076 definition continues with a 3-bit version and the 8-bit sub-type IDF002,
    i.e. the identity's sub-type bits are the decoded IDF002 -/
theorem C10_igs_third_is_IDF002 : ∀ e ∈ T.igs, igsHeaderOk T e.2 = true := by decide +kernel

/-- a message with given repeat counts occupies exactly the number of bits the standards specify:
    per pinned identity, the fixed part and the bits per iteration of each counter path -/
theorem C10_pinned_sizes :
    ∀ p ∈ Pinned.sizes, (getDict T p.1).map (sizeForm T) = some p.2 := by decide +kernel

/-- **the definitions are the standards' definitions**: for the 152 identities whose layout is
    pinned (every definition of the pinned tree: standard messages, all 49 MSM, IGS SSR) the regenerated definition has
    exactly the pinned field sequence, repeat counters and conditions — so two fields of equal
    width cannot be transposed, nor a group counted by another field, without this breaking.
    One-directional: new identities are free. -/
theorem C10_definitions_pinned :
    ∀ p ∈ Pinned.defs, (getDict T p.1).map (itemsTokens T) = some p.2 := by decide +kernel

end Rtcm

namespace Rtcm

/-! ### families the standards define as parallel or composite -/

def blk (n : Nat) (sub : Option Nat := none) (g : Nat := 0) := blockSig T (defOf T n sub) g
def hdr (n : Nat) (sub : Option Nat := none) := headerSig T (defOf T n sub)

/-- combined orbit+clock SSR satellite block = orbit block followed by the clock block without its
    satellite id (GPS 1060 = 1057 ++ 1058, GLONASS 1066 = 1063 ++ 1064) -/
theorem C10_ssr_combined :
    blk 1060 = blk 1057 ++ (blk 1058).tail ∧ blk 1066 = blk 1063 ++ (blk 1064).tail
    ∧ hdr 1060 = hdr 1057 ∧ hdr 1066 = hdr 1063 := by decide +kernel

/-- the same for the IGS SSR family in all six constellations: IGM03 = IGM01 ++ tail IGM02 -/
theorem C10_igs_combined :
    ∀ c ∈ [1, 2, 3, 4, 5, 6],
      blk 4076 (some (20 * c + 3)) = blk 4076 (some (20 * c + 1)) ++ (blk 4076 (some (20 * c + 2))).tail
      ∧ hdr 4076 (some (20 * c + 3)) = hdr 4076 (some (20 * c + 1)) := by decide +kernel

/-- SSR messages that share a header layout -/
theorem C10_ssr_headers :
    hdr 1058 = hdr 1059 ∧ hdr 1058 = hdr 1061 ∧ hdr 1058 = hdr 1062
    ∧ hdr 1064 = hdr 1065 ∧ hdr 1064 = hdr 1067 ∧ hdr 1064 = hdr 1068 := by decide +kernel

/-- extended observables contain the basic ones, field for field and in order, with equal headers -/
theorem C10_extended_contains_basic :
    isSublist (blk 1001) (blk 1002) = true ∧ isSublist (blk 1003) (blk 1004) = true
    ∧ isSublist (blk 1001) (blk 1003) = true ∧ isSublist (blk 1002) (blk 1004) = true
    ∧ isSublist (blk 1009) (blk 1010) = true ∧ isSublist (blk 1011) (blk 1012) = true
    ∧ isSublist (blk 1009) (blk 1011) = true ∧ isSublist (blk 1010) (blk 1012) = true
    ∧ hdr 1001 = hdr 1002 ∧ hdr 1001 = hdr 1003 ∧ hdr 1001 = hdr 1004
    ∧ hdr 1009 = hdr 1010 ∧ hdr 1009 = hdr 1011 ∧ hdr 1009 = hdr 1012 := by decide +kernel

/-- network RTK: the combined correction difference contains the ionospheric and geometric ones -/
theorem C10_network_rtk :
    isSublist (blk 1015) (blk 1017) = true ∧ isSublist (blk 1016) (blk 1017) = true
    ∧ isSublist (blk 1037) (blk 1039) = true ∧ isSublist (blk 1038) (blk 1039) = true
    ∧ hdr 1015 = hdr 1016 ∧ hdr 1015 = hdr 1017 ∧ hdr 1037 = hdr 1038 ∧ hdr 1037 = hdr 1039 := by
  decide +kernel

/-- every constellation shares one MSM layout per MSM level (type / width / resolution of every field
    and the group structure).  GLONASS carries the 30-bit epoch as 3 + 27 bits, so it is compared
    after the epoch. -/
theorem C10_msm_one_layout_per_level :
    ∀ l ∈ [1, 2, 3, 4, 5, 6, 7],
      (∀ c ∈ [2, 3, 4, 5, 6], lsigItems T (defOf T (1070 + 10 * c + l)) = lsigItems T (defOf T (1070 + l)))
      ∧ lsigItems T ((defOf T (1080 + l)).drop 4) = lsigItems T ((defOf T (1070 + l)).drop 3)
      ∧ lsigItems T ((defOf T (1080 + l)).take 2) = lsigItems T ((defOf T (1070 + l)).take 2)
      ∧ fixedBits T ((defOf T (1080 + l)).take 4) = fixedBits T ((defOf T (1070 + l)).take 3) := by
  decide +kernel

/-- the 42 per-constellation IGS entries are IGM01 … IGM07 repeated for each of the six constellations -/
theorem C10_igs_one_layout_per_type :
    ∀ c ∈ [2, 3, 4, 5, 6], ∀ l ∈ [1, 2, 3, 4, 5, 6, 7],
      lsigItems T (defOf T 4076 (some (20 * c + l))) = lsigItems T (defOf T 4076 (some (20 + l))) := by
  decide +kernel

/-- which identities have a payload definition (pinned: 7 MSM levels × 7 constellations,
    IGM01-07 × 6 constellations + 4076_201) -/
theorem C10_msm_keys : T.msm.map (·.1) =
    ([0, 1, 2, 3, 4, 5, 6].flatMap fun c => [1, 2, 3, 4, 5, 6, 7].map fun l => (⟨1070 + 10 * c + l, none⟩ : Ident)) := by
  decide +kernel

theorem C10_igs_keys : T.igs.map (·.1) =
    ([1, 2, 3, 4, 5, 6].flatMap fun c => [1, 2, 3, 4, 5, 6, 7].map fun l => (⟨4076, some (20 * c + l)⟩ : Ident))
      ++ [⟨4076, some 201⟩] := by
  decide +kernel

/-! ### every identity that has a payload definition can be decoded -/

/-- table hygiene: data-field ids are below the derived-attribute ids; the special fields exist and
    are pairwise different -/
theorem C10_hygiene : Hyg T := hyg_of_B T (by decide +kernel)

/-- every definition passes the static decodability check (an abstract run of the recursive walk:
    counters and conditions are integer attributes set earlier at the right nesting level, label
    fields sit in groups driven by NSat / NCell after the cell mask, mask fields are at top level in
    the order 394, 395, 396, signed fields have a width, no malformed node) -/
theorem C10_all_checked : ∀ e ∈ allDefs, ckDef T e.1 e.2 = true := by decide +kernel

/-- **Decoding fails only when the payload is too short**: for every defined identity, every
    payload bit string and label option, the recursive walk either succeeds or stops at a field
    that extends past the end of the payload — never at an undefined field, a missing counter or
    condition attribute, a non-integer count, a missing or too-short label map, a bad group index
    or a type clash. -/
theorem C10_decoding_fails_only_when_short (e : Ident × List Item) (he : e ∈ allDefs)
    (p : Payload) (label : Nat) (err : DecErr)
    (h : decItems ⟨T, p, e.1, label⟩ e.2 [] DState.init = .error err) : err = .short :=
  ck_sound T C10_hygiene e.1 label p e.2 (C10_all_checked e he) err h

/-- all-zero payload bits of the maximum frame size -/
def zeroPayload : Payload := ⟨0, 8 * 1023⟩

def decodesZero (e : Ident × List Item) : Bool :=
  match decItems ⟨T, zeroPayload, e.1, 1⟩ e.2 [] DState.init with
  | .ok _ => true
  | .error _ => false

/-- and every definition does decode something: the all-zero maximum-size payload -/
theorem C10_every_definition_decodes : ∀ e ∈ allDefs, decodesZero e = true := by decide +kernel

end Rtcm
