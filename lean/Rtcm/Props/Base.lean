import Rtcm.Model.WF
import Rtcm.Gen.Tables
/-
  Facts about the regenerated tables shared by several property files (kept apart from C10 so
  that a broken size pin or sibling relation does not take the other properties' modules down).
-/
namespace Rtcm

abbrev T := Rtcm.Gen.tables

def allDefs : List (Ident × List Item) := T.std ++ T.msm ++ T.igs

/-- every field named is a defined data field, every repeat count / condition refers to a field
    decoded earlier in scope, no malformed node, no attribute laid out twice -/
theorem allDefs_wf : ∀ e ∈ allDefs, wfDef T e.2 = true := by decide +kernel

end Rtcm
