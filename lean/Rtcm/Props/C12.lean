import Rtcm.Lemmas.Chunk
import Rtcm.Lemmas.ChunkTerm
import Rtcm.Lemmas.ChunkSock
import Rtcm.Lemmas.ChunkSockTerm
/-
  C12 — chunked transfer decoding is independent of segmentation.
  `dec` is the per-chunk transform (identity, gzip, zlib or raw deflate — the theorem holds for
  every function, the real zlib is exercised by the correspondence run).
  `C12_reads_deliver_decoded`: what `read()` *delivers* on such a connection (not only what
  accumulates in the buffer) is the decoded byte string, for every read-size sequence.
  Both stream forms of the property are covered: without the terminating zero chunk
  (`C12_segmentation_independent`) and with it (`C12_with_terminator`).
-/
namespace Rtcm

/-- **Main theorem.**  For every well-formed chunked body (any number and size of chunks, any
    size-line spelling that Python's `int(·, 16)` reads as the data length) and every way of cutting
    the encoded stream into receive results — inside a chunk-size line, inside chunk data, between
    the data and its CRLF, or inside that CRLF — the bytes accumulated in the buffer are exactly the
    concatenation of the decoded chunk bodies, and no partial chunk is left over. -/
theorem C12_segmentation_independent (dec : Bytes → Bytes) (cs : List (Bytes × Bytes))
    (hok : ∀ hc ∈ cs, ChunkOK hc) (segs : List Bytes) (hcat : segs.flatten = body cs) :
    segs.foldl (feedSeg dec) ([], []) = ([], decAll dec cs) :=
  feed_invariant dec cs hok segs [] cs [] [] rfl rfl (by simpa using hcat) (Or.inl rfl)

/-- in particular the result does not depend on the segmentation at all -/
theorem C12_any_two_segmentations (dec : Bytes → Bytes) (cs : List (Bytes × Bytes))
    (hok : ∀ hc ∈ cs, ChunkOK hc) (segs₁ segs₂ : List Bytes)
    (h₁ : segs₁.flatten = body cs) (h₂ : segs₂.flatten = body cs) :
    segs₁.foldl (feedSeg dec) ([], []) = segs₂.foldl (feedSeg dec) ([], []) := by
  rw [C12_segmentation_independent dec cs hok segs₁ h₁, C12_segmentation_independent dec cs hok segs₂ h₂]

/-- one receive of the socket wrapper in chunked mode is one `feedSeg` step -/
theorem C12_recv_is_feed (dec : Bytes → Bytes) (s : Sock) (d : Bytes) (rest : List Recv)
    (hc : s.chunked = true) (hs : s.sched = .data d :: rest) (hd : d ≠ []) (hb : d.length ≤ s.bufsize) :
    (Sock.recv dec s).1 = true
    ∧ ((Sock.recv dec s).2.partial_, (Sock.recv dec s).2.buffer) = feedSeg dec (s.partial_, s.buffer) d
    ∧ (Sock.recv dec s).2.sched = rest := by
  have hl : d.length ≠ 0 := fun h => hd (List.eq_nil_of_length_eq_zero h)
  simp [Sock.recv, hs, peerRecv, hb, hl, hc, feedSeg]

/-- a cut after a prefix of the body leaves exactly the undecoded tail as `partial`, and later
    data completes it: decoding a prefix then the rest equals decoding everything at once -/
theorem C12_prefix_then_rest (dec : Bytes → Bytes) (cs : List (Bytes × Bytes))
    (hok : ∀ hc ∈ cs, ChunkOK hc) (a b : Bytes) (h : a ++ b = body cs) :
    feedSeg dec (feedSeg dec ([], []) a) b = feedSeg dec ([], []) (a ++ b) := by
  have h2 := C12_segmentation_independent dec cs hok [a, b] (by simpa using h)
  have h1 := C12_segmentation_independent dec cs hok [a ++ b] (by simpa using h)
  simp only [List.foldl_cons, List.foldl_nil] at h1 h2
  rw [h1, h2]

/-- **With the terminating zero chunk.**  The stream is a well-formed chunked body followed by
    the last-chunk marker `z CRLF CRLF` (`z` any spelling of zero: "0", "000", …).  For every way of
    cutting it into receive results — also inside the marker — the buffer ends up holding exactly
    the concatenation of the decoded chunk bodies.  (A receive boundary inside the final CRLF can
    leave a lone LF as `partial`; it is never delivered.) -/
theorem C12_with_terminator (dec : Bytes → Bytes) (cs : List (Bytes × Bytes))
    (hok : ∀ hc ∈ cs, ChunkOK hc) (z : Bytes) (hz : SizeLine z 0) (segs : List Bytes)
    (hcat : segs.flatten = body cs ++ z ++ CRLF ++ CRLF) :
    (segs.foldl (feedSeg dec) ([], [])).2 = decAll dec cs :=
  feed_with_terminator dec cs hok z hz segs (by simpa [termBytes, List.append_assoc] using hcat)

/-- with or without the marker, and however each of the two streams is cut, the same bytes are delivered -/
theorem C12_terminator_irrelevant (dec : Bytes → Bytes) (cs : List (Bytes × Bytes))
    (hok : ∀ hc ∈ cs, ChunkOK hc) (z : Bytes) (hz : SizeLine z 0) (segs₁ segs₂ : List Bytes)
    (h₁ : segs₁.flatten = body cs) (h₂ : segs₂.flatten = body cs ++ z ++ CRLF ++ CRLF) :
    (segs₁.foldl (feedSeg dec) ([], [])).2 = (segs₂.foldl (feedSeg dec) ([], [])).2 := by
  rw [C12_segmentation_independent dec cs hok segs₁ h₁, C12_with_terminator dec cs hok z hz segs₂ h₂]

/-- **What `read()` delivers.**  A chunked connection whose peer sends a well-formed chunked body
    in any segmentation (non-empty receive results, any positive buffer size): for every sequence
    of read sizes, the results are exactly those of reading the concatenation of the decoded chunk
    bodies — the next `n` bytes when that many remain, nothing otherwise. -/
theorem C12_reads_deliver_decoded (dec : Bytes → Bytes) (cs : List (Bytes × Bytes))
    (hok : ∀ hc ∈ cs, ChunkOK hc) (sched : List Recv) (bufsize : Nat) (hff : FaultFree sched) (hb : 0 < bufsize)
    (hbody : pendingData sched = body cs) (ns : List Nat) :
    Sock.reads dec (Sock.init dec sched true bufsize) ns = specReads (decAll dec cs) ns :=
  reads_exact (exact_chunked dec cs hok) ns _ _ (cstate_init hok sched bufsize hff hb hbody)

/-- hence two segmentations of the same chunked body are indistinguishable through `read()` -/
theorem C12_reads_segmentation_independent (dec : Bytes → Bytes) (cs : List (Bytes × Bytes))
    (hok : ∀ hc ∈ cs, ChunkOK hc) (s₁ s₂ : List Recv) (b₁ b₂ : Nat) (h₁ : FaultFree s₁) (h₂ : FaultFree s₂)
    (hb₁ : 0 < b₁) (hb₂ : 0 < b₂) (e₁ : pendingData s₁ = body cs) (e₂ : pendingData s₂ = body cs) (ns : List Nat) :
    Sock.reads dec (Sock.init dec s₁ true b₁) ns = Sock.reads dec (Sock.init dec s₂ true b₂) ns := by
  rw [C12_reads_deliver_decoded dec cs hok s₁ b₁ h₁ hb₁ e₁, C12_reads_deliver_decoded dec cs hok s₂ b₂ h₂ hb₂ e₂]

/-- and the reader over the chunked connection returns the messages of the decoded byte string -/
theorem C12_reader_over_chunked (dec : Bytes → Bytes) (cs : List (Bytes × Bytes))
    (hok : ∀ hc ∈ cs, ChunkOK hc) (sched : List Recv) (bufsize : Nat) (hff : FaultFree sched) (hb : 0 < bufsize)
    (hbody : pendingData sched = body cs) (T : Tables) (o : Opts) (resume : Bool) :
    frames (run (sockOps dec) T o resume (Sock.init dec sched true bufsize))
      = frames (run fileOps T o resume ⟨decAll dec cs, []⟩) :=
  reader_exact_eq_file (exact_chunked dec cs hok) T o resume _ _ (cstate_init hok sched bufsize hff hb hbody)

/-- … and the same when the body is followed by the terminating zero chunk `z CRLF CRLF`, for every
    segmentation including cuts inside the terminator: the reads return the decoded chunk bodies
    and nothing of the terminator is ever delivered. -/
theorem C12_reads_deliver_decoded_with_terminator (dec : Bytes → Bytes) (cs : List (Bytes × Bytes))
    (hok : ∀ hc ∈ cs, ChunkOK hc) (z : Bytes) (hz : SizeLine z 0)
    (sched : List Recv) (bufsize : Nat) (hff : FaultFree sched) (hb : 0 < bufsize)
    (hbody : pendingData sched = body cs ++ z ++ CRLF ++ CRLF) (ns : List Nat) :
    Sock.reads dec (Sock.init dec sched true bufsize) ns = specReads (decAll dec cs) ns :=
  reads_exact (exact_of_inv (recvInvT dec cs hok z hz)) ns _ _
    (cstateT_init hok hz sched bufsize hff hb (by simpa [termBytes, List.append_assoc] using hbody))

theorem C12_reader_over_chunked_with_terminator (dec : Bytes → Bytes) (cs : List (Bytes × Bytes))
    (hok : ∀ hc ∈ cs, ChunkOK hc) (z : Bytes) (hz : SizeLine z 0)
    (sched : List Recv) (bufsize : Nat) (hff : FaultFree sched) (hb : 0 < bufsize)
    (hbody : pendingData sched = body cs ++ z ++ CRLF ++ CRLF) (T : Tables) (o : Opts) (resume : Bool) :
    frames (run (sockOps dec) T o resume (Sock.init dec sched true bufsize))
      = frames (run fileOps T o resume ⟨decAll dec cs, []⟩) :=
  reader_exact_eq_file (exact_of_inv (recvInvT dec cs hok z hz)) T o resume _ _
    (cstateT_init hok hz sched bufsize hff hb (by simpa [termBytes, List.append_assoc] using hbody))

example : SizeLine [48] 0 := ⟨by decide, by decide⟩                       -- "0"
example : SizeLine [48, 48, 48] 0 := ⟨by decide, by decide⟩               -- "000"

/-! non-vacuity: size lines as Python reads them (upper / lower case, leading zeros) -/
example : SizeLine [53] 5 := ⟨by decide, by decide⟩                       -- "5"
example : SizeLine [65] 10 := ⟨by decide, by decide⟩                      -- "A"
example : SizeLine [97] 10 := ⟨by decide, by decide⟩                      -- "a"
example : SizeLine [49, 102] 31 := ⟨by decide, by decide⟩                 -- "1f"
example : SizeLine [48, 48, 49, 48] 16 := ⟨by decide, by decide⟩          -- "0010"
example : ChunkOK ([50], [13, 10]) := ⟨⟨by decide, by decide⟩, by decide⟩ -- data that is itself CR LF

end Rtcm
