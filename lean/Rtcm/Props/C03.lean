import Rtcm.Lemmas.Helpers
import Rtcm.Lemmas.Bits
import Rtcm.Lemmas.Decode
import Rtcm.Props.Base
import Rtcm.Props.C06
import Rtcm.Lemmas.Layout
import Rtcm.Pinned.Fields
/-
  C03 — every data field decodes to the value its bits encode, for all message types.

  What is proved here, for every table and definition (hence for all ~150 identities):
  * the bits of a field are the big-endian slice of the payload at the running offset, refused when
    the slice would leave the payload (`C03_extract_is_slice`);
  * one plain field occurrence yields exactly one attribute, keyed by (field, group indices) and
    valued by the type-directed reading of those bits times the resolution, advancing the offset by
    the field width and touching nothing else (`C03_plain_field`, `C03_reading_*`);
  * bytes after the last field change nothing (`C03_trailing_bytes`);
  * every definition in the current tables is well-formed (`C03_all_defs_wf`).
  * ROUND TRIP (`C03_layout_roundtrip`, `C03_layout_roundtrip_bytes`): `layout` (Model/Layout.lean)
    walks a definition taking the raw field values one after the other from a list, assigns each
    field occurrence its attribute (reading of the raw value times resolution, under the field id
    and the current group indices), evaluates repeat counts / masks / conditions on what was
    assigned so far, and records one cell (width, bits) per bit-carrying occurrence.  Parsing any
    payload that starts with the cells written in that order — in particular the byte string
    `packBytes cells` — yields exactly the attributes the layout assigned, consumes exactly the sum
    of the cell widths, and nothing else.
  * CONVERSE (`C03_parse_iff_layout`): every successful parse is such a layout, so the parser's
    result is *characterised* by the layout specification.
  The layout walk shares the *per-occurrence* functions (`fieldWidth`, `interp`, `fieldStore`,
  `fieldSpecial`, `countOf`, `optMatches`) with the parser model; what the theorem adds is that the
  parser's offset arithmetic and bit extraction put every occurrence on its own cell, for every
  definition, nesting, count and mask.
-/
namespace Rtcm

theorem C03_all_defs_wf : ∀ e ∈ allDefs, wfDef T e.2 = true := allDefs_wf

/-- the extracted number is the big-endian value of the `w` payload bits starting at `off` -/
theorem C03_extract_is_slice (p : Payload) (off w : Nat) (h : off + w ≤ p.blen) :
    extract p off w = some (ofBitsBE ((p.bits.drop off).take w)) := extract_slice p off w h

theorem C03_reading_unsigned (f : FieldSpec) (w bits : Nat)
    (h : f.ty = .uint ∨ f.ty = .bit ∨ f.ty = .bitx) (hr : f.res = .none) : interp f w bits = .int bits :=
  interp_unsigned f w bits h hr

theorem C03_reading_scaled (f : FieldSpec) (w bits : Nat)
    (h : f.ty = .uint ∨ f.ty = .bit ∨ f.ty = .bitx) (hr : f.res ≠ .none) :
    interp f w bits = .scaled bits f.res := interp_unsigned_scaled f w bits h hr

theorem C03_reading_twos_complement (f : FieldSpec) (w bits : Nat) (h : f.ty = .int) (hr : f.res = .none)
    (hw : 0 < w) (hb : bits < 2 ^ w) :
    interp f w bits = .int ((bits % 2 ^ (w - 1) : Nat) - (if bits.testBit (w - 1) then (2 ^ (w - 1) : Nat) else 0 : Int)) :=
  interp_twos_complement f w bits h hr hw hb

theorem C03_reading_sign_magnitude (f : FieldSpec) (w bits : Nat) (h : f.ty = .snt) (hr : f.res = .none)
    (hb : bits < 2 ^ w) (hw : 0 < w) :
    interp f w bits = .int (if bits.testBit (w - 1) then -((bits % 2 ^ (w - 1) : Nat) : Int) else (bits % 2 ^ (w - 1) : Nat)) :=
  interp_sign_magnitude f w bits h hr hb hw

theorem C03_reading_character (f : FieldSpec) (w bits : Nat) (h : f.ty = .cha) : interp f w bits = .text [bits] :=
  interp_char f w bits h

/-- One occurrence of a plain field (not a derived label, not text-concatenated, not one of the
    MSM masks / IDF038 that trigger bookkeeping): exactly one attribute is set — under the field's
    id and the current group indices — to the reading of the field's own bit slice; the offset
    advances by the field width; satellite / cell maps are untouched. -/
theorem C03_plain_field (c : Ctx) (fid : Nat) (idx : List Nat) (s : DState) (f : FieldSpec)
    (hf : c.T.field? fid = some f)
    (hty : f.ty = .uint ∨ f.ty = .bit ∨ f.ty = .bitx ∨ f.ty = .cha ∨ ((f.ty = .int ∨ f.ty = .snt) ∧ 0 < f.width))
    (h394 : some fid ≠ c.T.special.df394) (h395 : some fid ≠ c.T.special.df395)
    (h396 : some fid ≠ c.T.special.df396) (h038 : some fid ≠ c.T.special.idf038)
    (hfit : s.off + f.width ≤ c.p.blen) :
    decField c fid idx s = .ok { s with
      off := s.off + f.width,
      attrs := s.attrs.set (fid, idx) (interp f f.width (ofBitsBE ((c.p.bits.drop s.off).take f.width))) } := by
  unfold decField
  simp only [hf, fieldWidth, if_neg h396]
  have hv : fieldValue c.p f f.width idx s
      = .ok (interp f f.width (ofBitsBE ((c.p.bits.drop s.off).take f.width)), ofBitsBE ((c.p.bits.drop s.off).take f.width)) := by
    unfold fieldValue
    rw [extract_slice c.p s.off f.width hfit]
    rcases hty with h | h | h | h | ⟨h | h, hw⟩ <;> simp [h] <;> omega
  simp only [hv]
  have hst : fieldStore f fid idx s.attrs (interp f f.width (ofBitsBE ((c.p.bits.drop s.off).take f.width)))
      = .ok (s.attrs.set (fid, idx) (interp f f.width (ofBitsBE ((c.p.bits.drop s.off).take f.width)))) := by
    unfold fieldStore
    rcases hty with h | h | h | h | ⟨h | h, _⟩ <;> simp [h]
  simp only [hst]
  unfold fieldSpecial msmSpecial harmSpecial
  simp [if_neg h394, if_neg h395, if_neg h396, if_neg h038]

/-- a field that would end beyond the payload is refused, whatever its type -/
theorem C03_field_past_end_refused (c : Ctx) (fid : Nat) (idx : List Nat) (s : DState) (f : FieldSpec)
    (hf : c.T.field? fid = some f) (hl : isLabelTy f.ty = false) (h396 : some fid ≠ c.T.special.df396)
    (hover : c.p.blen < s.off + f.width) : ∃ e, decField c fid idx s = .error e := by
  cases hd : decField c fid idx s with
  | error e => exact ⟨e, rfl⟩
  | ok s' =>
    exfalso
    unfold decField at hd
    simp only [hf, fieldWidth, if_neg h396] at hd
    cases hv : fieldValue c.p f f.width idx s with
    | error e => simp [hv] at hd
    | ok r =>
      have := fieldValue_bits_bound c.p f f.width idx s r hl hv
      omega

theorem identity_append (p ext : Bytes) (id : Ident) (h : identity p = .ok id) : identity (p ++ ext) = .ok id := by
  unfold identity at h ⊢
  match p, h with
  | b0 :: b1 :: rest, h =>
    simp only [List.cons_append] at h ⊢
    split
    · rename_i hm
      rw [if_pos hm] at h
      match rest, h with
      | b2 :: r, h => simpa using h
    · rename_i hm
      rw [if_neg hm] at h
      exact h

/-- bytes after the last field change nothing: same identity, same attributes (only the stored raw
    payload differs) -/
theorem C03_trailing_bytes (T : Tables) (p ext : Bytes) (l : Nat) (m : Msg)
    (h : construct T (some p) l = .ok m) (hk : m.unknown = false) :
    construct T (some (p ++ ext)) l = .ok { m with payload := p ++ ext } := by
  unfold construct at h ⊢
  simp only at h ⊢
  cases hid : identity p with
  | foreign e => simp [hid] at h
  | lib e => simp [hid] at h
  | ok id =>
    rw [identity_append p ext id hid]
    simp only [hid] at h ⊢
    cases hd : getDict T id with
    | none => simp [hd] at h; rw [← h] at hk; simp at hk
    | some d =>
      simp only [hd] at h ⊢
      cases hdec : decItems ⟨T, Payload.ofBytes p, id, l⟩ d [] DState.init with
      | error e => simp [hdec] at h
      | ok s =>
        rw [decode_trailing T p ext id l d s hdec]
        simp only [hdec] at h
        injection h with h
        rw [← h]

/-- **Round trip, bit level.**  If laying definition `d` out from the raw values `vals` succeeds
    with cells `ls.cells`, then the parser run over any payload starting with those cells (packed
    most-significant first, in definition order) ends in exactly the state the layout assigned:
    same attributes, same satellite/cell maps, offset = total width of the cells. -/
theorem C03_layout_roundtrip (id : Ident) (label : Nat) (d : List Item) (vals : List Nat) (ls : LState)
    (h : layout T id label d vals = .ok ls) :
    ls.s.off = (pack ls.cells).blen ∧
    ∀ p, Payload.Prefix (pack ls.cells) p → decItems ⟨T, p, id, label⟩ d [] DState.init = .ok ls.s :=
  (layout_roundtrip T C06_labels_zero_width id label d vals ls h).2

/-- **Round trip, message level.**  The message constructed from the packed bytes (optionally
    followed by anything) has exactly the laid-out attributes. -/
theorem C03_layout_roundtrip_bytes (id : Ident) (label : Nat) (d : List Item) (vals : List Nat) (ls : LState)
    (ext : Bytes)
    (hd : getDict T id = some d)
    (h : layout T id label d vals = .ok ls)
    (hid : identity (packBytes ls.cells ++ ext) = .ok id) :
    construct T (some (packBytes ls.cells ++ ext)) label
      = .ok ⟨packBytes ls.cells ++ ext, label, id, false, ls.s.attrs, true⟩ := by
  obtain ⟨hfit, _, run⟩ := layout_roundtrip T C06_labels_zero_width id label d vals ls h
  have hp : Payload.Prefix (pack ls.cells) (Payload.ofBytes (packBytes ls.cells ++ ext)) :=
    Payload.prefix_trans (prefix_packBytes ls.cells hfit) (ofBytes_prefix _ _)
  unfold construct
  simp only [hid, hd, run _ hp]

/-- the cells are written strictly in order: the packed string of a longer layout extends the
    packed string of a shorter one -/
theorem C03_cells_in_order (a b : List Cell) (hb : Fits b) : Payload.Prefix (pack a) (pack (a ++ b)) :=
  prefix_pack_append a b hb

/-- and reading back the cell just written returns its bits -/
theorem C03_cell_readback (pre : List Cell) (w v : Nat) (h : v < 2 ^ w) :
    extract (pack (pre ++ [(w, v)])) (pack pre).blen w = some v := by
  rw [pack_append_singleton]; exact extract_push _ w v h

/-- **Parsing = laying out.**  For every identity, definition, label option and payload bytes: the
    parser accepts the payload with final decoder state `s` **iff** `s` is the layout of some list
    of raw field values whose cells, packed in definition order, are a prefix of the payload bits.
    (⇐ is the round trip; ⇒ says the parser never produces anything but a layout: the consumed
    bits are tiled exactly by the cells, one cell per bit-carrying field occurrence, all values used.) -/
theorem C03_parse_iff_layout (id : Ident) (label : Nat) (d : List Item) (bs : Bytes) (s : DState) :
    decItems ⟨T, Payload.ofBytes bs, id, label⟩ d [] DState.init = .ok s
    ↔ ∃ vals cells, layout T id label d vals = .ok ⟨s, [], cells⟩
        ∧ Payload.Prefix (pack cells) (Payload.ofBytes bs) := by
  constructor
  · intro h
    obtain ⟨vals, cells, h1, h2, _⟩ := layout_complete T C06_labels_zero_width id label d (Payload.ofBytes bs)
      (by simpa [Payload.ofBytes] using bytesToNat_lt bs) s h
    exact ⟨vals, cells, h1, h2⟩
  · rintro ⟨vals, cells, h1, h2⟩
    exact (C03_layout_roundtrip id label d vals _ h1).2 _ h2

/-- how a table type reads its bits, for comparison with the pinned standard kinds -/
def kindOf : FType → Option Pinned.Kind
  | .uint | .bit => some .unsigned
  | .int => some .twos
  | .snt => some .signmag
  | _ => none

/-- one pinned entry holds in a table: a field of that name exists, reads its bits that way, has
    that width and (where pinned) that resolution -/
def pinHolds (T : Tables) (p : Label × Pinned.Kind × Nat × Option Res) : Bool :=
  match T.fields.find? (fun f => f.name = p.1) with
  | some f => kindOf f.ty = some p.2.1 && f.width = p.2.2.1 &&
      (match p.2.2.2 with | none => true | some r => f.res = r)
  | none => false

/-- **The data-field table reads the pinned fields the way the standards do** (the 498 numeric fields of
    RTCM 10403.3 / IGS SSR v1: unsigned, two's complement or — GLONASS ephemeris only —
    sign-magnitude; width; resolution where pinned).  One-directional: what is pinned must be so. -/
theorem C03_field_kinds_pinned : (Pinned.fieldKinds.all (pinHolds T)) = true := by decide +kernel

/-- consequently the reading theorems above apply with the standard's kind: e.g. a pinned
    sign-magnitude field is decoded by `C03_reading_signmag`'s formula -/
theorem C03_pinned_kind_is_table_kind (p : Label × Pinned.Kind × Nat × Option Res)
    (hp : p ∈ Pinned.fieldKinds) :
    ∃ f ∈ T.fields, f.name = p.1 ∧ kindOf f.ty = some p.2.1 ∧ f.width = p.2.2.1 := by
  have h := List.all_eq_true.mp C03_field_kinds_pinned p hp
  unfold pinHolds at h
  cases hf : T.fields.find? (fun f => f.name = p.1) with
  | none => simp [hf] at h
  | some f =>
    simp only [hf, Bool.and_eq_true, decide_eq_true_eq] at h
    have hm := List.mem_of_find?_eq_some hf
    have hn := List.find?_some hf
    exact ⟨f, hm, by simpa using hn, h.1.1, h.1.2⟩

/-- non-vacuity: a GPS MSM7 with 2 satellites, 2 signals, 4 cells (45 raw values, 565 bits) lays
    out, all values are consumed, and the identity hypothesis of the message-level theorem holds -/
def exVals1077 : List Nat :=
  [1077, 5, 1000, 0, 0, 0, 0, 0, 0, 0, 2 ^ 63 + 1, 2 ^ 31 + 2 ^ 30, 15] ++ [1, 2, 3, 4, 5, 6, 2 ^ 13, 1] ++ List.replicate 24 1

example : (match layout T ⟨1077, none⟩ 1 ((getDict T ⟨1077, none⟩).getD []) exVals1077 with
    | .ok ls => (ls.vals.length, ls.s.off, ls.cells.length,
        match identity (packBytes ls.cells) with | .ok id => id.num | _ => 0)
    | .error _ => (1, 0, 0, 0)) = (0, 565, 45, 1077) := by decide +kernel

/-! ### the public bit helper `get_bit` reads the same bit the decoder reads -/

/-- `get_bit(data, num)` is the decoder's one-bit field at offset `num` of the same bytes, for every
    byte string and every position inside it -/
theorem C03_get_bit_is_field_bit (bs : Bytes) (num : Nat) (h : num < 8 * bs.length) :
    getBit bs num = extract (Payload.ofBytes bs) num 1 := getBit_eq_extract bs num h

/-- … and outside the data both refuse (IndexError / the decoder's past-the-end refusal) -/
theorem C03_get_bit_outside (bs : Bytes) (num : Nat) (h : 8 * bs.length ≤ num) :
    getBit bs num = none ∧ extract (Payload.ofBytes bs) num 1 = none := getBit_none bs num h

example : getBit [0xD3, 0x00, 0x13] 0 = some 1 ∧ getBit [0xD3, 0x00, 0x13] 2 = some 0
    ∧ getBit [0xD3, 0x00, 0x13] 23 = some 1 ∧ getBit [0xD3, 0x00, 0x13] 24 = none := by decide

end Rtcm
