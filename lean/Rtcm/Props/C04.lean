import Rtcm.Lemmas.ReaderEvents
import Rtcm.Lemmas.Stream
import Rtcm.Lemmas.SockLawful
import Rtcm.Gen.Tables
/-
  C04 — parsing is total: only the library's own errors, and it always terminates.
-/
namespace Rtcm

/-- the message constructor never lets a foreign exception escape, for any payload (or none) -/
theorem C04_message (T : Tables) (p : Option Bytes) (l : Nat) : (construct T p l).isForeign = false :=
  construct_not_foreign T p l

/-- nor does the static parser, with validation on or off -/
theorem C04_parse (T : Tables) (buf : Bytes) (v l : Nat) : (parse T buf v l).isForeign = false :=
  parse_not_foreign T buf v l

/-- `read()`: no foreign exception escapes, and an exception is raised only in raise mode -/
theorem readOne_events (ops : StreamOps σ) (T : Tables) (o : Opts) (s : σ) :
    ∀ ev ∈ (readOne ops T o s).1, ev.isForeign = false
      ∧ (ev.isRaised = true → o.quitonerror = T.errRaise ∧ o.quitonerror ≠ 0) := by
  fun_induction readOne ops T o s with
  | case1 s evs s' h =>
    intro ev hev
    have := iter_events ops T o s ev (by rw [h]; exact hev)
    exact ⟨this.1, this.2.2⟩
  | case2 s evs s' h hlt r ih =>
    intro ev hev
    simp only [List.mem_append] at hev
    rcases hev with hev | hev
    · have := iter_events ops T o s ev (by rw [h]; exact hev)
      exact ⟨this.1, this.2.2⟩
    · exact ih ev hev
  | case3 s evs s' h hlt =>
    intro ev hev
    simp only [List.mem_append, List.mem_singleton] at hev
    rcases hev with hev | hev
    · have := iter_events ops T o s ev (by rw [h]; exact hev)
      exact ⟨this.1, this.2.2⟩
    · subst hev; exact ⟨rfl, fun h => by simp [Event.isRaised] at h⟩

/-- iteration over any stream, in any error mode, with or without resuming after a raise:
    no foreign exception escapes; in ignore and log modes the iterator itself never raises -/
theorem C04_reader (ops : StreamOps σ) (T : Tables) (o : Opts) (resume : Bool) (s : σ) :
    ∀ ev ∈ run ops T o resume s, ev.isForeign = false
      ∧ (ev.isRaised = true → o.quitonerror = T.errRaise ∧ o.quitonerror ≠ 0) := by
  fun_induction run ops T o resume s with
  | case1 s r hc hlt ih =>
    intro ev hev
    simp only [List.mem_append] at hev
    rcases hev with hev | hev
    · exact readOne_events ops T o s ev hev
    · exact ih ev hev
  | case2 s r hc hlt =>
    intro ev hev
    simp only [List.mem_append, List.mem_singleton] at hev
    rcases hev with hev | hev
    · exact readOne_events ops T o s ev hev
    · subst hev; exact ⟨rfl, fun h => by simp [Event.isRaised] at h⟩
  | case3 s r hc =>
    intro ev hev
    exact readOne_events ops T o s ev hev

/-- in ignore mode (0) and log mode the iterator never raises -/
theorem C04_reader_never_raises_unless_raise_mode (ops : StreamOps σ) (T : Tables) (o : Opts) (resume : Bool) (s : σ)
    (h : o.quitonerror ≠ T.errRaise) : ∀ ev ∈ run ops T o resume s, ev.isRaised = false := by
  intro ev hev
  have := (C04_reader ops T o resume s ev hev).2
  cases hr : ev.isRaised
  · rfl
  · exact absurd (this hr).1 h

end Rtcm

namespace Rtcm

/-- iteration over a finite file-like stream finishes, whatever short or empty reads the stream
    injects: the model's recursion is well-founded on the number of unread bytes (the dynamic
    measure test that guards the recursion never fires, i.e. no `stuck` event) -/
theorem C04_file_iteration_terminates (T : Tables) (o : Opts) (resume : Bool) (data : Bytes) (sched : List (Option Nat)) :
    ∀ ev ∈ run fileOps T o resume ⟨data, sched⟩, ev.isStuck = false ∧ ev.isForeign = false :=
  fun ev hev => ⟨run_not_stuck fileOps_lawful T o resume _ ev hev, (C04_reader fileOps T o resume _ ev hev).1⟩

/-- the same over the socket wrapper, for every receive schedule (data in any segmentation,
    timeouts, OS errors, close), every buffer size, chunked or not and for every per-chunk decoder:
    the iteration finishes and nothing but library errors ever escapes -/
theorem C04_socket_iteration_terminates (dec : Bytes → Bytes) (T : Tables) (o : Opts) (resume : Bool) (s : Sock) :
    ∀ ev ∈ run (sockOps dec) T o resume s, ev.isStuck = false ∧ ev.isForeign = false :=
  fun ev hev => ⟨run_not_stuck (sockOps_lawful dec) T o resume _ ev hev, (C04_reader (sockOps dec) T o resume _ ev hev).1⟩

end Rtcm
