import Rtcm.Lemmas.Msm
import Rtcm.Model.Message
import Rtcm.Gen.Tables
import Rtcm.Pinned.Sizes
import Rtcm.Lemmas.Decodable
/-
  C09 — MSM masks map to the right satellites, signals and cells.
-/
namespace Rtcm

abbrev T9 := Rtcm.Gen.tables

/-- For every MSM constellation table, every 64-bit satellite mask, 32-bit signal mask and cell mask:
    * the satellite / signal / cell counts are the numbers of set bits of the three masks;
    * the i-th satellite entry is the PRN label of the i-th set bit of the satellite mask (mask
      order, ID = position counted from the most significant bit);
    * the k-th cell is the (satellite, signal) pair of the k-th set bit of the cell mask taken
      satellite-major (position `j` ↦ satellite `j / NSig`, signal `j % NSig`). -/
theorem C09_maps (T : Tables) (id : Ident) (label a b d : Nat) (sats : List Label) (cells : List (Label × Label))
    (ha : a < 2 ^ 64) (hb : b < 2 ^ 32) (h : satCellMaps T id label a b d = .ok (sats, cells)) :
    ∃ prnmap sigmap, (ident3 id).bind (assocGet T.prnsig) = some (prnmap, sigmap)
      ∧ sats = (setIdx a 64).map (prnLabel T prnmap)
      ∧ sats.length = popcount a 64
      ∧ ((setIdx b 32).map (sigLabel T sigmap label)).length = popcount b 32
      ∧ cells = (setCells d (popcount a 64 * popcount b 32)).map (fun j =>
          ((sats[j / popcount b 32]?).getD [], ((((setIdx b 32).map (sigLabel T sigmap label))[j % popcount b 32]?).getD [])))
      ∧ cells.length = popcount d (popcount a 64 * popcount b 32) := by
  unfold satCellMaps at h
  split at h
  · simp at h
  · rename_i prnmap sigmap hm
    simp only at h
    injection h with h
    injection h with hs hc
    have l1 : ((setIdx a 64).map (prnLabel T prnmap)).length = popcount a 64 := by
      rw [List.length_map, setIdx_length_of_lt a 64 ha]
    have l2 : ((setIdx b 32).map (sigLabel T sigmap label)).length = popcount b 32 := by
      rw [List.length_map, setIdx_length_of_lt b 32 hb]
    refine ⟨prnmap, sigmap, hm, hs.symm, by rw [← hs]; exact l1, l2, ?_, ?_⟩
    · rw [← hc, ← hs, l1, l2]
    · rw [← hc, List.length_map, l1, l2, setCells_length]

/-- satellites are listed in mask order and cells in cell-mask order -/
theorem C09_order (mask n : Nat) : (setIdx mask n).Pairwise (· < ·) ∧ (setCells mask n).Pairwise (· < ·) :=
  ⟨setIdx_sorted mask n, setCells_sorted mask n⟩

/-- exactly the IDs whose mask bit (counted from the most significant bit) is set are listed -/
theorem C09_membership (mask n i : Nat) : i ∈ setIdx mask n ↔ i ≤ n ∧ mask.testBit (n - i) = true :=
  mem_setIdx mask n i

/-- satellite or signal IDs outside the defined ranges are reported with the not-available marker
    under both label options, never with a wrong or garbled code -/
theorem C09_not_available (T : Tables) (prnmap : List (Nat × Label)) (sigmap : List (Nat × Label × Label))
    (label idx : Nat) :
    (assocGet prnmap idx = none → prnLabel T prnmap idx = T.na)
    ∧ (assocGet sigmap idx = none → sigLabel T sigmap label idx = T.na) := by
  constructor
  · intro h; simp [prnLabel, h]
  · intro h; simp [sigLabel, h]

/-- a defined signal ID gets the RINEX code under the RINEX option and the band label under option 2 -/
theorem C09_defined_signal (T : Tables) (sigmap : List (Nat × Label × Label)) (label idx : Nat) (band code : Label)
    (h : assocGet sigmap idx = some (band, code)) :
    sigLabel T sigmap label idx = if label = 2 then band else code := by
  simp [sigLabel, h]

/-- the derived label attributes are the map entries at the group index: `PRN_i = satmap[i-1]`,
    `CELLPRN_k = cellmap[k-1].1`, `CELLSIG_k = cellmap[k-1].2` -/
theorem C09_label_attributes (p : Payload) (f : FieldSpec) (w i : Nat) (rest : List Nat) (s : DState)
    (sm : List Label) (cm : List (Label × Label)) (hi : 0 < i)
    (hsm : s.satmap = some sm) (hcm : s.cellmap = some cm) :
    (f.ty = .prn → ∀ l, sm[i - 1]? = some l → fieldValue p f w (i :: rest) s = .ok (.text l, 0))
    ∧ (f.ty = .cprn → ∀ l, cm[i - 1]? = some l → fieldValue p f w (i :: rest) s = .ok (.text l.1, 0))
    ∧ (f.ty = .csig → ∀ l, cm[i - 1]? = some l → fieldValue p f w (i :: rest) s = .ok (.text l.2, 0)) := by
  have hne : i ≠ 0 := by omega
  refine ⟨?_, ?_, ?_⟩ <;> intro ht l hl <;> simp [fieldValue, ht, hsm, hcm, hne, hl]

/-! ### the regenerated tables against the pinned standard -/

def sigCodes (T : Tables) (key : Nat) : List (Nat × Label) :=
  match assocGet T.prnsig key with
  | some (_, sm) => sm.map fun e => (e.1, e.2.2)
  | none => []

def prnTable (T : Tables) (key : Nat) : List (Nat × Label) :=
  match assocGet T.prnsig key with
  | some (pm, _) => pm
  | none => []

/-- Signal labels are the RINEX observation codes RTCM 10403.3 assigns to the signal ID
    (all seven constellations, entry for entry). -/
theorem C09_rinex_codes : ∀ e ∈ Pinned.rinex, sigCodes T9 e.1 = e.2 := by decide +kernel

theorem C09_constellations : T9.prnsig.map (·.1) = [107, 108, 109, 110, 111, 112, 113] := by decide +kernel

def seqPrn (n off : Nat) : List (Nat × Label) := (List.range n).map fun i => (i + 1, pad3 (i + 1 + off))

/-- PRN numbering per constellation: GPS / BeiDou 1–63, GLONASS 1–24, Galileo 1–50 plus GIOVE-A/B,
    SBAS 120–158, QZSS 193–202, NavIC 1–14 -/
theorem C09_prn_numbering :
    prnTable T9 107 = seqPrn 63 0 ∧ prnTable T9 112 = seqPrn 63 0 ∧ prnTable T9 108 = seqPrn 24 0
    ∧ prnTable T9 109 = seqPrn 50 0 ++ [(51, [71, 73, 79, 86, 69, 45, 65]), (52, [71, 73, 79, 86, 69, 45, 66])]
    ∧ prnTable T9 110 = seqPrn 39 119 ∧ prnTable T9 111 = seqPrn 10 192 ∧ prnTable T9 113 = seqPrn 14 0 := by
  decide +kernel

theorem C09_na_marker : T9.na = [78, 47, 65] := by decide +kernel

/-- non-vacuity: GPS satellites 1 and 64, signals 2 and 5 (5 is reserved), three of four cells -/
example : (match satCellMaps T9 ⟨1077, none⟩ 1 (2 ^ 63 + 1) (2 ^ 30 + 2 ^ 27) 0b1101 with
    | .ok r => decide (r = ([[48, 48, 49], [78, 47, 65]],
        [([48, 48, 49], [49, 67]), ([48, 48, 49], [78, 47, 65]), ([78, 47, 65], [78, 47, 65])]))
    | .error _ => false) = true := by
  decide +kernel

/-! ### message level: the three counts of every decoded MSM message -/

/-- the static check of an MSM definition ends with the maps built (DF394, DF395, DF396 all decoded) -/
def msmChecked (T : Tables) (e : Ident × List Item) : Bool :=
  match ckItems T e.1 0 e.2 ⟨[], false, none⟩ with
  | some env' => env'.maps
  | none => false

theorem C09_msm_defs_build_maps : ∀ e ∈ T9.msm, msmChecked T9 e = true := by decide +kernel

theorem C09_hygiene : Hyg T9 := hyg_of_B T9 (by decide +kernel)

/-- **For every MSM message that decodes** (all 49 definitions, every payload, either label option):
    the attributes NSat, NSig and NCell equal the number of set bits in the decoded satellite mask
    (64 bits), signal mask (32 bits) and cell mask (NSat × NSig bits). -/
theorem C09_counts_are_popcounts (e : Ident × List Item) (he : e ∈ T9.msm) (p : Payload) (label : Nat) (s : DState)
    (h : decItems ⟨T9, p, e.1, label⟩ e.2 [] DState.init = .ok s) :
    ∃ a4 a5 a6 m4 m5 d : Nat,
      T9.special.df394 = some a4 ∧ T9.special.df395 = some a5 ∧ T9.special.df396 = some a6
      ∧ s.attrs.get? (a4, []) = some (.int m4) ∧ s.attrs.get? (a5, []) = some (.int m5)
      ∧ s.attrs.get? (a6, []) = some (.int d)
      ∧ s.attrs.get? (T9.fidNSat, []) = some (.int (popcount m4 64))
      ∧ s.attrs.get? (T9.fidNSig, []) = some (.int (popcount m5 32))
      ∧ s.attrs.get? (T9.fidNCell, []) = some (.int (popcount d (popcount m4 64 * popcount m5 32))) := by
  have hc := C09_msm_defs_build_maps e he
  unfold msmChecked at hc
  cases hck : ckItems T9 e.1 0 e.2 ⟨[], false, none⟩ with
  | none => rw [hck] at hc; simp at hc
  | some env' =>
    rw [hck] at hc
    simp only at hc
    have hinv := ck_final_inv T9 C09_hygiene e.1 label p e.2 env' hck s h
    obtain ⟨a4, e4, _⟩ := C09_hygiene.s394
    obtain ⟨a5, e5, _⟩ := C09_hygiene.s395
    obtain ⟨a6, e6, _⟩ := C09_hygiene.s396
    obtain ⟨m4, m5, d, g1, g2, g3, g4, g5, g6⟩ := hinv.m396 hc a4 a5 a6 e4 e5 e6
    exact ⟨a4, a5, a6, m4, m5, d, e4, e5, e6, g1, g2, g3, g4, g5, g6⟩

end Rtcm
