import Rtcm.Lemmas.Label
import Rtcm.Model.WF
import Rtcm.Gen.Tables
/-
  C16 — the MSM label option changes signal labels only.
-/
namespace Rtcm

abbrev T16 := Rtcm.Gen.tables

/-- the derived counters of the current tables are not CELLSIG-typed data fields -/
theorem C16_derived_plain : DerivedPlain T16 := by
  intro k hk
  have h : ∀ k ∈ [0, 1, 2, 3, 4], isCsigFid T16 (T16.nf + k) = false := by decide +kernel
  exact h k (by simp; omega)

/-- what two constructor results have in common under two label options -/
def MsgRel (T : Tables) (r1 r2 : Outcome Msg) : Prop :=
  match r1, r2 with
  | .ok m1, .ok m2 => AttrsRel T m1.attrs m2.attrs ∧ m1.id = m2.id ∧ m1.payload = m2.payload ∧ m1.unknown = m2.unknown
  | .lib e1, .lib e2 => e1 = e2
  | .foreign e1, .foreign e2 => e1 = e2
  | _, _ => False

/-- **Main theorem.**  Parsing the same payload with any two label option values either fails alike
    or yields messages with the same identity and the same attributes in the same order, whose values
    agree on every attribute except those of CELLSIG-typed fields (which are texts under both). -/
theorem label_changes_cellsig_only (T : Tables) (hd : DerivedPlain T) (p : Option Bytes) (l1 l2 : Nat) :
    MsgRel T (construct T p l1) (construct T p l2) := by
  unfold construct
  cases p with
  | none => simp [MsgRel]
  | some p =>
    simp only
    cases identity p with
    | foreign e => simp [MsgRel]
    | lib e => simp [MsgRel]
    | ok id =>
      simp only
      cases getDict T id with
      | none =>
        show AttrsRel T _ _ ∧ id = id ∧ p = p ∧ true = true
        refine ⟨?_, rfl, rfl, rfl⟩
        apply AttrsRel.cons _ _ _ _ _ _ AttrsRel.nil
        unfold ValRel
        split
        · exact ⟨_, _, rfl, rfl⟩
        · rfl
      | some d =>
        simp only
        have := decItems_rel ⟨T, Payload.ofBytes p, id, l1⟩ ⟨T, Payload.ofBytes p, id, l2⟩ rfl rfl rfl
          hd d [] DState.init DState.init (StRel.init T)
        cases r1 : decItems ⟨T, Payload.ofBytes p, id, l1⟩ d [] DState.init with
        | error e1 =>
          cases r2 : decItems ⟨T, Payload.ofBytes p, id, l2⟩ d [] DState.init with
          | error e2 => simp [MsgRel]
          | ok s2 => rw [r1, r2] at this; simp [ExRel] at this
        | ok s1 =>
          cases r2 : decItems ⟨T, Payload.ofBytes p, id, l2⟩ d [] DState.init with
          | error e2 => rw [r1, r2] at this; simp [ExRel] at this
          | ok s2 =>
            rw [r1, r2] at this
            show AttrsRel T s1.attrs s2.attrs ∧ id = id ∧ p = p ∧ false = false
            exact ⟨this.attrs, rfl, rfl, rfl⟩

theorem C16_label_changes_cellsig_only (p : Option Bytes) (l1 l2 : Nat) :
    MsgRel T16 (construct T16 p l1) (construct T16 p l2) :=
  label_changes_cellsig_only T16 C16_derived_plain p l1 l2

/-- reading `AttrsRel` off: same attribute names in the same order … -/
theorem attrsRel_keys (T : Tables) (a1 a2 : Attrs) (h : AttrsRel T a1 a2) : a1.map (·.1) = a2.map (·.1) := by
  induction h with
  | nil => rfl
  | cons k v1 v2 r1 r2 _ _ ih => simp [ih]

/-- … and equal values for every attribute that is not a CELLSIG field -/
theorem attrsRel_values (T : Tables) (a1 a2 : Attrs) (h : AttrsRel T a1 a2) (k : AttrKey)
    (hk : isCsigFid T k.1 = false) : a1.get? k = a2.get? k := by
  rcases AttrsRel.get_rel T a1 a2 h k with ⟨h1, h2⟩ | ⟨v1, v2, h1, h2, hv⟩
  · rw [h1, h2]
  · rw [h1, h2]
    unfold ValRel at hv
    rw [hk] at hv
    simp at hv
    rw [hv]

/-- the only CELLSIG-typed data field of the current tables is `CELLSIG` -/
theorem C16_only_cellsig_is_csig :
    ∀ f ∈ T16.fields, (f.ty == .csig) = (f.name == [67, 69, 76, 76, 83, 73, 71]) := by decide +kernel

/-- every option value other than 2 is treated like 1 (0, 1, True, …): identical decoding -/
theorem C16_label_normalised (T : Tables) (p : Bytes) (id : Ident) (l : Nat) (hl : l ≠ 2) (d : List Item) :
    decItems ⟨T, Payload.ofBytes p, id, l⟩ d [] DState.init
      = decItems ⟨T, Payload.ofBytes p, id, 1⟩ d [] DState.init :=
  decItems_congr ⟨T, Payload.ofBytes p, id, l⟩ ⟨T, Payload.ofBytes p, id, 1⟩ rfl d
    (fun fid _ idx s => decField_label_norm T _ id l hl fid idx s) [] DState.init

def noCellMask (T : Tables) (d : List Item) : Bool :=
  (fidsItems' d).all fun fid => !(some fid == T.special.df396)

/-- messages that are not MSM are unaffected by the option: a definition without the cell mask
    decodes identically under every option value … -/
theorem C16_non_msm_unaffected (T : Tables) (p : Bytes) (id : Ident) (l1 l2 : Nat) (d : List Item)
    (h : noCellMask T d = true) :
    decItems ⟨T, Payload.ofBytes p, id, l1⟩ d [] DState.init
      = decItems ⟨T, Payload.ofBytes p, id, l2⟩ d [] DState.init := by
  apply decItems_congr ⟨T, Payload.ofBytes p, id, l1⟩ ⟨T, Payload.ofBytes p, id, l2⟩ rfl d
  intro fid hf idx s
  apply decField_label_indep
  unfold noCellMask at h
  rw [List.all_eq_true] at h
  have := h fid hf
  simpa using this

/-- … and no non-MSM definition (standard or IGS SSR) contains the cell mask -/
theorem C16_non_msm_defs_have_no_cell_mask : ∀ e ∈ T16.std ++ T16.igs, noCellMask T16 e.2 = true := by
  decide +kernel

/-- under each option a signal ID is labelled by a function of (constellation table, option, ID)
    alone, so identically wherever it occurs -/
theorem C16_label_is_function_of_id (T : Tables) (sm : List (Nat × Label × Label)) (l : Nat) (ids : List Nat) (i j : Nat)
    (h : ids[i]? = ids[j]?) : (ids.map (sigLabel T sm l))[i]? = (ids.map (sigLabel T sm l))[j]? := by
  simp [List.getElem?_map, h]

end Rtcm
