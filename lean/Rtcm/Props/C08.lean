import Rtcm.Lemmas.Crc
import Rtcm.Model.Message
import Rtcm.Gen.Tables
/-
  C08 — CRC-24Q is computed correctly and all guaranteed-detectable damage is rejected.
  Helper lemmas live in `Rtcm/Lemmas/Crc.lean`; this file holds the property statements.
-/
namespace Rtcm

/-- The checksum helper returns the CRC-24Q remainder (generator 0x1864CFB, zero initial value,
    most significant bit first, no final XOR) of every byte string: the remainder of
    `message · x^24` under schoolbook GF(2) long division (`polyModAux`), for every length. -/
theorem C08_crc_is_remainder (m : Bytes) :
    calcCrc24q m = polyModAux (8 * m.length) (bytesToNat m <<< 24) ∧ calcCrc24q m < 2 ^ 24 :=
  ⟨calcCrc24q_spec m, calcCrc24q_lt m⟩

/-- the remainder is characterised independently of any algorithm: it has degree < 24 and differs
    from `message · x^24` by a GF(2)-combination of shifted generators; and it is the only such number -/
theorem C08_remainder_characterisation (m : Bytes) :
    (∃ qs : List Nat, bytesToNat m <<< 24 = xorShifts qs ^^^ calcCrc24q m)
    ∧ ∀ (qs : List Nat) (r : Nat), r < 2 ^ 24 → (∀ i ∈ qs, i < 8 * m.length) →
        bytesToNat m <<< 24 = xorShifts qs ^^^ r → r = calcCrc24q m := by
  constructor
  · obtain ⟨qs, _, he⟩ := polyModAux_congr (8 * m.length) (bytesToNat m <<< 24)
    exact ⟨qs, by rw [calcCrc24q_spec]; exact he⟩
  · intro qs r hr hq he
    rw [calcCrc24q_spec, he, polyModAux_unique _ qs hq r hr]

/-- so the value over a message with its checksum appended is zero … -/
theorem C08_crc_self_zero (m : Bytes) : calcCrc24q (m ++ crc2bytes m) = 0 := crc_self_zero m

/-- … and no other three bytes make it zero -/
theorem C08_trailer_unique (x c : Bytes) (hc : c.length = 3) (h : calcCrc24q (x ++ c) = 0) :
    c = crc2bytes x := crc_trailer_unique x c hc h

/-- With validation on, the static parser rejects with a parse error every valid frame altered by an
    error pattern that does not itself check. -/
theorem C08_parse_rejects (T : Tables) (f e : Bytes) (v l : Nat) (hlen : f.length = e.length)
    (hvalid : calcCrc24q f = 0) (hv : v &&& T.valcksum ≠ 0) (hdet : calcCrc24q e ≠ 0) :
    parse T (xorBytes f e) v l = .lib .parse := by
  unfold parse
  rw [if_pos ⟨hv, by rw [crc_damaged f e hlen hvalid]; exact hdet⟩]

/-- one flipped bit, at every position and for every frame length -/
theorem C08_rejects_single_bit (T : Tables) (f e : Bytes) (v l s : Nat) (hlen : f.length = e.length)
    (hvalid : calcCrc24q f = 0) (hv : v &&& T.valcksum ≠ 0) (he : bytesToNat e = 1 <<< s) :
    parse T (xorBytes f e) v l = .lib .parse :=
  C08_parse_rejects T f e v l hlen hvalid hv (detect_single e s he)

/-- any error burst of up to 24 bits (`E = B · x^s` with `0 < B < 2^24`) -/
theorem C08_rejects_burst (T : Tables) (f e : Bytes) (v l B s : Nat) (hlen : f.length = e.length)
    (hvalid : calcCrc24q f = 0) (hv : v &&& T.valcksum ≠ 0)
    (hB0 : B ≠ 0) (hB : B < 2 ^ 24) (he : bytesToNat e = B <<< s) :
    parse T (xorBytes f e) v l = .lib .parse :=
  C08_parse_rejects T f e v l hlen hvalid hv (detect_burst e B s hB0 hB he)

/-- any odd number of flipped bits (in particular three) -/
theorem C08_rejects_odd (T : Tables) (f e : Bytes) (v l : Nat) (hlen : f.length = e.length)
    (hvalid : calcCrc24q f = 0) (hv : v &&& T.valcksum ≠ 0)
    (hodd : parity (8 * e.length) (bytesToNat e) = true) :
    parse T (xorBytes f e) v l = .lib .parse :=
  C08_parse_rejects T f e v l hlen hvalid hv (detect_odd e hodd)

/-- two flipped bits at any distance that fits a maximal frame (1029 bytes = 8232 bits) -/
theorem C08_rejects_double_bit (T : Tables) (f e : Bytes) (v l s d : Nat) (hlen : f.length = e.length)
    (hvalid : calcCrc24q f = 0) (hv : v &&& T.valcksum ≠ 0)
    (hd1 : 1 ≤ d) (hd : d ≤ 8231) (he : bytesToNat e = (1 ^^^ (1 <<< d)) <<< s) :
    parse T (xorBytes f e) v l = .lib .parse :=
  C08_parse_rejects T f e v l hlen hvalid hv (detect_double e s d hd1 hd he)

/-- With validation off, the checksum bytes do not influence the parse result. -/
theorem C08_novalidate_ignores_crc (T : Tables) (h p c₁ c₂ : Bytes) (v l : Nat)
    (hh : h.length = 3) (h1 : c₁.length = 3) (h2 : c₂.length = 3) (hv : v &&& T.valcksum = 0) :
    parse T (h ++ p ++ c₁) v l = parse T (h ++ p ++ c₂) v l := by
  unfold parse
  have e : ∀ c : Bytes, c.length = 3 →
      ((h ++ p ++ c).drop 3).take ((h ++ p ++ c).length - 3 - 3) = p := by
    intro c hc
    have hd : h.drop 3 = [] := List.drop_eq_nil_of_le (by omega)
    rw [List.append_assoc, List.drop_append, hd, hh]
    simp [hc, hh]
  simp only [hv, ne_eq, not_true_eq_false, false_and, if_false, e c₁ h1, e c₂ h2]

/-! non-vacuity: a concrete valid frame, a one-bit and a two-bit error pattern of its length -/
example : calcCrc24q [0xd3, 0, 2, 0xff, 0xf0, 13, 77, 124] = 0 := by decide +kernel
example : bytesToNat [0, 0, 0, 0x10, 0, 0, 0, 0] = 1 <<< 36 := by decide +kernel
example : bytesToNat [0, 0x80, 0, 0, 0, 0, 0, 1] = (1 ^^^ (1 <<< 55)) <<< 0 := by decide +kernel
example : parity (8 * 8) (bytesToNat [1, 0, 0, 0x10, 0, 0, 0, 4]) = true := by decide +kernel

end Rtcm
