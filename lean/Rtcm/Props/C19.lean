import Rtcm.Lemmas.Names
import Rtcm.Model.WF
import Rtcm.Gen.Tables
/-
  C19 — attribute-name helpers handle every name the parser generates.
  A generated attribute name is `renderName field idx`: the data field's name followed by one
  `_%02d` per group index (`idx = []` outside groups).
-/
namespace Rtcm

abbrev T19 := Rtcm.Gen.tables

/-- the name helper returns the un-indexed field name, for any number of index levels and any
    number of digits per index -/
theorem C19_att2name (name : Label) (idx : List Nat) (h : noUnderscore name = true) :
    att2name (renderName name idx) = name := by
  simp [att2name, split_renderName name idx h]

theorem parseInt_pad2 (i : Nat) : parseInt (pad2 i) = some (i : Int) := by
  obtain ⟨h1, h2, h3⟩ := pad2_spec i
  have := parseInt_digits (pad2 i) h1 (by intro h; rw [h] at h3; simp at h3)
  rw [this, h2]

/-- one index level: the index helper returns the group index as an integer -/
theorem C19_att2idx_single (name : Label) (i : Nat) (h : noUnderscore name = true) :
    att2idx (renderName name [i]) = .int i := by
  simp [att2idx, split_renderName name [i] h, parseInt_pad2]

theorem allSome_pad2 (l : List Nat) : allSome (l.map fun i => parseInt (pad2 i)) = some (l.map Int.ofNat) := by
  induction l with
  | nil => rfl
  | cons i rest ih =>
    simp only [List.map_cons, allSome, parseInt_pad2 i]
    rw [ih]
    rfl

/-- nested groups: the tuple of indices -/
theorem C19_att2idx_nested (name : Label) (i j : Nat) (rest : List Nat) (h : noUnderscore name = true) :
    att2idx (renderName name (i :: j :: rest)) = .tuple ((i :: j :: rest).map Int.ofNat) := by
  have := allSome_pad2 (i :: j :: rest)
  simp only [att2idx, split_renderName name (i :: j :: rest) h, List.map_cons]
  simp only [List.map_cons, List.map_map] at this
  have e : (List.map (parseInt ∘ pad2) rest) = List.map (fun i => parseInt (pad2 i)) rest := rfl
  rw [← e] at this
  simp only [List.map_map]
  rw [this]

/-- a plain (un-indexed) name without underscore has index 0 -/
theorem C19_att2idx_plain (name : Label) (h : noUnderscore name = true) : att2idx name = .int 0 := by
  simp [att2idx, splitUnderscore_noU name h]

/-! ### the description helper on the current tables -/

def nameShapeOk (n : Label) : Bool :=
  match splitUnderscore n with
  | [_] => true
  | [_, s] => s.length == 1
  | _ => false

/-- every table name is either underscore-free or `<stem>_<one character>` (DF001_7, DF422_1 …) -/
theorem C19_table_name_shapes : T19.fields.all (fun f => nameShapeOk f.name) = true := by decide +kernel

mutual
def deepFidsItem (d : Nat) : Item → List Nat
  | .field fid => if d = 0 then [] else [fid]
  | .group _ body => deepFidsItems (d + 1) body
  | .opt _ _ body => deepFidsItems d body
  | .malformed _ => []
def deepFidsItems (d : Nat) : List Item → List Nat
  | [] => []
  | it :: rest => deepFidsItem d it ++ deepFidsItems d rest
end

/-- the field names that contain an underscore occur only outside groups, i.e. never indexed -/
theorem C19_underscored_only_toplevel :
    ∀ e ∈ T19.std ++ T19.msm ++ T19.igs,
      (deepFidsItems 0 e.2).all (fun fid => noUnderscore (T19.fieldName fid)) = true := by
  decide +kernel

/-- no table name equals an indexed rendering of an underscore-free name -/
theorem rendered_ne_table_name (n name : Label) (i : Nat) (rest : List Nat)
    (hs : nameShapeOk n = true) (h : noUnderscore name = true) : n ≠ renderName name (i :: rest) := by
  intro he
  subst he
  unfold nameShapeOk at hs
  rw [split_renderName name (i :: rest) h] at hs
  simp only [List.map_cons] at hs
  have := (pad2_spec i).2.2
  cases hr : rest.map pad2 with
  | nil => simp [hr] at hs; omega
  | cons a b => simp [hr] at hs

theorem findIdx_none_of_all_ne (l : List FieldSpec) (r : Label) (h : ∀ f ∈ l, f.name ≠ r) :
    l.findIdx? (fun f => f.name = r) = none := by
  rw [List.findIdx?_eq_none_iff]
  intro f hf
  simp [h f hf]

theorem findIdx_name (l : List FieldSpec) (i : Nat) (f : FieldSpec) (h : l[i]? = some f) :
    ∃ j g, l.findIdx? (fun g => g.name = f.name) = some j ∧ l[j]? = some g ∧ g.name = f.name := by
  induction l generalizing i with
  | nil => simp at h
  | cons a rest ih =>
    by_cases ha : a.name = f.name
    · exact ⟨0, a, by simp [List.findIdx?_cons, ha], by simp, ha⟩
    · cases i with
      | zero => simp at h; subst h; exact absurd rfl ha
      | succ i =>
        simp at h
        obtain ⟨j, g, h1, h2, h3⟩ := ih i h
        refine ⟨j + 1, g, ?_, by simpa using h2, h3⟩
        simp [List.findIdx?_cons, ha, h1]

/-- For every data field and every attribute name generated from it — plain, or indexed with any
    number of levels when the field name has no underscore — the description helper returns the
    description of the data field of that name (`datadesc` = index of the table entry used). -/
theorem C19_datadesc (fid : Nat) (f : FieldSpec) (hf : T19.fields[fid]? = some f) :
    (∃ j g, datadesc T19 f.name = some j ∧ T19.fields[j]? = some g ∧ g.name = f.name)
    ∧ (noUnderscore f.name = true → ∀ idx,
        ∃ j g, datadesc T19 (renderName f.name idx) = some j ∧ T19.fields[j]? = some g ∧ g.name = f.name) := by
  obtain ⟨j, g, h1, h2, h3⟩ := findIdx_name T19.fields fid f hf
  have hplain : datadesc T19 f.name = some j := by
    simp only [datadesc, fidOfName, h1]
  refine ⟨⟨j, g, hplain, h2, h3⟩, fun hno idx => ?_⟩
  cases idx with
  | nil => exact ⟨j, g, by simpa [renderName] using hplain, h2, h3⟩
  | cons i rest =>
    refine ⟨j, g, ?_, h2, h3⟩
    unfold datadesc
    have hnone : fidOfName T19 (renderName f.name (i :: rest)) = none := by
      unfold fidOfName
      apply findIdx_none_of_all_ne
      intro g hg
      have hs := C19_table_name_shapes
      rw [List.all_eq_true] at hs
      exact rendered_ne_table_name g.name f.name i rest (hs g hg) hno
    rw [hnone, C19_att2name f.name (i :: rest) hno]
    simp only [fidOfName, h1]

/-- non-vacuity: DF406_103, IDF039_01_136 and the plain DF001_7 -/
example : att2idx (renderName (strL "DF406") [103]) = .int 103 := by decide +kernel
example : att2idx (renderName (strL "IDF039") [1, 136]) = .tuple [1, 136] := by decide +kernel
example : datadesc T19 (strL "DF001_7") = fidOfName T19 (strL "DF001_7") ∧ (fidOfName T19 (strL "DF001_7")).isSome = true := by
  decide +kernel

end Rtcm
