import Rtcm.Lemmas.ReaderItems
import Rtcm.Lemmas.Message
import Rtcm.Lemmas.SockFile
import Rtcm.Lemmas.ReaderItemsX
import Rtcm.Lemmas.ChunkSock
import Rtcm.Gen.Tables
/-
  C02 — no valid frame is lost, duplicated or reordered on well-formed mixed input.
  Input = any concatenation of items: RTCM3-framed byte strings (any payload length 0..1023, any
  content — implemented, unknown, undecodable, zero-length), complete NMEA sentences, complete UBX
  frames, noise bytes other than the three sync characters; over a file-like stream that returns
  what is asked for.  (Buffered streams behave identically; socket-backed streams deliver the same
  bytes by C11 and are run against the same oracle by the correspondence check.)
-/
namespace Rtcm

abbrev T2 := Rtcm.Gen.tables

/-- the constants the reader's dispatch relies on, in the current tables -/
theorem C02_reader_consts : ReaderConsts T2 := ⟨by decide +kernel, by decide +kernel, by decide +kernel⟩

/-- the frames a stream of items should deliver: every framed item whose parse succeeds (all of them
    when parsing is off), in order -/
def deliverable (T : Tables) (o : Opts) : List SItem → List (Bytes × Option Msg)
  | [] => []
  | .frame f :: rest =>
    (if o.parsed then
      match parse T f o.validate o.label with
      | .ok m => [(f, some m)]
      | _ => []
     else [(f, none)]) ++ deliverable T o rest
  | _ :: rest => deliverable T o rest

theorem frames_errEvents (T : Tables) (o : Opts) (e : LibErr) : frames (errEvents T o e) = [] := by
  unfold errEvents
  repeat' split
  all_goals rfl

theorem frames_expect (T : Tables) (o : Opts) (items : List SItem) :
    frames (expect T o items) = deliverable T o items := by
  induction items with
  | nil => rfl
  | cons it rest ih =>
    have : expect T o (it :: rest) = it.events T o ++ expect T o rest := by simp [expect]
    rw [this, frames_append, ih]
    cases it with
    | frame f =>
      simp only [SItem.events, deliverable]
      by_cases hp : o.parsed = true
      · simp only [hp, if_true]
        cases parse T f o.validate o.label with
        | ok m => rfl
        | lib e => simp [frames_errEvents]
        | foreign e => rfl
      · simp only [hp, if_false]; rfl
    | noise b => rfl
    | nmea t body => rfl
    | ubx => rfl

/-- the pinned talker initials (`$V $M $P $B $D $I $L $G $F $S $H $R $E $Y $A $C $Z $T $W`) are all
    skipped as NMEA (a further talker added to the table is not an alarm by itself; every entry must
    start with `$`, `C02_reader_consts`, and the stream oracle watches for frames that get lost) -/
def nmeaPinned : List (Nat × Nat) :=
  [86, 77, 80, 66, 68, 73, 76, 71, 70, 83, 72, 82, 69, 89, 65, 67, 90, 84, 87].map fun c => (36, c)

theorem C02_nmea_talkers_pinned : (nmeaPinned.all fun e => T2.nmeaHdr.contains e) = true := by
  decide +kernel

/-- the protocol constants the reader dispatches on -/
theorem C02_protocol_constants :
    T2.ubxHdr = (0xb5, 0x62) ∧ T2.rtcmHdr = 0xd3 ∧ T2.valcksum = 1 ∧ T2.errRaise = 2 ∧ T2.errLog = 1 := by
  decide +kernel

/-- **Main theorem.**  Iterating the reader over any well-formed mixed stream returns every
    deliverable RTCM3 frame exactly once, byte for byte, in stream order — in every error mode (the
    iteration resumes after a raised error) — and then stops cleanly. -/
theorem C02_no_frame_lost (o : Opts) (items : List SItem) (hv : ∀ it ∈ items, it.Valid T2) :
    frames (run fileOps T2 o true (fs (streamOf items))) = deliverable T2 o items
    ∧ (run fileOps T2 o true (fs (streamOf items))).getLast? = some .stop := by
  rw [run_items T2 C02_reader_consts o items hv]
  exact ⟨frames_expect T2 o items, by simp [expect]⟩

/-- the same over a socket: however the network segments the well-formed stream and whatever the
    buffer size, every deliverable frame is returned exactly once, in order -/
theorem C02_no_frame_lost_over_socket (dec : Bytes → Bytes) (o : Opts) (items : List SItem)
    (hv : ∀ it ∈ items, it.Valid T2) (s : Sock) (hs : SockOK s) (hrem : s.remaining = streamOf items) :
    frames (run (sockOps dec) T2 o true s) = deliverable T2 o items := by
  rw [reader_sock_eq_file dec T2 o true s hs, hrem]
  exact (C02_no_frame_lost o items hv).1

/-- **Same event sequence over every exact connection.**  On a well-formed mixed stream the whole
    event sequence — frames, error-handler calls, raised errors, final stop — over an exact socket
    connection (fault-free without transfer encoding, or fault-free chunked carrying a well-formed
    body whose decoded bytes are the stream) is the one over a file: every theorem below about
    `run fileOps … (fs (streamOf items))` transfers verbatim. -/
theorem C02_events_over_exact_connection (dec : Bytes → Bytes) (R : Sock → Bytes → Prop) (E : Exact dec R)
    (o : Opts) (items : List SItem) (hv : ∀ it ∈ items, it.Valid T2) (s : Sock) (h : R s (streamOf items)) :
    run (sockOps dec) T2 o true s = run fileOps T2 o true (fs (streamOf items)) := by
  rw [run_items_x (xstream_sock dec R E) T2 C02_reader_consts o items hv s h,
    run_items T2 C02_reader_consts o items hv]

/-- instance: any segmentation of the stream over a plain socket, any buffer size -/
theorem C02_events_over_socket (dec : Bytes → Bytes) (o : Opts) (items : List SItem) (hv : ∀ it ∈ items, it.Valid T2)
    (sched : List Recv) (bufsize : Nat) (hff : FaultFree sched) (hb : 0 < bufsize)
    (hdata : pendingData sched = streamOf items) :
    run (sockOps dec) T2 o true (Sock.init dec sched false bufsize) = run fileOps T2 o true (fs (streamOf items)) := by
  apply C02_events_over_exact_connection dec _ (exact_unchunked dec) o items hv
  refine ⟨(recv_faultfree dec ⟨[], [], sched, false, bufsize⟩ ⟨rfl, hb, hff⟩).1, ?_⟩
  have := (recv_spec dec ⟨[], [], sched, false, bufsize⟩ rfl).remaining
  rw [← hdata]
  simpa [Sock.init, Sock.remaining] using this

/-- instance: the stream arrives chunk-encoded (any chunking, any segmentation of the encoding) -/
theorem C02_events_over_chunked_socket (dec : Bytes → Bytes) (o : Opts) (items : List SItem)
    (hv : ∀ it ∈ items, it.Valid T2) (cs : List (Bytes × Bytes)) (hok : ∀ hc ∈ cs, ChunkOK hc)
    (sched : List Recv) (bufsize : Nat) (hff : FaultFree sched) (hb : 0 < bufsize)
    (hbody : pendingData sched = body cs) (hdec : decAll dec cs = streamOf items) :
    run (sockOps dec) T2 o true (Sock.init dec sched true bufsize) = run fileOps T2 o true (fs (streamOf items)) := by
  apply C02_events_over_exact_connection dec _ (exact_chunked dec cs hok) o items hv
  rw [← hdec]
  exact cstate_init hok sched bufsize hff hb hbody

/-- a frame whose payload the constructor accepts is deliverable: in particular every payload of at
    least two bytes with an unknown message number (stub), up to the maximum 1023-byte payload -/
theorem C02_constructible_is_deliverable (T : Tables) (p : Bytes) (l v : Nat) (m : Msg)
    (hc : construct T (some p) l = .ok m) (hlen : p.length < 65536) :
    ∃ f, frameOf T p = .ok f ∧ parse T f v l = .ok m := by
  have hs : m.serialize T = frameOf T p := by simp [Msg.serialize, construct_payload T p l m hc]
  simp only [frameOf, len2bytes, hlen, if_true] at hs ⊢
  refine ⟨_, rfl, ?_⟩
  unfold parse
  rw [if_neg (by rw [crc_self_zero]; simp)]
  have : ∀ (h c : Bytes), h.length = 3 → c.length = 3 → ((h ++ p ++ c).drop 3).take ((h ++ p ++ c).length - 3 - 3) = p := by
    intro h c hh hc3
    have hd : h.drop 3 = [] := List.drop_eq_nil_of_le (by omega)
    rw [List.append_assoc, List.drop_append, hd, hh]
    simp [hc3, hh]
  have e := this [UInt8.ofNat T.rtcmHdr, UInt8.ofNat (p.length / 256), UInt8.ofNat (p.length % 256)]
    (crc2bytes (UInt8.ofNat T.rtcmHdr :: [UInt8.ofNat (p.length / 256), UInt8.ofNat (p.length % 256)] ++ p)) rfl
    (by simp [crc2bytes, toBytes3])
  simp only [List.cons_append, List.nil_append] at e ⊢
  rw [e]
  exact hc

/-- zero-length filler frames, one-byte payloads and undecodable payloads neither end the iteration
    nor displace a later frame: they contribute no frame and the items after them are unaffected
    (an instance of the main theorem, stated for emphasis) -/
theorem C02_filler_does_not_end_iteration (o : Opts) (f : Bytes) (items : List SItem)
    (hf : Framed f) (hv : ∀ it ∈ items, it.Valid T2)
    (hbad : ∀ m, parse T2 f o.validate o.label ≠ .ok m) (hp : o.parsed = true) :
    frames (run fileOps T2 o true (fs (streamOf (.frame f :: items)))) = deliverable T2 o items := by
  have := (C02_no_frame_lost o (.frame f :: items) (by
    intro it hit; simp at hit; rcases hit with h | h
    · rw [h]; exact hf
    · exact hv it h)).1
  rw [this]
  simp only [deliverable, hp, if_true]
  cases hparse : parse T2 f o.validate o.label with
  | ok m => exact absurd hparse (hbad m)
  | lib e => rfl
  | foreign e => rfl

/-- non-vacuity: the zero-length frame `d3 00 00 47 ea 4b` is framed, and `$G…` is a known talker -/
example : Framed [0xd3, 0, 0, 0x47, 0xea, 0x4b] :=
  ⟨⟨0, 0, [], [0x47, 0xea, 0x4b], rfl, by decide, by decide, by decide⟩⟩
example : (SItem.nmea 71 [78, 71, 71, 65, 13]).Valid T2 := ⟨by decide +kernel, by decide⟩

end Rtcm
