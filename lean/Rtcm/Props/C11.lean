import Rtcm.Lemmas.Socket
import Rtcm.Lemmas.SockFile
/-
  C11 — socket reads are independent of how the network segments the data.
  Model: the peer is a schedule of receive events (data segments, timeouts, OS errors, close);
  `bufsize` caps every `recv`.  No transfer encoding here (that is C12).
  The "consequently" clause — the reader over a socket returns the same messages as over a file
  holding the same bytes — is `C11_reader_socket_eq_file` (a simulation between the two stream
  instances of the reader model, Lemmas/ReaderSim.lean).  The event sequences are *not* equal in
  general: where the stream ends inside a frame the file returns a short read (a stream error is
  logged or raised) while the socket wrapper returns nothing (end of stream); the theorem is about
  the returned (raw, parsed) pairs.
-/
namespace Rtcm

/-- Nothing lost, duplicated or reordered, for every schedule (including timeouts and errors),
    every buffer size and every read size: what a read returns followed by what is still to come
    is exactly what was still to come before.  A read returns exactly the requested number of
    bytes, or nothing; nothing only after a receive failed (close / timeout / OS error), and then the
    buffer keeps — as a prefix — everything it held: a timeout loses no buffered data. -/
theorem C11_read (dec : Bytes → Bytes) (s : Sock) (n : Nat) (hc : s.chunked = false) :
    (Sock.read dec s n).1 ++ (Sock.read dec s n).2.remaining = s.remaining
    ∧ ((Sock.read dec s n).1.length = n
        ∨ ((Sock.read dec s n).1 = [] ∧ (Sock.read dec s n).2.buffer.length < n ∧ s.buffer <+: (Sock.read dec s n).2.buffer))
    ∧ (Sock.read dec s n).2.chunked = false ∧ (Sock.read dec s n).2.bufsize = s.bufsize :=
  read_spec dec s n hc

/-- a read never returns more than requested -/
theorem C11_never_more (dec : Bytes → Bytes) (s : Sock) (n : Nat) (hc : s.chunked = false) :
    (Sock.read dec s n).1.length ≤ n := by
  rcases (read_spec dec s n hc).2.1 with h | ⟨h, _⟩
  · omega
  · simp [h]

/-- the concatenation of everything delivered by any sequence of reads, followed by what remains,
    is the peer's stream -/
theorem C11_conservation (dec : Bytes → Bytes) (ns : List Nat) :
    ∀ (s : Sock), s.chunked = false →
      ∃ s' : Sock, (Sock.reads dec s ns).flatten ++ s'.remaining = s.remaining := by
  induction ns with
  | nil => intro s _; exact ⟨s, by simp [Sock.reads]⟩
  | cons n rest ih =>
    intro s hc
    have h := read_spec dec s n hc
    obtain ⟨s', hs'⟩ := ih (Sock.read dec s n).2 h.2.2.1
    refine ⟨s', ?_⟩
    simp only [Sock.reads, List.flatten_cons, List.append_assoc]
    rw [hs', h.1]

/-- **Segmentation independence.**  Two fault-free connections (any partition of the stream into
    non-empty receive results, any positive buffer sizes, any amount already buffered) that have the
    same bytes still to come give the same results for every sequence of read sizes. -/
theorem C11_segmentation_independent (dec : Bytes → Bytes) (s₁ s₂ : Sock) (h₁ : SockOK s₁) (h₂ : SockOK s₂)
    (hrem : s₁.remaining = s₂.remaining) (ns : List Nat) :
    Sock.reads dec s₁ ns = Sock.reads dec s₂ ns := by
  rw [reads_eq_spec dec s₁ h₁, reads_eq_spec dec s₂ h₂, hrem]

/-- on a fault-free connection a read returns fewer than requested (nothing) only when the peer's
    whole remaining stream is shorter than the request -/
theorem C11_short_only_at_end (dec : Bytes → Bytes) (s : Sock) (n : Nat) (h : SockOK s)
    (hshort : (Sock.read dec s n).1.length < n) : s.remaining.length < n := by
  rcases Nat.lt_or_ge s.remaining.length n with hlt | hge
  · exact hlt
  · have := ((read_faultfree dec s n h).2.1 hge).1
    rw [this, List.length_take] at hshort
    omega

/-- the constructor's initial receive conserves the stream as well -/
theorem C11_init (dec : Bytes → Bytes) (sched : List Recv) (bufsize : Nat) :
    (Sock.init dec sched false bufsize).remaining = pendingData sched := by
  have := (recv_spec dec ⟨[], [], sched, false, bufsize⟩ rfl).remaining
  simpa [Sock.init, Sock.remaining] using this

/-- non-vacuity: two different segmentations of the same five bytes -/
example : SockOK ⟨[], [], [.data [1, 2], .data [3, 4, 5]], false, 4096⟩ ∧ SockOK ⟨[1], [], [.data [2, 3, 4], .data [5]], false, 2⟩
    ∧ (⟨[], [], [.data [1, 2], .data [3, 4, 5]], false, 4096⟩ : Sock).remaining
        = (⟨[1], [], [.data [2, 3, 4], .data [5]], false, 2⟩ : Sock).remaining := by
  refine ⟨⟨rfl, by decide, ?_⟩, ⟨rfl, by decide, ?_⟩, by decide⟩
  · intro r hr; simp at hr; rcases hr with rfl | rfl <;> exact ⟨_, rfl, by simp⟩
  · intro r hr; simp at hr; rcases hr with rfl | rfl <;> exact ⟨_, rfl, by simp⟩

/-- the wrapper constructed over a fault-free peer is a fault-free connection -/
theorem init_ok (dec : Bytes → Bytes) (sched : List Recv) (bufsize : Nat) (hff : FaultFree sched) (hb : 0 < bufsize) :
    SockOK (Sock.init dec sched false bufsize) :=
  (recv_faultfree dec ⟨[], [], sched, false, bufsize⟩ ⟨rfl, hb, hff⟩).1

/-- **Reader over a socket = reader over a file.**  For every partition of a byte stream into
    non-empty receive results, every buffer size, every option setting (validate, quitonerror,
    labelmsm, parsed) and with or without resuming after a raised error: iterating the reader over
    the socket wrapper returns exactly the sequence of (raw, parsed) messages that iterating over a
    file holding the same bytes returns. -/
theorem C11_reader_socket_eq_file (dec : Bytes → Bytes) (T : Tables) (o : Opts) (resume : Bool)
    (sched : List Recv) (bufsize : Nat) (hff : FaultFree sched) (hb : 0 < bufsize) :
    frames (run (sockOps dec) T o resume (Sock.init dec sched false bufsize))
      = frames (run fileOps T o resume ⟨pendingData sched, []⟩) := by
  rw [reader_sock_eq_file dec T o resume _ (init_ok dec sched bufsize hff hb), C11_init]

/-- hence two segmentations of the same bytes give the same messages -/
theorem C11_reader_segmentation_independent (dec : Bytes → Bytes) (T : Tables) (o : Opts) (resume : Bool)
    (sched₁ sched₂ : List Recv) (b₁ b₂ : Nat) (h₁ : FaultFree sched₁) (h₂ : FaultFree sched₂)
    (hb₁ : 0 < b₁) (hb₂ : 0 < b₂) (hsame : pendingData sched₁ = pendingData sched₂) :
    frames (run (sockOps dec) T o resume (Sock.init dec sched₁ false b₁))
      = frames (run (sockOps dec) T o resume (Sock.init dec sched₂ false b₂)) := by
  rw [C11_reader_socket_eq_file dec T o resume sched₁ b₁ h₁ hb₁,
    C11_reader_socket_eq_file dec T o resume sched₂ b₂ h₂ hb₂, hsame]

/-- the reader over the socket wrapper — any schedule including timeouts, OS errors and close, any
    buffer size, chunked or not — always terminates by the stream's own measure: the model-only
    `stuck` event never occurs -/
theorem C11_reader_over_socket_terminates (dec : Bytes → Bytes) (T : Tables) (o : Opts) (resume : Bool) (s : Sock) :
    ∀ ev ∈ run (sockOps dec) T o resume s, ev.isStuck = false :=
  run_not_stuck (sockOps_lawful dec) T o resume s

end Rtcm
