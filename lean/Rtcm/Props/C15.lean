import Rtcm.Model.WF
import Rtcm.Lemmas.Decode
import Rtcm.Lemmas.Frame
import Rtcm.Gen.Tables
/-
  C15 — identity is the transmitted message number; unknown types are preserved.
-/
namespace Rtcm

abbrev T15 := Rtcm.Gen.tables

/-- For every 12-bit message number other than 4076 the identity is that number, whatever the low
    four bits of the second byte and the remaining payload are. -/
theorem C15_identity_number (n x : Nat) (hn : n < 4096) (hx : x < 16) (hne : n ≠ 4076) (rest : Bytes) :
    identity (UInt8.ofNat (n / 16) :: UInt8.ofNat (n % 16 * 16 + x) :: rest) = .ok ⟨n, none⟩ := by
  unfold identity
  have h0 : (UInt8.ofNat (n / 16)).toNat = n / 16 := by
    simp [UInt8.toNat_ofNat]; omega
  have h1 : (UInt8.ofNat (n % 16 * 16 + x)).toNat = n % 16 * 16 + x := by
    simp [UInt8.toNat_ofNat]; omega
  simp only [h0, h1]
  have : n / 16 * 16 + (n % 16 * 16 + x) / 16 = n := by omega
  rw [this, if_neg hne]

/-- For 4076 and every 8-bit sub-type the identity is (4076, sub-type): the sub-type sits in the
    low bit of byte 1 and the top seven bits of byte 2 (after the 3-bit version `v`). -/
theorem C15_identity_4076 (sub v y : Nat) (hs : sub < 256) (hv : v < 8) (hy : y < 2) (rest : Bytes) :
    identity (UInt8.ofNat 254 :: UInt8.ofNat (0xC0 + v * 2 + sub / 128) :: UInt8.ofNat (sub % 128 * 2 + y) :: rest)
      = .ok ⟨4076, some sub⟩ := by
  unfold identity
  have h0 : (UInt8.ofNat 254).toNat = 254 := by decide
  have h1 : (UInt8.ofNat (0xC0 + v * 2 + sub / 128)).toNat = 0xC0 + v * 2 + sub / 128 := by
    simp [UInt8.toNat_ofNat]; omega
  have h2 : (UInt8.ofNat (sub % 128 * 2 + y)).toNat = sub % 128 * 2 + y := by
    simp [UInt8.toNat_ofNat]; omega
  simp only [h0, h1]
  have e : 254 * 16 + (0xC0 + v * 2 + sub / 128) / 16 = 4076 := by omega
  rw [e, if_pos rfl, h2]
  have : (192 + v * 2 + sub / 128) % 2 * 128 + (sub % 128 * 2 + y) / 2 = sub := by omega
  rw [this]

/-- the rendered identity is the decimal message number, suffixed `_` and the three-digit sub-type -/
theorem C15_identity_string_examples :
    (⟨1005, none⟩ : Ident).str = [49, 48, 48, 53] ∧ (⟨4076, some 21⟩ : Ident).str = [52, 48, 55, 54, 95, 48, 50, 49]
    ∧ (⟨7, none⟩ : Ident).str = [55] ∧ (⟨4076, some 201⟩ : Ident).str = [52, 48, 55, 54, 95, 50, 48, 49] := by
  decide

/-- Message numbers without a payload definition never cause an error: they yield a stub that
    keeps the full payload, carries only DF002 = identity string, and serialises to the frame of
    that payload. -/
theorem C15_unknown_is_stub (T : Tables) (p : Bytes) (l : Nat) (id : Ident)
    (hid : identity p = .ok id) (hnone : getDict T id = none) :
    ∃ m, construct T (some p) l = .ok m ∧ m.payload = p ∧ m.unknown = true ∧ m.id = id
      ∧ m.attrs = [(((T.special.df002).getD 0, []), .text id.str)] ∧ m.serialize T = frameOf T p := by
  refine ⟨⟨p, l, id, true, [(((T.special.df002).getD 0, []), .text id.str)], true⟩, ?_, rfl, rfl, rfl, rfl, rfl⟩
  simp [construct, hid, hnone]

/-- every payload of at least two bytes (three for 4076) has an identity -/
theorem C15_identity_total (b0 b1 b2 : UInt8) (rest : Bytes) :
    (identity (b0 :: b1 :: b2 :: rest)).isOk = true := by
  unfold identity
  simp only
  split <;> rfl

theorem ismsmId_mem (T : Tables) (id : Ident) (h : ismsmId T id = true) : (id, true) ∈ T.msgids := by
  unfold ismsmId at h
  split at h
  · rename_i e b hf
    subst h
    have hm := List.mem_of_find?_eq_some hf
    have hp := List.find?_some hf
    simp at hp
    rw [← hp]
    exact hm
  · simp at h

/-- in the regenerated message-id table, every entry flagged MSM lies in the block 1070–1229 -/
theorem C15_msm_entries_in_block :
    ∀ e ∈ T15.msgids, e.2 = true → (1070 ≤ e.1.num ∧ e.1.num ≤ 1229 ∧ e.1.sub = none) := by
  decide +kernel

/-- A message is reported as MSM for no number outside the MSM block 1070–1229 … -/
theorem C15_ismsm_only_in_block (id : Ident) (h : ismsmId T15 id = true) :
    1070 ≤ id.num ∧ id.num ≤ 1229 ∧ id.sub = none :=
  C15_msm_entries_in_block (id, true) (ismsmId_mem T15 id h) rfl

/-- … and for every implemented MSM1–MSM7 number of the seven constellations. -/
theorem C15_ismsm_implemented : ∀ e ∈ T15.msm, ismsmId T15 e.1 = true := by decide +kernel

/-- the implemented MSM numbers are exactly 1071–1077, 1081–1087, …, 1131–1137 -/
theorem C15_msm_numbers : T15.msm.map (·.1.num) =
    ([0, 1, 2, 3, 4, 5, 6].flatMap fun c => [1, 2, 3, 4, 5, 6, 7].map fun l => 1070 + 10 * c + l) := by
  decide +kernel

/-- dispatch finds a definition exactly for the identities listed in the three tables: every table
    entry is reachable under its own identity (no entry is hidden by the string-range test, none is
    shadowed by another table) -/
theorem C15_dispatch_reaches_every_def : ∀ e ∈ T15.std ++ T15.msm ++ T15.igs, dispatchesTo T15 e.1 e.2 = true := by
  decide +kernel

def checkBelow (p : Nat → Bool) : Nat → Bool
  | 0 => true
  | n + 1 => p n && checkBelow p n

theorem checkBelow_sound (p : Nat → Bool) (N : Nat) (h : checkBelow p N = true) : ∀ n, n < N → p n = true := by
  induction N with
  | zero => intro n hn; omega
  | succ N ih =>
    simp only [checkBelow, Bool.and_eq_true] at h
    intro n hn
    by_cases hN : n = N
    · subst hN; exact h.1
    · exact ih h.2 n (by omega)

/-- the string-range test sends exactly the numbers 11, 12, 108–122 and 1070–1229 to the MSM table
    (Python compares the identity *strings* with "1070" and "1229"); none of the short ones is an
    MSM key, so they come out as stubs -/
theorem C15_string_range (n : Nat) (hn : n < 4096) :
    (lexLe [49, 48, 55, 48] (strNat n) && lexLe (strNat n) [49, 50, 50, 57])
      = (n == 11 || n == 12 || (decide (108 ≤ n) && decide (n ≤ 122)) || (decide (1070 ≤ n) && decide (n ≤ 1229))) := by
  have h : checkBelow (fun n => (lexLe [49, 48, 55, 48] (strNat n) && lexLe (strNat n) [49, 50, 50, 57])
      == (n == 11 || n == 12 || (decide (108 ≤ n) && decide (n ≤ 122)) || (decide (1070 ≤ n) && decide (n ≤ 1229)))) 4096 = true := by
    decide +kernel
  have := checkBelow_sound _ 4096 h n hn
  simpa using this

/-- non-vacuity -/
example : (match identity [0x3e, 0xd0, 0] with | .ok id => decide (id = ⟨1005, none⟩) | _ => false) = true := by decide
example : (match identity [254, 0xC0, 42] with | .ok id => decide (id = ⟨4076, some 21⟩) | _ => false) = true := by decide

end Rtcm

namespace Rtcm

def df002FirstB (T : Tables) (fid : Nat) : Bool :=
  (T.std ++ T.msm ++ T.igs).all fun e => match e.2 with
    | .field x :: rest => x == fid && !(fidsItems' rest).contains fid
    | _ => false

theorem df002First_of_B (T : Tables) (fid : Nat) (h : df002FirstB T fid = true) :
    ∀ e ∈ T.std ++ T.msm ++ T.igs, ∃ rest, e.2 = .field fid :: rest ∧ fid ∉ fidsItems' rest := by
  intro e he
  unfold df002FirstB at h
  rw [List.all_eq_true] at h
  have := h e he
  split at this
  · rename_i x rest hx
    simp only [Bool.and_eq_true, beq_iff_eq, Bool.not_eq_true', ] at this
    refine ⟨rest, by rw [hx, this.1], ?_⟩
    intro hmem
    have hc : (fidsItems' rest).contains fid = true := by simpa using hmem
    rw [hc] at this
    simp at this
  · simp at this

/-- the numeric id the translator gave DF002 (whatever position it has in the regenerated table) -/
abbrev df002Id : Nat := (T15.special.df002).getD 0
abbrev df002Spec : FieldSpec := (T15.field? df002Id).getD ⟨[], .bit, 0, .none⟩

/-- in the current tables DF002 is a plain 12-bit unsigned field, the first entry of every
    definition and named nowhere else in it -/
theorem C15_df002_ok : DF002OK T15 df002Id df002Spec where
  special := by decide +kernel
  field := by decide +kernel
  ty := by decide +kernel
  width := by decide +kernel
  res := by decide +kernel
  lt := by decide +kernel
  n394 := by decide +kernel
  n395 := by decide +kernel
  n396 := by decide +kernel
  n038 := by decide +kernel
  first := df002First_of_B T15 df002Id (by decide +kernel)

/-- **For implemented types the decoded message-number field equals the identity**: whatever the
    rest of the payload contains, if the constructor succeeds on a defined type then attribute DF002
    is the 12-bit number the identity was taken from. -/
theorem C15_df002_is_identity (p : Bytes) (l : Nat) (m : Msg) (hc : construct T15 (some p) l = .ok m)
    (hk : m.unknown = false) : m.attrs.get? (df002Id, []) = some (.int m.id.num) :=
  df002_is_identity T15 df002Id _ C15_df002_ok p l m hc hk

end Rtcm
