import Rtcm.Lemmas.Decode
import Rtcm.Gen.Tables
/-
  C06 — fields are never read past the end of the payload.
-/
namespace Rtcm

abbrev T6 := Rtcm.Gen.tables

/-- in the current tables the derived label fields occupy no bits -/
theorem C06_labels_zero_width : LabelsZero T6 :=
  labelsZero_of_tree T6 (by decide +kernel)

/-- every single field read lies inside the supplied payload: the bit extraction succeeds exactly
    when the field ends at or before the last payload bit -/
theorem C06_extract_guard (p : Payload) (off w : Nat) :
    (extract p off w).isSome = true ↔ off + w ≤ p.blen := by
  unfold extract
  split <;> simp [*]

/-- a successful decode consumed no more bits than the payload has (all tables with zero-width
    label fields; in particular the current ones) -/
theorem C06_no_overread (p : Bytes) (id : Ident) (l : Nat) (d : List Item) (s : DState)
    (h : decItems ⟨T6, Payload.ofBytes p, id, l⟩ d [] DState.init = .ok s) : s.off ≤ 8 * p.length :=
  decode_within_payload T6 C06_labels_zero_width p id l d s h

/-- A complete message truncated at any length that cuts into its last field is rejected: the
    constructor does not return a message.  (`s.off` is the number of bits the complete decode
    consumed; `8 * k < s.off` says the cut removes at least one needed bit — for a message without
    trailing padding bytes that is every `k` below its length.) -/
theorem C06_truncation_rejected (p : Bytes) (k l : Nat) (id : Ident) (d : List Item) (s : DState)
    (hid : identity (p.take k) = .ok id) (hd : getDict T6 id = some d)
    (hfull : decItems ⟨T6, Payload.ofBytes p, id, l⟩ d [] DState.init = .ok s)
    (hk : 8 * k < s.off) :
    construct T6 (some (p.take k)) l = .lib .type := by
  unfold construct
  simp only [hid, hd]
  cases hdec : decItems ⟨T6, Payload.ofBytes (p.take k), id, l⟩ d [] DState.init with
  | error e => rfl
  | ok s' => exact absurd hdec (decode_truncated T6 C06_labels_zero_width p k id l d s hfull hk s')

/-- non-vacuity: the 19-byte 1005 message consumes 152 bits (so a cut to 18 bytes is rejected) -/
example : (match decItems ⟨T6, Payload.ofBytes [0x3e, 0xd0, 0, 3, 0, 0, 0, 0, 0, 0, 0, 0, 0, 0, 0, 0, 0, 0, 0], ⟨1005, none⟩, 1⟩
      ((getDict T6 ⟨1005, none⟩).getD []) [] DState.init with | .ok s => s.off | .error _ => 0) = 152 := by
  decide +kernel

end Rtcm
