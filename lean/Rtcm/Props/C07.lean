import Rtcm.Lemmas.Helpers
import Rtcm.Lemmas.Crc
import Rtcm.Lemmas.Message
import Rtcm.Gen.Tables
import Rtcm.Lemmas.Repr
import Rtcm.Props.C16
/-
  C07 — serialize and parse are mutual inverses and framing is canonical.
  `eval(repr(m))`: Model/Repr.lean models `bytes.__repr__` (quote choice, the escapes it emits) and
  the fragment of Python's evaluator needed to read such a literal back inside
  `RTCMMessage(payload=…)`; `C07_eval_repr` proves the round trip for every byte string.  That these
  two functions are CPython's is validated by the correspondence (`repr` op: all 256 byte values,
  quote mixes, random payloads), not proved.
-/
namespace Rtcm

/-- a message keeps the payload it was constructed from, byte for byte -/
theorem C07_payload_verbatim (T : Tables) (p : Bytes) (l : Nat) (m : Msg) (h : construct T (some p) l = .ok m) :
    m.payload = p := construct_payload T p l m h

/-- Serialising gives exactly the preamble, the payload length as 16 bits big-endian (top six bits
    zero up to 1023 bytes), the payload, and the CRC-24Q of those bytes. -/
theorem C07_serialize_shape (T : Tables) (p : Bytes) (l : Nat) (m : Msg) (hc : construct T (some p) l = .ok m)
    (hlen : p.length < 65536) :
    let hdr := [UInt8.ofNat T.rtcmHdr, UInt8.ofNat (p.length / 256), UInt8.ofNat (p.length % 256)]
    m.serialize T = .ok (hdr ++ p ++ crc2bytes (hdr ++ p))
    ∧ (p.length ≤ 1023 → p.length / 256 < 4) := by
  refine ⟨?_, fun h => by omega⟩
  simp [Msg.serialize, construct_payload T p l m hc, frameOf, len2bytes, hlen]

/-- Parsing the serialised output gives a message with the same payload, identity and attribute
    values (the very same message), with validation on or off. -/
theorem C07_parse_serialize (T : Tables) (p : Bytes) (l v : Nat) (m : Msg) (hc : construct T (some p) l = .ok m)
    (hlen : p.length < 65536) :
    ∃ f, m.serialize T = .ok f ∧ parse T f v l = .ok m := by
  obtain ⟨hs, _⟩ := C07_serialize_shape T p l m hc hlen
  refine ⟨_, hs, ?_⟩
  unfold parse
  have hcrc : calcCrc24q
      ([UInt8.ofNat T.rtcmHdr, UInt8.ofNat (p.length / 256), UInt8.ofNat (p.length % 256)] ++ p
        ++ crc2bytes ([UInt8.ofNat T.rtcmHdr, UInt8.ofNat (p.length / 256), UInt8.ofNat (p.length % 256)] ++ p)) = 0 :=
    crc_self_zero _
  rw [if_neg (by rw [hcrc]; simp)]
  have : ∀ c : Bytes, c.length = 3 →
      (([UInt8.ofNat T.rtcmHdr, UInt8.ofNat (p.length / 256), UInt8.ofNat (p.length % 256)] ++ p ++ c).drop 3).take
        (([UInt8.ofNat T.rtcmHdr, UInt8.ofNat (p.length / 256), UInt8.ofNat (p.length % 256)] ++ p ++ c).length - 3 - 3) = p := by
    intro c hc3
    simp [hc3]
  rw [this _ (by simp [crc2bytes, toBytes3])]
  exact hc

/-- Conversely, for every valid frame (preamble, length field equal to the payload size, correct
    CRC), parsing then serialising reproduces the frame byte for byte. -/
theorem C07_serialize_parse (T : Tables) (p c : Bytes) (l v : Nat) (m : Msg)
    (hc3 : c.length = 3) (hlen : p.length < 65536)
    (hvalid : calcCrc24q ([UInt8.ofNat T.rtcmHdr, UInt8.ofNat (p.length / 256), UInt8.ofNat (p.length % 256)] ++ p ++ c) = 0)
    (hp : parse T ([UInt8.ofNat T.rtcmHdr, UInt8.ofNat (p.length / 256), UInt8.ofNat (p.length % 256)] ++ p ++ c) v l = .ok m) :
    m.serialize T = .ok ([UInt8.ofNat T.rtcmHdr, UInt8.ofNat (p.length / 256), UInt8.ofNat (p.length % 256)] ++ p ++ c) := by
  unfold parse at hp
  split at hp
  · simp at hp
  · have : (([UInt8.ofNat T.rtcmHdr, UInt8.ofNat (p.length / 256), UInt8.ofNat (p.length % 256)] ++ p ++ c).drop 3).take
        (([UInt8.ofNat T.rtcmHdr, UInt8.ofNat (p.length / 256), UInt8.ofNat (p.length % 256)] ++ p ++ c).length - 3 - 3) = p := by
      simp [hc3]
    rw [this] at hp
    obtain ⟨hs, _⟩ := C07_serialize_shape T p l m hp hlen
    rw [hs, crc_trailer_unique _ c hc3 hvalid]

/-- the preamble of the current tables is 0xD3 -/
theorem C07_preamble : Gen.tables.rtcmHdr = 0xD3 := by decide +kernel

/-- non-vacuity: a 2-byte unknown-type payload is constructed and round-trips -/
example : (construct Gen.tables (some [0xff, 0xf0]) 1).isOk = true := by decide +kernel

/-- **`eval(repr(m))` rebuilds a message with the same payload** (and identity), for every message
    the constructor returned — whatever its payload bytes (quotes, backslashes, control and
    non-ASCII bytes) and whatever label option it was built with. -/
theorem C07_eval_repr (p : Bytes) (l : Nat) (m : Msg) (hc : construct T16 (some p) l = .ok m) :
    ∃ m', evalRepr T16 m = some (.ok m') ∧ m'.payload = m.payload ∧ m'.id = m.id := by
  have hp : m.payload = p := construct_payload T16 p l m hc
  unfold evalRepr
  rw [evalReprPayload_msgRepr, hp]
  have hrel := C16_label_changes_cellsig_only (some p) l 1
  rw [hc] at hrel
  cases h1 : construct T16 (some p) 1 with
  | ok m' =>
    rw [h1] at hrel
    simp only [MsgRel] at hrel
    exact ⟨m', by simp [h1], hrel.2.2.1.symm.trans hp, hrel.2.1.symm⟩
  | lib e => rw [h1] at hrel; simp [MsgRel] at hrel
  | foreign e => rw [h1] at hrel; simp [MsgRel] at hrel

/-- the literal reader inverts `bytes.__repr__` on every byte string -/
theorem C07_bytes_literal_roundtrip (m : Msg) : evalReprPayload (msgRepr m) = some m.payload :=
  evalReprPayload_msgRepr m

/-- non-vacuity: quotes of both kinds, a backslash, TAB / LF / CR, a control and a non-ASCII byte -/
example : bytesRepr [39, 34, 92, 9, 10, 13, 1, 200, 65]
    = [98, 39, 92, 39, 34, 92, 92, 92, 116, 92, 110, 92, 114, 92, 120, 48, 49, 92, 120, 99, 56, 65, 39] := by decide
example : bytesRepr [39, 65] = [98, 34, 39, 65, 34] := by decide

/-! ### `escapeall` (used by the string form for bytes values) is read back to the same bytes -/

/-- the literal `escapeall(bs)` evaluates to `bs`: the model's bytes-literal reader returns exactly
    `bs` and nothing is left over, for every byte string -/
theorem C07_escapeall_eval (bs : Bytes) :
    (match escapeall bs with
     | 98 :: 39 :: rest => parseBody 39 rest
     | _ => none) = some (bs, []) := by
  simp only [escapeall]
  exact parseBody_escBody bs []

/-- hence `escapeall` is injective, and its length is `3 + 4·len` -/
theorem C07_escapeall_injective (a b : Bytes) (h : escapeall a = escapeall b) : a = b := by
  have ha := C07_escapeall_eval a
  rw [h, C07_escapeall_eval b] at ha
  simpa using ha.symm

theorem C07_escapeall_length (bs : Bytes) : (escapeall bs).length = 3 + 4 * bs.length := by
  simp [escapeall, escBody_length]; omega

example : escapeall [0x73, 0x0a, 0xff] = [98, 39, 92, 120, 55, 51, 92, 120, 48, 97, 92, 120, 102, 102, 39] := by decide

/-! ### `hextable` renders rows through the same `bytes.__repr__` model -/

/-- data that fits one line is one row at offset 0 whose text column is `repr(data)` -/
theorem C07_hextable_one_row (bs : Bytes) (cols : Nat) (hne : bs ≠ []) (hfit : bs.length ≤ 2 * cols) :
    hextable bs cols = hexRow cols 0 bs := hextable_one_row bs cols hne hfit

/-- a full line followed by a partial one: the second row starts at byte offset `2 * cols` -/
theorem C07_hextable_two_rows (a b : Bytes) (cols : Nat) (ha : a.length = 2 * cols) (hc : 0 < cols)
    (hne : b ≠ []) (hfit : b.length ≤ 2 * cols) :
    hextable (a ++ b) cols = hexRow cols 0 a ++ hexRow cols (2 * cols) b :=
  hextable_two_rows a b cols ha hc hne hfit

/-- `hextable(b"$G", 2)` = `"000: 2447      | b'$G' |\n"` -/
example : hextable [0x24, 0x47] 2
    = [48, 48, 48, 58, 32, 50, 52, 52, 55, 32, 32, 32, 32, 32, 32, 32, 124, 32, 98, 39, 36, 71, 39, 32, 124, 10] := by decide

end Rtcm
