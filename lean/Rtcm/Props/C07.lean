import Rtcm.Lemmas.Crc
import Rtcm.Lemmas.Message
import Rtcm.Gen.Tables
/-
  C07 — serialize and parse are mutual inverses and framing is canonical.
  PARTIAL: `eval(repr(m))` rebuilding the payload is CPython's `bytes.__repr__` / `eval`; the model
  proves that a message stores the payload it was given verbatim (`C07_payload_verbatim`), the
  harness checks `eval(repr(m)).payload == payload` on the implementation.
-/
namespace Rtcm

/-- a message keeps the payload it was constructed from, byte for byte -/
theorem C07_payload_verbatim (T : Tables) (p : Bytes) (l : Nat) (m : Msg) (h : construct T (some p) l = .ok m) :
    m.payload = p := construct_payload T p l m h

/-- Serialising gives exactly the preamble, the payload length as 16 bits big-endian (top six bits
    zero up to 1023 bytes), the payload, and the CRC-24Q of those bytes. -/
theorem C07_serialize_shape (T : Tables) (p : Bytes) (l : Nat) (m : Msg) (hc : construct T (some p) l = .ok m)
    (hlen : p.length < 65536) :
    let hdr := [UInt8.ofNat T.rtcmHdr, UInt8.ofNat (p.length / 256), UInt8.ofNat (p.length % 256)]
    m.serialize T = .ok (hdr ++ p ++ crc2bytes (hdr ++ p))
    ∧ (p.length ≤ 1023 → p.length / 256 < 4) := by
  refine ⟨?_, fun h => by omega⟩
  simp [Msg.serialize, construct_payload T p l m hc, frameOf, len2bytes, hlen]

/-- Parsing the serialised output gives a message with the same payload, identity and attribute
    values (the very same message), with validation on or off. -/
theorem C07_parse_serialize (T : Tables) (p : Bytes) (l v : Nat) (m : Msg) (hc : construct T (some p) l = .ok m)
    (hlen : p.length < 65536) :
    ∃ f, m.serialize T = .ok f ∧ parse T f v l = .ok m := by
  obtain ⟨hs, _⟩ := C07_serialize_shape T p l m hc hlen
  refine ⟨_, hs, ?_⟩
  unfold parse
  have hcrc : calcCrc24q
      ([UInt8.ofNat T.rtcmHdr, UInt8.ofNat (p.length / 256), UInt8.ofNat (p.length % 256)] ++ p
        ++ crc2bytes ([UInt8.ofNat T.rtcmHdr, UInt8.ofNat (p.length / 256), UInt8.ofNat (p.length % 256)] ++ p)) = 0 :=
    crc_self_zero _
  rw [if_neg (by rw [hcrc]; simp)]
  have : ∀ c : Bytes, c.length = 3 →
      (([UInt8.ofNat T.rtcmHdr, UInt8.ofNat (p.length / 256), UInt8.ofNat (p.length % 256)] ++ p ++ c).drop 3).take
        (([UInt8.ofNat T.rtcmHdr, UInt8.ofNat (p.length / 256), UInt8.ofNat (p.length % 256)] ++ p ++ c).length - 3 - 3) = p := by
    intro c hc3
    simp [hc3]
  rw [this _ (by simp [crc2bytes, toBytes3])]
  exact hc

/-- Conversely, for every valid frame (preamble, length field equal to the payload size, correct
    CRC), parsing then serialising reproduces the frame byte for byte. -/
theorem C07_serialize_parse (T : Tables) (p c : Bytes) (l v : Nat) (m : Msg)
    (hc3 : c.length = 3) (hlen : p.length < 65536)
    (hvalid : calcCrc24q ([UInt8.ofNat T.rtcmHdr, UInt8.ofNat (p.length / 256), UInt8.ofNat (p.length % 256)] ++ p ++ c) = 0)
    (hp : parse T ([UInt8.ofNat T.rtcmHdr, UInt8.ofNat (p.length / 256), UInt8.ofNat (p.length % 256)] ++ p ++ c) v l = .ok m) :
    m.serialize T = .ok ([UInt8.ofNat T.rtcmHdr, UInt8.ofNat (p.length / 256), UInt8.ofNat (p.length % 256)] ++ p ++ c) := by
  unfold parse at hp
  split at hp
  · simp at hp
  · have : (([UInt8.ofNat T.rtcmHdr, UInt8.ofNat (p.length / 256), UInt8.ofNat (p.length % 256)] ++ p ++ c).drop 3).take
        (([UInt8.ofNat T.rtcmHdr, UInt8.ofNat (p.length / 256), UInt8.ofNat (p.length % 256)] ++ p ++ c).length - 3 - 3) = p := by
      simp [hc3]
    rw [this] at hp
    obtain ⟨hs, _⟩ := C07_serialize_shape T p l m hp hlen
    rw [hs, crc_trailer_unique _ c hc3 hvalid]

/-- the preamble of the current tables is 0xD3 -/
theorem C07_preamble : Gen.tables.rtcmHdr = 0xD3 := by decide +kernel

/-- non-vacuity: a 2-byte unknown-type payload is constructed and round-trips -/
example : (construct Gen.tables (some [0xff, 0xf0]) 1).isOk = true := by decide +kernel

end Rtcm
