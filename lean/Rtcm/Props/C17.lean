import Rtcm.Lemmas.ReaderItems
import Rtcm.Props.C02
import Rtcm.Props.C08
/-
  C17 — reader options have only their documented effect.
-/
namespace Rtcm

/-- Neither option changes how many bytes are taken for a frame: one pass over a framed item always
    leaves the stream exactly behind that item — whatever `validate`, `parsed`, the label option and
    the error mode are, and whatever the frame contains. -/
theorem C17_consumption (o : Opts) (f rest : Bytes) (hf : Framed f) :
    (iter fileOps T2 o (fs (f ++ rest))).state = fs rest := by
  rcases iter_item T2 C02_reader_consts o (.frame f) hf rest with ⟨_, h⟩ | ⟨_, h⟩
  · simp only [SItem.bytes] at h; rw [h]; rfl
  · simp only [SItem.bytes] at h; rw [h]; rfl

/-- With validation off the static parser accepts a frame with wrong checksum bytes and decodes it
    exactly as the same header and payload with the right checksum. -/
theorem C17_static_parser_novalidate (T : Tables) (h p c : Bytes) (v l : Nat)
    (hh : h.length = 3) (hc : c.length = 3) (hv : v &&& T.valcksum = 0) :
    parse T (h ++ p ++ c) v l = parse T (h ++ p ++ crc2bytes (h ++ p)) (v ||| T.valcksum) l := by
  have h1 := C08_novalidate_ignores_crc T h p c (crc2bytes (h ++ p)) v l hh hc (by simp [crc2bytes, toBytes3]) hv
  rw [h1]
  unfold parse
  have hz : calcCrc24q (h ++ p ++ crc2bytes (h ++ p)) = 0 := crc_self_zero (h ++ p)
  have n1 : ¬ (v &&& T.valcksum ≠ 0 ∧ calcCrc24q (h ++ p ++ crc2bytes (h ++ p)) ≠ 0) := fun x => x.2 hz
  have n2 : ¬ ((v ||| T.valcksum) &&& T.valcksum ≠ 0 ∧ calcCrc24q (h ++ p ++ crc2bytes (h ++ p)) ≠ 0) := fun x => x.2 hz
  rw [if_neg n1, if_neg n2]

/-- Turning parsing off returns, for any well-formed mixed stream, every framed item as a raw frame
    with no parsed object; for a stream whose frames are all valid these are the same raw frames in
    the same order as with parsing on. -/
theorem C17_parsed_off (o : Opts) (items : List SItem) (hv : ∀ it ∈ items, it.Valid T2)
    (hoff : o.parsed = false)
    (hgood : ∀ f, SItem.frame f ∈ items → ∃ m, parse T2 f o.validate o.label = .ok m) :
    (frames (run fileOps T2 o true (fs (streamOf items)))).map (·.1)
      = (frames (run fileOps T2 { o with parsed := true } true (fs (streamOf items)))).map (·.1)
    ∧ ∀ rp ∈ frames (run fileOps T2 o true (fs (streamOf items))), rp.2 = none := by
  rw [(C02_no_frame_lost o items hv).1, (C02_no_frame_lost { o with parsed := true } items hv).1]
  constructor
  · induction items with
    | nil => rfl
    | cons it rest ih =>
      have ih' := ih (fun x hx => hv x (by simp [hx])) (fun f hf => hgood f (by simp [hf]))
      cases it with
      | frame f =>
        obtain ⟨m, hm⟩ := hgood f (by simp)
        simp only [deliverable, hoff, Bool.false_eq_true, if_false, if_true, hm, List.map_append, List.map_cons,
          List.map_nil]
        rw [ih']
      | noise b => simpa [deliverable] using ih'
      | nmea t body => simpa [deliverable] using ih'
      | ubx => simpa [deliverable] using ih'
  · intro rp hrp
    induction items with
    | nil => simp [deliverable] at hrp
    | cons it rest ih =>
      cases it with
      | frame f =>
        simp only [deliverable, hoff, Bool.false_eq_true, if_false, List.cons_append, List.nil_append,
          List.mem_cons] at hrp
        rcases hrp with h | h
        · rw [h]
        · exact ih (fun x hx => hv x (by simp [hx])) (fun f hf => hgood f (by simp [hf])) h
      | noise b => exact ih (fun x hx => hv x (by simp [hx])) (fun f hf => hgood f (by simp [hf])) (by simpa [deliverable] using hrp)
      | nmea t body => exact ih (fun x hx => hv x (by simp [hx])) (fun f hf => hgood f (by simp [hf])) (by simpa [deliverable] using hrp)
      | ubx => exact ih (fun x hx => hv x (by simp [hx])) (fun f hf => hgood f (by simp [hf])) (by simpa [deliverable] using hrp)

/-- Turning validation off: the reader accepts frames with wrong checksum bytes; what it returns for
    such a frame is the same message as for the frame with the right checksum, validated. -/
theorem C17_reader_novalidate (o : Opts) (h p c : Bytes) (hh : h.length = 3) (hc : c.length = 3)
    (hv : o.validate &&& T2.valcksum = 0) :
    (SItem.frame (h ++ p ++ c)).events T2 { o with parsed := true }
      = ((SItem.frame (h ++ p ++ crc2bytes (h ++ p))).events T2 { o with parsed := true, validate := o.validate ||| T2.valcksum }).map
          (fun ev => match ev with | .frame _ m => .frame (h ++ p ++ c) m | e => e) := by
  simp only [SItem.events, if_true]
  rw [C17_static_parser_novalidate T2 h p c o.validate o.label hh hc hv]
  cases parse T2 (h ++ p ++ crc2bytes (h ++ p)) (o.validate ||| T2.valcksum) o.label with
  | ok m => rfl
  | foreign e => rfl
  | lib e =>
    simp only [errEvents]
    repeat' split
    all_goals rfl

/-- the option theorems above hold verbatim over every exact socket connection: the reader's event
    sequence there is the file's (`C02_events_over_exact_connection`), for every option set -/
theorem C17_over_socket (dec : Bytes → Bytes) (R : Sock → Bytes → Prop) (E : Exact dec R)
    (o : Opts) (items : List SItem) (hv : ∀ it ∈ items, it.Valid T2) (s : Sock) (h : R s (streamOf items)) :
    run (sockOps dec) T2 o true s = run fileOps T2 o true (fs (streamOf items))
    ∧ run (sockOps dec) T2 { o with parsed := true } true s = run fileOps T2 { o with parsed := true } true (fs (streamOf items)) :=
  ⟨C02_events_over_exact_connection dec R E o items hv s h,
   C02_events_over_exact_connection dec R E { o with parsed := true } items hv s h⟩

end Rtcm
