import Rtcm.Lemmas.ReaderFile
import Rtcm.Lemmas.Message
import Rtcm.Lemmas.SockCons
/-
  C01 — the reader delivers only intact, exactly-delimited RTCM3 frames.
  Streams are file-like with an *arbitrary* schedule of short and empty reads (`FStream.sched`):
  each `read(n)` may return all `n` bytes, fewer, or none.  Noise, foreign protocols, damaged or
  truncated frames and false sync bytes are just bytes of `data`: the theorems quantify over every
  byte string.
  Socket-backed streams (no transfer encoding) with an *arbitrary* receive schedule — any
  segmentation, timeouts, OS errors, close, any buffer size — are covered by the `…_socket`
  theorems: the wrapper is a conservative stream (every read / readline hands out the next bytes
  of what the connection still has to deliver), and the slice theorems are proved for every
  conservative stream (Lemmas/ReaderCons.lean).
-/
namespace Rtcm

/-- Successive returned frames are non-overlapping contiguous slices of the input, in stream
    order: the input is `gap₀ ++ raw₁ ++ gap₁ ++ raw₂ ++ …` — for every input, every error mode,
    every placement of short / empty reads, with or without resuming after a raise. -/
theorem C01_contiguous_slices_in_order (T : Tables) (o : Opts) (resume : Bool) (data : Bytes)
    (sched : List (Option Nat)) :
    Sliced data ((frames (run fileOps T o resume ⟨data, sched⟩)).map (·.1)) :=
  (run_file T o resume ⟨data, sched⟩).1

/-- Every returned raw frame is a well-formed RTCM3 frame: preamble 0xD3, six zero bits, a length
    field equal to the enclosed payload size (so `len = 6 + size`). -/
theorem C01_well_formed (T : Tables) (o : Opts) (resume : Bool) (data : Bytes) (sched : List (Option Nat))
    (raw : Bytes) (p : Option Msg) (h : (raw, p) ∈ frames (run fileOps T o resume ⟨data, sched⟩)) :
    ∃ b0 b1 b2, raw[0]? = some b0 ∧ raw[1]? = some b1 ∧ raw[2]? = some b2
      ∧ b0.toNat = 0xD3 ∧ b1.toNat / 4 = 0 ∧ raw.length = 6 + (b1.toNat * 256 + b2.toNat) := by
  have hok := (run_file T o resume ⟨data, sched⟩).2 (raw, p) h
  obtain ⟨b0, h0, hb0⟩ := hok.preamble
  obtain ⟨b1, h1, hb1⟩ := hok.reserved
  obtain ⟨b1', b2, h1', h2, hl⟩ := hok.len
  have : b1' = b1 := by rw [h1] at h1'; injection h1' with e; exact e.symm
  subst this
  exact ⟨b0, b1', b2, h0, h1, h2, hb0, hb1, hl⟩

/-- With checksum validation on, every returned pair has a correct CRC-24Q trailer (the CRC of the
    whole slice is zero), and the parsed message's payload and message number are exactly the ones
    carried by that slice. -/
theorem C01_crc_and_payload (T : Tables) (o : Opts) (resume : Bool) (data : Bytes) (sched : List (Option Nat))
    (hparsed : o.parsed = true) (hval : o.validate &&& T.valcksum ≠ 0)
    (raw : Bytes) (p : Option Msg) (h : (raw, p) ∈ frames (run fileOps T o resume ⟨data, sched⟩)) :
    ∃ m, p = some m ∧ calcCrc24q raw = 0
      ∧ m.payload = (raw.drop 3).take (raw.length - 6)
      ∧ identity m.payload = .ok m.id := by
  have hok := (run_file T o resume ⟨data, sched⟩).2 (raw, p) h
  obtain ⟨m, hp, hparse⟩ := hok.parsedOn hparsed
  obtain ⟨h1, h2, h3⟩ := parse_ok T raw o.validate o.label m hparse
  refine ⟨m, hp, h1 hval, ?_, ?_⟩
  · rw [h2]; congr 1
  · rw [h2]; exact h3

/-- without parsing, no parsed object is attached (raw frames only) -/
theorem C01_unparsed (T : Tables) (o : Opts) (resume : Bool) (data : Bytes) (sched : List (Option Nat))
    (hparsed : o.parsed = false)
    (raw : Bytes) (p : Option Msg) (h : (raw, p) ∈ frames (run fileOps T o resume ⟨data, sched⟩)) : p = none :=
  ((run_file T o resume ⟨data, sched⟩).2 (raw, p) h).parsedOff hparsed

/-- the same over a socket, for every receive schedule: the returned raws are non-overlapping
    contiguous slices, in order, of the bytes the peer delivers -/
theorem C01_contiguous_slices_in_order_socket (dec : Bytes → Bytes) (T : Tables) (o : Opts) (resume : Bool)
    (sched : List Recv) (bufsize : Nat) :
    Sliced (pendingData sched)
      ((frames (run (sockOps dec) T o resume (Sock.init dec sched false bufsize))).map (·.1)) := by
  have hc : (Sock.init dec sched false bufsize).chunked = false :=
    (recv_spec dec ⟨[], [], sched, false, bufsize⟩ rfl).chunked
  have := (run_sock dec T o resume _ hc).1
  have hrem : (Sock.init dec sched false bufsize).remaining = pendingData sched := by
    have := (recv_spec dec ⟨[], [], sched, false, bufsize⟩ rfl).remaining
    simpa [Sock.init, Sock.remaining] using this
  rwa [hrem] at this

/-- … each a well-formed frame with a correct CRC, parsed from exactly its own bytes -/
theorem C01_crc_and_payload_socket (dec : Bytes → Bytes) (T : Tables) (o : Opts) (resume : Bool)
    (s : Sock) (hc : s.chunked = false)
    (hparsed : o.parsed = true) (hval : o.validate &&& T.valcksum ≠ 0)
    (raw : Bytes) (p : Option Msg) (h : (raw, p) ∈ frames (run (sockOps dec) T o resume s)) :
    (∃ b0 b1 b2, raw[0]? = some b0 ∧ raw[1]? = some b1 ∧ raw[2]? = some b2
      ∧ b0.toNat = 0xD3 ∧ b1.toNat / 4 = 0 ∧ raw.length = 6 + (b1.toNat * 256 + b2.toNat))
    ∧ ∃ m, p = some m ∧ calcCrc24q raw = 0
      ∧ m.payload = (raw.drop 3).take (raw.length - 6)
      ∧ identity m.payload = .ok m.id := by
  have hok := (run_sock dec T o resume s hc).2 (raw, p) h
  refine ⟨?_, ?_⟩
  · obtain ⟨b0, h0, hb0⟩ := hok.preamble
    obtain ⟨b1, h1, hb1⟩ := hok.reserved
    obtain ⟨b1', b2, h1', h2, hl⟩ := hok.len
    have : b1' = b1 := by rw [h1] at h1'; injection h1' with e; exact e.symm
    subst this
    exact ⟨b0, b1', b2, h0, h1, h2, hb0, hb1, hl⟩
  · obtain ⟨m, hp, hparse⟩ := hok.parsedOn hparsed
    obtain ⟨h1, h2, h3⟩ := parse_ok T raw o.validate o.label m hparse
    refine ⟨m, hp, h1 hval, ?_, ?_⟩
    · rw [h2]; congr 1
    · rw [h2]; exact h3

/-- non-vacuity of `Sliced`: two frames with noise between them -/
example : Sliced [9, 1, 2, 8, 8, 3, 4, 7] [[1, 2], [3, 4]] := by
  have := Sliced.cons [9] [1, 2] [8, 8, 3, 4, 7] [[3, 4]] (by
    have := Sliced.cons [8, 8] [3, 4] [7] [] (Sliced.nil _)
    simpa using this)
  simpa using this

end Rtcm
