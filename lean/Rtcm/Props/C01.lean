import Rtcm.Model.Names
import Rtcm.Model.Socket
import Rtcm.Gen.Tables
namespace Rtcm
end Rtcm
