import Rtcm.Model.Basic
import Rtcm.Model.Crc
import Rtcm.Model.Decode
import Rtcm.Model.Message
import Rtcm.Model.Reader
import Rtcm.Model.Socket
import Rtcm.Model.Names
import Rtcm.Gen.Tables
