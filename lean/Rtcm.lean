import Rtcm.Model.Basic
import Rtcm.Model.Crc
import Rtcm.Model.Decode
import Rtcm.Model.Message
import Rtcm.Model.Reader
