"""
In-process adapters around the real pyrtcm: evaluate one op line of the line protocol on the
implementation and render the result in the same canonical form as the Lean driver.
pyrtcm is imported from $VERIF_REPO/src (default /repo/src).
"""
import hashlib
import logging
import os
import re
import signal
import socket
import sys
import zlib

REPO = os.environ.get("VERIF_REPO", "/repo")
sys.path.insert(0, os.path.join(REPO, "src"))

import pyrtcm  # noqa: E402
from pyrtcm import RTCMMessage, RTCMReader  # noqa: E402
from pyrtcm import exceptions as rex  # noqa: E402
from pyrtcm import rtcmhelpers as rh  # noqa: E402
from pyrtcm.socketwrapper import SocketWrapper  # noqa: E402

assert os.path.realpath(pyrtcm.__file__).startswith(os.path.realpath(os.path.join(REPO, "src"))), pyrtcm.__file__

logging.getLogger("pyrtcm").propagate = False

LIBKINDS = [
    (rex.RTCMParseError, "parse"),
    (rex.RTCMStreamError, "stream"),
    (rex.RTCMMessageError, "message"),
    (rex.RTCMTypeError, "type"),
]
LIBS = tuple(k for k, _ in LIBKINDS)


def libkind(e):
    for cls, name in LIBKINDS:
        if type(e) is cls:
            return name
    for cls, name in LIBKINDS:
        if isinstance(e, cls):
            return name
    return None


def foreignkind(e):
    if isinstance(e, IndexError):
        return "index"
    if isinstance(e, KeyError):
        return "key"
    if isinstance(e, AttributeError):
        return "attribute"
    if isinstance(e, ValueError):
        return "value"
    if isinstance(e, TypeError):
        return "typeErr"
    return "other"


def errstr(e):
    k = libkind(e)
    if k:
        return "lib:" + k
    return "foreign:" + foreignkind(e)


class Hang(BaseException):
    pass


def _alarm(_s, _f):
    raise Hang()


def hx(b):
    return b.hex() if len(b) else "-"


def unhx(s):
    return b"" if s == "-" else bytes.fromhex(s)


def valstr(v):
    if isinstance(v, bool):
        return "o:bool:%r" % v
    if isinstance(v, int):
        return "i:%d" % v
    if isinstance(v, float):
        return "f:" + v.hex()
    if isinstance(v, str):
        return "t:" + ".".join(str(ord(c)) for c in v)
    return "o:" + type(v).__name__


def pubattrs(m):
    return [(k, v) for k, v in m.__dict__.items() if not k.startswith("_")]


def msgstr(m):
    try:
        return _msgstr(m)
    except Hang:
        raise
    except Exception as e:  # noqa  (a message object corrupted by a successful assignment)
        return "unprintable:" + errstr(e)


def _msgstr(m):
    try:
        ser = hx(m.serialize())
    except Exception as e:  # noqa
        ser = errstr(e)
    unk = 1 if "Not_Yet_Implemented" in str(m) else 0
    attrs = ";".join(k + "=" + valstr(v) for k, v in sorted(pubattrs(m)))
    return "ok id=%s msm=%d unk=%d ser=%s attrs=%s" % (m.identity, 1 if m.ismsm else 0, unk, ser, attrs)


def attr_digest(attrs):
    """short digest of a canonical attribute string (used inside reader events)"""
    return hashlib.sha1(attrs.encode("utf-8", "surrogatepass")).hexdigest()[:12]


def label_arg(tok):
    # "T" stands for Python True; the model receives 1
    return True if tok == "T" else int(tok)


# ------------------------------------------------------------------ stream doubles

class FaultStream:
    """file-like stream with a schedule of short / empty reads (None = full)"""

    def __init__(self, data, sched):
        self.data = data
        self.pos = 0
        self.sched = list(sched)
        self.calls = []

    def _lim(self):
        return self.sched.pop(0) if self.sched else None

    def read(self, n):
        lim = self._lim()
        k = n if lim is None else min(n, lim)
        out = self.data[self.pos:self.pos + k]
        self.calls.append((self.pos, len(out)))
        self.pos += len(out)
        return out

    def readline(self):
        lim = self._lim()
        i = self.data.find(b"\n", self.pos)
        end = i + 1 if i >= 0 else len(self.data)
        k = end - self.pos
        if lim is not None:
            k = min(k, lim)
        out = self.data[self.pos:self.pos + k]
        self.calls.append((self.pos, len(out)))
        self.pos += len(out)
        return out


class FakeSocket(socket.socket):
    """scripted peer: list of ('d', bytes) | 't' | 'o' | 'c'"""

    def __init__(self, sched):
        super().__init__()
        self._sched = list(sched)

    def recv(self, n, *a):
        if not self._sched:
            return b""
        ev = self._sched[0]
        if ev == "c":
            return b""
        if ev == "t":
            self._sched.pop(0)
            raise TimeoutError("timed out")
        if ev == "o":
            self._sched.pop(0)
            raise OSError("scripted")
        bs = ev[1]
        if len(bs) <= n:
            self._sched.pop(0)
            return bs
        self._sched[0] = ("d", bs[n:])
        return bs[:n]


def parse_sched(tok):
    if tok == "-":
        return []
    return [None if t == "n" else int(t) for t in tok.split(",")]


def parse_recvs(tok):
    if tok == "-":
        return []
    out = []
    for t in tok.split(","):
        if t in ("t", "o", "c"):
            out.append(t)
        else:
            out.append(("d", unhx(t[1:]) if len(t) > 1 else b""))
    return out


class LogCapture(logging.Handler):
    def __init__(self, sink):
        super().__init__()
        self.sink = sink

    def emit(self, record):
        e = record.msg
        self.sink.append("H:" + (libkind(e) or "other"))


def run_reader(reader, resume, events):
    while True:
        try:
            raw, parsed = next(reader)
            ident = "None" if parsed is None else parsed.identity
            dig = "-" if parsed is None else attr_digest(";".join(k + "=" + valstr(v) for k, v in sorted(pubattrs(parsed))))
            # ... and a digest of the payload the parsed object holds (it must be the payload of this very slice)
            pdig = "-" if parsed is None else attr_digest(bytes(parsed.payload).hex())
            events.append("F:%s:%s:%s:%s" % (hx(raw), ident, dig, pdig))
        except StopIteration:
            events.append("STOP")
            break
        except LIBS as e:
            events.append("R:" + libkind(e))
            if not resume:
                break
        except Hang:
            raise
        except Exception as e:  # noqa
            events.append("X:" + foreignkind(e))
            break
    return events


def reader_events(stream, validate, quit_, label, parsed, resume, use_handler, **kw):
    events = []
    handler = (lambda e: events.append("H:" + (libkind(e) or "other"))) if use_handler else None
    lg = logging.getLogger("pyrtcm.rtcmreader")
    cap = LogCapture(events)
    lg.addHandler(cap)
    old = lg.level
    lg.setLevel(logging.ERROR)
    try:
        try:
            rdr = RTCMReader(stream, validate=validate, quitonerror=quit_, labelmsm=label,
                             parsed=parsed, errorhandler=handler, **kw)
        except Hang:
            raise
        except LIBS as e:                     # the constructor of a socket-backed reader already receives
            events.append("R:" + libkind(e))
            return events
        except Exception as e:  # noqa
            events.append("X:" + foreignkind(e))
            return events
        run_reader(rdr, resume, events)
    finally:
        lg.removeHandler(cap)
        lg.setLevel(old)
    return events


def real_dec(enc, chunk):
    """what dechunk does to one complete chunk (same sequence of zlib calls)"""
    try:
        if enc & 2:
            chunk = zlib.decompress(chunk, wbits=zlib.MAX_WBITS | 16)
        if enc & 4:
            chunk = zlib.decompress(chunk, wbits=zlib.MAX_WBITS)
        if enc & 8:
            chunk = zlib.decompress(chunk, wbits=-zlib.MAX_WBITS)
    except zlib.error:
        pass
    return chunk


def sha(s):
    return hashlib.sha1(s.encode("utf-8", "surrogatepass")).hexdigest()[:12]


# ------------------------------------------------------------------ op evaluation

def eval_op(line, extra=None):
    """evaluate one op line on the implementation.  `extra` carries impl-only arguments
    (e.g. the real encoding value, Python True labels, handler on/off)."""
    extra = extra or {}
    tok = line.split()
    op = tok[0]
    if op == "crc":
        return str(rh.calc_crc24q(unhx(tok[1])))
    if op == "msg":
        lab = extra.get("label", int(tok[1]))
        try:
            m = RTCMMessage(payload=None if tok[2] == "NONE" else unhx(tok[2]), labelmsm=lab)
        except Hang:
            raise
        except Exception as e:  # noqa
            return errstr(e)
        return msgstr(m)
    if op == "conc":
        # the jobs are constructed by as many real threads, released together at a minimal switch
        # interval (the schedule token is the model's; CPython picks its own); one result per thread
        import threading
        jobs = []
        for j in tok[2].split(","):
            l, h = j.split(":")
            jobs.append((int(l), None if h == "NONE" else unhx("" if h == "-" else h)))
        res = [None] * len(jobs)
        bar = threading.Barrier(len(jobs))

        def work(k):
            lab_, pay = jobs[k]
            try:
                bar.wait(30)
                res[k] = msgstr(RTCMMessage(payload=pay, labelmsm=lab_))
            except Exception as e:  # noqa
                res[k] = errstr(e)
        old = sys.getswitchinterval()
        sys.setswitchinterval(1e-6)
        try:
            ts = [threading.Thread(target=work, args=(k,)) for k in range(len(jobs))]
            for t in ts:
                t.start()
            for t in ts:
                t.join(120)
        finally:
            sys.setswitchinterval(old)
        return " || ".join("unfinished" if r is None else r for r in res)
    if op == "lay":
        # the model lays raw values out and packs them; the implementation parses the same bytes
        lab = extra.get("label", int(tok[1]))
        try:
            m = RTCMMessage(payload=unhx(tok[2]), labelmsm=lab)
        except Hang:
            raise
        except Exception as e:  # noqa
            return errstr(e)
        return msgstr(m)
    if op == "getbit":
        try:
            return "gb %d" % rh.get_bit(unhx("" if tok[1] == "-" else tok[1]), int(tok[2]))
        except Hang:
            raise
        except Exception as e:  # noqa
            return errstr(e)
    if op in ("escall", "tow", "hextbl"):
        try:
            if op == "escall":
                return "es " + hx(rh.escapeall(unhx("" if tok[1] == "-" else tok[1])).encode("latin-1"))
            if op == "tow":
                t = rh.tow2utc(int(tok[1]))
                return "tod %d %d %d %d" % (t.hour, t.minute, t.second, t.microsecond)
            return "ht " + hx(rh.hextable(unhx("" if tok[1] == "-" else tok[1]), int(tok[2])).encode("latin-1"))
        except Hang:
            raise
        except Exception as e:  # noqa
            return errstr(e)
    if op == "brepr":
        return repr(unhx("" if tok[1] == "-" else tok[1]))
    if op == "beval":
        b = unhx("" if tok[1] == "-" else tok[1])
        try:
            r = eval(repr(b))  # noqa: the expression is the repr of a bytes object
        except Hang:
            raise
        except Exception as e:  # noqa
            return "none:" + type(e).__name__
        return "ok " + hx(r) if isinstance(r, bytes) else "none"
    if op == "mrepr":
        lab = extra.get("label", int(tok[1]))
        try:
            m = RTCMMessage(payload=unhx(tok[2]), labelmsm=lab)
        except Hang:
            raise
        except Exception as e:  # noqa
            return errstr(e)
        rp = repr(m)
        try:
            m2 = eval(rp, {"RTCMMessage": RTCMMessage})  # noqa
            back = hx(m2.payload)
        except Hang:
            raise
        except Exception as e:  # noqa
            back = "none:" + type(e).__name__
        return rp + " || " + back
    if op == "parse":
        lab = extra.get("label", int(tok[2]))
        try:
            m = RTCMReader.parse(unhx(tok[3]), validate=int(tok[1]), labelmsm=lab)
        except Hang:
            raise
        except Exception as e:  # noqa
            return errstr(e)
        return msgstr(m)
    if op == "reader":
        v, q, lab, p, resume = int(tok[1]), int(tok[2]), int(tok[3]), int(tok[4]), tok[5] != "0"
        st = FaultStream(unhx(tok[7]), parse_sched(tok[6]))
        if extra.get("wrap") == "buffered":
            import io
            st = io.BufferedReader(io.BytesIO(unhx(tok[7])))
        ev = reader_events(st, v, q, extra.get("label", lab), bool(p), resume, extra.get("handler", True))
        extra["calls"] = getattr(st, "calls", None)
        return " ".join(ev)
    if op == "rsock":
        v, q, lab, p, resume = int(tok[1]), int(tok[2]), int(tok[3]), int(tok[4]), tok[5] != "0"
        enc = extra.get("enc", 1 if tok[6] != "0" else 0)
        sk = FakeSocket(parse_recvs(tok[8]))
        try:
            ev = reader_events(sk, v, q, extra.get("label", lab), bool(p), resume, extra.get("handler", True),
                               bufsize=int(tok[7]), encoding=enc)
        finally:
            sk.close()
        return " ".join(ev)
    if op == "sock":
        enc = extra.get("enc", 1 if tok[1] != "0" else 0)
        sk = FakeSocket(parse_recvs(tok[3]))
        try:
            w = SocketWrapper(sk, encoding=enc, bufsize=int(tok[2]))
            outs = []
            for r in tok[4].split(","):
                d = w.readline() if r == "L" else w.read(int(r))
                outs.append(hx(d))
            return " ".join(outs) + " | buf=" + hx(bytes(w.buffer))
        except Hang:
            raise
        except Exception as e:  # noqa
            return errstr(e)
        finally:
            sk.close()
    if op == "dechunk":
        enc = extra.get("enc", 1)
        sk = FakeSocket([])
        try:
            w = SocketWrapper(sk, encoding=enc, bufsize=4096)
            c, p = w.dechunk(unhx(tok[1]))
            return hx(bytes(c)) + " " + hx(bytes(p))
        except Hang:
            raise
        except Exception as e:  # noqa
            return errstr(e)
        finally:
            sk.close()
    if op == "names":
        name = unhx(tok[1]).decode("latin-1")
        try:
            ix = rh.att2idx(name)
            ixs = "(" + ",".join(str(i) for i in ix) + ")" if isinstance(ix, tuple) else str(ix)
        except Exception as e:  # noqa
            ixs = errstr(e)
        try:
            nm = hx(rh.att2name(name).encode("latin-1"))
        except Exception as e:  # noqa
            nm = errstr(e)
        try:
            ds = sha(rh.datadesc(name))
        except KeyError:
            ds = "KeyError"
        except Exception as e:  # noqa
            ds = errstr(e)
        return "idx=%s name=%s desc=%s" % (ixs, nm, ds)
    if op == "helpers":
        lab = extra.get("label", int(tok[1]))
        try:
            m = RTCMMessage(payload=unhx(tok[2]), labelmsm=lab)
        except Hang:
            raise
        except Exception as e:  # noqa
            return errstr(e)
        try:
            r = rh.parse_msm(m)
            if r is None:
                a = "msm None"
            else:
                meta, sats, cells = r
                row = lambda d: "{" + ",".join(k + "=" + valstr(v) for k, v in d.items()) + "}"  # noqa
                a = "msm identity=%s gnss=%s station=%s epoch=%s sats=%s cells=%s S=[%s] C=[%s]" % (
                    meta["identity"], meta["gnss"], valstr(meta["station"]), valstr(meta["epoch"]),
                    valstr(meta["sats"]), valstr(meta["cells"]),
                    ",".join(row(d) for d in sats), ",".join(row(d) for d in cells))
        except Hang:
            raise
        except Exception as e:  # noqa
            a = "msm " + errstr(e)
        try:
            r = rh.parse_4076_201(m)
            if r is None:
                b = "hc None"
            else:
                parts = []
                for lyr in sorted(r):
                    d = r[lyr]
                    items = list(d.items())
                    h = valstr(items[0][1])
                    cs = " ".join("[" + ",".join(valstr(x) for x in v) + "]" for _, v in items[1:])
                    parts.append("{h=" + h + " " + cs + "}")
                b = "hc " + " ".join(parts)
        except Hang:
            raise
        except Exception as e:  # noqa
            b = "hc " + errstr(e)
        return a + " || " + b
    if op == "setattr":
        lab = extra.get("label", int(tok[1]))
        try:
            m = RTCMMessage(payload=unhx(tok[2]), labelmsm=lab)
        except Hang:
            raise
        except Exception as e:  # noqa
            return errstr(e)
        outs = []
        for n in tok[3].split(","):
            if n.startswith("x:"):           # a name given as hex-encoded UTF-8 (non-ASCII, format characters, blanks)
                n = bytes.fromhex(n[2:]).decode("utf-8")
            try:
                setattr(m, n, 0)
                outs.append("set")
            except Hang:
                raise
            except Exception as e:  # noqa
                outs.append(errstr(e))
        return " ".join(outs) + " || " + msgstr(m)
    return "bad-op"


_HANGS = [0]


def eval_guarded(line, extra=None, timeout=20):
    """run one op under a watchdog.  Once an op has hung the tree is already known to violate
    termination; later ops still run for real, but under a shorter watchdog so that a check on
    a hanging tree finishes in minutes (ordinary ops take milliseconds)."""
    if _HANGS[0] >= 1:
        timeout = min(timeout, 3)
    signal.signal(signal.SIGALRM, _alarm)
    signal.alarm(timeout)
    try:
        return eval_op(line, extra)
    except Hang:
        _HANGS[0] += 1
        return "HANG"
    finally:
        signal.alarm(0)


# ------------------------------------------------------------------ canonicalising the model's line

_F = re.compile(r"f:(-?\d+):(-?\d+):(\d+)")


def _fhex(mo):
    raw, num, den = int(mo.group(1)), int(mo.group(2)), int(mo.group(3))
    try:
        return "f:" + (raw * (num / den)).hex()
    except OverflowError:
        return "f:overflow"


# a reader / socket-reader result: nothing but event tokens (a repr text may contain " F:" by accident)
_EVENTS = re.compile(r"^(?:(?:F:[0-9a-f-]+:[^ ]*|H:\w+|R:\w+|X:\w+|STOP|STUCK)(?: |$))+$")


def canon_model(line, tables=None):
    """bring a model output line into the implementation's canonical form:
    float products, public attributes only, attributes sorted by name, descriptions hashed"""
    if " || " in line and (line.startswith("ok id=") or line.startswith("lib:") or line.startswith("foreign:")) \
            and "RTCMMessage(" not in line:
        # one result per thread (op `conc`)
        return " || ".join(canon_model(p, tables) for p in line.split(" || "))
    line = _F.sub(_fhex, line)
    if _EVENTS.match(line):
        # reader events: F:<raw>:<identity>:<attributes> -> attributes replaced by their digest
        toks = []
        for t in line.split(" "):
            if t.startswith("F:"):
                parts = t.split(":", 3)
                if len(parts) == 4 and parts[3] != "-":
                    items = [a for a in parts[3].split(";") if a and not a.startswith("_")]
                    parts[3] = attr_digest(";".join(sorted(items, key=lambda a: (a.split("=", 1)[0], a))))
                    # the model's parsed object holds, by construction, the payload of the slice
                    t = ":".join(parts) + ":" + attr_digest(parts[1][6:-6] if parts[1] != "-" else "")
                elif len(parts) == 4:
                    t = ":".join(parts) + ":-"
            toks.append(t)
        line = " ".join(toks)
    if " attrs=" in line:
        head, attrs = line.rsplit(" attrs=", 1)
        items = [a for a in attrs.split(";") if a and not a.startswith("_")]
        line = head + " attrs=" + ";".join(sorted(items, key=lambda a: (a.split("=", 1)[0], a)))
    if line.startswith("idx=") and tables is not None:
        mo = re.search(r" desc=(\d+)$", line)
        if mo:
            line = line[:mo.start()] + " desc=" + sha(tables["fields"][int(mo.group(1))]["desc"])
    return line
