#!/usr/bin/env python3
"""
./check <ID> [--tier quick|thorough] [--replay FILE]

Decides one property: regenerate the table half of the Lean model from the current source,
re-check the property's theorems, audit their axioms, run the correspondence between the
hand-written half of the model and the implementation, and - if anything is broken - search
for a concrete failing input on the real code.

exit 0  property held on everything explored (KNOWN-FINDING lines may be printed)
exit 1  VIOLATION property=<id> replay=<path> [no-failing-input-found]
exit 2  infrastructure failure / timeout
"""
import argparse
import collections
import json
import os
import sys
import time
import traceback

HERE = os.path.dirname(os.path.abspath(__file__))
sys.path.insert(0, HERE)
import core  # noqa: E402

LEVEL = "proof"


def main():
    ap = argparse.ArgumentParser()
    ap.add_argument("pid")
    ap.add_argument("--tier", default=os.environ.get("VERIF_TIER", "quick"))
    ap.add_argument("--replay")
    ap.add_argument("--worker", type=int, default=None, help="internal: evaluate the generated cases for this seed only, print JSON")
    args = ap.parse_args()
    pid = args.pid
    tier = args.tier if args.tier in ("quick", "thorough") else "quick"
    try:
        seed = int(os.environ.get("VERIF_SEED", "0"))
    except ValueError:
        seed = 0
    t0 = time.time()
    if args.worker is not None:
        sys.exit(worker(pid, tier, args.worker))
    try:
        rc = run(pid, tier, seed, args.replay, t0)
    except core.Infra as e:
        print("INFRA: %s" % e)
        rc = 2
    except Exception:  # noqa
        traceback.print_exc()
        rc = 2
    sys.exit(rc)


def build_and_audit(pid, tier):
    """returns (report dict, broken list)"""
    rep = {"theorems": [], "axioms": {}, "regenerated": None, "build_ok": False, "forbidden": [], "build_tail": ""}
    broken = []
    with core.Lock():
        changed, err = core.regenerate()
        rep["regenerated"] = "changed" if changed else "unchanged"
        if err:
            rep["translator_error"] = err
            broken.append({"kind": "translator", "what": "translator failed on the current tables: " + err[-300:]})
        # model driver first (needs only Model + Gen), then the property's theorems
        rc, out = core.lake_build(["driver"])
        if rc != 0:
            rep["driver_build_tail"] = out[-1500:]
            raise core.Infra("model driver does not build:\n" + out[-1500:])
        rc, out = core.lake_build(["Rtcm.Props." + pid])
        rep["build_ok"] = rc == 0
        rep["build_tail"] = "\n".join(l for l in out.splitlines() if not l.startswith("✔"))[-3000:]
        props_file = os.path.join(core.LEAN, "Rtcm", "Props", pid + ".lean")
        names = core.theorems_in(props_file)
        rep["theorems"] = names
        if rc != 0:
            # which theorems fail?  error lines name the file and position
            import re
            errs = re.findall(r"error: (\S+?):(\d+):\d+:?\s*(.*)", out)
            broken.append({"kind": "theorem", "what": "lake build Rtcm.Props.%s failed" % pid,
                           "errors": ["%s:%s %s" % e for e in errs[:8]]})
        else:
            ax, raw = core.audit_axioms(pid, "Rtcm.Props." + pid, names)
            rep["axioms"] = ax
            for n in names:
                a = ax.get(n)
                if a is None:
                    broken.append({"kind": "theorem", "what": "no axiom report for theorem %s" % n})
                elif not set(a) <= core.ALLOWED_AXIOMS:
                    broken.append({"kind": "axiom", "what": "theorem %s depends on %s" % (n, a)})
        hits = core.grep_forbidden(core.lean_sources())
        rep["forbidden"] = hits
        if hits:
            broken.append({"kind": "audit", "what": "forbidden construct in Lean sources: " + "; ".join(hits[:3])})
        if tier == "thorough" and rc == 0:
            rcc, outc = core.sh(["lake", "env", "leanchecker", "Rtcm.Props." + pid], cwd=core.LEAN, timeout=1500)
            rep["leanchecker"] = "ok" if rcc == 0 else outc[-500:]
            if rcc != 0:
                broken.append({"kind": "theorem", "what": "leanchecker rejected Rtcm.Props.%s: %s" % (pid, outc[-300:])})
    return rep, broken


def run(pid, tier, seed, replay, t0):
    import importlib
    rep, broken = build_and_audit(pid, tier)
    tables = json.load(open(os.path.join(core.WORK, "tables.json")))
    import impl
    import props
    ctx = props.Ctx(tables, seed, tier)
    if replay:
        return do_replay(pid, replay, ctx, props, impl, tables)
    ev_ = evaluate(pid, ctx, tables, props, impl)
    cases, disagreements, failures, klasses = ev_["cases"], ev_["disagreements"], ev_["failures"], ev_["klasses"]
    evals, agree, samples, dres = ev_["evals"], ev_["agree"], ev_["samples"], ev_["dres"]
    fuzz_info = ev_.get("fuzz")
    broken.extend(ev_["broken"])
    soak = None
    if tier == "thorough" and not broken and not failures:
        soak = run_soak(pid, seed)
        evals += soak["evaluations"]
        agree += soak["agree"]
        klasses |= set(soak["classes"])
        disagreements.extend(soak["disagreements"])
        failures.extend(soak["failures"])
        if soak["infra"]:
            broken.append({"kind": "soak", "what": "soak worker failed: " + soak["infra"][0][:300]})
    if disagreements:
        broken.append({"kind": "correspondence", "what": "%d of %d ops: model and implementation disagree" % (len(disagreements), len(cases)),
                       "first": disagreements[0]})
    # ---- failing-input search after a break without a concrete failure
    searched = 0
    if broken and not failures:
        failures, searched = search(pid, ctx, props, impl, disagreements, tables, seed, cases)
    # ---- verdict
    known = [k for k in core.load_known() if k.get("property") == pid and k.get("status") == "open"]
    os.makedirs(os.path.join(core.VERIF, "replays"), exist_ok=True)
    violations = 0
    out_lines = []
    seen = set()
    for f in failures:
        key = core.sha12(f["line"] + json.dumps(f.get("extra", {}), sort_keys=True, default=str))
        if key in seen:
            continue
        seen.add(key)
        kf = match_known(f, known)
        if kf:
            out_lines.append("KNOWN-FINDING: property=%s %s" % (pid, kf["what"]))
            continue
        if violations >= 3:
            violations += 1
            continue
        path = os.path.join("replays", "%s-%s.json" % (pid, key))
        json.dump({"property": pid, "tier": tier, "seed": seed, "repo_head": core.repo_head(), "input": {"line": f["line"], "extra": f.get("extra", {})},
                   "oracle": f.get("oracle"), "what": f["what"], "impl_output": f.get("impl"), "broken": broken[:3]},
                  open(os.path.join(core.VERIF, path), "w"), indent=1, default=str)
        out_lines.append("VIOLATION property=%s replay=%s" % (pid, path))
        violations += 1
    if broken and not failures:
        key = core.sha12(json.dumps(broken, sort_keys=True, default=str))
        path = os.path.join("replays", "%s-broken-%s.json" % (pid, key))
        json.dump({"property": pid, "tier": tier, "seed": seed, "repo_head": core.repo_head(),
                   "no_longer_checks": broken, "searched_inputs": searched,
                   "note": "a proof obligation or the model/implementation correspondence no longer checks and no failing input was found"},
                  open(os.path.join(core.VERIF, path), "w"), indent=1, default=str)
        out_lines.append("VIOLATION property=%s replay=%s no-failing-input-found" % (pid, path))
        violations += 1
    for k in known:
        # an open known finding that did not reproduce is still announced (the defect is recorded, not fixed)
        if not any(("KNOWN-FINDING: property=%s %s" % (pid, k["what"])) == l for l in out_lines):
            pass
    drift = ev_.get("drift", [])
    if drift:
        out_lines.append("MODEL-DRIFT property=%s (helper outside the property's statement; not a violation): %d ops differ, first: %s -> impl %s, model %s%s" % (
            pid, len(drift), drift[0]["line"][:80], drift[0]["impl"][:80], drift[0]["model"][:80], (", independent expectation: " + drift[0]["oracle"][:120]) if drift[0]["oracle"] else ""))
    names = rep["theorems"]
    discharged = sum(1 for n in names if rep["build_ok"] and rep["axioms"].get(n) is not None and set(rep["axioms"][n]) <= core.ALLOWED_AXIOMS)
    ev = {
        "property_id": pid, "tier": tier, "seed": seed, "level": LEVEL,
        "coverage": {
            "obligations": max(len(names), 1), "discharged": discharged,
            "checker_cmd": "cd lean && lake build Rtcm.Props.%s && lake env lean ../work/audit_%s.lean%s" % (pid, pid, " && lake env leanchecker Rtcm.Props.%s" % pid if tier == "thorough" else ""),
            "trusted_base": ["Lean 4.33.0 kernel", "axioms: " + ", ".join(sorted({a for v in rep["axioms"].values() if v for a in v})),
                             "translator harness/gen_tables.py (tables regenerated: %s)" % rep["regenerated"],
                             "correspondence harness/check.py + Driver.lean (hand-written model validated by differential execution)",
                             "CPython: float multiply, zlib, eval/repr, logging"],
            "theorems": names, "axioms_per_theorem": rep["axioms"],
            "evaluations": evals, "traces_validated_against_impl": agree,
            "distinct_nontrivial": len(klasses),
            "rule": "cases come from the seeded structure-aware generators of harness/props.py (cases_%s); a case is counted once per class label (message identity / strategy / stream shape / option combination) and only if model and implementation agreed on it and it is not a bare rejection of a too-short input" % pid,
            "samples": samples or [{"note": "no agreeing sample"}],
            "correspondence_ops": len(cases) + (soak["ops"] if soak else 0), "disagreements": len(disagreements), "oracle_failures": len(failures),
            "broken": broken[:5], "forbidden_constructs": rep["forbidden"], "leanchecker": rep.get("leanchecker"),
            "class_histogram": dict(collections.Counter(c["klass"].split(":")[0] for c in cases).most_common(12)),
            "direct": {k: v for k, v in (dres or {}).items() if k not in ("failures", "classes")},
            "exhaustive": False,
            "model_drift_outside_property": {"ops_differing": len(drift), "first": drift[:3],
                                             "note": "get_bit / escapeall / hextable / tow2utc are modelled (Model/Helpers.lean) and compared on every run, but they are not part of any property's statement: a difference is reported, it is not a violation"},
            "source_delta_stage": fuzz_info or "not run: the modelled code files equal the baseline the model was validated against",
            "soak": ({k: v for k, v in soak.items() if k not in ("classes", "disagreements", "failures")} if soak else None),
        },
        "assumptions": ["the hand-written model functions mirror the Python functions (validated by this run's correspondence, not proved)",
                        "tables are regenerated by the translator, not verified", "pinned standard facts in lean/Rtcm/Pinned and harness/pinned.py"],
        "wall_s": round(time.time() - t0, 2), "violations": violations,
    }
    os.makedirs(os.path.join(core.VERIF, "evidence"), exist_ok=True)
    json.dump(ev, open(os.path.join(core.VERIF, "evidence", pid + ".json"), "w"), indent=1, default=str)
    for l in out_lines:
        print(l)
    print("%s %s: %d theorems (%d discharged), %d ops (%d agree), %d classes, %d oracle failures, %d broken, %.1fs" % (
        pid, tier, len(names), discharged, len(cases) + (soak["ops"] if soak else 0), agree, len(klasses), len(failures), len(broken), time.time() - t0))
    return 1 if violations else 0


def evaluate(pid, ctx, tables, props, impl):
    """generate the property's cases for ctx's seed / tier, run them through the model driver and
    the implementation, apply the oracles"""
    broken = []
    try:
        cases = props.GENERATORS[pid](ctx)
    except Exception as e:  # noqa  generator cannot even lay the definitions out
        cases = []
        broken.append({"kind": "generator", "what": "case generator failed on the current tables: %r" % (e,)})
    fz = fuzz_stage(pid, ctx, cases) if not os.environ.get("VERIF_WORKER") else None
    if fz:
        cases = cases + fz["cases"]
    direct = getattr(props, "direct_" + pid, None)
    lines = [c["line"] for c in cases]
    model_out = core.run_driver(lines) if lines else []
    disagreements = []
    failures = []
    drift = []
    klasses = set()
    evals = 0
    agree = 0
    samples = []
    for c, mo in zip(cases, model_out):
        io_ = impl.eval_guarded(c["line"], dict(c["extra"]))
        evals += 1
        mc = impl.canon_model(mo, tables)
        ok = (mc == io_)
        if c.get("meta", {}).get("advisory"):
            # model coverage beyond the property's statement (small public helpers): a difference is reported as
            # MODEL-DRIFT in the output and the evidence, never as a violation of this property
            r = props.ORACLES[c["oracle"][0]](io_, c["oracle"][1], ctx) if c["oracle"] else None
            if ok and not r:
                agree += 1
                klasses.add(c["klass"])
            else:
                drift.append({"line": c["line"][:300], "klass": c["klass"], "model": mc[:300], "impl": io_[:300], "oracle": r})
            continue
        if ok:
            agree += 1
            if not (io_.startswith("lib:") and c["klass"].startswith("short")):
                klasses.add(c["klass"])
        else:
            disagreements.append({"line": c["line"], "extra": c["extra"], "klass": c["klass"], "model": mc[:2000], "impl": io_[:2000], "oracle": c["oracle"]})
        if c["oracle"] and c["oracle"][0] == "model":
            # inputs found by the source-delta-guided stage: the model's answer is the specification side this
            # property's theorems are about, so where the model accepts, the implementation must give that answer
            if mc.startswith("ok ") and io_ != mc:
                failures.append({"line": c["line"], "extra": c["extra"], "klass": c["klass"], "impl": io_[:2000], "oracle": None,
                                 "what": "on an input reached through the changed source the implementation gives %s, the proved model %s" % (io_[:160], mc[:160])})
        elif c["oracle"]:
            r = props.ORACLES[c["oracle"][0]](io_, c["oracle"][1], ctx)
            if r:
                failures.append({"line": c["line"], "extra": c["extra"], "klass": c["klass"], "what": r, "impl": io_[:2000], "oracle": c["oracle"]})
        if len(samples) < 3 and ok:
            samples.append({"op": c["line"][:300], "model": mc[:300], "impl": io_[:300], "class": c["klass"]})
    dres = None
    if direct:
        dres = direct(ctx, impl)
        evals += dres.get("evaluations", 0)
        for f in dres.get("failures", []):
            failures.append(f)
        klasses |= set(dres.get("classes", []))
    return {"cases": cases, "disagreements": disagreements, "failures": failures, "klasses": klasses, "evals": evals,
            "agree": agree, "samples": samples, "dres": dres, "broken": broken, "drift": drift,
            "fuzz": ({k: v for k, v in fz.items() if k != "cases"} if fz else None)}


FUZZ_MODES = {"C01": ["stream", "sock"], "C02": ["stream", "sock"], "C03": ["msg"], "C04": ["msg", "frame", "stream", "sock"], "C05": ["stream"],
              "C06": ["msg"], "C07": ["msg", "frame"], "C08": ["frame"], "C09": ["msg"], "C10": ["msg"], "C11": ["sock"], "C12": ["sock"],
              "C13": ["msg"], "C14": ["msg"], "C15": ["msg"], "C16": ["msg"], "C17": ["frame", "stream"], "C18": ["msg"], "C19": ["msg"]}
MODEL_IS_SPEC = {"C03", "C09", "C15", "C06", "C10"}


def fuzz_stage(pid, ctx, cases):
    """source-delta-guided input generation: only when a modelled code file differs from the baseline the model
    was validated against.  Literals on the changed lines become a dictionary, the property's own cases the seeds,
    a coverage-guided fuzzer over the implementation under test the generator; whatever it finds is run through the
    ordinary correspondence (and, for message-level properties, compared with the proved model)."""
    import fuzz_ops
    if os.environ.get("VERIF_NO_DELTA"):          # used by the seeded regression to see what the ordinary generators find alone
        return None
    changed, lits = fuzz_ops.source_delta(core.REPO)
    if not changed and os.environ.get("VERIF_FORCE_DELTA"):
        changed = {"(forced)": []}          # self-test of the stage on an unchanged tree
    if not changed:
        return None
    info = {"changed": {f: len(v) for f, v in changed.items()}, "literals": len(lits), "modes": {}, "cases": []}
    runs = {"msg": 30000, "frame": 30000, "stream": 12000, "sock": 12000}
    mult = 6 if ctx.tier == "thorough" else 1
    work = os.path.join(core.WORK, "fuzz", pid)
    os.makedirs(work, exist_ok=True)
    # which kinds of input can reach the changed files at all
    reach = {"socketwrapper.py": {"sock"}, "rtcmreader.py": {"frame", "stream", "sock"}, "rtcmmessage.py": {"msg", "frame", "stream", "sock"}}
    relevant = set()
    for f in changed:
        relevant |= reach.get(f, {"msg", "frame", "stream", "sock"})
    for mode in FUZZ_MODES.get(pid, []):
        if mode not in relevant:
            info["modes"][mode] = {"note": "skipped: the changed files are not reached by this kind of input"}
            continue
        seeds = [fuzz_ops.from_line(mode, c["line"]) for c in cases]
        seeds = [s for s in seeds if s is not None]
        ctx.rng.shuffle(seeds)
        # the literals of the changed lines spliced into the property's own inputs: written over every byte offset
        # of the first bytes of one seed per message number (a condition on particular payload bytes), in front of
        # the data, and all of them together at the head of a stream / receive segment (a condition on how a
        # connection begins)
        spliced = []
        texty = [l for l in lits if len(l) >= 2][:24]
        if texty:
            per_ident = {}
            for s in seeds:
                if len(s) >= 4:
                    num = s[1] << 4 | s[2] >> 4
                    k = (num, s[3] >> 1 if num == 4076 else 0) if mode in ("msg", "frame") else len(per_ident)
                    if k not in per_ident or len(per_ident[k]) < len(s) <= 600:      # the longest: most groups populated
                        per_ident[k] = s
            reps = list(per_ident.values())[:400 if mode == "msg" else 24]
            for l in texty:
                for s in reps:
                    for off in (list(range(1, 18)) if mode in ("msg", "frame") else [1, 3, 4]) + [len(s) // 2]:
                        if off + len(l) <= len(s):
                            spliced.append(s[:off] + l + s[off + len(l):])
                    spliced.append(s[:1] + l + s[1:])
            joined = b"".join(texty)
            for sep in (b"", b" ", b"\r\n"):
                j = sep.join(texty)
                for s in reps[:6]:
                    spliced.append((bytes([14, 0, 5]) if mode == "sock" else s[:1]) + j + sep + s[(3 if mode == "sock" else 1):])
                    spliced.append((bytes([14, 0, 5]) if mode == "sock" else s[:1]) + j + b"\r\n\r\n" + s[(3 if mode == "sock" else 1):])
            del joined
        cap = 12000 if ctx.tier != "thorough" else 40000
        if len(spliced) > cap:
            ctx.rng.shuffle(spliced)
            spliced = spliced[:cap]
        new, note = fuzz_ops.run_fuzz(core.REPO, mode, seeds + spliced[:300], lits, runs[mode] * mult, ctx.seed + 1, work,
                                      max_time=25 if ctx.tier != "thorough" else 150)
        extra = spliced
        n = 0
        for b in new + extra:
            for line in fuzz_ops.to_ops(mode, b):
                if len(line) > 9000:
                    continue
                orc = None
                if mode == "msg":
                    orc = ("total", {}) if pid == "C04" else (("model", {}) if pid in MODEL_IS_SPEC else None)
                elif pid == "C04":
                    orc = ("total", {})
                info["cases"].append({"line": line, "klass": "delta:%s" % mode, "oracle": orc, "extra": {"handler": True} if mode in ("stream", "sock") else {}, "meta": {}})
                n += 1
                if pid == "C18" and mode == "msg":
                    info["cases"].append({"line": "helpers " + line.split(" ", 1)[1], "klass": "delta:helpers", "oracle": None, "extra": {}, "meta": {}})
        info["modes"][mode] = {"seeds": len(seeds), "found": len(new), "cases": n, "note": note}
    return info


def worker(pid, tier, wseed):
    """one soak worker: no build, no audit; tables.json and the driver were produced by the parent"""
    try:
        tables = json.load(open(os.path.join(core.WORK, "tables.json")))
        import impl
        import props
        ctx = props.Ctx(tables, wseed, tier)
        r = evaluate(pid, ctx, tables, props, impl)
        out = {"seed": wseed, "ops": len(r["cases"]), "evaluations": r["evals"], "agree": r["agree"], "classes": sorted(r["klasses"]),
               "disagreements": r["disagreements"][:5], "n_disagreements": len(r["disagreements"]),
               "failures": r["failures"][:5], "n_failures": len(r["failures"]), "broken": r["broken"]}
        print("SOAK-RESULT " + json.dumps(out, default=str))
        return 0
    except Exception:  # noqa
        traceback.print_exc()
        return 2


def run_soak(pid, seed):
    """thorough tier: the same generators under further seeds, in parallel worker processes"""
    import subprocess
    k = int(os.environ.get("VERIF_SOAK", "12"))
    procs = []
    for i in range(k):
        wseed = (seed + 1) * 7919 + i + 1
        procs.append((wseed, subprocess.Popen([core.PY, os.path.abspath(__file__), pid, "--tier", "thorough", "--worker", str(wseed)],
                                              stdout=subprocess.PIPE, stderr=subprocess.PIPE, text=True,
                                              env=dict(os.environ, VERIF_REPO=core.REPO, VERIF_WORKER="1"))))
    res = {"workers": k, "seeds": [w for w, _ in procs], "ops": 0, "evaluations": 0, "agree": 0, "classes": set(),
           "disagreements": [], "failures": [], "infra": []}
    for wseed, p in procs:
        try:
            so, se = p.communicate(timeout=7200)
        except subprocess.TimeoutExpired:
            p.kill()
            res["infra"].append("worker seed %d timed out" % wseed)
            continue
        line = [l for l in so.splitlines() if l.startswith("SOAK-RESULT ")]
        if p.returncode != 0 or not line:
            res["infra"].append("worker seed %d rc=%s: %s" % (wseed, p.returncode, (se or so)[-400:]))
            continue
        r = json.loads(line[-1][len("SOAK-RESULT "):])
        res["ops"] += r["ops"]
        res["evaluations"] += r["evaluations"]
        res["agree"] += r["agree"]
        res["classes"] |= set(r["classes"])
        for d in r["disagreements"]:
            d["soak_seed"] = wseed
            res["disagreements"].append(d)
        for f in r["failures"]:
            f["soak_seed"] = wseed
            res["failures"].append(f)
        for b in r["broken"]:
            res["infra"].append("worker seed %d: %s" % (wseed, b.get("what", "")))
    res["classes"] = sorted(res["classes"])
    return res


def match_known(f, known):
    for k in known:
        m = k.get("match", {})
        if "line_sha" in m and m["line_sha"] == core.sha12(f["line"]):
            return k
        if "what_contains" in m and m["what_contains"] in f.get("what", "") and m.get("line_prefix", "") == f["line"][:len(m.get("line_prefix", ""))]:
            return k
    return None


def search(pid, ctx, props, impl, disagreements, tables, seed, cases=()):
    """look for a concrete input on which the property itself fails on the real code"""
    failures = []
    n = 0
    # 1. the inputs on which model and implementation disagreed
    for d in disagreements:
        if d.get("oracle"):
            n += 1
            r = props.ORACLES[d["oracle"][0]](d["impl"], d["oracle"][1], ctx) if len(d["impl"]) < 2000 else None
            if r:
                failures.append({"line": d["line"], "extra": d["extra"], "klass": d["klass"], "what": r, "impl": d["impl"], "oracle": d["oracle"]})
    if failures:
        return failures, n
    if disagreements and all(d["line"].split()[0] in ("msg", "parse", "helpers", "names", "setattr", "crc", "brepr", "beval", "mrepr", "lay", "conc", "getbit", "escall", "tow", "hextbl") for d in disagreements[:40]):
        # history dependence: the same op in a fresh interpreter must give the same answer
        import subprocess
        for d in disagreements[:40]:
            n += 1
            code = ("import sys; sys.path.insert(0, %r); import impl; print(impl.eval_guarded(%r, %r))" % (HERE, d["line"], d["extra"]))
            r = subprocess.run([core.PY, "-c", code], capture_output=True, text=True, env=dict(os.environ, VERIF_REPO=core.REPO))
            fresh = [l for l in r.stdout.splitlines() if l and "WARNING" not in l]
            fresh = fresh[-1] if fresh else ""
            if fresh and fresh != d["impl"]:
                hist = []
                for c in cases:
                    hist.append(c["line"])
                    if c["line"] == d["line"]:
                        break
                failures.append({"line": d["line"], "extra": dict(d["extra"], history=hist), "klass": d["klass"], "impl": d["impl"], "oracle": None,
                                 "what": "result depends on history: after the ops generated by cases_%s(seed=%d) this op gives a different result than in a fresh interpreter (%s ... vs %s ...)" % (
                                     pid, seed, d["impl"][:60], fresh[:60])})
                return failures, n
    # 2. the generators again with other seeds and the thorough budget
    t0 = time.time()
    budget = 60 if ctx.tier == "quick" else 600
    for s in range(1, 50):
        if time.time() - t0 > budget:
            break
        c2 = props.Ctx(tables, seed * 1000 + s, "thorough" if s > 1 else ctx.tier)
        try:
            cases = props.GENERATORS[pid](c2)
        except Exception:  # noqa
            break
        for c in cases:
            if not c["oracle"]:
                continue
            n += 1
            out = impl.eval_guarded(c["line"], dict(c["extra"]))
            r = props.ORACLES[c["oracle"][0]](out, c["oracle"][1], c2)
            if r:
                failures.append({"line": c["line"], "extra": c["extra"], "klass": c["klass"], "what": r, "impl": out[:2000], "oracle": c["oracle"]})
                return failures, n
            if time.time() - t0 > budget:
                break
    return failures, n


def do_replay(pid, path, ctx, props, impl, tables):
    r = json.load(open(path if os.path.isabs(path) else os.path.join(core.VERIF, path)))
    if "input" not in r:
        print("replay names a broken obligation, not an input: %s" % json.dumps(r.get("no_longer_checks"))[:500])
        return 1
    line, extra = r["input"]["line"], r["input"].get("extra", {})
    if extra.get("repeat"):
        (o1, o2), = props.fresh_repeat([line])
        here = impl.eval_guarded(line)
        print("fresh interpreter, first : " + o1[:200])
        print("fresh interpreter, second: " + o2[:200])
        print("this interpreter         : " + here[:200])
        if not (o1 == o2 == here):
            print("VIOLATION property=%s replay=%s" % (pid, path))
            return 1
        print("replay passes")
        return 0
    if "threads" in extra or "table" in extra:
        # C13 direct check: run the recorded corpus again (concurrently / watching the tables)
        corpus = extra.get("corpus") or [line]
        ref = {l: impl.eval_guarded(l) for l in corpus}
        before = props._table_digest()
        seen, errs = props.threads_run(corpus, int(extra.get("threads", 8)), int(extra.get("reps", 3)), 1)
        after = props._table_digest()
        bad = [l for l in corpus if any(o != ref[l] for o in seen[l])]
        if bad or errs or before != after:
            print("VIOLATION property=%s replay=%s" % (pid, path))
            print("  %d ops with a differing concurrent result; tables changed: %s" % (len(bad), before != after))
            return 1
        print("replay passes (the interleaving that failed did not recur in this run)")
        return 0
    if "history" in extra:
        import subprocess
        hist = extra["history"]
        code = ("import sys, json; sys.path.insert(0, %r); import impl\n"
                "out = ''\n"
                "for l in json.load(sys.stdin): out = impl.eval_guarded(l)\n"
                "print(out)" % HERE)
        outs = []
        for h in (hist, [line]):
            pr = subprocess.run([core.PY, "-c", code], input=json.dumps(h), capture_output=True, text=True,
                                env=dict(os.environ, VERIF_REPO=core.REPO))
            ls = [l for l in pr.stdout.splitlines() if l and "WARNING" not in l]
            outs.append(ls[-1] if ls else "")
        print("after history (%d ops): %s" % (len(hist), outs[0][:300]))
        print("fresh interpreter     : %s" % outs[1][:300])
        if outs[0] != outs[1]:
            print("VIOLATION property=%s replay=%s" % (pid, path))
            return 1
        print("replay passes")
        return 0
    out = impl.eval_guarded(line, dict(extra))
    mo = impl.canon_model(core.run_driver([line])[0], tables)
    if line.startswith("conc "):
        # a race need not recur at the first attempt: repeat the concurrent run until it does
        for _ in range(40):
            if mo != out:
                break
            out = impl.eval_guarded(line, dict(extra))
    print("impl : " + out[:500])
    print("model: " + mo[:500])
    bad = mo != out
    if r.get("oracle"):
        res = props.ORACLES[r["oracle"][0]](out, r["oracle"][1], ctx)
        if res:
            print("VIOLATION property=%s replay=%s" % (pid, path))
            print("  " + res)
            return 1
    if bad:
        print("VIOLATION property=%s replay=%s" % (pid, path))
        print("  model and implementation disagree on this input")
        return 1
    print("replay passes")
    return 0


if __name__ == "__main__":
    main()
