"""
Seeded, structure-aware generators for the correspondence check and the failing-input search.
Everything random derives from one random.Random instance handed in by the caller.
The payload builder is also the *independent* C03 oracle: it lays fields out itself and knows
the expected (name, value) list without using the parser.
"""
import zlib

import pinned

# ------------------------------------------------------------------ CRC / framing (independent reference)


def crc24q_ref(data: bytes) -> int:
    """textbook long division of data*x^24 by 0x1864CFB, MSB first (bit list version)"""
    poly = 0x1864CFB
    reg = 0
    for byte in data:
        for i in range(7, -1, -1):
            bit = (byte >> i) & 1
            top = (reg >> 23) & 1
            reg = ((reg << 1) & 0xFFFFFF)
            if top ^ bit:
                reg ^= poly & 0xFFFFFF
    return reg


def frame(payload: bytes) -> bytes:
    m = b"\xd3" + len(payload).to_bytes(2, "big") + payload
    return m + crc24q_ref(m).to_bytes(3, "big")


# ------------------------------------------------------------------ payload builder

class Occ:
    __slots__ = ("fid", "name", "idx", "ty", "width", "bits", "control")

    def __init__(self, fid, name, idx, ty, width, bits, control=False):
        self.fid, self.name, self.idx, self.ty, self.width, self.bits, self.control = fid, name, idx, ty, width, bits, control


def attr_name(name, idx):
    return name + "".join("_%02d" % i for i in idx)


def interp_ref(ty, width, bits):
    """value of `width` bits according to the data type (before scaling)"""
    if ty == "int":
        return bits - (1 << width) if bits >> (width - 1) & 1 else bits
    if ty == "snt":
        mag = bits & ((1 << (width - 1)) - 1)
        return -mag if bits >> (width - 1) & 1 else mag
    return bits


def scale_ref(v, res):
    if res[0] == "none":
        return v
    if res[0] == "int":
        return v * res[1]
    return v * (res[1] / res[2])


def counters_of(items, acc=None):
    acc = set() if acc is None else acc
    for it in items:
        if it[0] == "group":
            if it[1][0] == "attr":
                acc.add(it[1][1])
            counters_of(it[2], acc)
        elif it[0] == "opt":
            acc.add(it[1])
            counters_of(it[3], acc)
    return acc


class Builder:
    def __init__(self, tables, rng):
        self.t = tables
        self.rng = rng
        self.fields = tables["fields"]
        self.nf = len(self.fields)
        self.names = [f["name"] for f in self.fields] + tables["derived"]
        self.sp = tables["special"]
        self.prnsig = {p["key"]: p for p in tables["prnsig"]}

    # ---- choices
    def pick_bits(self, width, mode):
        r = self.rng
        if width == 0:
            return 0
        if mode == "zeros":
            return 0
        if mode == "ones":
            return (1 << width) - 1
        if mode == "sign":
            return 1 << (width - 1)
        if mode == "signones":
            return (1 << width) - 1 if r.random() < 0.5 else (1 << (width - 1)) | 1
        if mode == "mixed":
            return r.choice([0, (1 << width) - 1, 1 << (width - 1), r.getrandbits(width)])
        return r.getrandbits(width)

    def pick_count(self, width, mode, nested):
        r = self.rng
        hi = (1 << width) - 1
        if mode == "zero":
            return 0
        if mode == "one":
            return min(1, hi)
        if mode == "max":
            return hi
        if mode == "big":
            return r.randint(hi // 2, hi) if not nested else min(hi, r.randint(2, 5))
        return min(hi, r.randint(0, 4) if not nested else r.randint(0, 3))

    def pick_mask(self, width, mode, maxbits):
        r = self.rng
        if mode == "empty":
            return 0
        if mode == "single":
            return 1 << r.randrange(width)
        if mode == "lsb":      # last id (satellite 64 / signal 32)
            return 1
        if mode == "msb":
            return 1 << (width - 1)
        if mode == "full":
            k = maxbits
        else:
            k = r.randint(1, maxbits)
        pos = r.sample(range(width), min(k, width))
        m = 0
        for p in pos:
            m |= 1 << p
        return m

    # ---- build
    def build(self, entry, count_mode="small", val_mode="random", mask_mode="random", trailing=0,
              overrides=None):
        """returns dict(payload, expected, occs, nbits, meta) for the definition `entry`.
        `overrides` maps attribute names to forced raw bits."""
        self.occs = []
        self.vals = {}          # attribute name -> python value (for counters / conditions)
        self.msm = {}
        self.count_mode, self.val_mode, self.mask_mode = count_mode, val_mode, mask_mode
        self.entry = entry
        self.overrides = overrides or {}
        self.ctrs = counters_of(entry["items"])
        self.satmap = self.cellmap = None
        self._items(entry["items"], [])
        bits = 0
        nbits = 0
        for o in self.occs:
            bits = (bits << o.width) | o.bits
            nbits += o.width
        pad = (-nbits) % 8
        total = nbits + pad
        val = bits << pad
        if trailing:
            tr = self.rng.getrandbits(8 * trailing)
            val = (val << (8 * trailing)) | tr
            total += 8 * trailing
        payload = val.to_bytes(total // 8, "big")
        return {"payload": payload, "expected": self.expected(), "occs": self.occs, "nbits": nbits,
                "ident": entry["key"]}

    def _lookup(self, fid, idx):
        return self.vals.get(attr_name(self.names[fid], idx))

    def _items(self, items, idx):
        for it in items:
            k = it[0]
            if k == "field":
                self._field(it[1], idx)
            elif k == "group":
                c = it[1]
                if c[0] == "fixed":
                    n = c[1]
                else:
                    n = self._lookup(c[1], idx[:c[2]])
                    if n is None:
                        raise BuildError("counter not decoded yet")
                    if c[2] == 0 and c[1] == self.sp.get("idf035"):
                        n += 1
                for i in range(1, max(n, 0) + 1):
                    self._items(it[2], idx + [i])
            elif k == "opt":
                v = self._lookup(it[1], [])
                if v is None:
                    raise BuildError("condition not decoded yet")
                if v == it[2]:
                    self._items(it[3], idx)
            else:
                raise BuildError("malformed")

    def _field(self, fid, idx):
        f = self.fields[fid]
        name, ty, width = f["name"], f["ty"], f["width"]
        sp = self.sp
        aname = attr_name(name, idx)
        if ty in ("prn", "cprn", "csig"):
            self.occs.append(Occ(fid, name, list(idx), ty, 0, 0))
            return
        control = False
        if fid == sp.get("df396"):
            width = self.vals["NSat"] * self.vals["NSig"]
        forced = self.overrides.get(aname)
        if forced is not None:
            bits = forced & ((1 << width) - 1) if width else 0
        elif fid == sp.get("df002") and not idx:
            bits = self.entry["num"]
            control = True
        elif name == "IDF002" and not idx and self.entry["sub"] is not None:
            bits = self.entry["sub"]
            control = True
        elif fid == sp.get("df394"):
            bits = self.pick_mask(64, self.mask_mode, self.maxsat())
            control = True
        elif fid == sp.get("df395"):
            ns = bin(self.vals["DF394"]).count("1")
            maxsig = max(1, 64 // ns) if ns else 32
            if self.mask_mode == "overflow":
                maxsig = 32
            bits = self.pick_mask(32, self.mask_mode, min(32, maxsig))
            control = True
        elif fid == sp.get("df396"):
            if self.mask_mode in ("empty",):
                bits = 0
            elif self.mask_mode == "full":
                bits = (1 << width) - 1 if width else 0
            else:
                bits = self.rng.getrandbits(width) if width else 0
            control = True
        elif fid in self.ctrs or fid in (sp.get("idf037"), sp.get("idf038")):
            control = True
            if fid in (sp.get("idf037"), sp.get("idf038")):
                bits = self.rng.randint(0, (1 << width) - 1) if self.count_mode != "zero" else 0
                if self.count_mode == "max":
                    bits = (1 << width) - 1
            elif isinstance(self._optvals().get(fid), list):
                # condition flag: choose between matching / non-matching
                bits = self.rng.choice(self._optvals()[fid] + [0]) & ((1 << width) - 1)
            else:
                bits = self.pick_count(width, self.count_mode, bool(idx))
        else:
            bits = self.pick_bits(width, self.val_mode)
        self.occs.append(Occ(fid, name, list(idx), ty, width, bits, control))
        v = interp_ref(ty, width, bits) if ty not in ("cha", "str") else bits
        if ty not in ("cha", "str"):
            self.vals[aname] = scale_ref(v, f["res"])
        if fid == sp.get("df394"):
            self.vals["NSat"] = bin(bits).count("1")
        elif fid == sp.get("df395"):
            self.vals["NSig"] = bin(bits).count("1")
        elif fid == sp.get("df396"):
            self.vals["NCell"] = bin(bits).count("1")
            self._maps()
        elif fid == sp.get("idf038") and idx:
            i = idx[0]
            N = self.vals["IDF037_%02d" % i] + 1
            M = self.vals["IDF038_%02d" % i] + 1
            nc = ((N + 1) * (N + 2)) // 2 - ((N - M) * (N - M + 1)) // 2
            self.vals["_NHarmCoeffC"] = nc
            self.vals["_NHarmCoeffS"] = nc - (N + 1)

    def maxsat(self):
        if self.mask_mode == "overflow":
            return 12
        return {"full": 64}.get(self.mask_mode, 8)

    def _optvals(self):
        if not hasattr(self, "_ov") or self._ov_entry is not self.entry:
            ov = {}

            def walk(items):
                for it in items:
                    if it[0] == "opt":
                        ov.setdefault(it[1], []).append(it[2])
                        walk(it[3])
                    elif it[0] == "group":
                        walk(it[2])
            walk(self.entry["items"])
            self._ov, self._ov_entry = ov, self.entry
        return self._ov

    def _maps(self):
        """reference mask decoder over the *extracted* tables (C03 oracle; C09 uses pinned tables)"""
        key = int(self.entry["key"][0:3])
        p = self.prnsig.get(key)
        self.mapkey = key
        df394, df395, df396 = self.vals["DF394"], self.vals["DF395"], self.vals["DF396"]
        self.sat_ids = [i for i in range(1, 65) if df394 >> (64 - i) & 1]
        self.sig_ids = [i for i in range(1, 33) if df395 >> (32 - i) & 1]
        n = len(self.sat_ids) * len(self.sig_ids)
        self.cell_ids = []
        k = 0
        for s in self.sat_ids:
            for g in self.sig_ids:
                k += 1
                if df396 >> (n - k) & 1:
                    self.cell_ids.append((s, g))

    def labels(self, label, prnsig=None, na=None):
        """PRN / cell labels for the masks chosen, under label option `label`"""
        p = (prnsig or self.prnsig)[self.mapkey]
        na = self.t["na"] if na is None else na
        prn = {i: v for i, v in p["prn"]}
        sig = {i: (a, b) for i, a, b in p["sig"]}
        sat = [prn.get(i, na) for i in self.sat_ids]
        cells = []
        for s, g in self.cell_ids:
            sl = prn.get(s, na)
            if g in sig:
                gl = sig[g][0] if label == 2 else sig[g][1]
            else:
                gl = na
            cells.append((sl, gl))
        return sat, cells

    def expected(self, label=1):
        """the (name, value) list the parser must produce (public attributes)"""
        out = {}
        order = []

        def put(k, v):
            if k not in out:
                order.append(k)
            out[k] = v
        sat = cells = None
        for o in self.occs:
            f = self.fields[o.fid]
            an = attr_name(o.name, o.idx)
            if o.ty in ("prn", "cprn", "csig"):
                if sat is None:
                    sat, cells = self.labels(label)
                i = o.idx[0] - 1
                if o.ty == "prn":
                    put(an, sat[i])
                elif o.ty == "cprn":
                    put(an, cells[i][0])
                else:
                    put(an, cells[i][1])
                continue
            pin = pinned.FIELD_PINS.get(o.name)
            if pin is not None and pin[1] == o.width:
                # "the value its bits encode": for the fields whose kind the standard fixes (harness/pinned.py) the
                # expectation reads the bits the standard's way, whatever the current table says
                res = f["res"] if pin[2] is None else pinned.res_json(pin[2])
                put(an, scale_ref(interp_ref(pinned.KIND_TY[pin[0]], o.width, o.bits), res))
            elif o.ty == "cha":
                put(an, chr(o.bits))
            elif o.ty == "str":
                put(o.name, out.get(o.name, "") + ("" if o.bits == 0 else chr(o.bits)))
            else:
                put(an, scale_ref(interp_ref(o.ty, o.width, o.bits), f["res"]))
            sp = self.sp
            if o.fid == sp.get("df394"):
                put("NSat", bin(o.bits).count("1"))
            elif o.fid == sp.get("df395"):
                put("NSig", bin(o.bits).count("1"))
            elif o.fid == sp.get("df396"):
                put("NCell", bin(o.bits).count("1"))
        return [(k, out[k]) for k in order]


class BuildError(Exception):
    pass


COUNT_MODES = ["zero", "one", "small", "small", "big", "max"]
VAL_MODES = ["zeros", "ones", "sign", "random", "random", "mixed", "signones"]
MASK_MODES = ["empty", "single", "lsb", "msb", "random", "random", "full", "overflow"]


def all_entries(tables):
    return [("std", e) for e in tables["std"]] + [("msm", e) for e in tables["msm"]] + [("igs", e) for e in tables["igs"]]


def gen_payload(b, entry, rng, fit=True, **kw):
    """build a payload for `entry` with random strategy, retrying with smaller counts if it must fit a frame"""
    cm = kw.pop("count_mode", None) or rng.choice(COUNT_MODES)
    vm = kw.pop("val_mode", None) or rng.choice(VAL_MODES)
    mm = kw.pop("mask_mode", None) or rng.choice(MASK_MODES)
    for attempt in range(6):
        r = b.build(entry, cm, vm, mm, **kw)
        if not fit or len(r["payload"]) <= 1023:
            r["modes"] = (cm, vm, mm)
            return r
        cm = ["big", "small", "small", "one", "zero", "zero"][attempt]
        if attempt >= 2:
            mm = "single"
    r["modes"] = (cm, vm, mm)
    return r


# ------------------------------------------------------------------ stream items

NMEA_BODIES = [b"GGA,092750.000,5321.6802,N,00630.3372,W,1,8,1.03,61.7,M,55.2,M,,*76",
               b"RMC,1,2,3*00", b"TXT,01,01,02,u-blox*4E", b"X"]


# the NMEA 0183 talker initials pyrtcm's reader recognises ($V $M $P $B $D $I $L $G $F $S $H $R $E $Y $A $C $Z $T $W);
# pinned here so that a talker dropped from (or added to) NMEA_HDR shows up as a stream that is no longer skipped
NMEA_TALKERS = b"VMPBDILGFSHREYACZTW"


def gen_nmea(rng, tables, valid=True, crlf=True):
    if valid:
        h = b"$" + bytes([rng.choice(NMEA_TALKERS)])
    else:
        h = b"$" + bytes([rng.choice([c for c in range(65, 91) if c not in NMEA_TALKERS])])
    body = rng.choice(NMEA_BODIES)
    return h + body + (b"\r\n" if crlf else b"\n")


def gen_ubx(rng, maxlen=40, syncy=False):
    n = rng.choice([0, 1, 2, 8, rng.randint(0, maxlen), rng.randint(0, maxlen), 255, 256, 257, rng.randint(256, 700)])
    if n >= 255 and syncy:
        # long frames: sync-dense payload including plausible RTCM3 / NMEA / UBX headers
        pat = [b"\xd3\x00\x13", b"\xd3\x01\x00", b"$G", b"\xb5\x62\x01\x02\x04\x00", b"\x00", b"\x0a", bytes([rng.randrange(256)])]
        pl = b""
        while len(pl) < n:
            pl += rng.choice(pat)
        pl = pl[:n]
        return b"\xb5\x62" + bytes([rng.randrange(256), rng.randrange(256)]) + n.to_bytes(2, "little") + pl + bytes([rng.choice([0xd3, 0x24, 0xb5, rng.randrange(256)]), rng.randrange(256)])
    pl = bytes(rng.choice([0xd3, 0xb5, 0x24, 0x62]) if syncy and rng.random() < 0.5 else rng.randrange(256) for _ in range(n))
    return b"\xb5\x62" + bytes([rng.randrange(256), rng.randrange(256)]) + n.to_bytes(2, "little") + pl + bytes([rng.randrange(256), rng.randrange(256)])


def gen_noise(rng, n=None, inert=True):
    n = rng.randint(1, 12) if n is None else n
    if inert:
        al = [c for c in range(256) if c not in (0xd3, 0xb5, 0x24)]
        return bytes(rng.choice(al) for _ in range(n))
    return bytes(rng.choice([0xd3, 0xb5, 0x24, 0x00, 0x01, 0x03, 0x62, 0x47, rng.randrange(256)]) for _ in range(n))


def unknown_payload(rng, tables, n=None):
    known = {e["num"] for _, e in all_entries(tables)}
    while True:
        num = rng.randrange(4096)
        if num not in known and num != 4076 and not (1070 <= num <= 1229):
            break
    n = rng.choice([2, 3, 4, 19, 255, 256, 1023]) if n is None else n
    body = bytearray(rng.getrandbits(8) for _ in range(n))
    body[0] = num >> 4
    body[1] = ((num & 0xF) << 4) | (body[1] & 0x0F)
    return bytes(body)


def crc_twin(rng, fr):
    """a different valid frame of the same length with the same three checksum bytes: the generator pattern
    (25 bits) XORed into the payload leaves the CRC-24Q unchanged; None when the payload is shorter than 4 bytes"""
    n = (len(fr) - 6) * 8 - 24          # the first three payload bytes (message number, sub-type) stay as they are
    if n < 25:
        return None
    x = int.from_bytes(fr[3:-3], "big")
    k = rng.randint(0, n - 25)
    x ^= 0x1864CFB << k
    if rng.random() < 0.5 and n >= 60:
        x ^= 0x1864CFB << rng.randint(0, n - 25)
    tw = fr[:3] + x.to_bytes(len(fr) - 6, "big") + fr[-3:]
    assert crc24q_ref(tw) == 0
    return tw if tw != fr else None


def deflate_stored(rng, data, raw_only=False):
    """raw DEFLATE made by hand from stored blocks (RFC 1951 3.2.4) with arbitrary values in the five padding bits
    of each block header - valid input that no compressor emits"""
    out = b""
    pieces = []
    i = 0
    while i < len(data) or not pieces:
        k = rng.randint(0, min(20, len(data) - i)) if len(data) - i > 0 else 0
        if k == 0 and i < len(data):
            k = 1
        pieces.append(data[i:i + k])
        i += k
        if i >= len(data):
            break
    for j, pc in enumerate(pieces):
        final = 1 if j == len(pieces) - 1 else 0
        pad = rng.choice([0, 0x1F, rng.randrange(32), 0x0F])          # bits 3..7 of the header byte are ignored
        out += bytes([final | (pad << 3)]) + len(pc).to_bytes(2, "little") + (len(pc) ^ 0xFFFF).to_bytes(2, "little") + pc
    return out


def with_crc(prefix, target):
    """prefix ++ three bytes chosen so that the CRC-24Q of the whole is `target`"""
    reg = target ^ crc24q_ref(prefix + bytes(3))
    for _ in range(24):
        reg = ((reg ^ 0x1864CFB) >> 1) if reg & 1 else reg >> 1
    d = prefix + reg.to_bytes(3, "big")
    assert crc24q_ref(d) == target
    return d


def damage(rng, fr, kind=None):
    """flip bits behind the 3-byte header in a guaranteed-detectable pattern"""
    n = (len(fr) - 3) * 8
    kind = kind or rng.choice(["1", "2", "3", "burst", "odd", "burst", "residual"])
    x = bytearray(fr)
    if kind == "residual":
        # a burst of at most 24 bits chosen so that the CRC residual of the damaged frame is a special value
        # (all ones, a single bit, ...): XOR of the value into the checksum bytes, or - by linearity - the
        # pattern that produces it from a 24-bit window further left
        target = rng.choice([0xFFFFFF, 0xFFFFFF, 0x000001, 0x800000, 0xFFFFFE, 0x7FFFFF, 0x864CFB])
        k = rng.choice([0, 0, 1, 2, 5]) if len(fr) >= 6 + 8 else 0        # window ends k bytes before the end
        k = min(k, len(fr) - 6)
        # the residual a 24-bit pattern p leaves when it sits k bytes before the end is crc24q(p ++ k zero bytes)
        # = p * x^(24 + 8k) mod g: linear and invertible, so run the register backwards from the target
        reg = target
        for _ in range(24 + 8 * k):
            reg = ((reg ^ 0x1864CFB) >> 1) if reg & 1 else reg >> 1
        pat = reg
        assert crc24q_ref(pat.to_bytes(3, "big") + bytes(k)) == target and pat != 0
        pos = len(fr) - 3 - k
        for j, b in enumerate(pat.to_bytes(3, "big")):
            x[pos + j] ^= b
        return bytes(x), "residual%06x@-%d" % (target, k)

    def flip(i):
        x[3 + i // 8] ^= 0x80 >> (i % 8)
    if kind in ("1", "2", "3"):
        for i in rng.sample(range(n), int(kind)):
            flip(i)
    elif kind == "odd":
        k = rng.choice([1, 3, 5, 7, 9])
        for i in rng.sample(range(n), min(k, n) | 1 if min(k, n) % 2 == 0 else min(k, n)):
            flip(i)
    else:
        ln = rng.randint(2, min(24, n))
        st = rng.randrange(0, n - ln + 1)
        flip(st)
        flip(st + ln - 1)
        for i in range(st + 1, st + ln - 1):
            if rng.random() < 0.5:
                flip(i)
    return bytes(x), kind


# ------------------------------------------------------------------ chunked bodies

def enc_chunk(rng, data):
    h = ("%x" % len(data)) if rng.random() < 0.5 else ("%X" % len(data))
    if rng.random() < 0.2:
        h = "0" * rng.randint(1, 2) + h
    return h.encode() + b"\r\n" + data + b"\r\n"


def compress_for(enc, data, rng=None):
    if enc & 8:
        if rng is not None and rng.random() < 0.35:
            data = deflate_stored(rng, data)          # hand-assembled stored blocks, odd padding bits
            assert zlib.decompress(data, wbits=-zlib.MAX_WBITS) is not None
        else:
            c = zlib.compressobj(wbits=-zlib.MAX_WBITS)
            data = c.compress(data) + c.flush()
    if enc & 4:
        data = zlib.compress(data)
    if enc & 2:
        c = zlib.compressobj(wbits=zlib.MAX_WBITS | 16)
        data = c.compress(data) + c.flush()
    return data


def partitions(rng, data, mode="random", maxparts=None):
    n = len(data)
    if n == 0:
        return []
    if mode == "one":
        cuts = []
    elif mode == "bytes":
        cuts = list(range(1, n))
    else:
        k = rng.randint(0, min(n - 1, maxparts or 8))
        cuts = sorted(rng.sample(range(1, n), k)) if n > 1 else []
    return [data[a:b] for a, b in zip([0] + cuts, cuts + [n])]


def all_partitions(data):
    n = len(data)
    for mask in range(1 << (n - 1)):
        cuts = [i + 1 for i in range(n - 1) if mask >> i & 1]
        yield [data[a:b] for a, b in zip([0] + cuts, cuts + [n])]
