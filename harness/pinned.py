"""
Hand-pinned facts from RTCM 10403.3 / IGS SSR v1.00 (independent of pyrtcm's tables):
RINEX observation codes per MSM signal id, PRN numbering, message length formulas.
Only entries held with high confidence are pinned (a wrong pin would be a false alarm).
"""

RINEX = {
    107: {2: "1C", 3: "1P", 4: "1W", 8: "2C", 9: "2P", 10: "2W", 15: "2S", 16: "2L", 17: "2X",
          22: "5I", 23: "5Q", 24: "5X", 30: "1S", 31: "1L", 32: "1X"},
    108: {2: "1C", 3: "1P", 8: "2C", 9: "2P"},
    109: {2: "1C", 3: "1A", 4: "1B", 5: "1X", 6: "1Z", 8: "6C", 9: "6A", 10: "6B", 11: "6X", 12: "6Z",
          14: "7I", 15: "7Q", 16: "7X", 18: "8I", 19: "8Q", 20: "8X", 22: "5I", 23: "5Q", 24: "5X"},
    110: {2: "1C", 22: "5I", 23: "5Q", 24: "5X"},
    111: {2: "1C", 9: "6S", 10: "6L", 11: "6X", 15: "2S", 16: "2L", 17: "2X",
          22: "5I", 23: "5Q", 24: "5X", 30: "1S", 31: "1L", 32: "1X"},
    112: {2: "2I", 3: "2Q", 4: "2X", 8: "6I", 9: "6Q", 10: "6X", 14: "7I", 15: "7Q", 16: "7X",
          22: "5D", 23: "5P", 24: "5X", 25: "7D", 30: "1D", 31: "1P", 32: "1X"},
    113: {22: "5A"},
}
NA = "N/A"


def prn_label(key, i):
    if key in (107, 112):
        return "%03d" % i if 1 <= i <= 63 else NA
    if key == 108:
        return "%03d" % i if 1 <= i <= 24 else NA
    if key == 109:
        if 1 <= i <= 50:
            return "%03d" % i
        return {51: "GIOVE-A", 52: "GIOVE-B"}.get(i, NA)
    if key == 110:
        return "%03d" % (i + 119) if 1 <= i <= 39 else NA
    if key == 111:
        return "%03d" % (i + 192) if 1 <= i <= 10 else NA
    if key == 113:
        return "%03d" % i if 1 <= i <= 14 else NA
    return NA


def sig_label(key, g, label, tables):
    """RINEX code (pinned) or, for the frequency-band option, pyrtcm's own band label"""
    if g not in RINEX.get(key, {}):
        return NA
    if label == 2:
        for p in tables["prnsig"]:
            if p["key"] == key:
                for i, band, _code in p["sig"]:
                    if i == g:
                        return band
        return NA
    return RINEX[key][g]


MSM_SAT = {1: 10, 2: 10, 3: 10, 4: 18, 5: 36, 6: 18, 7: 36}
MSM_SIG = {1: 15, 2: 27, 3: 42, 4: 48, 5: 63, 6: 65, 7: 80}
IGS = {1: (79, 135, 0), 2: (78, 76, 0), 3: (79, 205, 0), 4: (78, 28, 0), 5: (78, 11, 19), 6: (80, 28, 32), 7: (78, 12, 0)}


def size_bits(key, vals, occs):
    """number of bits the standard specifies for message `key` with the repeat counts in `vals`;
    None when not pinned"""
    g = lambda n: int(vals.get(n, 0))  # noqa

    def sum_nested(prefix):
        return sum(int(v) for k, v in vals.items() if k.startswith(prefix + "_"))
    fixed = {"1005": 152, "1006": 168, "1014": 117, "1019": 488, "1020": 360, "1023": 578, "1032": 156,
             "1041": 482, "1042": 511, "1044": 485, "1045": 496, "1046": 504}
    if key in fixed:
        return fixed[key]
    per = {"1001": (64, 58, "DF006"), "1002": (64, 74, "DF006"), "1003": (64, 101, "DF006"), "1004": (64, 125, "DF006"),
           "1009": (61, 64, "DF035"), "1010": (61, 79, "DF035"), "1011": (61, 107, "DF035"), "1012": (61, 130, "DF035"),
           "1013": (70, 29, "DF053"), "1015": (76, 28, "DF067"), "1016": (76, 36, "DF067"), "1017": (76, 53, "DF067"),
           "1007": (40, 8, "DF029"), "1029": (72, 8, "DF139"), "1030": (56, 49, "DF006"), "1031": (53, 49, "DF035"),
           "1034": (49, 66, "DF006"), "1035": (46, 66, "DF035"),
           "1037": (73, 28, "DF234"), "1038": (73, 36, "DF234"), "1039": (73, 53, "DF234"),
           "1057": (68, 135, "DF387"), "1058": (67, 76, "DF387"), "1060": (68, 205, "DF387"), "1061": (67, 12, "DF387"),
           "1062": (67, 28, "DF387"), "1063": (65, 134, "DF387"), "1064": (64, 75, "DF387"), "1066": (65, 204, "DF387"),
           "1067": (64, 11, "DF387"), "1068": (64, 27, "DF387")}
    if key in per:
        h, p, c = per[key]
        return h + p * g(c)
    if key == "1008":
        return 48 + 8 * (g("DF029") + g("DF032"))
    if key == "1021":
        return 412 + 8 * (g("DF143") + g("DF145"))
    if key == "1033":
        return 72 + 8 * (g("DF029") + g("DF032") + g("DF227") + g("DF229") + g("DF231"))
    if key == "1059":
        return 67 + 11 * g("DF387") + 19 * sum_nested("DF379")
    if key == "1065":
        return 64 + 10 * g("DF387") + 19 * sum_nested("DF379")
    if key == "1230":
        k = sum(bin(int(vals.get("DF422_%d" % i, 0))).count("1") for i in range(1, 5))
        return 32 + 16 * k
    if len(key) == 4 and key.isdigit() and 1070 <= int(key) <= 1139 and key[3] in "1234567":
        lvl = int(key[3])
        return 169 + g("NSat") * g("NSig") + g("NSat") * MSM_SAT[lvl] + g("NCell") * MSM_SIG[lvl]
    if key.startswith("4076_") and key != "4076_201":
        sub = int(key[5:])
        lvl = sub % 20
        if lvl in IGS and sub // 20 in (1, 2, 3, 4, 5, 6):
            h, p, q = IGS[lvl]
            return h + p * g("IDF010") + q * sum_nested("IDF023")
    if key == "4076_201":
        tot = 83
        for k, v in vals.items():
            pass
        n = g("IDF035") + 1
        # per layer: height 8 + degree 4 + order 4 + 16 bits per coefficient
        bits = 0
        for o in occs:
            if o.name in ("IDF036", "IDF037", "IDF038", "IDF039", "IDF040"):
                bits += o.width
        per_layer = sum(1 for o in occs if o.name == "IDF036")
        if per_layer != n:
            return -1
        ncoef = sum(1 for o in occs if o.name in ("IDF039", "IDF040"))
        return 83 + 16 * n + 16 * ncoef
    return None


# ------------------------------------------------------------------ pinned size forms (for lean/Rtcm/Pinned/Sizes.lean)
# identity -> [(counter path, bits per iteration)]; "" = fixed part

def pinned_forms():
    f = {}
    for k, n in {"1005": 152, "1006": 168, "1014": 117, "1019": 488, "1020": 360, "1023": 578, "1032": 156,
                 "1041": 482, "1042": 511, "1044": 485, "1045": 496, "1046": 504}.items():
        f[k] = [("", n)]
    for k, (h, p, c) in {"1001": (64, 58, "DF006"), "1002": (64, 74, "DF006"), "1003": (64, 101, "DF006"), "1004": (64, 125, "DF006"),
                         "1009": (61, 64, "DF035"), "1010": (61, 79, "DF035"), "1011": (61, 107, "DF035"), "1012": (61, 130, "DF035"),
                         "1013": (70, 29, "DF053"), "1015": (76, 28, "DF067"), "1016": (76, 36, "DF067"), "1017": (76, 53, "DF067"),
                         "1007": (40, 8, "DF029"), "1029": (72, 8, "DF139"), "1030": (56, 49, "DF006"), "1031": (53, 49, "DF035"),
                         "1034": (49, 66, "DF006"), "1035": (46, 66, "DF035"),
                         "1037": (73, 28, "DF234"), "1038": (73, 36, "DF234"), "1039": (73, 53, "DF234"),
                         "1057": (68, 135, "DF387"), "1058": (67, 76, "DF387"), "1060": (68, 205, "DF387"), "1061": (67, 12, "DF387"),
                         "1062": (67, 28, "DF387"), "1063": (65, 134, "DF387"), "1064": (64, 75, "DF387"), "1066": (65, 204, "DF387"),
                         "1067": (64, 11, "DF387"), "1068": (64, 27, "DF387")}.items():
        f[k] = [("", h), (c, p)]
    f["1008"] = [("", 48), ("DF029", 8), ("DF032", 8)]
    f["1021"] = [("", 412), ("DF143", 8), ("DF145", 8)]
    f["1033"] = [("", 72), ("DF029", 8), ("DF032", 8), ("DF227", 8), ("DF229", 8), ("DF231", 8)]
    f["1059"] = [("", 67), ("DF387", 11), ("DF387/DF379+1", 19)]
    f["1065"] = [("", 64), ("DF387", 10), ("DF387/DF379+1", 19)]
    f["1230"] = [("", 32)] + [("?DF422_%d=1" % i, 16) for i in range(1, 5)]
    for c in range(7):
        for lvl in range(1, 8):
            f[str(1070 + 10 * c + lvl)] = [("", 169), ("NSat", MSM_SAT[lvl]), ("NCell", MSM_SIG[lvl])]
    for c in range(1, 7):
        for lvl, (h, p, q) in IGS.items():
            f["4076_%03d" % (20 * c + lvl)] = [("", h), ("IDF010", p)] + ([("IDF010/IDF023+1", q)] if q else [])
    f["4076_201"] = [("", 83), ("IDF035", 16), ("IDF035/_NHarmCoeffC", 16), ("IDF035/_NHarmCoeffS", 16)]
    return f


def write_lean(path):
    forms = pinned_forms()

    def lab(s):
        return "[" + ", ".join(str(ord(c)) for c in s) + "]"
    out = ["-- Hand-pinned message length formulas (RTCM 10403.3, IGS SSR v1.00); written out by harness/pinned.py write_lean.",
           "-- identity ↦ bits per iteration of every repeat-counter path (\"\" = fixed part).",
           "import Rtcm.Model.Basic", "namespace Rtcm.Pinned", "open Rtcm", "",
           "def sizes : List (Ident × List (Label × Nat)) := ["]
    rows = []
    for k in sorted(forms):
        num, sub = (int(k), "none") if "_" not in k else (4076, "(some %d)" % int(k[5:]))
        rows.append("  (⟨%d, %s⟩, [%s]) /- %s: %s -/" % (num, sub, ", ".join("(%s, %d)" % (lab(p), n) for p, n in forms[k]), k,
                                                      " + ".join(("%d" % n if not p else "%d·%s" % (n, p)) for p, n in forms[k])))
    out.append(",\n".join(rows))
    out += ["]", "", "/-- RINEX observation codes per MSM signal id (RTCM 10403.3 tables 3.5-91 …) -/",
            "def rinex : List (Nat × List (Nat × Label)) := ["]
    out.append(",\n".join("  (%d, [%s])" % (k, ", ".join("(%d, %s)" % (i, lab(c)) for i, c in sorted(v.items()))) for k, v in sorted(RINEX.items())))
    out += ["]", "", "end Rtcm.Pinned", ""]
    open(path, "w").write("\n".join(out))


def write_fields_lean(path):
    def lab(s):
        return "[" + ", ".join(str(ord(c)) for c in s) + "]"

    def res(r):
        if r is None:
            return "none"
        j = res_json(r)
        return "(some %s)" % (".none" if j[0] == "none" else "(.int (%d))" % j[1] if j[0] == "int" else "(.flt (%d) %d)" % (j[1], j[2]))
    out = ["-- Hand-pinned data-field kinds (RTCM 10403.3 table 3.4-1, IGS SSR v1.00); written out by harness/pinned.py.",
           "-- name ↦ how the bits are read, width, resolution where pinned.",
           "import Rtcm.Model.Basic", "namespace Rtcm.Pinned", "open Rtcm", "",
           "inductive Kind | unsigned | twos | signmag", "  deriving DecidableEq, Repr", "",
           "def fieldKinds : List (Label × Kind × Nat × Option Res) := ["]
    kind = {"U": ".unsigned", "I": ".twos", "S": ".signmag"}
    out.append(",\n".join("  (%s, %s, %d, %s) /- %s -/" % (lab(n), kind[k], w, res(r), n) for n, (k, w, r) in sorted(field_pins().items())))
    out += ["]", "", "end Rtcm.Pinned", ""]
    open(path, "w").write("\n".join(out))




# MSM header epoch field per constellation (RTCM 10403.3 MSM header, "GNSS Epoch Time"): GPS / SBAS share
# the GPS epoch DF004; GLONASS splits its epoch into day-of-week DF416 and time-of-day DF034 (the epoch
# time proper); Galileo DF248; QZSS DF428; BeiDou DF427; NavIC/IRNSS DF546.  Constellation names as pyrtcm
# spells them.
MSM_EPOCH = {107: ("GPS", "DF004"), 108: ("GLONASS", "DF034"), 109: ("GALILEO", "DF248"), 110: ("SBAS", "DF004"),
             111: ("QZSS", "DF428"), 112: ("BEIDOU", "DF427"), 113: ("NAVIC", "DF546")}


# ------------------------------------------------------------------ data-field kinds (for C03)
# RTCM 10403.3 table 3.4-1 / IGS SSR v1.00 as I know them: how a field's bits are read (U = unsigned: uint / bit,
# I = two's complement int, S = sign-magnitude intS), its width and - where I am sure of it - its resolution
# (a Python expression; "-" = not pinned).  Sign-magnitude occurs only in the GLONASS ephemeris (1020).  Only
# entries that agree with the pinned tree are listed; the pin is one-directional (what is listed must be so).
_FIELD_PINS = """
DF002 U 12 -        DF003 U 12 -        DF004 U 30 -        DF006 U 5 -         DF009 U 6 -
DF011 U 24 0.02     DF012 I 20 0.0005   DF013 U 7 -         DF014 U 8 -         DF015 U 8 0.25
DF017 I 14 0.02     DF018 I 20 0.0005   DF019 U 7 -         DF020 U 8 0.25
DF025 I 38 0.0001   DF026 I 38 0.0001   DF027 I 38 0.0001   DF028 U 16 0.0001
DF034 U 27 -        DF035 U 5 -         DF038 U 6 -         DF040 U 5 -
DF041 U 25 0.02     DF042 I 20 0.0005   DF043 U 7 -         DF044 U 7 -         DF045 U 8 0.25
DF047 I 14 0.02     DF048 I 20 0.0005   DF049 U 7 -         DF050 U 8 0.25
DF071 U 8 -         DF076 U 10 -        DF079 I 14 2**-43   DF081 U 16 16       DF082 I 8 2**-55
DF083 I 16 2**-43   DF084 I 22 2**-31   DF085 U 10 -        DF086 I 16 2**-5    DF087 I 16 2**-43
DF088 I 32 2**-31   DF089 I 16 2**-29   DF090 U 32 2**-33   DF091 I 16 2**-29   DF092 U 32 2**-19
DF093 U 16 16       DF094 I 16 2**-29   DF095 I 32 2**-31   DF096 I 16 2**-29   DF097 I 32 2**-31
DF098 I 16 2**-5    DF099 I 32 2**-31   DF100 I 24 2**-43   DF101 I 8 2**-31    DF102 U 6 -
DF111 S 24 2**-20   DF112 S 27 2**-11   DF113 S 5 2**-30    DF114 S 24 2**-20   DF115 S 27 2**-11
DF116 S 5 2**-30    DF117 S 24 2**-20   DF118 S 27 2**-11   DF119 S 5 2**-30    DF121 S 11 -
DF124 S 22 -        DF125 S 5 -         DF133 S 32 -        DF135 S 22 -
DF248 U 30 -        DF365 I 22 0.1      DF366 I 20 0.4      DF367 I 20 0.4      DF368 I 21 0.001
DF369 I 19 0.004    DF370 I 19 0.004    DF376 I 22 0.1      DF377 I 21 0.001    DF378 I 27 0.00002
DF379 U 5 -         DF383 I 14 0.01     DF385 U 20 -        DF386 U 17 -        DF387 U 6 -
DF390 I 22 0.1      DF394 U 64 -        DF395 U 32 -        DF397 U 8 -         DF398 U 10 2**-10
DF399 I 14 -        DF400 I 15 2**-24   DF401 I 22 2**-29   DF402 U 4 -         DF403 U 6 -
DF404 I 15 0.0001   DF405 I 20 2**-29   DF406 I 24 2**-31   DF407 U 10 -        DF408 U 10 2**-4
DF416 U 3 -         DF420 U 1 -         DF423 I 16 0.02     DF424 I 16 0.02     DF425 I 16 0.02
DF426 I 16 0.02     DF427 U 30 -        DF428 U 30 -        DF546 U 30 -
IDF003 U 20 -       IDF010 U 6 -        IDF011 U 6 -        IDF013 I 22 0.1     IDF014 I 20 0.4
IDF015 I 20 0.4     IDF016 I 21 0.001   IDF017 I 19 0.004   IDF018 I 19 0.004   IDF019 I 22 0.1
IDF020 I 21 0.001   IDF021 I 27 0.00002 IDF022 I 22 0.1     IDF023 U 5 -        IDF025 I 14 0.01
IDF028 I 20 0.0001  IDF035 U 2 -        IDF036 U 8 10       IDF037 U 4 -        IDF038 U 4 -
IDF039 I 16 0.005   IDF040 I 16 0.005
"""


# Kind and width of every other numeric data field (name:KINDwidth), resolution not pinned.  Reviewed by meaning:
# the two's-complement ones are exactly the signed quantities (coordinate and angle differences, corrections and
# their rates, harmonic terms, clock polynomial coefficients, group delays, gradients, residual means); identifiers,
# counters, indicators, masks, epochs, week numbers, eccentricities, square roots and other magnitudes are unsigned.
_FIELD_KINDS_REST = """
DF001:U1 DF001_1:U1 DF001_2:U2 DF001_3:U3 DF001_7:U7 DF005:U1 DF007:U1 DF008:U3 DF010:U1 DF016:U2 DF021:U6
DF022:U1 DF023:U1 DF024:U1 DF029:U8 DF031:U8 DF032:U8 DF036:U1 DF037:U3 DF039:U1 DF046:U2 DF051:U16 DF052:U17
DF053:U5 DF054:U8 DF055:U12 DF056:U1 DF057:U16 DF058:U5 DF059:U8 DF060:U12 DF061:U12 DF062:I20 DF063:I21
DF064:I23 DF065:U23 DF066:U1 DF067:U4 DF068:U6 DF069:I17 DF070:I17 DF072:U4 DF073:U8 DF074:U2 DF075:U3
DF077:U4 DF078:U2 DF080:U8 DF103:U1 DF104:U1 DF105:U1 DF106:U2 DF107:U12 DF108:U1 DF109:U1 DF110:U7 DF120:U1
DF122:U2 DF123:U1 DF126:U5 DF127:U1 DF128:U4 DF129:U11 DF130:U2 DF131:U1 DF132:U11 DF134:U5 DF136:U1 DF137:U1
DF138:U7 DF139:U8 DF141:U1 DF142:U1 DF143:U5 DF145:U5 DF147:U8 DF148:U10 DF149:U5 DF150:U4 DF151:U2 DF152:I19
DF153:I20 DF154:U14 DF155:U14 DF156:I23 DF157:I23 DF158:I23 DF159:I32 DF160:I32 DF161:I32 DF162:I25 DF163:I35
DF164:I35 DF165:I35 DF166:U24 DF167:U25 DF168:U24 DF169:U25 DF170:U6 DF171:I34 DF172:I35 DF173:U30 DF174:U36
DF175:I35 DF176:I34 DF177:I35 DF178:I34 DF179:I34 DF180:U36 DF181:I35 DF182:U1 DF183:I34 DF184:I35 DF185:U35
DF186:I26 DF187:U30 DF188:U36 DF189:I35 DF190:U1 DF191:U1 DF192:I21 DF193:I22 DF194:U12 DF195:U12 DF196:I8
DF197:I8 DF198:I15 DF199:I9 DF200:I9 DF201:I9 DF202:I25 DF203:U26 DF204:U12 DF205:U12 DF206:I10 DF207:I10
DF208:I15 DF209:I9 DF210:I9 DF211:I9 DF212:U2 DF213:U2 DF214:U3 DF215:U3 DF216:U3 DF217:U3 DF218:U8 DF219:U9
DF220:U6 DF221:U10 DF222:U10 DF223:U7 DF224:U20 DF225:U17 DF226:U12 DF227:U8 DF229:U8 DF231:U8 DF233:U20
DF234:U4 DF235:U2 DF236:U3 DF237:I17 DF238:I17 DF239:U8 DF240:U20 DF241:U17 DF242:I12 DF243:I12 DF244:I14
DF245:I14 DF252:U6 DF286:U8 DF287:U2 DF288:U1 DF289:U12 DF290:U10 DF291:U8 DF292:I14 DF293:U14 DF294:I6
DF295:I21 DF296:I31 DF297:I16 DF298:I16 DF299:I32 DF300:I16 DF301:U32 DF302:I16 DF303:U32 DF304:U14 DF305:I16
DF306:I32 DF307:I16 DF308:I32 DF309:I16 DF310:I32 DF311:I24 DF312:I10 DF313:I10 DF314:U2 DF315:U1 DF316:U2
DF317:U1 DF364:U2 DF371:I27 DF372:I25 DF373:I25 DF374:U1 DF375:U1 DF380:U5 DF381:U5 DF382:U5 DF384:U5 DF388:U1
DF389:U6 DF391:U4 DF392:U8 DF393:U1 DF409:U3 DF411:U2 DF412:U2 DF413:U4 DF414:U16 DF415:U4 DF417:U1 DF418:U3
DF419:U4 DF421:U1 DF422_1:U1 DF422_2:U1 DF422_3:U1 DF422_4:U1 DF429:U4 DF430:U16 DF431:I8 DF432:I16 DF433:I22
DF434:U8 DF435:I16 DF436:I16 DF437:I32 DF438:I16 DF439:U32 DF440:I16 DF441:U32 DF442:U16 DF443:I16 DF444:I32
DF445:I16 DF446:I32 DF447:I16 DF448:I32 DF449:I24 DF450:I14 DF451:U2 DF452:U10 DF453:U4 DF454:U6 DF455:I8
DF456:U10 DF457:U1 DF488:U6 DF489:U13 DF490:U4 DF491:I14 DF492:U5 DF493:U17 DF494:I11 DF495:I22 DF496:I24
DF497:U5 DF498:I18 DF499:I16 DF500:I32 DF501:I18 DF502:U32 DF503:I18 DF504:U32 DF505:U17 DF506:I18 DF507:I32
DF508:I18 DF509:I32 DF510:I18 DF511:I32 DF512:I24 DF513:I10 DF514:I10 DF515:U1 DF516:U6 DF517:U10 DF518:I22
DF519:I16 DF520:I8 DF521:U4 DF522:U16 DF523:I8 DF524:I22 DF525:U8 DF526:U10 DF527:U1 DF528:U1 DF529:I15
DF530:I15 DF531:I15 DF532:I15 DF533:I15 DF534:I15 DF535:I14 DF536:I32 DF537:U16 DF538:U32 DF539:U32 DF540:I32
DF541:I32 DF542:I22 DF543:I32 DF544:U2 DF545:U2 DF547:U16 DF548:I23 DF549:I23 DF550:I23 DF551:I32 DF552:I32
DF553:I32 DF554:I25 DF555:I17 DF556:I17 DF557:I17 DF558:I17 DF559:I17 DF560:I17 DF561:I14 DF562:U5 DF564:U16
DF565:U5 DF567:U1 DF568:U3 DF569:U5 DF571:U20 DF572:U5 DF573:U20 DF574:U5 DF575:U20 DF576:U5 ExtSatInfo:U4
IDF001:U3 IDF002:U8 IDF004:U4 IDF005:U1 IDF006:U1 IDF007:U4 IDF008:U16 IDF009:U4 IDF012:U8 IDF024:U5 IDF026:U9
IDF027:I8 IDF029:U1 IDF030:U2 IDF031:U4 IDF032:U1 IDF033:U1 IDF034:U6 IDF041:U9
"""


def field_pins():
    """{name: (kind, width, resolution or None)}"""
    toks = _FIELD_PINS.split()
    out = {}
    for i in range(0, len(toks), 4):
        name, kind, width, res = toks[i:i + 4]
        out[name] = (kind, int(width), None if res == "-" else eval(res))  # noqa: the expressions above
    for t in _FIELD_KINDS_REST.split():
        name, kw = t.rsplit(":", 1)
        out.setdefault(name, (kw[0], int(kw[1:]), None))
    return out


FIELD_PINS = field_pins()
KIND_TY = {"U": "uint", "I": "int", "S": "snt"}


def res_json(r):
    """a resolution in the translator's form (harness/gen_tables.py)"""
    if isinstance(r, int):
        return ["none"] if r in (0, 1) else ["int", r]
    if r in (0, 1):
        return ["none"]
    n, d = float(r).as_integer_ratio()
    return ["flt", n, d]


# ------------------------------------------------------------------ definitions (for C10 / C03)
# The field sequence and group structure of the message definitions I can vouch for from RTCM 10403.3 and IGS SSR
# v1.00: observations 1001-1004 / 1009-1012, station messages 1005-1008 / 1033, ephemerides 1019 / 1020, 1029, 1230,
# SSR 1057-1068, all 49 MSM (built from the per-level pattern below) and the IGS SSR sub-types 021-027 of the six
# constellations plus 201.  Syntax: digits = DFnnn, Innn = IDFnnn, other words are literal attribute names;
# [COUNTER a b c] is a group repeated COUNTER times (a number, a field, or FIELD+1 = the per-group-index value of a
# counter decoded in the enclosing group); {FIELD=V a b} is present when FIELD = V.  One-directional: identities
# not listed are free.
_SSR_H = "002 %s 391 388 %s413 414 415 387"
_DEF_PINS = {
    "1001": "002 003 004 005 006 007 008 [006 009 010 011 012 013]",
    "1002": "002 003 004 005 006 007 008 [006 009 010 011 012 013 014 015]",
    "1003": "002 003 004 005 006 007 008 [006 009 010 011 012 013 016 017 018 019]",
    "1004": "002 003 004 005 006 007 008 [006 009 010 011 012 013 014 015 016 017 018 019 020]",
    "1005": "002 003 021 022 023 024 141 025 142 001_1 026 364 027",
    "1006": "002 003 021 022 023 024 141 025 142 001_1 026 364 027 028",
    "1007": "002 003 029 [029 030] 031",
    "1008": "002 003 029 [029 030] 031 032 [032 033]",
    "1009": "002 003 034 005 035 036 037 [035 038 039 040 041 042 043]",
    "1010": "002 003 034 005 035 036 037 [035 038 039 040 041 042 043 044 045]",
    "1011": "002 003 034 005 035 036 037 [035 038 039 040 041 042 043 046 047 048 049]",
    "1012": "002 003 034 005 035 036 037 [035 038 039 040 041 042 043 044 045 046 047 048 049 050]",
    "1019": "002 009 076 077 078 079 071 081 082 083 084 085 086 087 088 089 090 091 092 093 094 095 096 097 098 099 100 "
            "101 102 103 137",
    "1020": "002 038 040 104 105 106 107 108 109 110 111 112 113 114 115 116 117 118 119 120 121 122 123 124 125 126 127 "
            "128 129 130 131 132 133 134 135 136 001_7",
    "1029": "002 003 051 052 138 139 [139 140]",
    "1033": "002 003 029 [029 030] 031 032 [032 033] 227 [227 228] 229 [229 230] 231 [231 232]",
    "1230": "002 003 421 001_3 422_1 422_2 422_3 422_4 {422_1=1 423} {422_2=1 424} {422_3=1 425} {422_4=1 426}",
    "1057": _SSR_H % ("385", "375 ") + " [387 068 071 365 366 367 368 369 370]",
    "1058": _SSR_H % ("385", "") + " [387 068 376 377 378]",
    "1059": _SSR_H % ("385", "") + " [387 068 379 [379+1 380 383]]",
    "1060": _SSR_H % ("385", "375 ") + " [387 068 071 365 366 367 368 369 370 376 377 378]",
    "1061": _SSR_H % ("385", "") + " [387 068 389]",
    "1062": _SSR_H % ("385", "") + " [387 068 390]",
    "1063": _SSR_H % ("386", "375 ") + " [387 384 392 365 366 367 368 369 370]",
    "1064": _SSR_H % ("386", "") + " [387 384 376 377 378]",
    "1065": _SSR_H % ("386", "") + " [387 384 379 [379+1 381 383]]",
    "1066": _SSR_H % ("386", "375 ") + " [387 384 392 365 366 367 368 369 370 376 377 378]",
    "1067": _SSR_H % ("386", "") + " [387 384 389]",
    "1068": _SSR_H % ("386", "") + " [387 384 390]",
}
# The remaining standard messages (network RTK corrections and residuals 1014-1017 / 1030 / 1031 / 1037-1039 /
# 1303-1305, system parameters 1013, transformation and projection messages 1021-1027 / 1300-1302, physical reference
# station 1032, FKP 1034 / 1035, the NavIC / BeiDou / QZSS / Galileo ephemerides 1041-1046).  I know these less
# well by heart than the ones above; each was reviewed field by field against what I remember of RTCM 10403.3 and
# its amendments, and in every one the fresh data fields appear in the order of their DF numbers, which is how the
# standard numbers them.
_DEF_PINS.update({
    "1013": "002 003 051 052 053 054 [053 055 056 057]",
    "1014": "002 059 072 058 060 061 062 063 064",
    "1015": "002 059 072 065 066 060 061 067 [067 068 074 075 069]",
    "1016": "002 059 072 065 066 060 061 067 [067 068 074 075 070 071]",
    "1017": "002 059 072 065 066 060 061 067 [067 068 074 075 070 071 069]",
    "1021": "002 143 [143 144] 145 [145 146] 147 148 149 150 151 152 153 154 155 156 157 158 159 160 161 162 166 167 168 169 "
            "214 215",
    "1022": "002 143 [143 144] 145 [145 146] 147 148 149 150 151 152 153 154 155 156 157 158 159 160 161 162 163 164 165 166 "
            "167 168 169 214 215",
    "1023": "002 147 190 191 192 193 194 195 196 197 198 [16 199 200 201] 212 213 216 217 051",
    "1024": "002 147 190 191 202 203 204 205 206 207 208 [16 209 210 211] 212 213 216 217 051",
    "1025": "002 147 170 171 172 173 174 175",
    "1026": "002 147 170 176 177 178 179 180 181",
    "1027": "002 147 170 182 183 184 185 186 187 188 189",
    "1030": "002 224 003 223 006 [006 009 218 219 220 221 222]",
    "1031": "002 225 003 223 035 [035 038 218 219 220 221 222]",
    "1032": "002 003 226 021 025 026 027",
    "1034": "002 003 240 006 [006 009 071 242 243 244 245]",
    "1035": "002 003 241 035 [035 038 392 242 243 244 245]",
    "1037": "002 059 072 233 066 060 061 234 [234 038 235 236 237]",
    "1038": "002 059 072 233 066 060 061 234 [234 038 235 236 238 239]",
    "1039": "002 059 072 233 066 060 061 234 [234 038 235 236 238 239 237]",
    "1041": "002 " + " ".join(str(n) for n in range(516, 546)),
    "1042": "002 " + " ".join(str(n) for n in range(488, 516)),
    "1044": "002 " + " ".join(str(n) for n in range(429, 458)),
    "1045": "002 252 289 290 291 " + " ".join(str(n) for n in range(292, 313)) + " 314 315 001_7",
    "1046": "002 252 289 290 286 " + " ".join(str(n) for n in range(292, 314)) + " 316 317 287 288 001_2",
    "1300": "002 562 [562 563] 564",
    "1301": "002 143 [143 144] 145 [145 146] 147 148 547 548 549 550 551 552 553 554 555 556 557 558 559 560 561",
    "1302": "002 565 [565 566] 567 149 568 [568 569 [569+1 570]]",
    "1303": "002 571 003 223 572 [572 488 218 219 220 221 222]",
    "1304": "002 573 003 223 574 [574 252 218 219 220 221 222]",
    "1305": "002 575 003 223 576 [576 429 218 219 220 221 222]",
})
# MSM: header with the constellation's epoch field(s), masks, then one group per satellite column and per cell column
_MSM_EPOCH = {107: "004", 108: "416 034", 109: "248", 110: "004", 111: "428", 112: "427", 113: "546"}
_MSM_SATCOLS = {1: ["398"], 2: ["398"], 3: ["398"], 4: ["397", "398"], 5: ["397", "EXT", "398", "399"],
                6: ["397", "398"], 7: ["397", "EXT", "398", "399"]}
_MSM_SIGCOLS = {1: ["400"], 2: ["401", "402", "420"], 3: ["400", "401", "402", "420"], 4: ["400", "401", "402", "420", "403"],
                5: ["400", "401", "402", "420", "403", "404"], 6: ["405", "406", "407", "420", "408"],
                7: ["405", "406", "407", "420", "408", "404"]}
for _g, _ep in _MSM_EPOCH.items():
    for _l in range(1, 8):
        _ext = "419" if _g == 108 else "ExtSatInfo"     # GLONASS: frequency channel; others: extended satellite info
        _DEF_PINS["%d%d" % (_g, _l)] = " ".join(
            ["002 003", _ep, "393 409 001_7 411 412 417 418 394 395 396", "[NSat PRN]"]
            + ["[NSat %s]" % (_ext if c == "EXT" else c) for c in _MSM_SATCOLS[_l]]
            + ["[NCell CELLPRN CELLSIG]"] + ["[NCell %s]" % c for c in _MSM_SIGCOLS[_l]])
# IGS SSR v1.00: sub-type = 20 * constellation + level
_IGS_H = "002 I001 I002 I003 I004 I005 I007 I008 I009"
_IGS_LVL = {1: " I006 I010 [I010 I011 I012 I013 I014 I015 I016 I017 I018]",
            2: " I010 [I010 I011 I019 I020 I021]",
            3: " I006 I010 [I010 I011 I012 I013 I014 I015 I016 I017 I018 I019 I020 I021]",
            4: " I010 [I010 I011 I022]",
            5: " I010 [I010 I011 I023 [I023+1 I024 I025]]",
            6: " I032 I033 I010 [I010 I011 I023 I026 I027 [I023+1 I024 I029 I030 I031 I028]]",
            7: " I010 [I010 I011 I034]"}
for _c in range(1, 7):
    for _l, _t in _IGS_LVL.items():
        _DEF_PINS["4076_%03d" % (20 * _c + _l)] = _IGS_H + _t
_DEF_PINS["4076_201"] = _IGS_H + " I041 I035 [I035 I036 I037 I038 [_NHarmCoeffC I039] [_NHarmCoeffS I040]]"


def _pin_name(w):
    if w[0].isdigit():
        return "DF" + w
    if w[0] == "I" and w[1:].isdigit():
        return "IDF" + w[1:]
    return w


def def_pin_tree(key):
    """the pinned definition as a tree: name | ("g", counter, [..]) | ("o", name, value, [..]);
    counter = int | (name, nest)"""
    toks = _DEF_PINS[key].replace("[", " [ ").replace("]", " ] ").replace("{", " { ").replace("}", " } ").split()
    pos = [0]

    def items(end):
        out = []
        while pos[0] < len(toks) and toks[pos[0]] != end:
            t = toks[pos[0]]
            pos[0] += 1
            if t == "[":
                c = toks[pos[0]]
                pos[0] += 1
                if c.isdigit() and len(c) < 3:
                    cnt = int(c)
                elif c.endswith("+1"):
                    cnt = (_pin_name(c[:-2]), 1)
                else:
                    cnt = (_pin_name(c), 0)
                body = items("]")
                pos[0] += 1
                out.append(("g", cnt, body))
            elif t == "{":
                n, v = toks[pos[0]].split("=")
                pos[0] += 1
                body = items("}")
                pos[0] += 1
                out.append(("o", _pin_name(n), int(v), body))
            else:
                out.append(_pin_name(t))
        return out
    return items(None)


def def_pin_tokens(tree):
    """the flat token form compared in Lean (`defTokens`)"""
    out = []
    for it in tree:
        if isinstance(it, str):
            out.append(it)
        elif it[0] == "g":
            out.append("[" + (str(it[1]) if isinstance(it[1], int) else "%s+%d" % it[1]))
            out += def_pin_tokens(it[2])
            out.append("]")
        else:
            out.append("{%s=%d" % (it[1], it[2]))
            out += def_pin_tokens(it[3])
            out.append("}")
    return out


def def_pin_items(tree, fid):
    """the pinned definition in the translator's item form, with the current table's field ids (`fid`: name -> id);
    raises KeyError when a pinned field does not exist"""
    out = []
    for it in tree:
        if isinstance(it, str):
            out.append(["field", fid[it]])
        elif it[0] == "g":
            c = ["fixed", it[1]] if isinstance(it[1], int) else ["attr", fid[it[1][0]], it[1][1]]
            out.append(["group", c, def_pin_items(it[2], fid)])
        else:
            out.append(["opt", fid[it[1]], it[2], def_pin_items(it[3], fid)])
    return out


def tokens_of_items(items, names):
    """the same token form from the translator's items (`names`: id -> attribute name)"""
    out = []
    for it in items:
        if it[0] == "field":
            out.append(names[it[1]])
        elif it[0] == "group":
            c = it[1]
            out.append("[" + (str(c[1]) if c[0] == "fixed" else "%s+%d" % (names[c[1]], c[2])))
            out += tokens_of_items(it[2], names)
            out.append("]")
        elif it[0] == "opt":
            out.append("{%s=%d" % (names[it[1]], it[2]))
            out += tokens_of_items(it[3], names)
            out.append("}")
        else:
            out.append("?")
    return out


DEF_PIN_KEYS = sorted(_DEF_PINS)


def write_defs_lean(path):
    def lab(s):
        return "[" + ", ".join(str(ord(c)) for c in s) + "]"
    out = ["-- Hand-pinned message definitions (field sequence and group structure; RTCM 10403.3, IGS SSR v1.00);",
           "-- written out by harness/pinned.py.  Token form: field name | \"[\" counter … \"]\" | \"{\" field=value … \"}\".",
           "import Rtcm.Model.Basic", "namespace Rtcm.Pinned", "open Rtcm", "",
           "def defs : List (Ident × List Label) := ["]
    rows = []
    for k in DEF_PIN_KEYS:
        num, sub = (int(k), "none") if "_" not in k else (4076, "(some %d)" % int(k[5:]))
        toks = def_pin_tokens(def_pin_tree(k))
        rows.append("  (⟨%d, %s⟩, [%s]) /- %s: %s -/" % (num, sub, ", ".join(lab(t) for t in toks), k, " ".join(toks)))
    out.append(",\n".join(rows))
    out += ["]", "", "end Rtcm.Pinned", ""]
    open(path, "w").write("\n".join(out))


if __name__ == "__main__":
    import os
    import sys
    write_lean(sys.argv[1])
    write_fields_lean(os.path.join(os.path.dirname(sys.argv[1]), "Fields.lean"))
    write_defs_lean(os.path.join(os.path.dirname(sys.argv[1]), "Defs.lean"))
