"""
Source-delta-guided input generation — shared by the fuzz driver (fuzz_corpus.py, tooling interpreter with atheris)
and the check (harness interpreter).  Nothing here decides a property: it only produces more inputs.

* `source_delta()`   which modelled code files differ from the baseline the model was validated against
                     (baseline/pyrtcm/*.py), and the literals (bytes / str / int constants) on their changed lines;
* `to_ops(mode, b)`  how one fuzz input is read as op lines of the correspondence protocol (the fuzz target
                     interprets the same bytes the same way);
* `run_fuzz(...)`    run the coverage-guided fuzzer over the implementation under test and return the new inputs.
"""
import ast
import difflib
import os
import subprocess

HERE = os.path.dirname(os.path.abspath(__file__))
VERIF = os.path.dirname(HERE)
CODE_FILES = ["rtcmmessage.py", "rtcmreader.py", "rtcmhelpers.py", "socketwrapper.py", "exceptions.py", "__init__.py"]
BUFSIZES = [1, 2, 3, 7, 16, 64, 512, 4096]


def source_delta(repo):
    """{file: [changed / added line numbers in the current file]}, [literals on those lines]"""
    changed, lits = {}, []
    for f in CODE_FILES:
        try:
            cur = open(os.path.join(repo, "src", "pyrtcm", f), "rb").read().decode("utf-8", "replace").replace("\r\n", "\n")
            base = open(os.path.join(VERIF, "baseline", "pyrtcm", f), "rb").read().decode("utf-8", "replace").replace("\r\n", "\n")
        except OSError:
            continue
        if cur == base:
            continue
        cl, bl = cur.split("\n"), base.split("\n")
        lines = set()
        for tag, _i1, _i2, j1, j2 in difflib.SequenceMatcher(None, bl, cl, autojunk=False).get_opcodes():
            if tag in ("replace", "insert"):
                lines.update(range(j1 + 1, j2 + 1))
        changed[f] = sorted(lines)
        try:
            tree = ast.parse(cur)
        except SyntaxError:
            continue
        for node in ast.walk(tree):
            if isinstance(node, ast.Constant) and getattr(node, "lineno", None) in lines:
                v = node.value
                if isinstance(v, bytes) and 0 < len(v) <= 64:
                    lits.append(v)
                elif isinstance(v, str) and 0 < len(v) <= 64:
                    for enc in ("latin-1", "utf-8"):
                        try:
                            lits.append(v.encode(enc))
                        except UnicodeEncodeError:
                            pass
                elif isinstance(v, int) and not isinstance(v, bool) and 0 <= v < 1 << 64:
                    n = max(1, (v.bit_length() + 7) // 8)
                    lits.append(v.to_bytes(n, "big"))
                    if n > 1:
                        lits.append(v.to_bytes(n, "little"))
    seen, out = set(), []
    for l in lits:
        if l not in seen:
            seen.add(l)
            out.append(l)
    return changed, out


def hx(b):
    return b.hex() if len(b) else "-"


def to_ops(mode, data):
    """op lines (correspondence protocol) for one fuzz input; [] when the input is too short"""
    if len(data) < 1:
        return []
    opt, body = data[0], data[1:]
    if mode == "msg":
        return ["msg %d %s" % (1 + (opt & 1), hx(body[:1023]))]
    if mode == "frame":
        return ["parse %d %d %s" % (opt & 1, 1 + ((opt >> 1) & 1), hx(body[:1100]))]
    if mode == "stream":
        q = (opt >> 1) % 3
        return ["reader %d %d %d %d %d - %s" % (opt & 1, q, 1 + ((opt >> 3) & 1), 1 if opt & 16 else 0, 1 if q == 2 else 0, hx(body))]
    if mode == "sock":
        if len(data) < 3:
            return []
        chunked, bufsize = opt & 1, BUFSIZES[(opt >> 1) & 7]
        seglen = data[1] % 96
        body = data[3:]
        segs = [body[i:i + seglen] for i in range(0, len(body), seglen)] if seglen else ([body] if body else [])
        recvs = ",".join(["d" + s.hex() for s in segs] + ["c"])
        if opt & 16:
            q = (opt >> 5) % 3
            return ["rsock 1 %d 1 1 %d %d %d %s -" % (q, 1 if q == 2 else 0, chunked, bufsize, recvs)]
        n = 1 + data[2] % 40
        reads = []
        left = len(body) + 2
        while left > 0 and len(reads) < 60:
            reads.append("L" if (data[2] & 0x80 and len(reads) % 3 == 2) else str(n))
            left -= n
        return ["sock %d %d %s %s -" % (chunked, bufsize, recvs, ",".join(reads))]
    return []


def from_line(mode, line):
    """a seed input (bytes) for `mode` from an op line of the ordinary generators, or None"""
    t = line.split()
    try:
        if mode == "msg" and t[0] in ("msg", "lay", "mrepr", "setattr") and t[2] != "NONE":
            return bytes([int(t[1]) == 2]) + bytes.fromhex("" if t[2] == "-" else t[2])
        if mode == "frame" and t[0] == "parse":
            return bytes([(int(t[1]) & 1) | ((int(t[2]) == 2) << 1)]) + bytes.fromhex("" if t[3] == "-" else t[3])
        if mode == "stream" and t[0] == "reader":
            opt = (int(t[1]) & 1) | (int(t[2]) % 3) << 1 | (int(t[3]) == 2) << 3 | (int(t[4]) != 0) << 4
            return bytes([opt]) + bytes.fromhex("" if t[7] == "-" else t[7])
        if mode == "sock" and t[0] in ("sock", "rsock"):
            recvs = t[3] if t[0] == "sock" else t[8]
            body = b"".join(bytes.fromhex(x[1:]) for x in recvs.split(",") if x.startswith("d"))
            return bytes([1 if (t[1] if t[0] == "sock" else t[6]) != "0" else 0, 17, 5]) + body
    except (ValueError, IndexError):
        return None
    return None


def run_fuzz(repo, mode, seeds, literals, runs, seed, workdir, max_time=30):
    """returns (list of new inputs, note).  Needs the tooling interpreter `python3-vt` (atheris); without it the
    stage is skipped and the note says so."""
    import shutil
    py = shutil.which("python3-vt")
    if not py:
        return [], "python3-vt not found: stage skipped"
    corpus = os.path.join(workdir, mode)
    shutil.rmtree(corpus, ignore_errors=True)
    os.makedirs(corpus)
    have = set()
    for i, s in enumerate(seeds[:400]):
        if s is not None and len(s) <= 2300:
            open(os.path.join(corpus, "seed%04d" % i), "wb").write(s)
            have.add(s)
    dic = os.path.join(workdir, mode + ".dict")
    with open(dic, "w") as fh:
        for k, l in enumerate(literals[:200]):
            fh.write('lit%d="%s"\n' % (k, "".join("\\x%02x" % b for b in l)))
    env = dict(os.environ, PYTHONPATH=os.path.join(repo, "src"))
    cmd = [py, os.path.join(HERE, "fuzz_corpus.py"), mode, corpus, str(runs), str(seed), dic, str(max_time)]
    try:
        pr = subprocess.run(cmd, capture_output=True, text=True, env=env, timeout=900, cwd=workdir)
        note = "exit %d" % pr.returncode
    except subprocess.TimeoutExpired:
        note = "timeout"
    new = []
    for f in sorted(os.listdir(corpus)):
        b = open(os.path.join(corpus, f), "rb").read()
        if b not in have:
            new.append(b)
    return new, note
