"""
Infrastructure of ./check: regenerate tables, build Lean, audit axioms, run the correspondence
(model driver vs implementation), run oracles, search for failing inputs, write evidence,
print the verdict.
"""
import fcntl
import hashlib
import json
import os
import re
import subprocess
import sys
import time

VERIF = os.path.dirname(os.path.dirname(os.path.abspath(__file__)))
REPO = os.environ.get("VERIF_REPO", "/repo")
LEAN = os.path.join(VERIF, "lean")
WORK = os.path.join(VERIF, "work")
PY = os.environ.get("VERIF_PYTHON", "/venv/bin/python")
ALLOWED_AXIOMS = {"propext", "Classical.choice", "Quot.sound"}
FORBIDDEN = re.compile(r"\b(sorry|admit|native_decide|bv_decide|implemented_by|maxHeartbeats 0)\b|^\s*axiom\s|\bunsafe\s")


class Infra(Exception):
    pass


def sh(cmd, cwd=None, timeout=None, env=None):
    e = dict(os.environ)
    if env:
        e.update(env)
    p = subprocess.run(cmd, cwd=cwd, stdout=subprocess.PIPE, stderr=subprocess.STDOUT, timeout=timeout, env=e)
    return p.returncode, p.stdout.decode("utf-8", "replace")


class Lock:
    def __enter__(self):
        os.makedirs(WORK, exist_ok=True)
        self.f = open(os.path.join(WORK, ".lock"), "w")
        fcntl.flock(self.f, fcntl.LOCK_EX)
        return self

    def __exit__(self, *a):
        fcntl.flock(self.f, fcntl.LOCK_UN)
        self.f.close()


def regenerate():
    """run the translator on the current source tree; returns (changed, error text or None)"""
    rc, out = sh([PY, os.path.join(VERIF, "harness", "gen_tables.py"), os.path.join(LEAN, "Rtcm", "Gen"),
                  os.path.join(WORK, "tables.json")], env={"VERIF_REPO": REPO}, timeout=120)
    lines = [l for l in out.strip().splitlines() if "WARNING conda" not in l]
    if rc != 0:
        return False, "\n".join(lines[-15:])
    return (lines and lines[-1] == "changed"), None


def lake_build(targets, timeout=1500):
    rc, out = sh(["lake", "build"] + targets, cwd=LEAN, timeout=timeout)
    return rc, out


def theorems_in(path):
    src = open(path).read()
    # strip block comments
    src = re.sub(r"/-.*?-/", "", src, flags=re.S)
    return re.findall(r"^\s*theorem\s+([A-Za-z0-9_.'!?]+)", src, flags=re.M)


def grep_forbidden(paths):
    hits = []
    for p in paths:
        src = open(p).read()
        src = re.sub(r"/-.*?-/", lambda m: "\n" * m.group(0).count("\n"), src, flags=re.S)
        for i, line in enumerate(src.splitlines(), 1):
            code = line.split("--", 1)[0]
            if FORBIDDEN.search(code):
                hits.append("%s:%d: %s" % (os.path.relpath(p, VERIF), i, line.strip()))
    return hits


def lean_sources():
    out = []
    for root, _d, files in os.walk(os.path.join(LEAN, "Rtcm")):
        for f in files:
            if f.endswith(".lean"):
                out.append(os.path.join(root, f))
    return sorted(out)


def audit_axioms(pid, module, names, namespace="Rtcm"):
    """`#print axioms` for every property theorem; returns {name: [axioms] | None}"""
    if not names:
        return {}, ""
    path = os.path.join(WORK, "audit_%s.lean" % pid)
    with open(path, "w") as f:
        f.write("import %s\nopen %s\n" % (module, namespace))
        for n in names:
            f.write("#print axioms %s\n" % n)
    rc, out = sh(["lake", "env", "lean", path], cwd=LEAN, timeout=600)
    res = {n: None for n in names}
    # messages: "'Rtcm.foo' depends on axioms: [a, b]" or "... does not depend on any axioms"
    text = out.replace("\n  ", " ")
    for m in re.finditer(r"'([^']+)' (depends on axioms: \[([^\]]*)\]|does not depend on any axioms)", text):
        full = m.group(1)
        short = full.split(".")[-1]
        ax = [a.strip() for a in m.group(3).split(",")] if m.group(3) else []
        for n in names:
            if n == full or n == short or full.endswith("." + n):
                res[n] = ax
    return res, out


def run_driver(lines, timeout=1800):
    """pipe op lines through the compiled model driver; returns list of output lines"""
    exe = os.path.join(LEAN, ".lake", "build", "bin", "driver")
    if not os.path.exists(exe):
        raise Infra("model driver not built")
    inp = ("\n".join(lines) + "\n").encode()
    p = subprocess.run([exe], input=inp, stdout=subprocess.PIPE, stderr=subprocess.PIPE, timeout=timeout)
    if p.returncode != 0:
        raise Infra("model driver failed: " + p.stderr.decode()[-500:])
    out = p.stdout.decode().split("\n")
    if out and out[-1] == "":
        out.pop()
    if len(out) != len(lines):
        raise Infra("model driver returned %d lines for %d ops" % (len(out), len(lines)))
    return out


def sha12(s):
    return hashlib.sha1(s.encode()).hexdigest()[:12]


def load_known():
    p = os.path.join(VERIF, "known_findings.json")
    if not os.path.exists(p):
        return []
    return json.load(open(p))


def repo_head():
    rc, out = sh(["git", "-C", REPO, "rev-parse", "--short", "HEAD"])
    rc2, st = sh(["git", "-C", REPO, "status", "--porcelain", "--", "src"])
    return out.strip() + ("+dirty" if st.strip() else "")
