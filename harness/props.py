"""
Per-property case generators and oracles.

A case is a dict:
  line    op line of the line protocol (model and implementation both evaluate it), or None
  extra   implementation-only arguments (Python True label, real encoding value, handler on/off ...)
  klass   classification used to count distinct non-trivial cases
  oracle  (name, args) of a predicate over the implementation's behaviour that states the property
          directly on the real code (used to exhibit a failing input)
All randomness comes from ctx.rng.
"""
import io
import itertools
import json
import random

import gens
import impl
import pinned
from gens import frame, crc24q_ref


class Ctx:
    def __init__(self, tables, seed, tier):
        self.t = tables
        self.seed = seed
        self.rng = random.Random(seed)
        self.tier = tier
        self.b = gens.Builder(tables, self.rng)
        self.entries = gens.all_entries(tables)

    def n(self, quick, thorough):
        return thorough if self.tier == "thorough" else quick


def hx(b):
    return b.hex() if len(b) else "-"


def lab_tok(label):
    return ("1", {"label": True}) if label is True else (str(label), {})


def parse_msgline(s):
    """'ok id=.. msm=.. unk=.. ser=.. attrs=a=b;c=d' -> dict"""
    if not s.startswith("ok "):
        return None
    head, attrs = s.rsplit(" attrs=", 1)
    d = dict(kv.split("=", 1) for kv in head.split()[1:])
    d["attrs"] = dict(a.split("=", 1) for a in attrs.split(";") if a)
    return d


def expected_attr_str(pairs):
    return {k: impl.valstr(v) for k, v in pairs}


# =================================================================== oracles
# each returns None (property holds on this case) or a string describing the failure

def o_attrs_expected(out, a, ctx):
    m = parse_msgline(out)
    if m is None:
        return "payload built from the definition was rejected: " + out
    exp = a["expected"]
    got = m["attrs"]
    if got != exp:
        missing = sorted(set(exp) - set(got))[:5]
        extra = sorted(set(got) - set(exp))[:5]
        diff = [(k, exp[k], got[k]) for k in sorted(exp) if k in got and got[k] != exp[k]][:5]
        return "attributes differ from the laid-out fields: missing=%s extra=%s wrong=%s" % (missing, extra, diff)
    if "ident" in a and m["id"] != a["ident"]:
        return "identity %s != %s" % (m["id"], a["ident"])
    return None


def o_total(out, a, ctx):
    if out == "HANG":
        return "did not terminate within the watchdog"
    if out.startswith("foreign:"):
        return "foreign exception escaped: " + out
    toks = out.split()
    if any(t.startswith("X:") for t in toks):
        return "foreign exception escaped from iteration: " + out[-120:]
    if a.get("reader"):
        if a["quit"] in (0, 1) and any(t.startswith("R:") for t in toks):
            return "iterator raised in ignore/log mode: " + out[-120:]
        if not toks or not (toks[-1] == "STOP" or toks[-1].startswith("R:")):
            return "iteration did not finish cleanly: " + out[-120:]
    return None


def wellformed(raw):
    return (len(raw) >= 6 and raw[0] == 0xD3 and raw[1] & 0xFC == 0
            and ((raw[1] << 8) | raw[2]) == len(raw) - 6 and crc24q_ref(raw) == 0)


def frames_of(out):
    fr = []
    for t in out.split():
        if t.startswith("F:"):
            parts = t.split(":", 3)
            fr.append((impl.unhx(parts[1]), parts[2]))
    return fr


def frames_full(out):
    """(raw, identity, attribute digest, payload digest) per delivered pair"""
    fr = []
    for t in out.split():
        if t.startswith("F:"):
            parts = t.split(":")
            fr.append((impl.unhx(parts[1]), parts[2], parts[3] if len(parts) > 3 else "-", parts[4] if len(parts) > 4 else "-"))
    return fr


def ident_of_payload(p):
    num = p[0] << 4 | p[1] >> 4
    if num == 4076:
        return "4076_%03d" % ((p[1] & 1) << 7 | p[2] >> 1)
    return str(num)


def o_c01(out, a, ctx):
    data = impl.unhx(a["data"])
    pos = 0
    for raw, ident, _dig, pdig in frames_full(out):
        if not wellformed(raw):
            return "delivered raw frame is not a well-formed RTCM3 frame: " + raw.hex()[:80]
        i = data.find(raw, pos)
        if i < 0:
            return "delivered frame is not a slice of the input after the previous one: " + raw.hex()[:80]
        pos = i + len(raw)
        if ident != "None":
            p = raw[3:-3]
            if len(p) < 2 or ident != ident_of_payload(p):
                return "parsed identity %s is not the number carried by the slice" % ident
            if pdig != impl.attr_digest(p.hex()):
                return "the parsed message's payload is not the payload carried by the slice " + raw.hex()[:60]
    return None


def o_frames_expected(out, a, ctx):
    got = [hx(r) for r, _ in frames_of(out)]
    if got != a["frames"]:
        k = next((i for i, (x, y) in enumerate(zip(got, a["frames"])) if x != y), min(len(got), len(a["frames"])))
        return "frames returned differ from the frames in the stream at index %d: got %d, expected %d" % (
            k, len(got), len(a["frames"]))
    toks = out.split()
    if a.get("stop", True) and (not toks or toks[-1] != "STOP"):
        return "iteration did not end with a clean stop: " + out[-80:]
    if "errors" in a:
        # every error report (handler call / log entry / raised error) must be accounted for by an item of the
        # stream that cannot be decoded (zero- / one-byte payloads); foreign-protocol items and noise are skipped silently
        ne = sum(1 for t in toks if t.startswith("H:") or t.startswith("R:"))
        if ne != a["errors"]:
            return "%d error reports (%s) on a well-formed mixed stream, expected %d" % (
                ne, ",".join(t for t in toks if t[:2] in ("H:", "R:"))[:80], a["errors"])
    if "handlers" in a:
        h = sum(1 for t in toks if t.startswith("H:"))
        if h != a["handlers"]:
            return "error handler called %d times, expected %d" % (h, a["handlers"])
    if "raises" in a:
        # positions: number of frames seen before each raise
        pos = []
        nf = 0
        for t in toks:
            if t.startswith("F:"):
                nf += 1
            elif t.startswith("R:"):
                if t != "R:parse":
                    return "raised %s, expected a parse error" % t
                pos.append(nf)
        if pos != a["raises"]:
            return "parse errors raised after %s good frames, expected %s" % (pos, a["raises"])
    return None


def o_rejected(out, a, ctx):
    if out.startswith("ok "):
        return "truncated payload (%d of %d bytes) was accepted" % (a["k"], a["full"])
    if not out.startswith("lib:"):
        return "truncated payload gave " + out
    return None


def o_equals(out, a, ctx):
    if out != a["expected"]:
        return "got %s, expected %s" % (out[:160], a["expected"][:160])
    return None


def o_serialize(out, a, ctx):
    m = parse_msgline(out)
    if m is None:
        return None if a.get("may_fail") else "payload rejected: " + out
    p = impl.unhx(a["payload"])
    if m["ser"] != hx(frame(p)):
        return "serialize() is not D3 | len | payload | crc24q: " + m["ser"][:40]
    # parse(serialize(m)) gives the same message
    back = impl.eval_guarded("parse 1 %s %s" % (a["label"], m["ser"]), a.get("extra"))
    if back != out:
        return "parse(serialize(m)) differs from m"
    # eval(repr(m)) rebuilds the payload (CPython semantics; implementation-only check)
    from pyrtcm import RTCMMessage  # noqa
    try:
        mm = RTCMMessage(payload=p)
        r = eval(repr(mm))
        if bytes(r.payload) != p:
            return "eval(repr(m)).payload differs"
    except Exception as e:  # noqa
        return "eval(repr(m)) raised " + type(e).__name__
    return None


def o_parse_ser(out, a, ctx):
    """valid frame: parse then serialize reproduces the frame"""
    m = parse_msgline(out)
    if m is None:
        return None if a.get("may_fail") else "valid frame rejected: " + out
    if m["ser"] != a["frame"]:
        return "parse-then-serialize does not reproduce the frame"
    return None


def o_crc(out, a, ctx):
    ref = crc24q_ref(impl.unhx(a["data"]))
    if out != str(ref):
        return "calc_crc24q = %s, CRC-24Q long division = %d" % (out, ref)
    return None


def o_parse_err(out, a, ctx):
    if out != "lib:parse":
        return "damaged frame (%s) was not rejected with a parse error: %s" % (a.get("kind"), out[:80])
    return None


def o_msm_labels(out, a, ctx):
    m = parse_msgline(out)
    if m is None:
        return "MSM payload rejected: " + out
    at = m["attrs"]
    exp = a["expected"]
    for k, v in exp.items():
        if at.get(k) != v:
            return "%s = %s, expected %s" % (k, at.get(k), v)
    for k in at:
        if (k.startswith("PRN_") or k.startswith("CELLPRN_") or k.startswith("CELLSIG_")) and k not in exp:
            return "unexpected label attribute " + k
    return None


def o_immutable(out, a, ctx):
    if " || " not in out:
        return None if a.get("may_fail") else "construction failed: " + out
    res, state = out.split(" || ", 1)
    for r in res.split():
        if r != "lib:message":
            return "assignment attempt gave %s instead of the library's message error" % r
    if state != a["fresh"]:
        return "message state changed after assignment attempts"
    return None


def o_identity(out, a, ctx):
    m = parse_msgline(out)
    if m is None:
        return "message number %s caused %s" % (a["ident"], out)
    if m["id"] != a["ident"]:
        return "identity %s, transmitted %s" % (m["id"], a["ident"])
    if a["implemented"]:
        if m["attrs"].get("DF002") != "i:%d" % a["num"]:
            return "DF002 %s != %d" % (m["attrs"].get("DF002"), a["num"])
        if a["sub"] is not None and m["attrs"].get("IDF002") != "i:%d" % a["sub"]:
            return "IDF002 %s != %d" % (m["attrs"].get("IDF002"), a["sub"])
        if m["unk"] != "0":
            return "implemented type reported as stub"
    else:
        if m["unk"] != "1" or set(m["attrs"]) != {"DF002"}:
            return "unknown type is not a bare stub"
        if m["ser"] != hx(frame(impl.unhx(a["payload"]))):
            return "stub does not serialise back to the same frame"
    want_msm = a["msm_impl"]
    if want_msm and m["msm"] != "1":
        return "implemented MSM type not reported as MSM"
    if not (1070 <= a["num"] <= 1229) and m["msm"] != "0":
        return "number outside 1070-1229 reported as MSM"
    return None


def o_label_only(out, a, ctx):
    """compare with the parse under the other label options"""
    m1 = parse_msgline(out)
    others = {}
    for lab in (0, 1, 2, True):
        tok, ex = lab_tok(lab)
        o = impl.eval_guarded("msg %s %s" % (tok, a["payload"]), ex)
        others[lab] = parse_msgline(o)
    if m1 is None:
        if any(v is not None for v in others.values()):
            return "label option changes whether the payload parses"
        return None
    base = others[1]
    if base is None:
        return "label option changes whether the payload parses"
    for lab, m in others.items():
        if m is None:
            return "label option %r changes whether the payload parses" % (lab,)
        for k in set(base["attrs"]) | set(m["attrs"]):
            if a["msm"] and k.startswith("CELLSIG_"):
                continue
            if base["attrs"].get(k) != m["attrs"].get(k):
                return "attribute %s differs between label option 1 and %r" % (k, lab)
        if lab != 2 and m["attrs"] != base["attrs"]:
            return "label option %r is not treated like 1" % (lab,)
    if a["msm"] and "sigids" in a:
        # a signal id is labelled identically wherever it occurs
        for lab in (1, 2):
            seen = {}
            for i, sid in enumerate(a["sigids"]):
                v = others[lab]["attrs"].get("CELLSIG_%02d" % (i + 1))
                if seen.setdefault(sid, v) != v:
                    return "signal id %d labelled inconsistently under option %d" % (sid, lab)
    return None


def o_helpers(out, a, ctx):
    msg = impl.eval_guarded("msg %s %s" % (a["ltok"], a["payload"]), a.get("extra"))
    m = parse_msgline(msg)
    if m is None:
        return None
    if "foreign" in out or "lib:" in out:
        return "helper raised: " + out[:100]
    pm, hc = out.split(" || ")
    at = m["attrs"]
    if a["msm_impl"]:
        if pm == "msm None":
            return "parse_msm returned None for an MSM message"
        # rows
        import re
        mo = re.match(r"msm identity=(\S+) gnss=(\S+) station=(\S+) epoch=(\S+) sats=(\S+) cells=(\S+) S=\[(.*)\] C=\[(.*)\]$", pm)
        if not mo:
            return "unparseable parse_msm output"
        ident, gnss, station, epoch, sats, cells, S, C = mo.groups()
        if ident != m["id"] or station != at.get("DF003") or sats != at.get("NSat") or cells != at.get("NCell"):
            return "parse_msm metadata disagrees with the message"
        if epoch != at.get(a["epoch"]) or gnss != a["gnss"]:
            return "parse_msm epoch / constellation wrong"
        rows = lambda s: [dict(kv.split("=", 1) for kv in r.strip("{}").split(",") if kv) for r in re.findall(r"\{[^}]*\}", s)]  # noqa
        srows, crows = rows(S), rows(C)
        ns, nc = int(at["NSat"][2:]), int(at["NCell"][2:])
        if len(srows) != ns or len(crows) != nc:
            return "parse_msm returned %d/%d rows for %d satellites / %d cells" % (len(srows), len(crows), ns, nc)
        for kind, rws, fields in (("sat", srows, a["satfields"]), ("cell", crows, a["cellfields"])):
            for i, r in enumerate(rws):
                exp = {f: at["%s_%02d" % (f, i + 1)] for f in fields if "%s_%02d" % (f, i + 1) in at}
                if r != exp:
                    return "parse_msm %s row %d = %s, attributes say %s" % (kind, i + 1, r, exp)
    else:
        if pm != "msm None":
            return "parse_msm returned data for a non-MSM message"
    if m["id"] == "4076_201":
        if hc == "hc None":
            return "parse_4076_201 returned None"
        import re
        layers = re.findall(r"\{h=(\S+) \[([^\]]*)\] \[([^\]]*)\]\}", hc)
        nl = int(at["IDF035"][2:]) + 1
        if len(layers) != nl:
            return "parse_4076_201 returned %d layers, message has %d" % (len(layers), nl)
        for li, (h, cs, ss) in enumerate(layers):
            if h != at.get("IDF036_%02d" % (li + 1)):
                return "layer %d height wrong" % (li + 1)
            for fld, got in (("IDF039", cs), ("IDF040", ss)):
                exp = []
                i = 1
                while "%s_%02d_%02d" % (fld, li + 1, i) in at:
                    exp.append(at["%s_%02d_%02d" % (fld, li + 1, i)])
                    i += 1
                if [x for x in got.split(",") if x] != exp:
                    return "layer %d %s coefficients: helper %d values, message %d" % (li + 1, fld, len([x for x in got.split(',') if x]), len(exp))
    elif hc != "hc None":
        return "parse_4076_201 returned data for another identity"
    return None


def o_names(out, a, ctx):
    import re
    mo = re.match(r"idx=(\S+) name=(\S+) desc=(\S+)$", out)
    if not mo:
        return "helper raised: " + out
    idx, name, desc = mo.groups()
    if desc != impl.sha(a["desc"]):
        return "datadesc(%s) is not the description of %s (%s)" % (a["attr"], a["field"], desc)
    if a["idx"]:
        want = str(a["idx"][0]) if len(a["idx"]) == 1 else "(" + ",".join(map(str, a["idx"])) + ")"
        if idx != want:
            return "att2idx(%s) = %s, expected %s" % (a["attr"], idx, want)
        if "_" not in a["field"] and impl.unhx(name).decode() != a["field"]:
            return "att2name(%s) = %s" % (a["attr"], impl.unhx(name).decode())
    return None


def o_sock_conserve(out, a, ctx):
    if " | buf=" not in out:
        return "socket wrapper raised: " + out
    reads, buf = out.split(" | buf=")
    src = impl.unhx(a["source"])
    got = b""
    sizes = a["reads"]
    for r, n in zip(reads.split(), sizes):
        d = impl.unhx(r)
        if n != "L":
            if len(d) > int(n):
                return "read(%s) returned %d bytes" % (n, len(d))
            if 0 < len(d) < int(n):
                return "read(%s) returned %d bytes (short)" % (n, len(d))
            if len(d) == 0 and int(n) > 0 and not a["faulty"] and len(src) - len(got) >= int(n):
                return "read(%s) returned nothing although %d bytes were still to come and the peer neither closed nor timed out" % (n, len(src) - len(got))
        else:
            if b"\n" in d[:-1]:
                return "readline ran past a line feed"
        got += d
    rest = impl.unhx(buf)
    if not src.startswith(got + rest):
        return "bytes delivered (+ buffered) are not a prefix of the peer's stream"
    if a.get("drained") and got + rest != src:
        return "bytes lost: after reading until the peer closed, %d of the %d bytes it sent were delivered or buffered" % (len(got + rest), len(src))
    return None


def o_mrepr(out, a, ctx):
    """eval(repr(m)) rebuilds a message with the same payload (when the message could be constructed)"""
    if out.startswith("lib:"):
        return None
    if " || " not in out:
        return "unexpected repr output " + out[:60]
    rp, back = out.rsplit(" || ", 1)
    if back != a["payload"]:
        return "eval(repr(m)).payload is %s, expected the message's payload" % back[:60]
    if not (rp.startswith("RTCMMessage(payload=b") and rp.endswith(")")):
        return "repr is not RTCMMessage(payload=b...): " + rp[:60]
    return None


def o_conc(out, a, ctx):
    """every thread's result is the result of parsing its own job alone"""
    parts = out.split(" || ")
    if len(parts) != len(a["jobs"]):
        return "expected %d thread results, got %d" % (len(a["jobs"]), len(parts))
    for k, (j, got) in enumerate(zip(a["jobs"], parts)):
        alone = impl.eval_guarded(j)
        if got != alone:
            return "thread %d of %d (%s) gave %s, the same call alone gives %s" % (k, len(parts), j[:40], got[:80], alone[:80])
    return None


def o_same_as(out, a, ctx):
    other = impl.eval_guarded(a["other_line"], a.get("other_extra"))
    fa = [x for x in out.split() if x.startswith("F:")]
    fb = [x for x in other.split() if x.startswith("F:")]
    if a.get("strip_crc"):
        fa = [x.split(":", 3)[1][:-6] + ":" + ":".join(x.split(":", 3)[2:]) for x in fa]
        fb = [x.split(":", 3)[1][:-6] + ":" + ":".join(x.split(":", 3)[2:]) for x in fb]
    if a.get("drop"):
        # frames the other run returns but this one must reject (and only those)
        fb = [x for x in fb if x.split(":", 3)[1] not in a["drop"]]
    if a.get("raw_only"):
        fa = [x.split(":")[1] for x in fa]
        fb = [x.split(":")[1] for x in fb]
    if fa != fb:
        return a["what"] + ": %d vs %d frames" % (len(fa), len(fb))
    return None


def o_parse_same(out, a, ctx):
    other = impl.eval_guarded(a["other_line"], a.get("other_extra"))
    ma, mb = parse_msgline(out), parse_msgline(other)
    if (ma is None) != (mb is None):
        return a["what"] + ": %s vs %s" % (out[:40], other[:40])
    if ma and (ma["attrs"] != mb["attrs"] or ma["id"] != mb["id"]):
        return a["what"]
    if "expect_ok" in a and a["expect_ok"] and ma is None:
        return "frame with wrong checksum rejected although validation is off: " + out[:40]
    return None


def o_sibling(out, a, ctx):
    """combined message = orbit message followed by clock message (same block bits → same values)"""
    m3 = parse_msgline(out)
    if m3 is None:
        return "combined message rejected: " + out[:80]
    m1 = parse_msgline(impl.eval_guarded("msg 1 " + a["p1"]))
    m2 = parse_msgline(impl.eval_guarded("msg 1 " + a["p2"]))
    if m1 is None or m2 is None:
        return "component message (%s / %s) built from the combined message's block bits is rejected" % (a["k1"], a["k2"])
    v3 = [m3["attrs"].get(n) for n in a["n3"]]
    v12 = [m1["attrs"].get(n) for n in a["n1"]] + [m2["attrs"].get(n) for n in a["n2"][1:]]
    if v3 != v12:
        k = next(i for i, (x, y) in enumerate(zip(v3, v12)) if x != y) if len(v3) == len(v12) else -1
        return "%s satellite block is not %s block followed by %s block: the same bits decode to different values (position %d: %s vs %s)" % (
            a["k3"], a["k1"], a["k2"], k, v3[k] if k >= 0 else len(v3), v12[k] if k >= 0 else len(v12))
    if m2["attrs"].get(a["n2"][0]) != m3["attrs"].get(a["n3"][0]):
        return "satellite id differs between %s and %s" % (a["k2"], a["k3"])
    return None


ORACLES = {f.__name__[2:]: f for f in [o_sibling, 
    o_attrs_expected, o_total, o_c01, o_frames_expected, o_rejected, o_equals, o_serialize, o_parse_ser,
    o_crc, o_parse_err, o_msm_labels, o_immutable, o_identity, o_label_only, o_helpers, o_names,
    o_sock_conserve, o_same_as, o_parse_same, o_mrepr, o_conc]}


def case(line, klass, oracle=None, extra=None, **meta):
    return {"line": line, "klass": klass, "oracle": oracle, "extra": extra or {}, "meta": meta}


# =================================================================== shared generators

def some_payloads(ctx, n, fit=True, **kw):
    """n builder payloads spread over all definitions"""
    out = []
    ents = ctx.entries
    k = 0
    while len(out) < n:
        tn, e = ents[k % len(ents)]
        k += 1
        try:
            r = gens.gen_payload(ctx.b, e, ctx.rng, fit=fit, **kw)
        except gens.BuildError:
            continue
        r["table"] = tn
        r["entry"] = e
        r["want"] = pinned.size_bits(e["key"], ctx.b.vals, r["occs"])
        out.append(r)
    return out


def pinned_entries(ctx):
    """the pinned standard definitions (harness/pinned.py DEF_PINS) as builder entries with the current table's
    field ids; a pinned field that no longer exists makes the entry None"""
    fid = {}
    for i, n in enumerate(ctx.b.names):
        fid.setdefault(n, i)
    out = []
    for key in pinned.DEF_PIN_KEYS:
        num, sub = (int(key), None) if "_" not in key else (4076, int(key[5:]))
        try:
            items = pinned.def_pin_items(pinned.def_pin_tree(key), fid)
        except KeyError:
            items = None
        out.append({"key": key, "num": num, "sub": sub, "items": items})
    return out


def pinned_def_cases(ctx, reps):
    """payloads laid out from the *pinned* definition (field order, counters and conditions as the standards give
    them): the parser must extract exactly the attributes that layout assigns.  On a tree whose definition is the
    pinned one these are ordinary layout cases; on a tree where two fields were transposed or a group is counted by
    another field they are the concrete inputs on which it decodes a standard message wrongly."""
    cs = []
    cur = {e["key"]: e for _, e in ctx.entries}
    for rep in range(reps):
        for pe in pinned_entries(ctx):
            if pe["items"] is None or pe["key"] not in cur:
                cs.append(case("ident " + hx(bytes([pe["num"] >> 4, (pe["num"] & 15) << 4, 0])), "pinned-def-missing:" + pe["key"],
                               ("equals", {"expected": "the pinned definition of %s names fields the tables no longer have (or the identity has no definition)" % pe["key"]})))
                continue
            if rep > 0 and cur[pe["key"]]["items"] == pe["items"] and ctx.rng.random() < 0.5:
                continue          # unchanged definitions are covered by the ordinary layout cases as well
            try:
                r = gens.gen_payload(ctx.b, pe, ctx.rng, fit=True,
                                     val_mode=ctx.rng.choice(["random", "random", "mixed", "signones"]),
                                     count_mode=ctx.rng.choice(["one", "small", "small"]))
            except gens.BuildError:
                continue
            exp = expected_attr_str(ctx.b.expected(1))
            cs.append(case("msg 1 " + hx(r["payload"]), "pinned-def:" + pe["key"],
                           ("attrs_expected", {"expected": exp, "ident": pe["key"]})))
    return cs


def standard_size_cases(ctx, reps):
    """frames the properties call *valid* are valid by the standards, not merely by the library's own tables:
    for every identity whose size formula is pinned, payloads laid out from the current definition (several
    repeat-count / mask / condition choices) must have the pinned size; a definition that lays the same
    fields out in another size would garble or drop frames built to the standard"""
    cs = []
    for rep in range(reps):
        for tn, e in ctx.entries:
            try:
                r = gens.gen_payload(ctx.b, e, ctx.rng, fit=True, count_mode=ctx.rng.choice(["zero", "one", "small"]))
            except gens.BuildError:
                continue
            want = pinned.size_bits(e["key"], ctx.b.vals, r["occs"])
            if want is not None and want != r["nbits"]:
                cs.append(case("msg 1 " + hx(r["payload"]), "std-size:" + e["key"],
                               ("equals", {"expected": "a %s message with these repeat counts occupies %d bits in the standard, the "
                                           "definition lays out %d: frames built to the standard are garbled or dropped" % (e["key"], want, r["nbits"])})))
    return cs


def recorded_logs():
    """the byte streams recorded in the repository's own test directory (real receiver / caster output)"""
    import glob
    import os
    root = os.path.join(os.environ.get("VERIF_REPO", "/repo"), "tests")
    out = []
    for f in sorted(glob.glob(os.path.join(root, "*.log"))):
        try:
            b = open(f, "rb").read()
        except OSError:
            continue
        if 0 < len(b) <= 200000:
            out.append((os.path.basename(f), b))
    return out


def recorded_frames():
    """(file, frame bytes) of every CRC-valid frame found in the recorded logs by an independent scan"""
    out = []
    for name, b in recorded_logs():
        i = 0
        while i + 6 <= len(b):
            if b[i] == 0xD3 and b[i + 1] & 0xFC == 0:
                ln = ((b[i + 1] & 3) << 8) | b[i + 2]
                fr = b[i:i + ln + 6]
                if len(fr) == ln + 6 and gens.crc24q_ref(fr) == 0:
                    out.append((name, fr))
                    i += ln + 6
                    continue
            i += 1
    return out


def recorded_cases(kind):
    """correspondence on the recorded logs: whole streams through the reader (every option combination, frame
    events carry attribute digests), or every recorded payload through the constructor under both label options"""
    cs = []
    if kind == "reader":
        for name, b in recorded_logs():
            for v in (0, 1):
                for q in (0, 1, 2):
                    for lab in (1, 2):
                        cs.append(case(reader_line(v, q, lab, True, True, "-", b), "recorded:%s" % name, None, {"handler": True}))
            cs.append(case(reader_line(1, 1, 1, False, True, "-", b), "recorded:%s:raw" % name, None, {"handler": True}))
    else:
        seen = set()
        for name, fr in recorded_frames():
            p = fr[3:-3]
            if p in seen:
                continue
            seen.add(p)
            for lab in (1, 2):
                cs.append(case("msg %d %s" % (lab, hx(p)), "recorded:%s" % name, None))
    return cs


def good_frames(ctx, n):
    """valid frames of implemented (decodable) and unknown types"""
    out = []
    for _ in range(n):
        if ctx.rng.random() < 0.3:
            p = gens.unknown_payload(ctx.rng, ctx.t, ctx.rng.choice([2, 3, 5, 19, 40]))
        else:
            tn, e = ctx.rng.choice(ctx.entries)
            try:
                p = gens.gen_payload(ctx.b, e, ctx.rng, count_mode=ctx.rng.choice(["zero", "one", "small"]))["payload"]
            except gens.BuildError:
                p = gens.unknown_payload(ctx.rng, ctx.t, 4)
        out.append(frame(p))
    return out


def nested_frame(ctx):
    """outer valid frame whose payload starts with a complete shorter frame body + its CRC"""
    inner = good_frames(ctx, 1)[0]                    # d3 len payload crc
    ip = inner[3:-3]
    extra = bytes(ctx.rng.getrandbits(8) for _ in range(ctx.rng.choice([1, 3, 6, 30])))
    outer_payload = ip + inner[-3:] + extra
    # outer header d3 00 L ; inner header d3 00 L' -> crc of inner is over d3 00 L' + ip, embedded after ip
    return frame(outer_payload), inner


def mixed_stream(ctx, nitems=None, kinds=None, adversarial=False):
    """returns (data, expected deliverable frames [hex], description of items)"""
    rng = ctx.rng
    nitems = nitems or rng.randint(1, 7)
    data = b""
    frames = []
    desc = []
    kinds = kinds or ["rtcm", "rtcm", "rtcm", "nmea", "ubx", "noise", "zero", "one", "unk", "max", "lensp", "twin"]
    for _ in range(nitems):
        k = rng.choice(kinds)
        if k == "rtcm":
            f = good_frames(ctx, 1)[0]
            data += f
            frames.append(hx(f))
        elif k == "unk":
            f = frame(gens.unknown_payload(rng, ctx.t))
            data += f
            frames.append(hx(f))
        elif k == "lensp":
            # payload lengths whose length byte is itself a sync / line character (0xD3, '$', 0xB5, 'b', LF, CR) or a
            # power-of-two boundary
            f = frame(gens.unknown_payload(rng, ctx.t, rng.choice([0xD3, 0x24, 0xB5, 0x62, 10, 13, 255, 256, 257, 512, 768, 1022])))
            data += f
            frames.append(hx(f))
        elif k == "twin":
            # two different valid frames of one length with identical checksum bytes, back to back or apart
            f = frame(gens.unknown_payload(rng, ctx.t, rng.choice([7, 8, 19, 40, 300])))
            tw = gens.crc_twin(rng, f)
            data += f
            frames.append(hx(f))
            if tw is not None:
                if rng.random() < 0.4:
                    data += gens.gen_nmea(rng, ctx.t)
                data += tw
                frames.append(hx(tw))
        elif k == "max":
            f = frame(gens.unknown_payload(rng, ctx.t, 1023))
            data += f
            frames.append(hx(f))
        elif k == "zero":
            data += frame(b"")
        elif k == "one":
            data += frame(bytes([rng.randrange(256)]))
        elif k == "nmea":
            data += gens.gen_nmea(rng, ctx.t, crlf=rng.random() < 0.7)
        elif k == "ubx":
            data += gens.gen_ubx(rng, syncy=True)
        elif k == "noise":
            data += gens.gen_noise(rng, inert=True)
        desc.append(k)
    return data, frames, desc


def adversarial_stream(ctx):
    rng = ctx.rng
    parts = []
    goods = []
    for _ in range(rng.randint(1, 6)):
        k = rng.choice(["good", "good", "dmg", "trunc", "noise", "sync", "nmea", "badnmea", "ubx", "nested", "fakehdr", "zero", "resframe", "dmgcopy", "dmgcopy",
                        "twin", "crcprev"])
        if k in ("dmgcopy", "twin", "crcprev") and not goods:
            k = "good"
        if k == "twin":
            # a different valid frame with the same length and the same checksum bytes as an earlier one
            tw = gens.crc_twin(rng, rng.choice(goods))
            parts.append(tw if tw is not None else good_frames(ctx, 1)[0])
            goods.append(parts[-1])
        elif k == "crcprev":
            # a frame whose (wrong) checksum bytes are those of the frame delivered before it
            f = good_frames(ctx, 1)[0]
            parts.append(f[:-3] + goods[-1][-3:])
        elif k == "good":
            parts.append(good_frames(ctx, 1)[0])
            goods.append(parts[-1])
        elif k == "dmgcopy":
            # a copy of a frame delivered earlier in this stream, damaged in one region only:
            # payload (header and checksum bytes intact), checksum bytes only, or an exact repeat
            f = bytearray(rng.choice(goods))
            where = rng.choice(["payload", "payload", "crc", "none"]) if len(f) > 6 else rng.choice(["crc", "none"])
            if where == "payload":
                for _j in range(rng.randint(1, 3)):
                    f[rng.randrange(3, len(f) - 3)] ^= 1 << rng.randrange(8)
            elif where == "crc":
                f[rng.randrange(len(f) - 3, len(f))] ^= 1 << rng.randrange(8)
            parts.append(bytes(f))
        elif k == "dmg":
            parts.append(gens.damage(rng, good_frames(ctx, 1)[0])[0])
        elif k == "trunc":
            f = good_frames(ctx, 1)[0]
            parts.append(f[:rng.randint(1, len(f) - 1)])
        elif k == "noise":
            parts.append(gens.gen_noise(rng, inert=True))
        elif k == "sync":
            parts.append(gens.gen_noise(rng, inert=False))
        elif k == "nmea":
            parts.append(gens.gen_nmea(rng, ctx.t, crlf=rng.random() < 0.6))
        elif k == "badnmea":
            parts.append(gens.gen_nmea(rng, ctx.t, valid=False))
        elif k == "ubx":
            parts.append(gens.gen_ubx(rng, syncy=True))
        elif k == "nested":
            parts.append(nested_frame(ctx)[0])
        elif k == "fakehdr":
            parts.append(bytes([0xd3, rng.choice([0, 1, 2, 3, 4, 5, 7, 8, 0x40, 0x80, 0xfc]), rng.randrange(12)]) + gens.gen_noise(rng, rng.randint(0, 10), inert=False))
        elif k == "resframe":
            # a block that looks like a frame except that one of the six reserved bits is set,
            # with a body of the length its 16 length bits announce and a CRC that checks
            b2 = rng.choice([0x04, 0x04, 0x05, 0x08, 0x10])
            b3 = rng.randrange(8)
            body = good_frames(ctx, 1)[0][3:-3]
            L = (b2 << 8) | b3
            body = (body + bytes([0x55]) * L)[:L]
            blk = bytes([0xd3, b2, b3]) + body
            parts.append(blk + gens.crc24q_ref(blk).to_bytes(3, "big"))
        else:
            parts.append(frame(b""))
    return b"".join(parts)


def fault_sched(ctx, nbytes, mode=None):
    rng = ctx.rng
    mode = mode or rng.choice(["none", "none", "sparse", "dense", "empties"])
    if mode == "none":
        return "-"
    n = rng.randint(1, 30)
    out = []
    for _ in range(n):
        r = rng.random()
        if mode == "sparse":
            out.append("n" if r < 0.85 else str(rng.choice([0, 1, 2, 3, 19])))
        elif mode == "dense":
            out.append("n" if r < 0.4 else str(rng.choice([0, 1, 1, 2, 3, 5, 19, 22])))
        else:
            out.append("n" if r < 0.7 else "0")
    return ",".join(out)


def reader_line(v, q, lab, parsed, resume, sched, data):
    return "reader %d %d %d %d %d %s %s" % (v, q, lab, 1 if parsed else 0, 1 if resume else 0, sched, hx(data))


def recv_tok(segs, faults=None, close=True):
    toks = []
    for i, s in enumerate(segs):
        if faults and i in faults:
            toks.append(faults[i])
        toks.append("d" + s.hex())
    if close:
        toks.append("c")
    return ",".join(toks) if toks else "-"


# ------------------------------------------------------------------- cases for the small public helpers
# (get_bit / escapeall / hextable / tow2utc; model: lean/Rtcm/Model/Helpers.lean).  Every expectation is
# computed here, independently of the library.

def _hx_tok(b):
    return hx(b) or "-"


def helper_bit_cases(ctx):
    rng = ctx.rng
    cs = []
    datas = [b"", b"\x80", b"\x01", b"\xd3\x00\x13", bytes(range(256))]
    datas += [bytes(rng.getrandbits(8) for _ in range(rng.choice([1, 2, 3, 8, 33, 200]))) for _ in range(ctx.n(25, 300))]
    for d in datas:
        nb = 8 * len(d)
        v = int.from_bytes(d, "big")
        nums = {0, 7, 8, nb - 1, nb, nb + 7, nb + 8} | {rng.randrange(0, nb + 9) for _ in range(ctx.n(6, 30))}
        for num in sorted(n for n in nums if n >= 0):
            exp = "gb %d" % ((v >> (nb - 1 - num)) & 1) if num < nb else "foreign:index"
            cs.append(case("getbit %s %d" % (_hx_tok(d), num), "getbit:%s:bit%d" % ("in" if num < nb else "out", num % 8), ("equals", {"expected": exp}), advisory=True))
    return cs


def _hextable_ref(raw, cols):
    out = ""
    per = 2 * cols
    for off in range(0, len(raw), per):
        row = raw[off:off + per]
        h = row.hex() + " " * (4 * cols - 2 * len(row))
        out += "%03d: " % off + "".join(h[k:k + 4] + " " for k in range(0, 4 * cols, 4)) + " | " + repr(row) + " |\n"
    return out


def helper_text_cases(ctx):
    rng = ctx.rng
    cs = []
    datas = [b"", b"s", b"'", b"\"'\\", b"\r\n\t", bytes(range(256)), b"$GNGSA,A,3,34,23"]
    datas += [bytes(rng.choice([39, 34, 92, 10, 13, 9, 0, 127, 128, 255, 32, 65, rng.randrange(256)]) for _ in range(rng.choice([1, 2, 7, 15, 16, 17, 31, 32, 33, 100, 1100])))
              for _ in range(ctx.n(40, 500))]
    for d in datas:
        exp = "b'" + "".join("\\x" + d.hex()[k:k + 2] for k in range(0, 2 * len(d), 2)) + "'"
        cs.append(case("escall " + _hx_tok(d), "escall:len%d" % min(len(d), 4), ("equals", {"expected": "es " + hx(exp.encode("latin-1"))}), advisory=True))
        for cols in {8, 1, rng.choice([1, 2, 3, 4, 5, 8, 16, 600])}:
            kl = "hextbl:%s:%s" % ("empty" if not d else ("partial-row" if len(d) % (2 * cols) else "full-rows"), "many" if len(d) > 2 * cols else "one")
            cs.append(case("hextbl %s %d" % (_hx_tok(d), cols), kl, ("equals", {"expected": "ht " + (hx(_hextable_ref(d, cols).encode("latin-1")) or "-")}), advisory=True))
    return cs


def helper_tow_cases(ctx):
    rng = ctx.rng
    cs = []
    tows = [0, 1, 999, 1000, 17999, 18000, 18001, 86399999, 86400000, 86417999, 86418000, 604799999, 604800000, 604818000, -1, -18000, -86400000]
    tows += [rng.randrange(0, 604800000) for _ in range(ctx.n(60, 600))]
    tows += [rng.randrange(-10 ** 9, 10 ** 10) for _ in range(ctx.n(30, 300))]
    for t in tows:
        tod = (t - 18000) % 86400000
        exp = "tod %d %d %d %d" % (tod // 3600000, tod // 60000 % 60, tod // 1000 % 60, tod % 1000 * 1000)
        cs.append(case("tow %d" % t, "tow:%s:%s" % ("neg" if t < 0 else ("week" if t < 604800000 else "beyond"), "ms" if t % 1000 else "s"), ("equals", {"expected": exp}), advisory=True))
    return cs


# =================================================================== per-property cases

def cases_C08(ctx):
    rng = ctx.rng
    cs = []
    # crc of all strings of length <= 1 and many of length 2, random longer ones
    datas = [b""] + [bytes([i]) for i in range(256)]
    datas += [bytes([rng.randrange(256), rng.randrange(256)]) for _ in range(ctx.n(100, 2000))]
    datas += [bytes(rng.getrandbits(8) for _ in range(rng.choice([3, 4, 7, 25, 100, 1029, rng.randint(3, 1029)]))) for _ in range(ctx.n(150, 1500))]
    datas += [bytes([0] * k + [1 << rng.randrange(8)] + [0] * j) for k, j in [(rng.randint(0, 40), rng.randint(0, 40)) for _ in range(ctx.n(60, 600))]]
    # strings whose CRC is a special value (all ones, one bit, the generator's low bits, zero)
    for tgt in (0xFFFFFF, 0xFFFFFE, 0x000001, 0x800000, 0x7FFFFF, 0x864CFB, 0x000000, 0x0000D3):
        for _ in range(ctx.n(3, 20)):
            datas.append(gens.with_crc(bytes(rng.getrandbits(8) for _ in range(rng.choice([0, 1, 3, 16, 200]))), tgt))
    for d in datas:
        cs.append(case("crc " + hx(d), "crc:len%d" % min(len(d), 8), ("crc", {"data": hx(d)})))
    # strings whose own CRC is zero (message + crc), as *inputs* of the helpers again: crc2bytes of such a string is 00 00 00
    for _ in range(ctx.n(40, 200)):
        d = gens.unknown_payload(rng, ctx.t, rng.choice([2, 3, 9, 40, 300, 1020]))      # unknown number: always constructs
        f = d + crc24q_ref(d).to_bytes(3, "big")
        # as a payload: frame it, the frame's trailer must be its real CRC
        cs.append(case("msg 1 " + hx(f), "crc:zero-payload", ("serialize", {"payload": hx(f), "label": "1"})))
    # value over message + its crc is zero
    for d in datas[-ctx.n(80, 500):]:
        f = d + crc24q_ref(d).to_bytes(3, "big")
        cs.append(case("crc " + hx(f), "crc:self", ("equals", {"expected": "0"})))
    # damaged valid frames are rejected
    frames = good_frames(ctx, ctx.n(60, 400)) + [frame(gens.unknown_payload(rng, ctx.t, 1023)) for _ in range(ctx.n(2, 10))]
    frames += [nested_frame(ctx)[0] for _ in range(ctx.n(20, 100))]
    for f in frames:
        for _ in range(ctx.n(4, 12)):
            d, kind = gens.damage(rng, f)
            cs.append(case("parse 1 1 " + hx(d), "dmg:%s:len%d" % (kind, min(len(f) // 64, 8)), ("parse_err", {"kind": kind})))
        # header damage (length field) too: single bit flips anywhere incl. header
        i = rng.randrange(len(f) * 8)
        x = bytearray(f)
        x[i // 8] ^= 0x80 >> (i % 8)
        cs.append(case("parse 1 1 " + hx(bytes(x)), "dmg:any1", ("parse_err", {"kind": "1bit@%d" % i})))
    # every single-bit flip of the length field of nested frames (inner frame embedded)
    for _ in range(ctx.n(30, 200)):
        f, inner = nested_frame(ctx)
        x = bytearray(f)
        x[1], x[2] = inner[1], inner[2]            # length field now announces the embedded frame
        nb = bin((f[1] ^ inner[1]) << 8 | (f[2] ^ inner[2])).count("1")
        cs.append(case("parse 1 1 " + hx(bytes(x)), "dmg:nested%d" % min(nb, 4),
                       ("parse_err", {"kind": "length field rewritten to embedded frame"}) if nb in (1, 2, 3) or nb % 2 == 1 else None))
    # validation off: crc bytes do not matter
    for f in frames[:ctx.n(40, 300)]:
        g = f[:-3] + bytes(rng.getrandbits(8) for _ in range(3))
        cs.append(case("parse 0 1 " + hx(g), "noval", ("parse_same", {"other_line": "parse 1 1 " + hx(f), "what": "with validation off the checksum bytes influence the result", "expect_ok": False})))
    # `validate` is a bit mask: VALCKSUM is bit 0, so 3 validates like 1 and 2 does not validate like 0
    for f in frames[:ctx.n(20, 100)]:
        d, kind = gens.damage(rng, f)
        cs.append(case("parse 3 1 " + hx(d), "dmg:v3", ("parse_err", {"kind": kind + " (validate=3)"})))
        g = f[:-3] + bytes(b ^ 0xA5 for b in f[-3:])
        cs.append(case("parse 2 1 " + hx(g), "noval:v2", ("parse_same", {"other_line": "parse 1 1 " + hx(f), "what": "validate=2 (checksum bit clear) must not validate", "expect_ok": False})))
    return cs


def cases_C03(ctx):
    cs = []
    rng = ctx.rng
    reps = ctx.n(8, 60)
    for rep in range(reps):
        for tn, e in ctx.entries:
            try:
                r = gens.gen_payload(ctx.b, e, rng, fit=True)
            except gens.BuildError as ex:
                cs.append(case("msg 1 " + hx(bytes([e["num"] >> 4, (e["num"] & 15) << 4, 0])), "builderr:" + e["key"],
                               ("equals", {"expected": "definition %s cannot be laid out: %s" % (e["key"], ex)})))
                continue
            label = rng.choice([0, 1, 2, True])
            tok, ex = lab_tok(label)
            exp = expected_attr_str(ctx.b.expected(2 if label == 2 else 1))
            klass = "%s:%s:%s:%s" % (e["key"], r["modes"][0], r["modes"][1], r["modes"][2] if tn == "msm" else "-")
            # the fields of a message are the ones the standard gives it: a definition whose layout for these
            # repeat counts has another size than the pinned standard formula puts some field's bits elsewhere
            want = pinned.size_bits(e["key"], ctx.b.vals, r["occs"])
            if want is not None and want != r["nbits"]:
                cs.append(case("msg %s %s" % (tok, hx(r["payload"])), klass + ":size",
                               ("equals", {"expected": "message %s with these repeat counts occupies %d bits in the standard, "
                                           "the definition lays out %d: fields are not where the standard puts them" % (e["key"], want, r["nbits"])}), ex))
            cs.append(case("msg %s %s" % (tok, hx(r["payload"])), klass,
                           ("attrs_expected", {"expected": exp, "ident": e["key"]}), ex))
            # spec side: the Lean layout walk fed with the raw values packs to the same bytes and
            # assigns the attributes the real parser extracts from them
            raws = [o.bits for o in r["occs"] if o.ty not in ("prn", "cprn", "csig")]
            cs.append(case("lay %s %s %s" % (tok, hx(r["payload"]), ",".join(map(str, raws)) or "-"), klass + ":lay",
                           ("attrs_expected", {"expected": exp, "ident": e["key"]}), ex))
            # trailing bytes change nothing
            if rep % 3 == 0:
                tr = bytes(rng.getrandbits(8) for _ in range(rng.randint(1, 9)))
                cs.append(case("msg %s %s" % (tok, hx(r["payload"] + tr)), klass + ":trail",
                               ("attrs_expected", {"expected": exp, "ident": e["key"]}), ex))
            # changing the bits of one plain field changes that attribute only
            plain = [o for o in r["occs"] if not o.control and o.width > 0 and o.ty not in ("prn", "cprn", "csig")]
            if plain and rep % 2 == 0:
                o = rng.choice(plain)
                newbits = o.bits ^ (1 << rng.randrange(o.width))
                name = gens.attr_name(o.name, o.idx)
                ov = {gens.attr_name(x.name, x.idx): x.bits for x in r["occs"] if x.width > 0 and x.ty != "str"}
                if o.ty != "str":
                    ov[name] = newbits
                    try:
                        st = rng.getstate()
                        r2 = ctx.b.build(e, *r["modes"], overrides=ov)
                        rng.setstate(st)
                        exp2 = expected_attr_str(ctx.b.expected(2 if label == 2 else 1))
                        changed = [k for k in exp if exp[k] != exp2.get(k)]
                        if set(changed) <= {name} and len(r2["payload"]) == len(r["payload"]):
                            cs.append(case("msg %s %s" % (tok, hx(r2["payload"])), klass + ":local",
                                           ("attrs_expected", {"expected": exp2, "ident": e["key"]}), ex))
                    except gens.BuildError:
                        pass
    cs += helper_bit_cases(ctx)
    return cs


def cases_C06(ctx):
    cs = []
    rng = ctx.rng
    extra = []
    # MSM messages with satellites but an empty signal mask (no cells): the satellite blocks are still announced
    for e in [x for tn, x in ctx.entries if tn == "msm"][::ctx.n(7, 1)]:
        try:
            r = ctx.b.build(e, "small", "random", "random", overrides={"DF395": 0, "DF394": rng.getrandbits(64) | 1 << rng.randrange(64)})
        except gens.BuildError:
            continue
        if len(r["payload"]) <= 1023:
            r["entry"], r["table"], r["want"] = e, "msm", pinned.size_bits(e["key"], ctx.b.vals, r["occs"])
            extra.append(r)
    for r in some_payloads(ctx, ctx.n(len(ctx.entries) * 2, len(ctx.entries) * 10), fit=True) + extra:
        p = r["payload"]
        idlen = 3 if r["entry"]["num"] == 4076 else 2
        full = len(p)
        if r.get("want") is not None and 8 * full < r["want"]:
            # what a payload announces is what the standard says its counters mean: a definition that lays
            # these counts out in fewer bits than the pinned standard size accepts a payload that is too short
            cs.append(case("msg 1 " + hx(p), "%s:std-short" % r["ident"],
                           ("rejected", {"k": full, "full": (r["want"] + 7) // 8})))
        ks = list(range(idlen, full))
        if len(ks) > ctx.n(6, 40):
            ks = sorted(set([idlen, full - 1, full - 2] + rng.sample(ks, ctx.n(4, 36))))
            ks = [k for k in ks if idlen <= k < full]
        for k in ks:
            cs.append(case("msg 1 " + hx(p[:k]), "%s:cut%s" % (r["ident"], "1" if k == full - 1 else ("id" if k == idlen else "mid")),
                           ("rejected", {"k": k, "full": full})))
    return cs


def cases_C04(ctx):
    cs = []
    rng = ctx.rng
    tot = ("total", {})
    # all byte strings of length 0..2 (sampled for 2 in quick), all numbers x short lengths
    for p in [b""] + [bytes([i]) for i in range(256)]:
        cs.append(case("msg 1 " + hx(p), "short:%d" % len(p), tot))
    nums = range(4096) if ctx.tier == "thorough" else sorted(set(rng.sample(range(4096), 300) + [e["num"] for _, e in ctx.entries] + [4076, 1070, 1229, 0, 4095]))
    for num in nums:
        for ln in (2, 3, 4, 6):
            body = bytearray(rng.getrandbits(8) for _ in range(ln))
            body[0] = num >> 4
            body[1] = (num & 15) << 4 | body[1] & 15
            cs.append(case("msg 1 " + hx(bytes(body)), "num:%s:len%d" % ("impl" if any(e["num"] == num for _, e in ctx.entries) else "unk", ln), tot))
    cs.append(case("msg 1 NONE", "none", tot))
    # static parser on arbitrary buffers
    for _ in range(ctx.n(300, 3000)):
        ln = rng.choice([0, 1, 2, 3, 4, 5, 6, 7, 8, 9, rng.randint(0, 40)])
        buf = bytes(rng.getrandbits(8) for _ in range(ln))
        v = rng.choice([0, 1])
        cs.append(case("parse %d 1 %s" % (v, hx(buf)), "parsebuf:len%d:v%d" % (min(ln, 9), v), tot))
    # crc-valid frames with short / nonsense payloads
    for _ in range(ctx.n(300, 3000)):
        ln = rng.choice([0, 1, 2, 3, 4, 8, rng.randint(0, 60)])
        p = bytearray(rng.getrandbits(8) for _ in range(ln))
        if ln >= 2 and rng.random() < 0.7:
            num = rng.choice(ctx.entries)[1]["num"]
            p[0] = num >> 4
            p[1] = (num & 15) << 4 | p[1] & 15
        f = frame(bytes(p))
        v = rng.choice([0, 1])
        cs.append(case("parse %d 1 %s" % (v, hx(f)), "parsefr:len%d:v%d" % (min(ln, 9), v), tot))
    # structure-aware mutations of valid payloads
    for r in some_payloads(ctx, ctx.n(300, 3000), fit=False, count_mode=None):
        p = bytearray(r["payload"])
        mut = rng.choice(["trunc", "flip", "splice", "ones", "asis"])
        if mut == "trunc" and len(p) > 2:
            p = p[:rng.randint(0, len(p) - 1)]
        elif mut == "flip" and p:
            for _ in range(rng.randint(1, 6)):
                i = rng.randrange(len(p) * 8)
                p[i // 8] ^= 0x80 >> (i % 8)
        elif mut == "splice":
            q = some_payloads(ctx, 1)[0]["payload"]
            c = rng.randint(0, len(p))
            p = p[:c] + q[rng.randint(0, len(q)):]
        elif mut == "ones":
            c = rng.randint(2, max(2, len(p)))
            p = p[:c] + b"\xff" * rng.randint(1, 40)
        cs.append(case("msg %d %s" % (rng.choice([0, 1, 2]), hx(bytes(p))), "mut:%s:%s" % (mut, r["table"]), tot))
    # streams in all modes
    for _ in range(ctx.n(500, 5000)):
        data = adversarial_stream(ctx)
        q = rng.choice([0, 1, 2])
        v = rng.choice([0, 1])
        sched = fault_sched(ctx, len(data))
        resume = rng.random() < 0.7
        cs.append(case(reader_line(v, q, 1, True, resume, sched, data), "stream:q%d:v%d:%s" % (q, v, "faults" if sched != "-" else "clean"),
                       ("total", {"reader": True, "quit": q}), {"handler": rng.random() < 0.5}))
    # long streams (more frames than any plausible look-back window) that start with two different frames sharing
    # their checksum bytes
    for _ in range(ctx.n(4, 30)):
        f = frame(gens.unknown_payload(rng, ctx.t, rng.choice([8, 19, 40])))
        tw = gens.crc_twin(rng, f) or f
        fr = [f] + good_frames(ctx, rng.randint(0, 3)) + [tw] + good_frames(ctx, rng.randint(34, 70))
        q = rng.choice([0, 1, 2])
        cs.append(case(reader_line(1, q, 1, True, True, "-", b"".join(fr)), "stream:long:q%d" % q,
                       ("total", {"reader": True, "quit": q}), {"handler": True}))
    # socket-backed streams, plain and with chunked transfer decoding, over well-formed and *malformed* chunked
    # bodies: size lines that are not hexadecimal, negative, signed, prefixed, underscored, blank, enormous (more
    # digits than a machine word holds), missing CRLFs, data after the terminating chunk
    odd_sizes = [b"ffffffffffffffff", b"8000000000000000", b"7fffffffffffffff", b"10000000000000000", b"f" * 40, b"1" + b"0" * 30, b"-6" + b"8" * 30, b"-ffffffffffffffff", b"-8000000000000001",
                 b"-1", b"-5", b"+3", b"0x5", b"0X10", b"1_0", b" 5 ", b"", b"zz", b"5;ext=1", b"00000000000000000005", b"5\r", b"\t3"]
    for _ in range(ctx.n(150, 1500)):
        chunked = rng.random() < 0.75
        parts = []
        for _k in range(rng.randint(1, 5)):
            item = rng.choice([good_frames(ctx, 1)[0], gens.gen_nmea(rng, ctx.t), gens.gen_noise(rng, inert=True), bytes(rng.getrandbits(8) for _ in range(rng.randint(0, 30)))])
            if chunked:
                if rng.random() < 0.35:
                    size = rng.choice(odd_sizes)
                else:
                    size = b"%x" % (len(item) + rng.choice([0, 0, 0, 1, -1, 100]) if len(item) else 0)
                term = rng.choice([b"\r\n", b"\r\n", b"\r\n", b"\n", b"", b"\r"])
                parts.append(size + rng.choice([b"\r\n", b"\r\n", b"\r\n", b"\n"]) + item + term)
            else:
                parts.append(item)
        if chunked and rng.random() < 0.5:
            parts.append(b"0\r\n\r\n" + (bytes(rng.getrandbits(8) for _ in range(rng.randint(0, 8))) if rng.random() < 0.3 else b""))
        data = b"".join(parts)
        segs = gens.partitions(rng, data, rng.choice(["random", "one", "random"]))
        q = rng.choice([0, 1, 2])
        line = "rsock 1 %d 1 1 %d %d %d %s -" % (q, 1 if q == 2 else 0, 1 if chunked else 0, rng.choice([1, 3, 16, 64, 4096]), recv_tok(segs))
        cs.append(case(line, "sock:%s:q%d" % ("chunked" if chunked else "plain", q), ("total", {"reader": True, "quit": q}), {"handler": rng.random() < 0.5}))
    return cs


def cases_C01(ctx):
    cs = []
    rng = ctx.rng
    for _ in range(ctx.n(900, 9000)):
        data = adversarial_stream(ctx)
        q = rng.choice([0, 1, 2])
        sched = fault_sched(ctx, len(data))
        cs.append(case(reader_line(1, q, 1, True, True, sched, data),
                       "q%d:%s:%s" % (q, "faults" if sched != "-" else "clean", "nested" if False else "mix"),
                       ("c01", {"data": hx(data)}), {"handler": rng.random() < 0.5}))
    # nested frames with the short read placed exactly at the embedded frame's end, then an empty read
    for _ in range(ctx.n(150, 1500)):
        outer, inner = nested_frame(ctx)
        pre = gens.gen_noise(rng, rng.randint(0, 3), inert=True)
        x = bytearray(outer)
        data = pre + bytes(x) + good_frames(ctx, 1)[0]
        ilen = len(inner) - 6
        # reads: len(pre) x read(1), then 1,1,1 (header), payload read
        sched = ["n"] * (len(pre) + 3) + [str(ilen), rng.choice(["0", "n", "3"])]
        q = rng.choice([0, 1, 2])
        cs.append(case(reader_line(1, q, 1, True, True, ",".join(sched), data), "q%d:nested-short" % q,
                       ("c01", {"data": hx(data)}), {"handler": True}))
        # length field rewritten to the embedded length (frame inside frame)
        y = bytearray(outer)
        y[1], y[2] = inner[1], inner[2]
        data2 = pre + bytes(y) + good_frames(ctx, 1)[0]
        cs.append(case(reader_line(1, q, 1, True, True, "-", data2), "q%d:nested-len" % q,
                       ("c01", {"data": hx(data2)}), {"handler": True}))
    # a frame whose leading part, taken with the *announced* (longer) length field, carries a valid CRC:
    # only a reader that assembles a frame from an incomplete payload read can deliver it
    for _ in range(ctx.n(150, 1500)):
        ip = good_frames(ctx, 1)[0][3:-3]
        extra = bytes(rng.getrandbits(8) for _ in range(rng.choice([3, 4, 6, 9])))
        L = len(ip) + 3 + len(extra)
        if L > 1023:
            continue
        hdr = b"\xd3" + L.to_bytes(2, "big")
        fake = gens.crc24q_ref(hdr + ip).to_bytes(3, "big")
        body = hdr + ip + fake + extra
        pre = gens.gen_noise(rng, rng.randint(0, 3), inert=True)
        data = pre + body + gens.crc24q_ref(body).to_bytes(3, "big") + good_frames(ctx, 1)[0]
        q = rng.choice([0, 1, 2])
        for tail in (["0"], ["0", "n"], ["n"], ["3"], ["0", "0"]):
            sched = ["n"] * (len(pre) + 3) + [str(len(ip))] + tail
            cs.append(case(reader_line(1, q, 1, True, True, ",".join(sched), data), "q%d:nested-outer-short" % q,
                           ("c01", {"data": hx(data)}), {"handler": True}))
    # socket-backed with timeouts
    for _ in range(ctx.n(150, 1500)):
        data = adversarial_stream(ctx)
        segs = gens.partitions(rng, data)
        faults = {i: rng.choice(["t", "o"]) for i in range(len(segs)) if rng.random() < 0.15}
        q = rng.choice([0, 1, 2])
        line = "rsock 1 %d 1 1 1 0 %d %s -" % (q, rng.choice([1, 3, 16, 4096]), recv_tok(segs, faults))
        cs.append(case(line, "sock:q%d:%s" % (q, "faults" if faults else "clean"), ("c01", {"data": hx(data)}), {"handler": True}))
    return cs


def cases_C02(ctx):
    cs = []
    rng = ctx.rng
    for i in range(ctx.n(700, 7000)):
        data, frames, desc = mixed_stream(ctx)
        q = rng.choice([0, 1, 1, 2])
        kind = rng.choice(["file", "file", "buffered", "socket"])
        shape = ",".join(sorted(set(desc)))
        nerr = 0 if q == 0 else desc.count("zero") + desc.count("one")
        orc = ("frames_expected", {"frames": frames, "stop": True, "errors": nerr})
        if kind == "socket":
            segs = gens.partitions(rng, data, rng.choice(["random", "one", "bytes"]) if len(data) < 300 else "random")
            line = "rsock 1 %d 1 1 1 0 %d %s -" % (q, rng.choice([1, 7, 4096]), recv_tok(segs))
            cs.append(case(line, "socket:q%d:%s" % (q, shape), orc, {"handler": True}))
        else:
            line = reader_line(1, q, 1, True, True, "-", data)
            ex = {"handler": True}
            if kind == "buffered":
                ex["wrap"] = "buffered"
            cs.append(case(line, "%s:q%d:%s" % (kind, q, shape), orc, ex))
    return cs


def cases_C05(ctx):
    cs = []
    rng = ctx.rng
    for _ in range(ctx.n(700, 7000)):
        n = rng.randint(1, 7)
        fr = good_frames(ctx, n)
        # static messages are often repeated verbatim: repeat some frames back to back
        if rng.random() < 0.4:
            for i in range(1, n):
                if rng.random() < 0.5:
                    fr[i] = fr[i - 1]
        D = sorted(rng.sample(range(n), rng.randint(0, n)))
        parts = []
        kinds = []
        for i, f in enumerate(fr):
            if i in D:
                if rng.random() < 0.3:
                    # damage confined to the three checksum bytes
                    x = bytearray(f)
                    for b in rng.sample(range(24), rng.choice([1, 2, 3])):
                        x[len(f) - 3 + b // 8] ^= 0x80 >> (b % 8)
                    d, kind = bytes(x), "crc"
                else:
                    d, kind = gens.damage(rng, f, rng.choice(["1", "2", "3", "burst", "residual"]))
                parts.append(d)
                kinds.append(kind)
            else:
                parts.append(f)
        data = b"".join(parts)
        good = [hx(f) for i, f in enumerate(fr) if i not in D]
        q = rng.choice([0, 1, 2])
        handler = rng.random() < 0.5
        a = {"frames": good, "stop": True}
        if q == 0:
            a["handlers"] = 0
        elif q == 1:
            a["handlers"] = len(D)
        else:
            a["raises"] = [sum(1 for j in range(d) if j not in D) for d in D]
            a["handlers"] = 0
        cs.append(case(reader_line(1, q, 1, True, True, "-", data),
                       "q%d:h%d:n%d:d%d:%s" % (q, handler, min(n, 4), min(len(D), 3), "+".join(sorted(set(kinds)))),
                       ("frames_expected", a), {"handler": handler}))
    return cs


def cases_C07(ctx):
    cs = []
    rng = ctx.rng
    pls = [r["payload"] for r in some_payloads(ctx, ctx.n(300, 3000)) if 2 <= len(r["payload"]) <= 1023]
    for ln in [2, 3, 4, 255, 256, 257, 511, 512, 1021, 1022, 1023] + [rng.randint(2, 1023) for _ in range(ctx.n(30, 300))]:
        pls.append(gens.unknown_payload(rng, ctx.t, ln))
    # payloads that themselves look like a frame (preamble byte, six zero bits, a length, even a right CRC):
    # message number 3376 = 0xD30; they must be stored and serialised verbatim like any other payload
    for inner in pls[:ctx.n(12, 120)] + [b"", b"\x00\x00"]:
        if len(inner) + 6 <= 1023:
            pls.append(frame(inner))
    for _ in range(ctx.n(12, 120)):
        ln = rng.randint(2, 60)
        pls.append(bytes([0xD3, rng.randrange(4)]) + bytes(rng.getrandbits(8) for _ in range(ln - 2)))
    # payloads whose frame has a *special checksum*: the CRC-24Q of header + payload is 0 (the payload ends with
    # the checksum of what precedes it, so the trailer is 00 00 00), or has leading zero bytes / a sync byte
    # (unknown message numbers, so that every such payload constructs)
    for base in [gens.unknown_payload(rng, ctx.t, ln) for ln in [5, 6, 19, 300, 1023] + [rng.randint(5, 1023) for _ in range(ctx.n(35, 400))]]:
        if len(base) < 5:
            continue
        body = base[:-3]
        hdr = bytes([0xD3, len(base) >> 8, len(base) & 0xFF])
        pls.append(body + crc24q_ref(hdr + body).to_bytes(3, "big"))            # whole-frame CRC is 0
    tries = 0
    want = {"00": ctx.n(6, 40), "0000": ctx.n(2, 6), "d3": ctx.n(4, 20)}
    while any(want.values()) and tries < 400000:
        tries += 1
        q = gens.unknown_payload(rng, ctx.t, rng.choice([4, 7, 19]))
        c = crc24q_ref(bytes([0xD3, 0, len(q)]) + q)
        k = "0000" if c < 0x100 else "00" if c < 0x10000 else "d3" if (c >> 16) == 0xD3 else None
        if k and want[k]:
            want[k] -= 1
            pls.append(q)
    for p in pls:
        lab = rng.choice([1, 2])
        cs.append(case("msg %d %s" % (lab, hx(p)), "ser:len%d" % min(len(p) // 128, 8), ("serialize", {"payload": hx(p), "label": str(lab)})))
        f = frame(p)
        cs.append(case("parse 1 %d %s" % (lab, hx(f)), "parse:len%d" % min(len(p) // 128, 8), ("parse_ser", {"frame": hx(f)})))
    # repr / eval(repr): the model of bytes.__repr__ and of the literal reader against CPython
    singles = [bytes([b]) for b in range(256)]
    quotes = [b"'", b'"', b"'\"", b"\\", b"\\'", b"a'b\"c", b"\\x41", b"\r\n\t", b"'" * 3, b'"' * 2 + b"\\", b""]
    rnd = [bytes(rng.choice([39, 34, 92, 9, 10, 13, 0, 127, 128, 255, 32, 65, 120, rng.randrange(256)]) for _ in range(rng.randint(1, 24)))
           for _ in range(ctx.n(150, 3000))]
    for b in singles + quotes + rnd:
        tok = hx(b) or "-"
        kl = "quotes" if (39 in b or 34 in b) else ("esc" if any(c < 32 or c >= 127 or c == 92 for c in b) else "plain")
        cs.append(case("brepr " + tok, "brepr:" + kl, ("equals", {"expected": repr(b)})))
        cs.append(case("beval " + tok, "beval:" + kl, ("equals", {"expected": "ok " + hx(b)})))
    for p in pls[:ctx.n(120, 1500)]:
        # make the payload body rich in quotes / escapes while keeping its message number
        q = bytearray(p)
        for _i in range(rng.randint(0, 6)):
            if len(q) > 3:
                q[rng.randrange(3, len(q))] = rng.choice([39, 34, 92, 10, 13, 9, 0, 255])
        lab = rng.choice([1, 2])
        cs.append(case("mrepr %d %s" % (lab, hx(bytes(q))), "mrepr", ("mrepr", {"payload": hx(bytes(q))})))
    cs += helper_text_cases(ctx)
    return cs


def msm_cases(ctx, n):
    """(entry, build result, sat ids, sig ids, cell ids) for MSM types with varied mask shapes"""
    out = []
    msm = [e for tn, e in ctx.entries if tn == "msm"]
    modes = ["empty", "single", "lsb", "msb", "random", "random", "full", "overflow", "reserved"]
    k = 0
    while len(out) < n:
        e = msm[k % len(msm)]
        mode = modes[(k // len(msm)) % len(modes)]
        k += 1
        ov = None
        mm = mode
        if mode == "reserved":
            # signal ids that RTCM leaves reserved (1, 5, 6, 7 ... depending on constellation) and satellite 64
            ov = {"DF395": (1 << 31) | (1 << (32 - ctx.rng.choice([1, 5, 7, 13, 21, 26, 29]))) | (1 << ctx.rng.randrange(32)),
                  "DF394": 1 | (1 << ctx.rng.randrange(64))}
            mm = "random"
        try:
            r = ctx.b.build(e, ctx.rng.choice(["small", "one"]), ctx.rng.choice(gens.VAL_MODES), mm, overrides=ov)
        except gens.BuildError:
            continue
        if len(r["payload"]) > 1023:
            continue
        out.append((e, r, mode, list(ctx.b.sat_ids), list(ctx.b.sig_ids), list(ctx.b.cell_ids)))
    return out


def cases_C09(ctx):
    cs = []
    for e, r, mode, sats, sigs, cells in msm_cases(ctx, ctx.n(49 * 9, 49 * 60)):
        for label in (1, 2):
            key = int(e["key"][:3])
            exp = {"NSat": "i:%d" % len(sats), "NSig": "i:%d" % len(sigs), "NCell": "i:%d" % len(cells)}
            has = {o.name for o in r["occs"]}
            for i, s in enumerate(sats):
                if "PRN" in has:
                    exp["PRN_%02d" % (i + 1)] = impl.valstr(pinned.prn_label(key, s))
            for k, (s, g) in enumerate(cells):
                if "CELLPRN" in has:
                    exp["CELLPRN_%02d" % (k + 1)] = impl.valstr(pinned.prn_label(key, s))
                if "CELLSIG" in has:
                    exp["CELLSIG_%02d" % (k + 1)] = impl.valstr(pinned.sig_label(key, g, label, ctx.t))
            cs.append(case("msg %d %s" % (label, hx(r["payload"])),
                           "%s:%s:l%d:%s" % (e["key"], mode, label, "big" if len(sats) * len(sigs) > 64 else "std"),
                           ("msm_labels", {"expected": exp})))
    return cs


def cases_C16(ctx):
    cs = []
    for e, r, mode, sats, sigs, cells in msm_cases(ctx, ctx.n(49 * 5, 49 * 40)):
        for label in (0, 1, 2, True):
            tok, ex = lab_tok(label)
            cs.append(case("msg %s %s" % (tok, hx(r["payload"])), "msm:%s:%s:l%s" % (e["key"], mode, label),
                           ("label_only", {"payload": hx(r["payload"]), "msm": True, "sigids": [g for _, g in cells]}) if label == 1 else None, ex))
    for r in some_payloads(ctx, ctx.n(150, 1500)):
        if r["table"] == "msm":
            continue
        for label in (0, 2, True):
            tok, ex = lab_tok(label)
            cs.append(case("msg %s %s" % (tok, hx(r["payload"])), "non:%s:l%s" % (r["ident"], label),
                           ("label_only", {"payload": hx(r["payload"]), "msm": False}) if label == 2 else None, ex))
    return cs


def cases_C14(ctx):
    cs = []
    rng = ctx.rng
    pls = some_payloads(ctx, ctx.n(250, 2500))
    items = [(r["payload"], r["expected"], r["ident"]) for r in pls]
    for _ in range(ctx.n(40, 400)):
        p = gens.unknown_payload(rng, ctx.t, rng.choice([2, 3, 9, 40]))
        items.append((p, [("DF002", "")], "unknown"))
    for p, exp, ident in items:
        names = [k for k, _ in exp]
        pick = rng.sample(names, min(len(names), 3)) + rng.sample(["_immutable", "_payload", "_payloadi", "_unknown", "_satmap", "payload", "identity", "ismsm", "NSat", "fresh_name", "DF002", "__class__x"], 4)
        # names that are awkward for whatever builds the error text: non-ASCII identifiers, format characters,
        # quotes, blanks, a very long name (hex-encoded in the op line)
        odd = ["höhe", "Δt", "%s", "%d%%", "{}", "{0}", "{name}", "a b", "it's", '"q"', "\\", "x" * 300, "DF002\n", "名前"]
        pick += ["x:" + n.encode("utf-8").hex() for n in rng.sample(odd, 2)]
        rng.shuffle(pick)
        fresh = impl.eval_guarded("msg 1 " + hx(p))
        cs.append(case("setattr 1 %s %s" % (hx(p), ",".join(pick)), "%s:%s" % (ident, "priv" if any(n.startswith("_") for n in pick[:3]) else "pub"),
                       ("immutable", {"fresh": fresh, "may_fail": not fresh.startswith("ok")})))
    return cs


def cases_C15(ctx):
    cs = []
    rng = ctx.rng
    impl_ids = {(e["num"], e["sub"]): tn for tn, e in ctx.entries}
    msm_impl = {e["num"] for tn, e in ctx.entries if tn == "msm"}
    nums = list(range(4096)) if ctx.tier == "thorough" else sorted(set(rng.sample(range(4096), 500) + list(range(100, 125)) + list(range(1060, 1240)) + [n for n, _ in impl_ids] + [0, 11, 12, 4095, 4076]))
    for num in nums:
        subs = [None]
        if num == 4076:
            subs = list(range(256)) if ctx.tier == "thorough" else sorted(set(rng.sample(range(256), 60) + [s for n, s in impl_ids if n == 4076]))
        for sub in subs:
            body = bytearray(rng.getrandbits(8) for _ in range(3)) + bytearray(rng.choice([0, 0, 0, 255]) if False else 0 for _ in range(250))
            body[0] = num >> 4
            body[1] = (num & 15) << 4 | body[1] & 14
            if sub is not None:
                body[1] = (body[1] & 0xFE) | (sub >> 7)
                body[2] = ((sub & 0x7F) << 1) | (body[2] & 1)
            else:
                body[1] |= rng.randrange(2)
            ident = str(num) if sub is None else "4076_%03d" % sub
            implemented = (num, sub) in impl_ids
            if implemented:
                # random low bits of the header byte would set counters; keep the rest zero so the body is long enough
                body[1] &= 0xF0 if sub is None else 0xF1
                if sub is None:
                    body[2] = 0
            p = bytes(body)
            cs.append(case("msg 1 " + hx(p), "%s:%s" % ("impl" if implemented else ("msmblock" if 1070 <= num <= 1229 else "unk"), "4076" if num == 4076 else "std"),
                           ("identity", {"ident": ident, "num": num, "sub": sub, "implemented": implemented,
                                         "msm_impl": num in msm_impl, "payload": hx(p)})))
    # unknown-type payloads with *structured* content: a payload that is itself a complete valid frame (message
    # number 3376 = 0xD30), that ends with the CRC-24Q of its own bytes or of its frame, that is an NMEA sentence or
    # a UBX frame, every length class: the identity is still the first 12 bits and the stub keeps every byte
    special = []
    for inner in good_frames(ctx, ctx.n(10, 80)) + [frame(b""), frame(b"\x00\x00")]:
        special.append(inner)                                   # a frame as payload
        if len(inner) + 6 <= 1023:
            special.append(frame(inner))                        # doubly nested
    for _ in range(ctx.n(10, 80)):
        q = gens.unknown_payload(rng, ctx.t, rng.choice([5, 9, 40, 300, 1020]))
        special.append(q + crc24q_ref(q).to_bytes(3, "big"))    # payload whose own CRC is 0
        hd = bytes([0xD3, (len(q) + 3) >> 8, (len(q) + 3) & 0xFF])
        special.append(q + crc24q_ref(hd + q).to_bytes(3, "big"))   # payload whose frame CRC is 0
    special += [gens.gen_nmea(rng, ctx.t) for _ in range(ctx.n(4, 20))] + [gens.gen_ubx(rng) for _ in range(ctx.n(4, 20))]
    for p in special:
        if not (2 <= len(p) <= 1023):
            continue
        num = p[0] << 4 | p[1] >> 4
        sub = None
        if num == 4076:
            if len(p) < 3:
                continue
            sub = (p[1] & 1) << 7 | p[2] >> 1
        if (num, sub) in impl_ids:
            continue
        ident = str(num) if sub is None else "4076_%03d" % sub
        cs.append(case("msg 1 " + hx(p), "unk:structured", ("identity", {"ident": ident, "num": num, "sub": sub, "implemented": False,
                                                                           "msm_impl": False, "payload": hx(p)})))
    return cs


def cases_C17(ctx):
    cs = []
    rng = ctx.rng
    for _ in range(ctx.n(400, 4000)):
        # stream of valid frames, damaged-checksum frames and foreign items
        n = rng.randint(1, 6)
        parts, fixed, bad = [], [], []
        for _i in range(n):
            k = rng.choice(["good", "good", "badcrc", "nmea", "ubx", "big"])
            if k in ("good", "badcrc", "big"):
                f = good_frames(ctx, 1)[0] if k != "big" else frame(gens.unknown_payload(rng, ctx.t, rng.choice([509, 510, 511, 1021, 1022, 1023, 253, 254, 255, 256])))
                fixed.append(f)
                if k == "badcrc":
                    prev = [x for x in parts if x[:1] == b"\xd3" and x[-3:] != f[-3:]]
                    if prev and rng.random() < 0.4:
                        f = f[:-3] + prev[-1][-3:]       # the wrong checksum is the checksum of the frame before
                    else:
                        f = f[:-3] + bytes(f[-3 + j] ^ rng.randint(1, 255) for j in range(3))
                    bad.append(hx(f))
                parts.append(f)
            elif k == "nmea":
                s = gens.gen_nmea(rng, ctx.t)
                parts.append(s)
                fixed.append(s)
            else:
                s = gens.gen_ubx(rng)
                parts.append(s)
                fixed.append(s)
        data, dfix = b"".join(parts), b"".join(fixed)
        lab = rng.choice([1, 2])
        q = rng.choice([0, 1, 2])
        # validate off == validate on with corrected checksums (modulo crc bytes)
        cs.append(case(reader_line(0, q, lab, True, True, "-", data), "noval:q%d" % q,
                       ("same_as", {"other_line": reader_line(1, q, lab, True, True, "-", dfix), "strip_crc": True,
                                    "what": "validate=0 on wrong checksums differs from validate=1 on right checksums"}), {"handler": True}))
        # validation on: exactly the frames validation off returns, minus the wrong-checksum ones - the option
        # decides about those frames only, not about what follows them
        if bad:
            cs.append(case(reader_line(1, q, lab, True, True, "-", data), "val:q%d" % q,
                           ("same_as", {"other_line": reader_line(0, q, lab, True, True, "-", data), "drop": bad,
                                        "what": "validate=1 returns other frames than validate=0 minus the wrong-checksum frames"}), {"handler": True}))
        # parsed off: same raw frames
        cs.append(case(reader_line(1, q, lab, False, True, "-", dfix), "noparse:q%d" % q,
                       ("same_as", {"other_line": reader_line(1, q, lab, True, True, "-", dfix), "raw_only": True,
                                    "what": "parsed=False returns different raw frames than parsed=True"}), {"handler": True}))
        cs.append(case(reader_line(0, q, lab, False, True, "-", data), "noval-noparse:q%d" % q,
                       ("same_as", {"other_line": reader_line(0, q, lab, True, True, "-", data), "raw_only": True,
                                    "what": "options change how many bytes are taken for a frame"}), {"handler": True}))
    # static parser
    for f in good_frames(ctx, ctx.n(100, 1000)):
        g = f[:-3] + bytes(b ^ 0x5A for b in f[-3:])
        cs.append(case("parse 0 1 " + hx(g), "static-noval",
                       ("parse_same", {"other_line": "parse 1 1 " + hx(f), "what": "validate=0 decodes a wrong-checksum frame differently", "expect_ok": True})))
    # ... under every label option, on messages whose decoding depends on it (MSM with cells), with right
    # and wrong checksum bytes; and through the reader (frame events carry a digest of the attributes)
    for e, r, mode, sats, sigs, cells in msm_cases(ctx, ctx.n(49, 49 * 6)):
        f = frame(r["payload"])
        g = f[:-3] + bytes(b ^ rng.randint(1, 255) for b in f[-3:])
        for lab in (1, 2):
            for fr, tag in ((g, "wrongcrc"), (f, "rightcrc")):
                cs.append(case("parse 0 %d %s" % (lab, hx(fr)), "static-noval:msm:lab%d:%s" % (lab, tag),
                               ("parse_same", {"other_line": "parse 1 %d %s" % (lab, hx(f)),
                                               "what": "validate=0 decodes the frame differently from validate=1 under label option %d" % lab,
                                               "expect_ok": True})))
            q = rng.choice([0, 1, 2])
            cs.append(case(reader_line(0, q, lab, True, True, "-", g + f), "noval:msm:lab%d:q%d" % (lab, q),
                           ("same_as", {"other_line": reader_line(1, q, lab, True, True, "-", f + f), "strip_crc": True,
                                        "what": "validate=0 under label option %d returns differently decoded frames than validate=1" % lab}),
                           {"handler": True}))
    return cs


def cases_C18(ctx):
    cs = []
    rng = ctx.rng
    gn = {g["key"]: g for g in ctx.t["gnssmap"]}
    names = [f["name"] for f in ctx.t["fields"]]
    for e, r, mode, sats, sigs, cells in msm_cases(ctx, ctx.n(49 * 4, 49 * 30)):
        g = dict(gn[int(e["key"][:3])])
        # the expected constellation name and epoch field come from the pinned table, not from the
        # library's own GNSSMAP (which is what is being checked)
        pin = pinned.MSM_EPOCH.get(int(e["key"][:3]))
        satf, cellf = [], []
        for it in e["items"]:
            if it[0] == "group" and it[1][0] == "attr":
                cn = (names + ctx.t["derived"])[it[1][1]]
                for b in it[2]:
                    if b[0] == "field":
                        (satf if cn == "NSat" else cellf).append(names[b[1]])
        lab = rng.choice([1, 2])
        cs.append(case("helpers %d %s" % (lab, hx(r["payload"])), "msm:%s:%s" % (e["key"], mode),
                       ("helpers", {"ltok": str(lab), "payload": hx(r["payload"]), "msm_impl": True,
                                    "epoch": pin[1] if pin else names[g["epoch"]],
                                    "gnss": pin[0] if pin else g["name"], "satfields": satf, "cellfields": cellf})))
    e201 = [e for tn, e in ctx.entries if e["key"] == "4076_201"]
    for _ in range(ctx.n(80, 800)):
        if not e201:
            break
        try:
            r = gens.gen_payload(ctx.b, e201[0], rng, fit=False, count_mode=rng.choice(["zero", "one", "small", "max"]))
        except gens.BuildError:
            continue
        cs.append(case("helpers 1 " + hx(r["payload"]), "hc:%s" % r["modes"][0],
                       ("helpers", {"ltok": "1", "payload": hx(r["payload"]), "msm_impl": False})))
    # everything else: non-MSM, unknown and reserved-for-MSM numbers
    others = [r["payload"] for r in some_payloads(ctx, ctx.n(120, 1200)) if r["table"] != "msm" and r["ident"] != "4076_201"]
    msm_impl = {e["num"] for tn, e in ctx.entries if tn == "msm"}
    for num in range(1070, 1230):
        if num not in msm_impl:
            others.append(bytes([num >> 4, (num & 15) << 4, 0, 0, 0, 0, 0, 0, 0, 0, 0, 0, 0, 0, 0, 0, 0, 0, 0, 0, 0, 0, 0, 0]))
    for _ in range(ctx.n(30, 300)):
        others.append(gens.unknown_payload(rng, ctx.t, 12))
    for p in others:
        cs.append(case("helpers 1 " + hx(p), "other:%s" % ("msmblock" if 1070 <= (p[0] << 4 | p[1] >> 4) <= 1229 else "non"),
                       ("helpers", {"ltok": "1", "payload": hx(p), "msm_impl": False})))
    cs += helper_tow_cases(ctx)
    return cs


def cases_C19(ctx):
    cs = []
    seen = set()
    fields = {f["name"]: f for f in ctx.t["fields"]}
    for r in some_payloads(ctx, ctx.n(len(ctx.entries) * 2, len(ctx.entries) * 8), fit=False,
                           count_mode=None):
        for o in r["occs"]:
            idx = [] if o.ty == "str" else o.idx
            an = gens.attr_name(o.name, idx)
            if an in seen:
                continue
            seen.add(an)
            cs.append(case("names " + an.encode().hex(), "%s:lvl%d:%s" % ("IDF" if o.name.startswith("IDF") else ("DF" if o.name.startswith("DF") else "derived"), len(idx), "3dig" if any(i > 99 for i in idx) else "2dig"),
                           ("names", {"attr": an, "field": o.name, "idx": idx, "desc": fields[o.name]["desc"]})))
    # three-digit indices (more than 99 coefficients / cells)
    for nm, idx in [("IDF039", [1, 100]), ("IDF039", [2, 153]), ("IDF040", [1, 136]), ("DF406", [103]), ("CELLSIG", [100]), ("PRN", [64])]:
        if nm in fields:
            an = gens.attr_name(nm, idx)
            if an not in seen:
                seen.add(an)
                cs.append(case("names " + an.encode().hex(), "3dig:lvl%d" % len(idx),
                               ("names", {"attr": an, "field": nm, "idx": idx, "desc": fields[nm]["desc"]})))
    # names as the *parser* produces them for very large groups: MSM messages handed to the constructor directly
    # (beyond what a frame can carry) with several hundred cells - three- and four-digit indices
    msm = [e for tn, e in ctx.entries if tn == "msm"]
    for nsat, nsig in ((33, 16), (40, 13), (64, 16))[:ctx.n(2, 3)]:
        e = ctx.rng.choice([x for x in msm if x["key"][3] in "12"])
        ov = {"DF394": ((1 << nsat) - 1) << (64 - nsat), "DF395": ((1 << nsig) - 1) << (32 - nsig), "DF396": (1 << (nsat * nsig)) - 1}
        try:
            r = ctx.b.build(e, "small", "random", "random", overrides=ov)
        except gens.BuildError:
            continue
        cs.append(case("msg 1 " + hx(r["payload"]), "bigmsm:%d" % (nsat * nsig),
                       ("attrs_expected", {"expected": expected_attr_str(ctx.b.expected(1)), "ident": e["key"]})))
    # names the helpers merely have to survive (correspondence only)
    for an in ["", "_", "DF", "DF001_", "DF001__1", "X_1_2_3", "DF406_1x", "DF406_-1", "DF406_ 7", "NSat", "_NHarmCoeffC", "DF406_+3", "é_01"]:
        try:
            h = an.encode("latin-1").hex() or "-"
        except UnicodeEncodeError:
            continue
        cs.append(case("names " + h, "edge", None))
    return cs


def sock_reads(rng, total):
    reads = []
    left = total
    while left > 0 and len(reads) < 60:
        n = rng.choice([1, 1, 2, 3, 5, 19, 22, rng.randint(1, max(1, left))])
        if rng.random() < 0.04:
            n = 0                      # read(0): nothing requested, nothing consumed
        if rng.random() < 0.08:
            reads.append("L")
            left -= 1
        else:
            reads.append(str(n))
            left -= n
    if rng.random() < 0.5 or not reads:
        reads.append(str(rng.randint(1, 9)))
    return reads


def cases_C11(ctx):
    cs = []
    rng = ctx.rng

    def one(src, segs, bufsize, faults, klass):
        reads = sock_reads(rng, len(src))
        drained = rng.random() < 0.5
        if drained:
            # keep reading single bytes until the peer has certainly closed: every byte the peer sent
            # must come out, whatever timeouts / OS errors happened on the way
            reads = reads + ["1"] * (len(src) + (len(faults) if faults else 0) + 3)
        line = "sock 0 %d %s %s -" % (bufsize, recv_tok(segs, faults), ",".join(reads))
        cs.append(case(line, klass + (":drained" if drained else ""),
                       ("sock_conserve", {"source": hx(src), "reads": reads, "faulty": bool(faults), "drained": drained})))
    for _ in range(ctx.n(600, 6000)):
        src = bytes(rng.getrandbits(8) if rng.random() < 0.8 else 10 for _ in range(rng.choice([0, 1, 2, 5, 17, 60, 200])))
        segs = gens.partitions(rng, src, rng.choice(["random", "random", "one", "bytes"]))
        bufsize = rng.choice([1, 2, 3, 7, 64, 4096])
        faults = {i: rng.choice(["t", "o"]) for i in range(len(segs)) if rng.random() < 0.12} if rng.random() < 0.4 else None
        one(src, segs, bufsize, faults, "b%d:%s:%s" % (min(bufsize, 8), "faults" if faults else "clean", "1seg" if len(segs) <= 1 else ("bytes" if len(segs) == len(src) else "parts")))
    # exhaustive partitions of short streams
    lim = ctx.n(9, 13)
    for ln in range(1, lim + 1):
        src = bytes(rng.getrandbits(8) for _ in range(ln))
        for segs in gens.all_partitions(src):
            one(src, segs, rng.choice([1, 2, 4096]), None, "exh:len%d" % ln)
    # reader over socket == reader over file
    for _ in range(ctx.n(300, 3000)):
        data, frames, desc = mixed_stream(ctx)
        segs = gens.partitions(rng, data, rng.choice(["random", "one", "bytes"]) if len(data) < 400 else "random")
        q = rng.choice([0, 1, 2])
        line = "rsock 1 %d 1 1 1 0 %d %s -" % (q, rng.choice([1, 2, 5, 4096]), recv_tok(segs))
        cs.append(case(line, "reader:q%d:%s" % (q, ",".join(sorted(set(desc)))),
                       ("same_as", {"other_line": reader_line(1, q, 1, True, True, "-", data), "other_extra": {"handler": True},
                                    "what": "reader over a socket returns different messages than over a file with the same bytes"}), {"handler": True}))
    return cs


def chunked_body(ctx, enc, nchunks=None, maxlen=12):
    rng = ctx.rng
    n = rng.randint(0, 4) if nchunks is None else nchunks
    plain, body, table = b"", b"", []
    for _ in range(n):
        d = bytes(rng.choice([13, 10, 48, 49, 65, 97, 0xd3, rng.randrange(256)]) for _ in range(rng.randint(1, maxlen)))
        c = gens.compress_for(enc, d, rng)
        if enc & ~1:
            table.append((c, impl.real_dec(enc, c)))
        plain += d
        body += gens.enc_chunk(rng, c)
    term = rng.random() < 0.5
    if term:
        body += b"0\r\n\r\n"
    return plain, body, table


def cases_C12(ctx):
    cs = []
    rng = ctx.rng

    def one(enc, plain, body, table, segs, klass):
        dect = ";".join(a.hex() + ">" + (b.hex() or "-") for a, b in table) or "-"
        reads = [str(len(plain))] if plain else ["1"]
        line = "sock 1 4096 %s %s %s" % (recv_tok(segs), ",".join(reads), dect)
        exp = "%s | buf=-" % hx(plain) if plain else "- | buf=-"
        cs.append(case(line, klass, ("equals", {"expected": exp}), {"enc": enc}))
    for _ in range(ctx.n(700, 7000)):
        enc = rng.choice([1, 1, 1, 3, 5, 9])
        plain, body, table = chunked_body(ctx, enc)
        segs = gens.partitions(rng, body, rng.choice(["random", "random", "one", "bytes"]), maxparts=6)
        one(enc, plain, body, table, segs, "enc%d:%s" % (enc, "1seg" if len(segs) <= 1 else ("bytes" if len(segs) == len(body) else "parts")))
    # exhaustive partitions of small bodies
    for _ in range(ctx.n(2, 8)):
        enc = 1
        plain, body, table = chunked_body(ctx, enc, nchunks=rng.choice([1, 2]), maxlen=2)
        if len(body) > ctx.n(12, 16):
            continue
        for segs in gens.all_partitions(body):
            one(enc, plain, body, table, segs, "exh:len%d" % len(body))
    # every single cut, and every pair of cuts, of medium bodies (all encodings)
    for _ in range(ctx.n(6, 40)):
        enc = rng.choice([1, 3, 5, 9])
        plain, body, table = chunked_body(ctx, enc, nchunks=rng.choice([2, 3]), maxlen=6)
        n = len(body)
        for i in range(1, n):
            one(enc, plain, body, table, [body[:i], body[i:]], "cut1:enc%d" % enc)
        pairs = list(itertools.combinations(range(1, n), 2))
        for i, j in (pairs if ctx.tier == "thorough" else rng.sample(pairs, min(len(pairs), 150))):
            one(enc, plain, body, table, [body[:i], body[i:j], body[j:]], "cut2:enc%d" % enc)
    # dechunk on arbitrary (malformed) segments: correspondence only
    for _ in range(ctx.n(200, 2000)):
        seg = bytes(rng.choice([13, 10, 48, 49, 53, 65, 97, 102, 32, 59, 120, 95, 45, rng.randrange(256)]) for _ in range(rng.randint(0, 24)))
        cs.append(case("dechunk %s -" % hx(seg), "dechunk-raw", None, {"enc": 1}))
    return cs


def cases_C13(ctx):
    """history independence: the same payloads, parsed in different orders / after failures, must give
    the model's single answer (correspondence); thread interleavings are run by the direct check"""
    cs = []
    rng = ctx.rng
    corpus = []
    for r in some_payloads(ctx, ctx.n(len(ctx.entries) * 2, len(ctx.entries) * 6)):
        corpus.append(("msg %d %s" % (rng.choice([1, 2]), hx(r["payload"])), r["ident"]))
    # MSM messages of different constellations with identical masks
    msm = [e for tn, e in ctx.entries if tn == "msm"]
    for _ in range(ctx.n(30, 300)):
        lvl = rng.choice("1234567")
        fam = [e for e in msm if e["key"][3] == lvl]
        try:
            r0 = ctx.b.build(fam[0], "small", "random", "random")
        except gens.BuildError:
            continue
        ov = {n: next(o.bits for o in r0["occs"] if o.name == n) for n in ("DF394", "DF395", "DF396")}
        for e in fam:
            try:
                r = ctx.b.build(e, "small", "random", "random", overrides=ov)
                corpus.append(("msg %d %s" % (rng.choice([1, 2]), hx(r["payload"])), e["key"] + ":samemask"))
            except gens.BuildError:
                pass
    # the same constellation with masks that are bit-shifts of each other, under both label options
    for _ in range(ctx.n(20, 200)):
        e = rng.choice(msm)
        try:
            r0 = ctx.b.build(e, "small", "random", "random")
        except gens.BuildError:
            continue
        m394 = next(o.bits for o in r0["occs"] if o.name == "DF394")
        m395 = next(o.bits for o in r0["occs"] if o.name == "DF395")
        for sh394, sh395 in ((0, 0), (0, 1), (1, 0), (1, 1)):
            a, b2 = (m394 << sh394) & (2 ** 64 - 1), (m395 << sh395) & (2 ** 32 - 1)
            if bin(a).count("1") * bin(b2).count("1") > 64 or not a or not b2:
                continue
            for lab in (1, 2):
                try:
                    r = ctx.b.build(e, "small", "random", "random", overrides={"DF394": a, "DF395": b2})
                    corpus.append(("msg %d %s" % (lab, hx(r["payload"])), e["key"] + ":shift"))
                except gens.BuildError:
                    pass
    bad = ["msg 1 " + hx(bytes(rng.getrandbits(8) for _ in range(rng.randint(0, 6)))) for _ in range(ctx.n(40, 400))]
    order = corpus + [(b, "bad") for b in bad]
    # pools of threads: the small-step model under a random (ragged, unfair) schedule against as many
    # real threads released together; every thread's result must be that of its own call alone
    for _ in range(ctx.n(40, 400)):
        k = rng.randint(2, 6)
        pick = [rng.choice(order)[0] for _ in range(k)]
        if rng.random() < 0.3:
            pick[rng.randrange(k)] = pick[0]          # the same bytes in two threads
        jobs = ",".join("%s:%s" % (l.split()[1], l.split()[2] or "-") for l in pick)
        sched = ",".join(str(rng.choice(range(k + 1)) if rng.random() < 0.8 else rng.randrange(k))
                         for _ in range(rng.choice([0, 3, 20, 200, 1000])))
        cs.append(case("conc %s %s" % (sched or "-", jobs), "threads%d" % k, ("conc", {"jobs": pick})))
    for rep in range(ctx.n(3, 8)):
        rng.shuffle(order)
        for line, ident in order:
            cs.append(case(line, "hist%d:%s" % (rep, ident), None))
    return cs


def _table_digest():
    """digest of the library's definition and lookup tables (deep, order-sensitive)"""
    import hashlib
    import importlib
    import sys as _sys
    import pyrtcm  # noqa: F401
    # every module of the package: tables live in rtcmtables, rtcmtypes_core, rtcmtypes_get, _get_msm, _get_igs
    mods = sorted(n for n in _sys.modules if n == "pyrtcm" or n.startswith("pyrtcm."))

    def canon(x):
        if isinstance(x, dict):
            return "{" + ",".join(canon(k) + ":" + canon(v) for k, v in x.items()) + "}"
        if isinstance(x, (list, tuple)):
            return ("[" if isinstance(x, list) else "(") + ",".join(canon(v) for v in x) + "]"
        if isinstance(x, (set, frozenset)):
            return "s{" + ",".join(sorted(canon(v) for v in x)) + "}"
        return type(x).__name__ + ":" + repr(x)
    out = {}
    for mn in mods:
        m = importlib.import_module(mn)
        for name in sorted(vars(m)):
            v = getattr(m, name)
            if name.isupper() and isinstance(v, (dict, list, tuple, set)):
                out[mn.split(".")[-1] + "." + name] = hashlib.sha1(canon(v).encode("utf-8", "surrogatepass")).hexdigest()[:16]
    return out


def threads_run(lines, nthreads, reps, seed):
    """parse the given ops concurrently in `nthreads` threads (minimal switch interval); returns
    {line: set of outputs seen}"""
    import random
    import sys
    import threading
    seen = {l: set() for l in lines}
    lock = threading.Lock()
    old = sys.getswitchinterval()
    sys.setswitchinterval(1e-6)
    errs = []

    def work(k):
        r = random.Random(seed * 1000 + k)
        mine = list(lines)
        for _ in range(reps):
            r.shuffle(mine)
            for l in mine:
                try:
                    o = impl.eval_op(l)
                except Exception as e:  # noqa
                    o = "thread-exception:" + type(e).__name__
                with lock:
                    seen[l].add(o)
    try:
        ts = [threading.Thread(target=work, args=(k,)) for k in range(nthreads)]
        for t in ts:
            t.start()
        for t in ts:
            t.join(600)
            if t.is_alive():
                errs.append("thread did not finish")
    finally:
        sys.setswitchinterval(old)
    return seen, errs


def fresh_repeat(lines):
    """evaluate each op twice in ONE fresh interpreter; returns [(first, second)]"""
    import json as _json
    import os
    import subprocess
    import sys as _sys
    here = os.path.dirname(os.path.abspath(__file__))
    code = ("import sys, json; sys.path.insert(0, %r); import impl\n"
            "res = []\n"
            "for l in json.load(sys.stdin):\n"
            "    a = impl.eval_guarded(l); b = impl.eval_guarded(l); res.append([a, b])\n"
            "print('FRESH-REPEAT ' + json.dumps(res))" % here)
    pr = subprocess.run([os.environ.get("VERIF_PYTHON", "/venv/bin/python"), "-c", code], input=_json.dumps(lines),
                        capture_output=True, text=True, env=dict(os.environ), timeout=900)
    ls = [l for l in pr.stdout.splitlines() if l.startswith("FRESH-REPEAT ")]
    if not ls:
        return [("fresh interpreter failed: " + (pr.stderr or pr.stdout)[-200:], "")] * len(lines)
    return [tuple(x) for x in _json.loads(ls[-1][len("FRESH-REPEAT "):])]


def direct_C13(ctx, impl_):
    """(a) parsing never modifies the definition / lookup tables; (b) concurrent parses in several
    threads (forced switching) give, for every input, the answer a single-threaded parse gives"""
    rng = ctx.rng
    before = _table_digest()
    lines = []
    for r in some_payloads(ctx, ctx.n(len(ctx.entries), len(ctx.entries) * 3)):
        lines.append("msg %d %s" % (rng.choice([1, 2]), hx(r["payload"])))
    msm = [e for tn, e in ctx.entries if tn == "msm"]
    for _ in range(ctx.n(10, 60)):
        lvl = rng.choice("1234567")
        fam = [e for e in msm if e["key"][3] == lvl]
        try:
            r0 = ctx.b.build(fam[0], "small", "random", "random")
        except gens.BuildError:
            continue
        ov = {n: next(o.bits for o in r0["occs"] if o.name == n) for n in ("DF394", "DF395", "DF396")}
        for e in fam:
            try:
                r = ctx.b.build(e, "small", "random", "random", overrides=ov)
                for lab in (1, 2):
                    lines.append("msg %d %s" % (lab, hx(r["payload"])))
            except gens.BuildError:
                pass
    # every MSM type with every mask shape, including satellite / signal ids its tables do not define
    for e, r, mode, sats, sigs, cells in msm_cases(ctx, ctx.n(49 * 3, 49 * 9)):
        lines.append("msg %d %s" % (rng.choice([1, 2]), hx(r["payload"])))
    lines += ["msg 1 " + hx(bytes(rng.getrandbits(8) for _ in range(rng.randint(0, 5)))) for _ in range(ctx.n(20, 100))]
    # readers and the static parser too ("through however many reader or message objects"): small mixed
    # streams with damaged frames in the three error modes (errors go to a per-call handler, so the harness
    # itself shares nothing between threads), frames through RTCMReader.parse with validation on and off
    for _ in range(ctx.n(25, 120)):
        data, _frames, _desc = mixed_stream(ctx, nitems=rng.randint(1, 4))
        if rng.random() < 0.5 and len(data) > 8:
            b = bytearray(data)
            b[rng.randrange(len(b))] ^= 1 << rng.randrange(8)
            data = bytes(b)
        q = rng.choice([0, 1, 2])
        lines.append(reader_line(rng.choice([0, 1]), q, rng.choice([1, 2]), rng.random() < 0.8, q == 2, "-", data))
    for f in good_frames(ctx, ctx.n(20, 100)):
        if rng.random() < 0.3:
            b = bytearray(f)
            b[rng.randrange(len(b))] ^= 1 << rng.randrange(8)
            f = bytes(b)
        lines.append("parse %d %d %s" % (rng.choice([0, 1]), rng.choice([1, 2]), hx(f)))
    lines = sorted(set(lines))
    ref = {l: impl_.eval_guarded(l) for l in lines}
    nthreads, reps = ctx.n(6, 12), ctx.n(2, 6)
    seen, errs = threads_run(lines, nthreads, reps, ctx.seed)
    # the reader ops again on their own, many more times: the window in which a reader's intermediate
    # state could be seen by another reader is a few bytecodes wide
    rlines = [l for l in lines if l.startswith("reader ") or l.startswith("parse ")]
    seen2, errs2 = threads_run(rlines, nthreads, reps * 12, ctx.seed + 1)
    for l in rlines:
        seen[l] |= seen2[l]
    errs += errs2
    failures = []
    for l in lines:
        bad = [o for o in seen[l] if o != ref[l]]
        if bad:
            failures.append({"line": l, "extra": {"threads": nthreads, "reps": reps, "corpus": lines[:400]}, "klass": "threads",
                             "what": "concurrent parse gave a different result than the single-threaded parse: %s vs %s" % (bad[0][:120], ref[l][:120]),
                             "impl": bad[0][:2000], "oracle": None})
    for e in errs:
        failures.append({"line": lines[0], "extra": {"threads": nthreads}, "klass": "threads", "what": e, "impl": "", "oracle": None})
    # (c) repeat probe in a fresh interpreter: every defined identity, a long all-zero payload, parsed twice
    # there and once here: the three results must coincide (first-use effects, consumed iterators, caches)
    rep_lines = []
    for tn, e in ctx.entries:
        num = e["num"]
        head = bytes([num >> 4, (num & 15) << 4])
        if num == 4076:
            sub = int(e["key"].split("_")[1])
            head = bytes([num >> 4, ((num & 15) << 4) | (0 << 1) | (sub >> 7), (sub & 0x7f) << 1])
        rep_lines.append("msg 1 " + hx(head + bytes(400 - len(head))))
    reps_out = fresh_repeat(rep_lines)
    for l, (o1, o2) in zip(rep_lines, reps_out):
        here = impl_.eval_guarded(l)
        if not (o1 == o2 == here):
            failures.append({"line": l, "extra": {"repeat": True}, "klass": "repeat",
                             "what": "the same bytes parsed twice in a fresh interpreter and once after other parses give different results: %s / %s / %s" % (o1[:70], o2[:70], here[:70]),
                             "impl": o2[:2000], "oracle": None})
    after = _table_digest()
    for k in sorted(set(before) | set(after)):
        if before.get(k) != after.get(k):
            failures.append({"line": lines[0], "extra": {"table": k, "corpus": lines[:400]}, "klass": "tables",
                             "what": "parsing modified the library table %s" % k, "impl": "", "oracle": None})
    return {"evaluations": len(lines) * (1 + nthreads * reps), "failures": failures[:10],
            "classes": ["threads:%d" % nthreads, "tables-unchanged:%d" % len(before), "repeat-probe:%d" % len(rep_lines)],
            "repeat_probe_ops": len(rep_lines),
            "threads": nthreads, "thread_ops": len(lines) * nthreads * reps, "tables_watched": len(before)}


def cases_C10(ctx):
    cs = []
    rng = ctx.rng
    # every definition decodes, and a payload laid out with given repeat counts has exactly the pinned size:
    # one byte less than the laid-out size must be rejected (the oracle of C06), the exact size accepted (C03).
    for rep in range(ctx.n(3, 20)):
        for tn, e in ctx.entries:
            try:
                r = gens.gen_payload(ctx.b, e, rng, fit=True, val_mode="zeros" if rep == 0 else None,
                                     count_mode="zero" if rep == 0 else None)
            except gens.BuildError as ex:
                cs.append(case("msg 1 " + hx(bytes([e["num"] >> 4, (e["num"] & 15) << 4, 0])), "builderr:" + e["key"],
                               ("equals", {"expected": "definition %s cannot be laid out: %s" % (e["key"], ex)})))
                continue
            exp = expected_attr_str(ctx.b.expected(1))
            want = pinned.size_bits(e["key"], ctx.b.vals, r["occs"])
            orc = ("attrs_expected", {"expected": exp, "ident": e["key"]})
            if want is not None and want != r["nbits"]:
                orc = ("equals", {"expected": "message %s with these repeat counts occupies %d bits in the standard, the definition lays out %d" % (e["key"], want, r["nbits"])})
            cs.append(case("msg 1 " + hx(r["payload"]), "%s:%s" % (e["key"], r["modes"][0]), orc))
    return cs


def sibling_cases(ctx):
    """(orbit, clock, combined) triples: GPS, GLONASS, six IGS constellations"""
    ent = {e["key"]: e for _, e in ctx.entries}
    triples = [("1057", "1058", "1060"), ("1063", "1064", "1066")] + [
        ("4076_%03d" % (20 * c + 1), "4076_%03d" % (20 * c + 2), "4076_%03d" % (20 * c + 3)) for c in range(1, 7)]
    out = []

    def bits_of(occs):
        v, n = 0, 0
        for o in occs:
            v = (v << o.width) | o.bits
            n += o.width
        return v, n

    def payload_from(hdr_occs, blockbits, blockn):
        hv, hn = bits_of(hdr_occs)
        v = (hv << blockn) | blockbits
        n = hn + blockn
        pad = (-n) % 8
        return ((v << pad).to_bytes((n + pad) // 8, "big"))
    for k1, k2, k3 in triples:
        if not all(k in ent for k in (k1, k2, k3)):
            continue
        for rep in range(ctx.n(3, 20)):
            try:
                r3 = ctx.b.build(ent[k3], "one", ctx.rng.choice(["random", "ones", "sign", "mixed"]), "random")
                b3 = [o for o in r3["occs"] if o.idx == [1]]
                r1 = ctx.b.build(ent[k1], "one", "zeros", "random")
                h1, b1 = [o for o in r1["occs"] if not o.idx], [o for o in r1["occs"] if o.idx == [1]]
                r2 = ctx.b.build(ent[k2], "one", "zeros", "random")
                h2, b2 = [o for o in r2["occs"] if not o.idx], [o for o in r2["occs"] if o.idx == [1]]
            except gens.BuildError:
                continue
            if not b3 or not b1 or not b2:
                continue
            B3, n3 = bits_of(b3)
            w1 = sum(o.width for o in b1)
            w2 = sum(o.width for o in b2)
            wid = b2[0].width
            if w1 + w2 - wid != n3:
                # sizes already disagree: the pinned-size oracle reports that; still compare what fits
                pass
            first = B3 >> max(n3 - w1, 0) if n3 >= w1 else B3 << (w1 - n3)
            rest_n = max(n3 - w1, 0)
            rest = B3 & ((1 << rest_n) - 1)
            idbits = B3 >> max(n3 - wid, 0) if n3 >= wid else 0
            blk2 = (idbits << (w2 - wid)) | (rest & ((1 << (w2 - wid)) - 1) if rest_n >= w2 - wid else rest << (w2 - wid - rest_n))
            p1 = payload_from(h1, first & ((1 << w1) - 1), w1)
            p2 = payload_from(h2, blk2 & ((1 << w2) - 1), w2)
            out.append(case("msg 1 " + hx(r3["payload"]), "sibling:%s" % k3,
                            ("sibling", {"p1": hx(p1), "p2": hx(p2), "k1": k1, "k2": k2, "k3": k3,
                                         "n1": [gens.attr_name(o.name, o.idx) for o in b1],
                                         "n2": [gens.attr_name(o.name, o.idx) for o in b2],
                                         "n3": [gens.attr_name(o.name, o.idx) for o in b3]})))
    return out


_cases_C10_base = cases_C10


def cases_C10(ctx):
    return _cases_C10_base(ctx) + sibling_cases(ctx) + pinned_def_cases(ctx, ctx.n(2, 10))


GENERATORS = {k[6:]: v for k, v in list(globals().items()) if k.startswith("cases_C")}


def _with_standard_sizes(gen):
    def wrapped(ctx):
        cs = gen(ctx)
        return cs + standard_size_cases(ctx, ctx.n(3, 12))
    return wrapped


# properties about *valid frames* in streams: validity is by the standard
for _pid in ("C01", "C02", "C05", "C17"):
    GENERATORS[_pid] = _with_standard_sizes(GENERATORS[_pid])


def _with_pinned_defs(gen):
    def wrapped(ctx):
        return gen(ctx) + pinned_def_cases(ctx, ctx.n(1, 6))
    return wrapped


# "every data field decodes to the value its bits encode": the fields of a message are the standards' fields
GENERATORS["C03"] = _with_pinned_defs(GENERATORS["C03"])


def _with_recorded(gen, kind):
    def wrapped(ctx):
        return gen(ctx) + recorded_cases(kind)
    return wrapped


# the repository's recorded logs as an additional correspondence corpus (real-world messages)
for _pid in ("C01", "C02", "C17"):
    GENERATORS[_pid] = _with_recorded(GENERATORS[_pid], "reader")
for _pid in ("C03", "C09", "C16", "C13"):
    GENERATORS[_pid] = _with_recorded(GENERATORS[_pid], "msg")
