"""
Coverage-guided input generation (atheris / libFuzzer) over the *implementation under test*.

This is not a check and decides nothing: it only grows a corpus of inputs that reach new code in the current
pyrtcm source (a branch that only a particular byte value, text, length or option combination enters), which
the caller (harness/check.py, through fuzz_ops.run_fuzz) then runs through the ordinary correspondence and oracles.
Run with the tooling interpreter:

    PYTHONPATH=<repo>/src python3-vt fuzz_corpus.py <mode> <corpus dir> <runs> <seed> [dictionary]

mode = msg | frame | stream | sock.  An input is read exactly as fuzz_ops.to_ops reads it.
"""
import io
import os
import socket
import sys

import atheris

sys.path.insert(0, os.path.dirname(os.path.abspath(__file__)))
import fuzz_ops  # noqa: E402

with atheris.instrument_imports(include=["pyrtcm"]):
    import pyrtcm  # noqa: F401
    from pyrtcm import RTCMMessage, RTCMReader
    from pyrtcm import rtcmhelpers as rh
    from pyrtcm.socketwrapper import SocketWrapper

MODE = "msg"


class FakeSocket(socket.socket):
    def __init__(self, segs):
        super().__init__()
        self.segs = list(segs)

    def recv(self, n, *a):
        if not self.segs:
            return b""
        s = self.segs[0]
        if len(s) <= n:
            self.segs.pop(0)
            return s
        self.segs[0] = s[n:]
        return s[:n]



def run_reader(rd):
    n = 0
    while n < 80:
        n += 1
        try:
            if next(rd, None) is None:
                break
        except Exception:  # noqa
            if rd._quitonerror != 2:
                break


def one(data):
    if len(data) < 1:
        return
    opt, body = data[0], data[1:]
    try:
        if MODE == "msg":
            m = RTCMMessage(payload=body[:1023], labelmsm=1 + (opt & 1))
            str(m)
            repr(m)
            m.serialize()
            rh.parse_msm(m)
            rh.parse_4076_201(m)
            for k in list(m.__dict__)[:6]:
                if not k.startswith("_"):
                    rh.att2idx(k)
                    rh.att2name(k)
                    rh.datadesc(k)
        elif MODE == "frame":
            RTCMReader.parse(body[:1100], validate=opt & 1, labelmsm=1 + ((opt >> 1) & 1))
        elif MODE == "stream":
            run_reader(RTCMReader(io.BytesIO(body), validate=opt & 1, quitonerror=(opt >> 1) % 3, labelmsm=1 + ((opt >> 3) & 1),
                                  parsed=bool(opt & 16), errorhandler=lambda e: None))
        else:
            if len(data) < 3:
                return
            chunked, bufsize = opt & 1, fuzz_ops.BUFSIZES[(opt >> 1) & 7]
            seglen = data[1] % 96
            body = data[3:]
            segs = [body[i:i + seglen] for i in range(0, len(body), seglen)] if seglen else ([body] if body else [])
            sk = FakeSocket(segs)
            try:
                self_run(sk, opt, chunked, bufsize, data, body)
            finally:
                sk.close()
    except Exception:  # noqa: the harness decides what an exception means; here only coverage matters
        pass


def self_run(sk, opt, chunked, bufsize, data, body):
    if opt & 16:
        run_reader(RTCMReader(sk, validate=1, quitonerror=(opt >> 5) % 3, bufsize=bufsize, encoding=chunked,
                              errorhandler=lambda e: None))
        return
    w = SocketWrapper(sk, encoding=chunked, bufsize=bufsize)
    n = 1 + data[2] % 40
    left, k = len(body) + 2, 0
    while left > 0 and k < 60:
        if data[2] & 0x80 and k % 3 == 2:
            w.readline()
        else:
            w.read(n)
        k += 1
        left -= n


def main():
    global MODE
    MODE, corpus, runs, seed = sys.argv[1], sys.argv[2], sys.argv[3], sys.argv[4]
    args = [sys.argv[0], corpus, "-runs=%s" % runs, "-seed=%s" % seed, "-max_len=%d" % (1100 if MODE in ("msg", "frame") else 2300),
            "-use_value_profile=1", "-print_final_stats=0", "-verbosity=0", "-timeout=20", "-rss_limit_mb=3000", "-len_control=0"]
    if len(sys.argv) > 5 and os.path.getsize(sys.argv[5]) > 0:
        args.append("-dict=" + sys.argv[5])
    if len(sys.argv) > 6:
        args.append("-max_total_time=" + sys.argv[6])          # whichever of runs / time comes first
    import logging
    logging.disable(logging.CRITICAL)
    atheris.Setup(args, one)
    atheris.Fuzz()


if __name__ == "__main__":
    main()
