#!/usr/bin/env python3
"""
Translator: pyrtcm's live table objects -> Lean source (lean/Rtcm/Gen/*.lean) + tables.json.

Runs with the repository's interpreter and `$VERIF_REPO/src` first on sys.path, imports the
table modules and walks the *objects the parser will really see* (after dict merging,
constant folding, duplicate keys ...).  Total on malformed definitions: anything the decoder
could not use becomes `Item.malformed <code>` so that the Lean well-formedness theorem fails
with a diagnosis instead of this script crashing.

Usage: gen_tables.py OUTDIR_LEAN OUT_JSON     (prints "changed" / "unchanged")
"""
import json
import os
import re
from collections.abc import Mapping
import sys

REPO = os.environ.get("VERIF_REPO", "/repo")
sys.path.insert(0, os.path.join(REPO, "src"))

MAL_NOT_DICT = 1      # group body is not a dict
MAL_BAD_COUNT = 2     # repeat count is neither a non-negative int nor a known attribute name
MAL_BAD_COND = 3      # condition is not (known attribute name, int)
MAL_NO_FIELD = 4      # key is not in RTCM_DATA_FIELDS
MAL_BAD_TUPLE = 5     # tuple value that is not a 2-tuple


def cps(s):
    return [ord(c) for c in s]


def lean_label(s):
    return "[" + ", ".join(str(c) for c in cps(s)) + "]"


def extract():
    import pyrtcm.rtcmtypes_core as core
    from pyrtcm.rtcmtypes_get import RTCM_PAYLOADS_GET
    from pyrtcm.rtcmtypes_get_igs import RTCM_PAYLOADS_GET_IGS
    from pyrtcm.rtcmtypes_get_msm import RTCM_PAYLOADS_GET_MSM
    from pyrtcm.rtcmtables import PRNSIGMAP

    tymap = {
        core.BIT: "bit", core.BITX: "bitx", core.CHA: "cha", core.STR: "str",
        core.INT: "int", core.UINT: "uint", core.INTS: "snt",
        core.PRN: "prn", core.CELPRN: "cprn", core.CELSIG: "csig",
    }
    fields = []
    fid = {}
    bad_fields = 0
    for name, spec in core.RTCM_DATA_FIELDS.items():
        ok = isinstance(name, str) and isinstance(spec, (tuple, list)) and len(spec) == 4   # unpacked, never type-tested
        ty = "other"
        width = 0
        res = ["none"]
        desc = ""
        if ok:
            atyp, asiz, ares, desc = spec
            ty = tymap.get(atyp, "other") if isinstance(atyp, str) else "other"
            if isinstance(asiz, int) and not isinstance(asiz, bool) and asiz >= 0:
                width = asiz
            else:
                ok = False
            if isinstance(ares, bool):
                res = ["none"]
            elif isinstance(ares, int):
                res = ["none"] if ares in (0, 1) else ["int", ares]
            elif isinstance(ares, float):
                if ares in (0, 1):
                    res = ["none"]
                elif ares != ares or ares in (float("inf"), float("-inf")):
                    ok = False
                else:
                    n, d = ares.as_integer_ratio()
                    res = ["flt", n, d]
            else:
                ok = False
            if not isinstance(desc, str):
                desc = str(desc)
        if not ok:
            bad_fields += 1
        fid[name] = len(fields)
        fields.append({"name": name if isinstance(name, str) else repr(name), "ty": ty,
                       "width": width, "res": res, "desc": desc})
    derived = [core.NSAT, core.NSIG, core.NCELL, core.NHARMCOEFFC, core.NHARMCOEFFS]
    nf = len(fields)
    attr_id = dict(fid)
    for i, d in enumerate(derived):
        attr_id.setdefault(d, nf + i)

    def conv_items(d):
        if not isinstance(d, Mapping):      # iterated and indexed only: any mapping (e.g. a read-only proxy) behaves alike
            return [["malformed", MAL_NOT_DICT]]
        out = []
        for key, adef in d.items():
            if isinstance(adef, tuple):
                if len(adef) != 2:
                    out.append(["malformed", MAL_BAD_TUPLE])
                    continue
                gtyp, body = adef
                if isinstance(gtyp, tuple):
                    if (len(gtyp) == 2 and isinstance(gtyp[0], str) and gtyp[0] in attr_id
                            and isinstance(gtyp[1], int) and not isinstance(gtyp[1], bool)):
                        out.append(["opt", attr_id[gtyp[0]], gtyp[1], conv_items(body)])
                    else:
                        out.append(["malformed", MAL_BAD_COND])
                elif isinstance(gtyp, bool):
                    out.append(["malformed", MAL_BAD_COUNT])
                elif isinstance(gtyp, int):
                    if gtyp >= 0:
                        out.append(["group", ["fixed", gtyp], conv_items(body)])
                    else:
                        out.append(["malformed", MAL_BAD_COUNT])
                elif isinstance(gtyp, str):
                    nm, nest = gtyp, 0
                    okc = True
                    if "+" in gtyp:
                        parts = gtyp.split("+")
                        if len(parts) == 2 and re.fullmatch(r"[0-9]+", parts[1]):
                            nm, nest = parts[0], int(parts[1])
                        else:
                            okc = False
                    if okc and nm in attr_id:
                        out.append(["group", ["attr", attr_id[nm], nest], conv_items(body)])
                    else:
                        out.append(["malformed", MAL_BAD_COUNT])
                else:
                    out.append(["malformed", MAL_BAD_COUNT])
            else:
                if isinstance(key, str) and key in fid:
                    out.append(["field", fid[key]])
                else:
                    out.append(["malformed", MAL_NO_FIELD])
        return out

    def parse_key(k):
        if not isinstance(k, str):
            return None
        m = re.fullmatch(r"([0-9]+)", k)
        if m and str(int(k)) == k:
            n = int(k)
            return (n, None) if n != 4076 else None   # "4076" alone is never an identity
        m = re.fullmatch(r"([0-9]+)_([0-9]{3})", k)
        if m and str(int(m.group(1))) == m.group(1) and int(m.group(1)) == 4076:
            return (4076, int(m.group(2)))
        return None

    bad_keys = []

    def conv_table(tbl):
        out = []
        for k, d in tbl.items():
            ident = parse_key(k)
            if ident is None or ident[0] > 4095 or (ident[1] is not None and ident[1] > 255):
                bad_keys.append(str(k))
                continue
            out.append({"key": k, "num": ident[0], "sub": ident[1], "items": conv_items(d)})
        # a dict is looked up by key: its insertion order is not behaviour, so the model gets a canonical order
        # (a reordering of the table is then no change of the model at all)
        out.sort(key=lambda e: (e["num"], -1 if e["sub"] is None else e["sub"], str(e["key"])))
        return out

    std = conv_table(RTCM_PAYLOADS_GET)
    msm = conv_table(RTCM_PAYLOADS_GET_MSM)
    igs = conv_table(RTCM_PAYLOADS_GET_IGS)

    msgids = []
    for k, desc in core.RTCM_MSGIDS.items():
        ident = parse_key(k)
        if ident is None:
            continue   # a key no identity string can equal: ismsm never finds it
        try:
            has = "MSM" in desc
        except TypeError:
            has = False
        msgids.append({"key": k, "num": ident[0], "sub": ident[1], "msm": bool(has)})

    msgids.sort(key=lambda e: (e["num"], -1 if e["sub"] is None else e["sub"], str(e["key"])))

    def by_key(pairs):
        try:
            return sorted(pairs, key=lambda kv: kv[0])
        except TypeError:          # keys of mixed types: keep the insertion order
            return list(pairs)

    prnsig = []
    for k, (prnmap, sigmap) in PRNSIGMAP.items():
        if not (isinstance(k, str) and re.fullmatch(r"[0-9]{3}", k)):
            bad_keys.append("PRNSIGMAP:" + str(k))
            continue
        prnsig.append({"key": int(k),
                       "prn": [[i, v] for i, v in by_key(prnmap.items())],
                       "sig": [[i, v[0], v[1]] for i, v in by_key(sigmap.items())]})
    prnsig.sort(key=lambda e: e["key"])
    gnssmap = []
    for k, (name, epoch) in core.GNSSMAP.items():
        if not (isinstance(k, str) and re.fullmatch(r"[0-9]{3}", k)) or epoch not in fid:
            bad_keys.append("GNSSMAP:" + str(k))
            continue
        gnssmap.append({"key": int(k), "name": name, "epoch": fid[epoch]})
    gnssmap.sort(key=lambda e: e["key"])
    coeffs = []
    for _, (field, _nm) in core.COEFFS.items():          # iterated in order by parse_4076_201: order is behaviour
        if field in fid:
            coeffs.append(fid[field])
        else:
            bad_keys.append("COEFFS:" + str(field))

    def sp(name):
        return fid.get(name)

    tables = {
        "fields": fields,
        "derived": derived,
        "special": {k: sp(v) for k, v in {
            "df002": "DF002", "df003": "DF003", "df394": "DF394", "df395": "DF395",
            "df396": "DF396", "idf035": "IDF035", "idf036": "IDF036", "idf037": "IDF037",
            "idf038": "IDF038"}.items()},
        "std": std, "msm": msm, "igs": igs,
        "badKeys": bad_keys, "badFields": bad_fields,
        "msgids": msgids, "prnsig": prnsig, "gnssmap": gnssmap, "coeffs": coeffs,
        "na": core.NA,
        "nmeaHdr": [[h[0], h[1]] for h in core.NMEA_HDR if isinstance(h, bytes) and len(h) == 2],
        "ubxHdr": [core.UBX_HDR[0], core.UBX_HDR[1]],
        "rtcmHdr": core.RTCM_HDR[0],
        "valcksum": core.VALCKSUM, "errRaise": core.ERR_RAISE, "errLog": core.ERR_LOG,
        "encChunked": core.ENCODE_CHUNKED, "encGzip": core.ENCODE_GZIP,
        "encCompress": core.ENCODE_COMPRESS, "encDeflate": core.ENCODE_DEFLATE,
    }
    return tables


# ---------------------------------------------------------------- Lean printers

def lean_res(r):
    if r[0] == "none":
        return ".none"
    if r[0] == "int":
        return f"(.int ({r[1]}))"
    return f"(.flt ({r[1]}) {r[2]})"


def lean_items(items, names, ind):
    pad = " " * ind
    parts = []
    for it in items:
        if it[0] == "field":
            parts.append(f"{pad}.field {it[1]} /- {names[it[1]]} -/")
        elif it[0] == "group":
            c = it[1]
            cs = f"(.fixed {c[1]})" if c[0] == "fixed" else f"(.attr {c[1]} {c[2]}) /- {names[c[1]]} -/"
            parts.append(f"{pad}.group {cs} [\n" + lean_items(it[2], names, ind + 2) + f"\n{pad}]")
        elif it[0] == "opt":
            parts.append(f"{pad}.opt {it[1]} /- {names[it[1]]} -/ ({it[2]}) [\n"
                         + lean_items(it[3], names, ind + 2) + f"\n{pad}]")
        else:
            parts.append(f"{pad}.malformed {it[1]}")
    return ",\n".join(parts)


def opt_nat(v):
    return "none" if v is None else f"(some {v})"


def lean_ident(num, sub):
    return f"⟨{num}, {opt_nat(sub)}⟩"


def render(tables):
    names = [f["name"] for f in tables["fields"]] + tables["derived"]
    hdr = ("-- GENERATED by harness/gen_tables.py from the live pyrtcm tables. DO NOT EDIT.\n"
           "import Rtcm.Model.Basic\nset_option maxRecDepth 100000\nnamespace Rtcm.Gen\nopen Rtcm\n\n")
    out = {}
    # Fields
    s = hdr + "def fields : List FieldSpec := [\n"
    s += ",\n".join(
        f"  ⟨{lean_label(f['name'])}, .{f['ty']}, {f['width']}, {lean_res(f['res'])}⟩ /- {i} {f['name']} -/"
        for i, f in enumerate(tables["fields"]))
    s += "\n]\n\n"

    def tree(lo, hi):
        if lo >= hi:
            return ".leaf"
        m = (lo + hi) // 2
        f = tables["fields"][m]
        return (f"(.node {tree(lo, m)} {m} ⟨{lean_label(f['name'])}, .{f['ty']}, {f['width']}, {lean_res(f['res'])}⟩ "
                f"{tree(m + 1, hi)})")
    s += "def ftree : FTree :=\n  " + tree(0, len(tables["fields"])) + "\n\nend Rtcm.Gen\n"
    out["Fields.lean"] = s
    # Defs (one file per table)
    for tname in ("std", "msm", "igs"):
        s = hdr
        entries = []
        for d in tables[tname]:
            dn = "d_" + d["key"]
            s += f"def {dn} : List Item := [\n" + lean_items(d["items"], names, 2) + "\n]\n\n"
            entries.append(f"  ({lean_ident(d['num'], d['sub'])}, {dn})")
        s += f"def {tname} : List (Ident × List Item) := [\n" + ",\n".join(entries) + "\n]\n\nend Rtcm.Gen\n"
        out[f"Defs{tname.capitalize()}.lean"] = s
    # Misc
    s = ("-- GENERATED by harness/gen_tables.py from the live pyrtcm tables. DO NOT EDIT.\n"
         "import Rtcm.Gen.Fields\nimport Rtcm.Gen.DefsStd\nimport Rtcm.Gen.DefsMsm\nimport Rtcm.Gen.DefsIgs\n"
         "set_option maxRecDepth 100000\nnamespace Rtcm.Gen\nopen Rtcm\n\n")
    s += "def msgids : List (Ident × Bool) := [\n" + ",\n".join(
        f"  ({lean_ident(m['num'], m['sub'])}, {'true' if m['msm'] else 'false'})" for m in tables["msgids"]) + "\n]\n\n"
    s += "def prnsig : List (Nat × List (Nat × Label) × List (Nat × Label × Label)) := [\n" + ",\n".join(
        "  (%d,\n    [%s],\n    [%s])" % (
            p["key"],
            ", ".join(f"({i}, {lean_label(v)})" for i, v in p["prn"]),
            ", ".join(f"({i}, {lean_label(a)}, {lean_label(b)})" for i, a, b in p["sig"]))
        for p in tables["prnsig"]) + "\n]\n\n"
    s += "def gnssmap : List (Nat × Label × Nat) := [\n" + ",\n".join(
        f"  ({g['key']}, {lean_label(g['name'])}, {g['epoch']})" for g in tables["gnssmap"]) + "\n]\n\n"
    spv = tables["special"]
    s += "def special : Specials := {\n" + ",\n".join(f"  {k} := {opt_nat(v)}" for k, v in spv.items()) + "\n}\n\n"
    s += "def tables : Tables := {\n"
    s += "  fields := fields,\n"
    s += f"  nf := {len(tables['fields'])},\n  ftree := ftree,\n"
    s += "  derived := [" + ", ".join(lean_label(d) for d in tables["derived"]) + "],\n"
    s += "  special := special,\n  std := std,\n  msm := msm,\n  igs := igs,\n"
    s += f"  badKeys := {len(tables['badKeys'])},\n  badFields := {tables['badFields']},\n"
    s += "  msgids := msgids,\n  prnsig := prnsig,\n  gnssmap := gnssmap,\n"
    s += "  coeffs := [" + ", ".join(str(c) for c in tables["coeffs"]) + "],\n"
    s += f"  na := {lean_label(tables['na'])},\n"
    s += "  nmeaHdr := [" + ", ".join(f"({a}, {b})" for a, b in tables["nmeaHdr"]) + "],\n"
    s += f"  ubxHdr := ({tables['ubxHdr'][0]}, {tables['ubxHdr'][1]}),\n"
    s += f"  rtcmHdr := {tables['rtcmHdr']},\n"
    for k in ("valcksum", "errRaise", "errLog", "encChunked", "encGzip", "encCompress", "encDeflate"):
        s += f"  {k} := {tables[k]},\n"
    s = s.rstrip(",\n") + "\n}\n\nend Rtcm.Gen\n"
    out["Tables.lean"] = s
    return out


def main():
    outdir, outjson = sys.argv[1], sys.argv[2]
    tables = extract()
    files = render(tables)
    changed = False
    os.makedirs(outdir, exist_ok=True)
    for name, content in files.items():
        p = os.path.join(outdir, name)
        old = open(p).read() if os.path.exists(p) else None
        if old != content:
            tmp = p + ".tmp%d" % os.getpid()
            with open(tmp, "w") as f:
                f.write(content)
            os.replace(tmp, p)
            changed = True
    js = json.dumps(tables, indent=None, sort_keys=True)
    old = open(outjson).read() if os.path.exists(outjson) else None
    if old != js:
        tmp = outjson + ".tmp%d" % os.getpid()
        with open(tmp, "w") as f:
            f.write(js)
        os.replace(tmp, outjson)
    print("changed" if changed else "unchanged")


if __name__ == "__main__":
    main()
