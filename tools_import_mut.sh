#!/bin/sh
# usage: tools_import_mut.sh <scratch-root> <ID> <suffix>
# confirm a sub-agent's change in its scratch worktree, copy it to seeded/<ID>-<suffix>, run our check against it in /repo
root=$1; id=$2; suf=$3; wt=$root/$id; dst=seeded/$id-$suf
[ -f $wt/seeded/patch.diff ] || { echo "no patch for $id"; exit 2; }
mkdir -p $dst && cp $wt/seeded/patch.diff $wt/seeded/demo.py $wt/seeded/meta.json $dst/
git -C $wt checkout -q -- src 2>/dev/null; git -C $wt apply $PWD/$dst/patch.diff || { echo "patch does not apply to clean worktree"; exit 3; }
pt=$(cd $wt && PYTHONPATH=$wt/src /venv/bin/python -m pytest -o addopts="" -q -p no:cacheprovider 2>&1 | tail -1)
PYRTCM_SRC=$wt/src timeout 300 /venv/bin/python $dst/demo.py > work/demo_with.txt 2>&1; rc1=$?
git -C $wt checkout -q -- src
PYRTCM_SRC=$wt/src timeout 300 /venv/bin/python $dst/demo.py > work/demo_without.txt 2>&1; rc0=$?
echo "$id: pytest[$pt] demo_with=$rc1 demo_without=$rc0 :: $(tail -1 work/demo_with.txt | cut -c1-200)"
git -C /repo apply --check $PWD/$dst/patch.diff || { echo "does not apply to /repo"; exit 3; }
sh tools_run_seeded.sh $dst
