#!/bin/sh
# usage: tools_run_seeded.sh <seeded-dir> [property ids...]
# applies the patch to /repo, runs the checks of the properties it breaks, reverts the patch.
d=$1; shift
pids=$(python3 -c "import json;m=json.load(open('$d/meta.json'));print(' '.join([m['property']]+m.get('also',[])))")
[ $# -gt 0 ] && pids="$@"
git -C /repo apply "$PWD/$d/patch.diff" || { echo "APPLY FAILED $d"; exit 3; }
for p in $pids; do
  ./check $p > work/seeded_out.txt 2>&1; rc=$?
  echo "== $d $p exit=$rc $(grep -c VIOLATION work/seeded_out.txt) violation line(s): $(grep -m1 VIOLATION work/seeded_out.txt)"
  tail -1 work/seeded_out.txt
done
git -C /repo checkout -- .
