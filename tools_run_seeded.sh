#!/bin/sh
# usage: tools_run_seeded.sh <seeded-dir> [property ids...]  -- applies the patch to /repo, runs the checks, reverts
d=$1; shift
pid=$(python3 -c "import json,sys;print(json.load(open('$d/meta.json'))['property'])")
[ $# -gt 0 ] && pids="$@" || pids=$pid
git -C /repo apply "$PWD/$d/patch.diff" || { echo "APPLY FAILED $d"; exit 3; }
for p in $pids; do
  ./check $p > work/seeded_out.txt 2>&1; rc=$?
  echo "== $d $p exit=$rc"; grep -E "VIOLATION|KNOWN|INFRA|Error|quick:" work/seeded_out.txt | head -5
done
git -C /repo checkout -- .
