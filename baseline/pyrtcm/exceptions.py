"""
RTCM Custom Exception Types

Created on 14 Feb 2022

:author: semuadmin
:copyright: SEMU Consulting © 2022
:license: BSD 3-Clause
"""


class ParameterError(Exception):
    """Parameter Error Class."""


class RTCMParseError(Exception):
    """
    RTCM Parsing error.
    """


class RTCMStreamError(Exception):
    """
    RTCM Streaming error.
    """


class RTCMMessageError(Exception):
    """
    RTCM Undefined message class/id.
    Essentially a prompt to add missing payload types to rtcm_PAYLOADS.
    """


class RTCMTypeError(Exception):
    """
    RTCM Undefined payload attribute type.
    Essentially a prompt to fix incorrect payload definitions to rtcm_PAYLOADS.
    """
