"""
socketwrapper.py

Socket stream wrapper providing read(n) and readline() methods.

Supports chunked and compressed transfer-encoded datastreams.

Created on 12 Feb 2023

:author: semuadmin
:copyright: SEMU Consulting © 2023
:license: BSD 3-Clause
"""

import socket
from io import BytesIO
from logging import getLogger
from zlib import MAX_WBITS, decompress
from zlib import error as zlibError

from pyrtcm.rtcmtypes_core import (
    DEFAULT_BUFSIZE,
    ENCODE_CHUNKED,
    ENCODE_COMPRESS,
    ENCODE_DEFLATE,
    ENCODE_GZIP,
    ENCODE_NONE,
)


class SocketWrapper:
    """
    Socket stream wrapper providing read(n) and readline() methods.

    Supports chunked transfer-encoded datastreams.
    """

    def __init__(self, sock: socket, encoding=ENCODE_NONE, bufsize=DEFAULT_BUFSIZE):
        """
        Constructor.

        :param sock socket: socket object
        :param int encoding: transfer-encoding values \
            (0 = none, 1 = chunk, 2 = gzip, 4 = compress, 8 = deflate (can be OR'd) (0)
        :param int bufsize: internal buffer size
        """

        # configure logger with name "pygnssutils" in calling module
        self.logger = getLogger(__name__)
        self._socket = sock
        self._bufsize = bufsize
        self._encoding = encoding
        self._buffer = bytearray()
        self._partial = b""  # partial chunk
        self._recv()  # populate initial buffer

    def _recv(self) -> bool:
        """
        Read bytes from socket into internal buffer.

        :returns: return code (0 = failure, 1 = success)
        :rtype: bool
        """

        try:
            data = self._socket.recv(self._bufsize)
            if len(data) == 0:
                return False
            if self._encoding & ENCODE_CHUNKED:
                data = self._partial + data
                chunks, self._partial = self.dechunk(data)
                self._buffer += chunks
            else:
                self._buffer += data
        except (OSError, TimeoutError):
            return False
        return True

    def read(self, num: int) -> bytes:
        """
        Read specified number of bytes from buffer.
        NB: always check length of return data.

        :param int num: number of bytes to read
        :returns: bytes read (which may be less than num)
        :rtype: bytes
        """

        # if at end of internal buffer, top it up from socket
        while len(self._buffer) < num:
            if not self._recv():
                return b""
        data = self._buffer[:num]
        self._buffer = self._buffer[num:]
        return bytes(data)

    def readline(self) -> bytes:
        """
        Read bytes from buffer until LF reached, like readline()
        on a file or serial stream.
        NB: always check that return data terminator is LF.

        :returns: bytes
        :rtype: bytes
        """

        line = b""
        while True:
            data = self.read(1)
            if len(data) == 1:
                line += data
                if line[-1:] == b"\n":
                    break
            else:
                break

        return line

    def write(self, data: bytes, **kwargs):
        """
        Write bytes to socket.

        :param bytes data: data
        :param dict kwargs: kwargs
        """

        return self._socket.send(data, **kwargs)

    def in_waiting(self) -> int:
        """
        Return number of bytes in buffer.

        :returns: length of buffer
        :rtype: int
        """

        return len(self._buffer)

    def dechunk(self, segment: bytes) -> tuple:  # pragma: no cover
        """
        Parse segment of chunked transfer-encoded byte stream.

        Returns complete chunks in this segment and any partial
        chunk, which should be prepended to next segment read.

        :param segment: segment of byte stream
        :returns: tuple of (chunks, partial)
        :rtype: tuple
        """

        instream = BytesIO(segment)
        chunks = b""
        partial = b""

        while True:
            length_bytes = instream.readline()
            if length_bytes[-2:] != b"\r\n":
                # premature end of length bytes
                partial = length_bytes
                break
            try:
                chunk_length = int(length_bytes.strip(), 16)
            except ValueError:
                # residual bytes at beginning of stream
                break
            if chunk_length != 0:
                # a chunk cannot be longer than the segment it is read from
                # (a huge length, positive or negative, would overflow the read size)
                chunk = instream.read(max(-1, min(chunk_length, len(segment))))
                term = instream.readline()
                if len(chunk) != chunk_length or term[-2:] != b"\r\n":
                    # premature end of chunk bytes or chunk terminator
                    partial = length_bytes + chunk + term
                    break
                try:
                    if self._encoding & ENCODE_GZIP:
                        chunk = decompress(chunk, wbits=MAX_WBITS | 16)
                    if self._encoding & ENCODE_COMPRESS:
                        chunk = decompress(chunk, wbits=MAX_WBITS)
                    if self._encoding & ENCODE_DEFLATE:
                        chunk = decompress(chunk, wbits=-MAX_WBITS)
                except zlibError as err:  # pragma: no cover
                    self.logger.error(f"Error decompressing data: {err}")
                    # parser will discard data
                chunks += chunk
            else:
                # final chunk
                instream.readline()
                break

        return chunks, partial

    @property
    def buffer(self) -> bytearray:
        """
        Getter for buffer.

        :return: buffer
        :rtype: bytearray
        """

        return self._buffer
