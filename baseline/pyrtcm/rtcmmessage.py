"""
Main RTCM Message Protocol Class.

Created on 14 Feb 2022

:author: semuadmin
:copyright: SEMU Consulting © 2022
:license: BSD 3-Clause
"""

from pyrtcm.exceptions import RTCMMessageError, RTCMTypeError
from pyrtcm.rtcmhelpers import crc2bytes, escapeall, len2bytes
from pyrtcm.rtcmtables import PRNSIGMAP
from pyrtcm.rtcmtypes_core import (
    CELPRN,
    CELSIG,
    CHA,
    INT,
    INTS,
    NA,
    NCELL,
    NHARMCOEFFC,
    NHARMCOEFFS,
    NSAT,
    NSIG,
    PRN,
    RTCM_DATA_FIELDS,
    RTCM_HDR,
    RTCM_MSGIDS,
    STR,
)
from pyrtcm.rtcmtypes_get import RTCM_PAYLOADS_GET
from pyrtcm.rtcmtypes_get_igs import RTCM_PAYLOADS_GET_IGS
from pyrtcm.rtcmtypes_get_msm import RTCM_PAYLOADS_GET_MSM

BOOL = "B"


class RTCMMessage:
    """RTCM Message Class."""

    def __init__(self, payload: bytes = None, labelmsm: int = 1):
        """Constructor.

        :param bytes payload: message payload (mandatory)
        :param int labelmsm: MSM NSAT and NCELL attribute label (1 = RINEX, 2 = freq)
        :raises: RTCMMessageError
        """

        # object is mutable during initialisation only
        super().__setattr__("_immutable", False)

        self._payload = payload
        if self._payload is None:
            raise RTCMMessageError("Payload must be specified")
        try:
            _ = self.identity
        except IndexError as err:  # pragma: no cover
            raise RTCMMessageError(
                "Payload too short to contain a message identity"
            ) from err
        self._payloadi = int.from_bytes(self._payload, "big")  # payload as int
        self._payblen = len(self._payload) * 8  # length of payload in bits
        self._labelmsm = labelmsm
        self._unknown = False
        self._satmap = None
        self._cellmap = None
        self._do_attributes()

        self._immutable = True  # once initialised, object is immutable

    def _do_attributes(self):
        """
        Populate RTCMMessage attributes from payload.

        :raises: RTCMTypeError
        """

        offset = 0  # payload offset in bits
        index = []  # array of (nested) group indices
        anam = ""
        try:
            # get payload definition dict for this message identity
            pdict = self._get_dict()
            if pdict is None:  # unknown (or not yet implemented) message identity
                self._do_unknown()
                return
            for anam in pdict:  # process each attribute in dict
                offset, index = self._set_attribute(anam, pdict, offset, index)

        except Exception as err:  # pragma: no cover
            raise RTCMTypeError(
                (
                    f"Error processing attribute '{anam}' "
                    f"in message type {self.identity} {err}"
                )
            ) from err

    def _set_attribute(self, anam: str, pdict: dict, offset: int, index: list) -> tuple:
        """
        Recursive routine to set individual, conditional or grouped payload attributes.

        :param str anam: attribute name
        :param dict pdict: dict representing payload definition
        :param int offset: payload offset in bits
        :param list index: repeating group index array
        :return: (offset, index[])
        :rtype: tuple

        """

        adef = pdict[anam]  # get attribute definition
        if isinstance(adef, tuple):  # attribute group
            gtyp, _ = adef
            if isinstance(gtyp, tuple):  # conditional group of attributes
                offset, index = self._set_attribute_optional(adef, offset, index)
            else:  # repeating group of attributes
                offset, index = self._set_attribute_group(adef, offset, index)
        else:  # single attribute
            offset = self._set_attribute_single(anam, offset, index)

        return offset, index

    def _set_attribute_optional(self, adef: tuple, offset: int, index: list) -> tuple:
        """
        Process conditional group of attributes - group is present if attribute value
        = specific value, otherwise absent.

        :param tuple adef: attribute definition - tuple of ((attribute name, condition), group dict)
        :param int offset: payload offset in bits
        :param list index: repeating group index array
        :return: (offset, index[])
        :rtype: tuple
        """

        (anam, con), gdict = adef  # (attribute name, condition), group dictionary
        # "+n" suffix signifies that one or more nested group indices
        # must be appended to name e.g. "DF379_01", "IDF023_03"
        # if "+" in anam:
        #     anam, nestlevel = anam.split("+")
        #     for i in range(int(nestlevel)):
        #        anam += f"_{index[i]:02d}"

        if getattr(self, anam) == con:  # if condition is met...
            # recursively process each group attribute,
            # incrementing the payload offset as we go
            for anamg in gdict:
                offset, index = self._set_attribute(anamg, gdict, offset, index)

        return offset, index

    def _set_attribute_group(self, adef: tuple, offset: int, index: list) -> tuple:
        """
        Process (nested) group of attributes.

        :param tuple adef: attribute definition - tuple of (attr name, attribute dict)
        :param int offset: payload offset in bits
        :param list index: repeating group index array
        :return: (offset, index[])
        :rtype: tuple

        """

        anam, gdict = adef  # attribute signifying group size, group dictionary
        # derive or retrieve number of items in group
        if isinstance(anam, int):  # fixed number of repeats
            gsiz = anam
        else:  # number of repeats is defined in named attribute
            # "+n" suffix signifies that one or more nested group indices
            # must be appended to name e.g. "DF379_01", "IDF023_03"
            if "+" in anam:
                anam, nestlevel = anam.split("+")
                for i in range(int(nestlevel)):
                    anam += f"_{index[i]:02d}"
            gsiz = getattr(self, anam)
            if anam == "IDF035":  # 4076_201 range is N-1
                gsiz += 1

        index.append(0)  # add a (nested) group index level
        # recursively process each group attribute,
        # incrementing the payload offset and index as we go
        for i in range(gsiz):
            index[-1] = i + 1
            for anamg in gdict:
                offset, index = self._set_attribute(anamg, gdict, offset, index)

        index.pop()  # remove this (nested) group index

        return offset, index

    def _set_attribute_single(
        self,
        anam: str,
        offset: int,
        index: list,
    ) -> int:
        """
        Set individual attribute value, applying scaling where appropriate.

        :param str anam: attribute name
        :param int offset: payload offset in bits
        :param list index: repeating group index array
        :return: offset
        :rtype: int

        """

        # pylint: disable=invalid-name, line-too-long

        # if attribute is part of a (nested) repeating group, suffix name with index
        anami = anam
        for i in index:  # one index for each nested level
            if i > 0:
                anami += f"_{i:02d}"

        # get value of required number of bits at current payload offset
        atyp, asiz, ares, _ = RTCM_DATA_FIELDS[anam]
        if anam == "DF396":  # this MSM attribute has variable length
            asiz = getattr(self, NSAT) * getattr(self, NSIG)
        if atyp == PRN:
            val = self._satmap[index[0]]
        elif atyp == CELPRN:
            val = self._cellmap[index[0]][0]
        elif atyp == CELSIG:
            val = self._cellmap[index[0]][1]
        else:
            # done inline for performance reasons...
            bits = self._payloadi >> (self._payblen - offset - asiz) & ((1 << asiz) - 1)
            msb = 1 << asiz - 1 if atyp in (INTS, INT) else 0
            if atyp == INTS:  # int, MSB indicates sign
                val = bits & msb - 1
                if bits & msb:
                    val *= -1
            elif atyp == CHA:
                val = chr(bits)
            else:  # all other types
                val = bits
            if atyp == INT and bits & msb:  # 2's compliment -ve int
                val -= 1 << asiz
            if atyp == STR:
                val = "" if val == 0 else chr(bits)
            else:
                if ares not in (0, 1):  # apply any scaling factor
                    val *= ares

        if atyp == STR:  # concatenated string
            setattr(self, anam, getattr(self, anam, "") + val)
        else:
            setattr(self, anami, val)
        offset += asiz

        # add special attributes to keep track of
        # MSM message group sizes
        # NB: This is predicated on MSM payload dictionaries
        # always having attributes DF394, DF395 and DF396
        # in that order
        if anam in ("DF394", "DF395", "DF396"):
            nbits = bin(bits).count("1")  # number of bits set
            if anam == "DF394":  # num of satellites in MSM message
                setattr(self, NSAT, nbits)
            elif anam == "DF395":  # num of signals in MSM message
                setattr(self, NSIG, nbits)
            elif anam == "DF396":  # num of cells in MSM message
                setattr(self, NCELL, nbits)
                # populate NSAT and NCELL mapping dictionaries
                self._getsatcellmaps()

        # add special coefficient attributes for message 4076_201
        if anam == "IDF038":
            i = index[0]
            N = getattr(self, f"IDF037_{i:02d}") + 1
            M = getattr(self, f"IDF038_{i:02d}") + 1
            nc = int(((N + 1) * (N + 2) / 2) - ((N - M) * (N - M + 1) / 2))
            ns = int(nc - (N + 1))
            # ncs = (N + 1) * (N + 1) - (N - M) * (N - M + 1)
            setattr(self, NHARMCOEFFC, nc)
            setattr(self, NHARMCOEFFS, ns)

        return offset

    def _getsatcellmaps(self):
        """
        Map group indices to satellite PRN & signal ID values via
        bitmasks DF394, DF395 and DF396.
        """

        prnmap, sigmap = PRNSIGMAP[str(self.identity)[0:3]]
        sigcode = 0 if self._labelmsm == 2 else 1

        self._satmap = {}
        nsat = 0
        for idx in range(65):
            if getattr(self, "DF394") >> (64 - idx) & 1:
                nsat += 1
                self._satmap[nsat] = prnmap.get(idx, NA)

        sigs = []
        nsig = 0
        for idx in range(33):
            if getattr(self, "DF395") >> (32 - idx) & 1:
                sgc = sigmap.get(idx, (NA, NA))
                fqc = sgc[1] if sigcode else sgc[0]
                sigs.append(fqc)
                nsig += 1

        ncells = nsat * nsig
        self._cellmap = {}
        ncell = idx = 0
        for sat in range(nsat):
            for sig in range(nsig):
                idx += 1
                if getattr(self, "DF396") >> (ncells - idx) & 1:
                    ncell += 1
                    self._cellmap[ncell] = (self._satmap[sat + 1], sigs[sig])

    def _get_dict(self) -> dict:
        """
        Get payload dictionary corresponding to message identity
        (or None if message type not defined)

        :return: dictionary representing payload definition
        :rtype: dict or None
        """

        if "1070" <= self.identity <= "1229":  # MSM types
            return RTCM_PAYLOADS_GET_MSM.get(self.identity, None)
        if self.identity[:4] == "4076":  # IGS types
            return RTCM_PAYLOADS_GET_IGS.get(self.identity, None)
        return RTCM_PAYLOADS_GET.get(self.identity, None)

    def _do_unknown(self):
        """
        Handle unknown message type.
        """

        setattr(self, "DF002", self.identity)
        self._unknown = True

    def __str__(self) -> str:
        """
        Human readable representation.

        :return: human readable representation
        :rtype: str
        """

        stg = f"<RTCM({self.identity}, "
        for i, att in enumerate(self.__dict__):
            if att[0] != "_":  # only show public attributes
                val = self.__dict__[att]
                # escape all byte chars
                if isinstance(val, bytes):  # pragma: no cover
                    val = escapeall(val)
                stg += att + "=" + str(val)
                if i < len(self.__dict__) - 1:
                    stg += ", "
        if self._unknown:
            stg += ", Not_Yet_Implemented"
        stg += ")>"

        return stg

    def __repr__(self) -> str:
        """
        Machine readable representation.

        eval(repr(obj)) = obj

        :return: machine readable representation
        :rtype: str
        """

        return f"RTCMMessage(payload={self._payload})"

    def __setattr__(self, name, value):
        """
        Override setattr to make object immutable after instantiation.

        :param str name: attribute name
        :param object value: attribute value
        :raises: rtcmMessageError
        """

        if self._immutable:
            raise RTCMMessageError(
                f"Object is immutable. Updates to {name} not permitted after initialisation."
            )

        super().__setattr__(name, value)

    def serialize(self) -> bytes:
        """
        Serialize message.

        :return: serialized output
        :rtype: bytes
        """

        size = len2bytes(self._payload)
        message = RTCM_HDR + size + self._payload
        crc = crc2bytes(message)
        return message + crc

    @property
    def identity(self) -> str:
        """
        Getter for identity.

        :return: message identity e.g. "1005"
        :rtype: str
        """

        mid = self._payload[0] << 4 | self._payload[1] >> 4

        if mid == 4076:  # proprietary IGS SSR message type
            subtype = (self._payload[1] & 0x1) << 7 | self._payload[2] >> 1
            mid = f"{mid}_{subtype:03d}"

        return str(mid)

    @property
    def payload(self) -> bytes:
        """
        Payload getter - returns the raw payload bytes.

        :return: raw payload as bytes
        :rtype: bytes

        """

        return self._payload

    @property
    def ismsm(self) -> bool:
        """
        Check if message is Multiple Signal Message (MSM) type.

        :return: True/False
        :rtype: bool
        """

        try:
            return "MSM" in RTCM_MSGIDS[self.identity]
        except KeyError:
            return False
