"""
RTCMReader class.

Reads and parses individual RTCM3 messages from any stream
which supports a read(n) -> bytes method.

RTCM3 transport layer bit format:

+--------+--------+---------+---------+----------------+---------+
|  0xd3  | 000000 | length  |  type   |    content     |   crc   |
+========+========+=========+=========+================+=========+
| 8 bits | 6 bits | 10 bits | 12 bits |    variable    | 24 bits |
+--------+--------+---------+---------+----------------+---------+
|                           |   payload; length x 8    |         |
+--------+--------+---------+---------+----------------+---------+

Returns both the raw binary data (as bytes) and the parsed data
(as RTCMMessage object).

Created on 14 Feb 2022

:author: semuadmin
:copyright: SEMU Consulting © 2022
:license: BSD 3-Clause
"""

from logging import getLogger
from socket import socket

from pyrtcm.exceptions import (
    RTCMMessageError,
    RTCMParseError,
    RTCMStreamError,
    RTCMTypeError,
)
from pyrtcm.rtcmhelpers import calc_crc24q
from pyrtcm.rtcmmessage import RTCMMessage
from pyrtcm.rtcmtypes_core import (
    ENCODE_NONE,
    ERR_LOG,
    ERR_RAISE,
    NMEA_HDR,
    UBX_HDR,
    VALCKSUM,
)
from pyrtcm.socketwrapper import SocketWrapper


class RTCMReader:
    """
    rtcmReader class.
    """

    def __init__(
        self,
        datastream,
        validate: int = VALCKSUM,
        quitonerror: int = ERR_LOG,
        labelmsm: int = 1,
        bufsize: int = 4096,
        parsed: bool = True,
        errorhandler: object = None,
        encoding: int = ENCODE_NONE,
    ):  # pylint: disable=too-many-arguments
        """Constructor.

        :param datastream stream: input data stream
        :param int validate: 0 = ignore invalid checksum, 1 = validate checksum (1)
        :param int quitonerror: ERR_IGNORE (0) = ignore errors,  ERR_LOG (1) = log continue,
            ERR_RAISE (2) = (re)raise (1)
        :param int labelmsm: MSM NSAT and NCELL attribute label (1 = RINEX, 2 = freq)
        :param int bufsize: socket recv buffer size (4096)
        :param bool parsed: 1 = return raw and parsed data, 0 = return only raw data \
            (parsed = None) (1)
        :param object errorhandler: error handling object or function (None)
        :param int encoding: encoding for socket stream \
            (0 = none, 1 = chunk, 2 = gzip, 4 = compress, 8 = deflate (can be OR'd)) (0)
        :raises: RTCMStreamError (if mode is invalid)
        """

        if isinstance(datastream, socket):
            self._stream = SocketWrapper(datastream, encoding=encoding, bufsize=bufsize)
        else:
            self._stream = datastream
        self._quitonerror = quitonerror
        self._errorhandler = errorhandler
        self._validate = validate
        self._labelmsm = labelmsm
        self._parsed = parsed
        self._logger = getLogger(__name__)

    def __iter__(self):
        """Iterator."""

        return self

    def __next__(self) -> tuple:
        """
        Return next item in iteration.

        :return: tuple of (raw_data as bytes, parsed_data as RTCMMessage)
        :rtype: tuple
        :raises: StopIteration
        """

        (raw_data, parsed_data) = self.read()
        if raw_data is None and parsed_data is None:
            raise StopIteration
        return (raw_data, parsed_data)

    def read(self) -> tuple:
        """
        Read a single RTCM message from the stream buffer
        and return both raw and parsed data.

        'quitonerror' determines whether to raise, log or ignore parsing errors.

        :return: tuple of (raw_data as bytes, parsed_data as RTCMMessage)
        :rtype: tuple
        :raises: RTCMStreamError (if unrecognised protocol in data stream)
        """

        parsing = True

        while parsing:  # loop until end of valid message or EOF
            try:
                raw_data = None
                parsed_data = None
                byte1 = self._read_bytes(1)  # read the first byte
                # if not UBX, NMEA or RTCM3, discard and continue
                if byte1 not in (b"\xb5", b"\x24", b"\xd3"):
                    continue
                byte2 = self._read_bytes(1)
                bytehdr = byte1 + byte2
                # if it's a UBX message (b'\xb5\x62'), ignore it
                if bytehdr == UBX_HDR:
                    (raw_data, parsed_data) = self._parse_ubx(bytehdr)
                    continue
                # if it's an NMEA message ('$G' or '$P'), ignore it
                if bytehdr in NMEA_HDR:
                    (raw_data, parsed_data) = self._parse_nmea(bytehdr)
                    continue
                # if it's a RTCM3 message
                # (byte1 = 0xd3; byte2 = 0b000000**)
                if byte1 == b"\xd3" and (byte2[0] & ~0x03) == 0:
                    (raw_data, parsed_data) = self._parse_rtcm3(bytehdr)
                    parsing = False
                # unrecognised protocol header
                else:
                    raise RTCMParseError(f"Unknown protocol header {bytehdr}.")

            except EOFError:
                return (None, None)
            except (
                RTCMMessageError,
                RTCMParseError,
                RTCMStreamError,
                RTCMTypeError,
            ) as err:
                if self._quitonerror:
                    self._do_error(err)
                continue

        return (raw_data, parsed_data)

    def _parse_ubx(self, hdr: bytes) -> tuple:
        """
        Parse remainder of UBX message.

        :param bytes hdr: UBX header (b'\xb5\x62')
        :return: tuple of (raw_data as bytes, parsed_data as UBXMessage or None)
        :rtype: tuple
        """

        # read the rest of the UBX message from the buffer
        byten = self._read_bytes(4)
        msgid = byten[0:2]
        lenb = byten[2:4]
        leni = int.from_bytes(lenb, "little", signed=False)
        byten = self._read_bytes(leni + 2)
        plb = byten[0:leni]
        cksum = byten[leni : leni + 2]
        raw_data = hdr + msgid + lenb + plb + cksum
        parsed_data = None
        return (raw_data, parsed_data)

    def _parse_nmea(self, hdr: bytes) -> tuple:
        """
        Parse remainder of NMEA message.

        :param bytes hdr: NMEA header ($G or $P)
        :return: tuple of (raw_data as bytes, parsed_data as NMEAMessage or None)
        :rtype: tuple
        """

        # read the rest of the NMEA message from the buffer
        byten = self._read_line()  # NMEA protocol is CRLF-terminated
        raw_data = hdr + byten
        parsed_data = None
        return (raw_data, parsed_data)

    def _parse_rtcm3(self, hdr: bytes) -> tuple:
        """
        Parse any RTCM3 data in the stream.

        :param bytes hdr: first 2 bytes of RTCM3 header
        :return: tuple of (raw_data as bytes, parsed_stub as RTCMMessage)
        :rtype: tuple
        """

        hdr3 = self._read_bytes(1)
        size = (hdr[1] << 8) | hdr3[0]
        payload = self._read_bytes(size)
        crc = self._read_bytes(3)
        raw_data = hdr + hdr3 + payload + crc
        if self._parsed:
            parsed_data = self.parse(
                raw_data,
                validate=self._validate,
                labelmsm=self._labelmsm,
            )
        else:
            parsed_data = None
        return (raw_data, parsed_data)

    def _read_bytes(self, size: int) -> bytes:
        """
        Read a specified number of bytes from stream.

        :param int size: number of bytes to read
        :return: bytes
        :rtype: bytes
        :raises: EOFError if stream ends prematurely
        """

        data = self._stream.read(size)
        if len(data) == 0 and size > 0:  # EOF
            raise EOFError()
        if 0 < len(data) < size:  # truncated stream
            raise RTCMStreamError(
                "Serial stream terminated unexpectedly. "
                f"{size} bytes requested, {len(data)} bytes returned."
            )
        return data

    def _read_line(self) -> bytes:
        """
        Read bytes until LF (0x0a) terminator.

        :return: bytes
        :rtype: bytes
        :raises: EOFError if stream ends prematurely
        """

        data = self._stream.readline()  # NMEA protocol is CRLF-terminated
        if len(data) == 0:
            raise EOFError()  # EOF
        if data[-1:] != b"\x0a":  # truncated stream
            raise RTCMStreamError(
                "Serial stream terminated unexpectedly. "
                f"Line requested, {len(data)} bytes returned."
            )
        return data

    def _do_error(self, err: Exception):
        """
        Handle error.

        :param Exception err: error message
        :raises: Exception if quitonerror = 2
        """

        if self._quitonerror == ERR_RAISE:
            raise err from err
        if self._quitonerror == ERR_LOG:
            # pass to error handler if there is one
            if self._errorhandler is None:
                self._logger.error(err)
            else:
                self._errorhandler(err)

    @property
    def datastream(self) -> object:
        """
        Getter for stream.

        :return: data stream
        :rtype: object
        """

        return self._stream

    @staticmethod
    def parse(
        message: bytes,
        validate: int = VALCKSUM,
        labelmsm: int = 1,
    ) -> RTCMMessage:
        """
        Parse RTCM message to RTCMMessage object.

        :param bytes message: RTCM raw message bytes
        :param int validate: 0 = don't validate CRC, 1 = validate CRC (1)
        :param int labelmsm: MSM NSAT and NCELL attribute label (1 = RINEX, 2 = freq)
        :return: RTCMMessage object
        :rtype: RTCMMessage
        :raises: RTCMParseError (if data stream contains invalid data or unknown message type)
        """

        if validate & VALCKSUM:
            if calc_crc24q(message):
                raise RTCMParseError(
                    f"RTCM3 message invalid - failed CRC: {message[-3:]}"
                )
        payload = message[3:-3]
        return RTCMMessage(payload=payload, labelmsm=labelmsm)
