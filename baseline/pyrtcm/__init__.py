"""
Created on 14 Feb 2022

:author: semuadmin
:copyright: SEMU Consulting © 2022
:license: BSD 3-Clause
"""

from pyrtcm._version import __version__
from pyrtcm.exceptions import (
    ParameterError,
    RTCMMessageError,
    RTCMParseError,
    RTCMStreamError,
    RTCMTypeError,
)
from pyrtcm.rtcmhelpers import *
from pyrtcm.rtcmmessage import RTCMMessage
from pyrtcm.rtcmreader import RTCMReader
from pyrtcm.rtcmtypes_core import *
from pyrtcm.rtcmtypes_get import *
from pyrtcm.rtcmtypes_get_igs import *
from pyrtcm.rtcmtypes_get_msm import *
from pyrtcm.socketwrapper import SocketWrapper

version = __version__  # pylint: disable=invalid-name
