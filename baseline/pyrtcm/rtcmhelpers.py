"""
Collection of RTCM helper methods which can be used
outside the RTCMMessage or RTCMReader classes

Created on 14 Feb 2022

:author: semuadmin
:copyright: SEMU Consulting © 2022
:license: BSD 3-Clause
"""

from datetime import datetime, timedelta

from pyrtcm.rtcmtypes_core import COEFFS, GNSSMAP, RTCM_DATA_FIELDS


def att2idx(att: str) -> int:
    """
    Get integer index corresponding to grouped attribute.

    e.g. DF389_06 -> 6; DF406_103 -> 103

    :param str att: grouped attribute name e.g. DF406_01
    :return: index as integer, or 0 if not grouped
    :rtype: int
    """

    try:
        att = att.split("_")
        ln = len(att)
        if ln == 2:  # one group level
            return int(att[1])
        if ln > 2:  # nested group level(s)
            return tuple(int(att[i]) for i in range(1, ln))
        return 0  # not grouped
    except ValueError:
        return 0


def att2name(att: str) -> str:
    """
    Get name of grouped attribute.

    e.g. DF389_06 -> DF389; DF406_103 -> DF406

    :param str att: grouped attribute name e.g. DF406_01
    :return: name without index e.g. DF406
    :rtype: str
    """

    return att.split("_")[0]


def calc_crc24q(message: bytes) -> int:
    """
    Perform CRC24Q cyclic redundancy check.

    If the message includes the appended CRC bytes, the
    function will return 0 if the message is valid.
    If the message excludes the appended CRC bytes, the
    function will return the applicable CRC.

    :param bytes message: message
    :return: CRC or 0
    :rtype: int

    """

    poly = 0x1864CFB
    crc = 0
    for octet in message:
        crc ^= octet << 16
        for _ in range(8):
            crc <<= 1
            if crc & 0x1000000:
                crc ^= poly
    return crc & 0xFFFFFF


def crc2bytes(message: bytes) -> bytes:
    """
    Generate CRC as 3 bytes, suitable for
    constructing RTCM message transport.

    :param bytes message: message including header & length but _without_ CRC
    :return: CRC as 3 bytes
    :rtype: bytes
    """

    return calc_crc24q(message).to_bytes(3, "big")


def len2bytes(payload: bytes) -> bytes:
    """
    Generate payload length as 2 bytes, suitable for
    constructing RTCM message transport.

    :param bytes payload: message payload (i.e. _without_ header, length or CRC)
    :return: payload length as 2 bytes padded with leading zeros
    :rtype: bytes
    """

    return len(payload).to_bytes(2, "big")


def datadesc(datafield: str) -> str:
    """
    Get description of data field.

    :param str datafield: datafield or attribute name e.g. 'DF234', 'IDF011_03'
    :return: datafield description
    :rtype: str
    """

    if datafield not in RTCM_DATA_FIELDS:  # indexed attribute e.g. DF406_01
        datafield = att2name(datafield)
    (_, _, _, desc) = RTCM_DATA_FIELDS[datafield]
    return desc


def get_bit(data: bytes, num: int) -> int:
    """
    Get specified bit from bytes.

    :param bytes data: data
    :param int num: bit position
    :return: selected bit value
    :rtype: int
    """

    base = int(num // 8)
    shift = 7 - int(num % 8)
    return (data[base] >> shift) & 0x1


def tow2utc(tow: int) -> datetime.time:
    """
    Convert GPS Time Of Week to UTC time
    (UTC = GPS - 18 seconds; correct as from 1/1/2017).

    :param int tow: GPS Time Of Week
    :return: UTC time hh.mm.ss
    :rtype: datetime.time

    """

    utc = datetime(1980, 1, 6) + timedelta(seconds=(tow / 1000) - 18)
    return utc.time()


def hextable(raw: bytes, cols: int = 8) -> str:
    """
    Formats raw (binary) message in tabular hexadecimal format e.g.

    000: 2447 4e47 5341 2c41 2c33 2c33 342c 3233 | b'$GNGSA,A,3,34,23' |

    :param bytes raw: raw (binary) data
    :param int cols: number of columns in hex table (8)
    :return: table of hex data
    :rtype: str
    """

    hextbl = ""
    colw = cols * 4
    rawh = raw.hex()
    for i in range(0, len(rawh), colw):
        rawl = rawh[i : i + colw].ljust(colw, " ")
        hextbl += f"{int(i/2):03}: "
        for col in range(0, colw, 4):
            hextbl += f"{rawl[col : col + 4]} "
        hextbl += f" | {bytes.fromhex(rawl)} |\n"

    return hextbl


def escapeall(val: bytes) -> str:
    """
    Escape all byte characters e.g. b'\\\\x73' rather than b`s`

    :param bytes val: bytes
    :return: string of escaped bytes
    :rtype: str
    """

    return "b'{}'".format("".join(f"\\x{b:02x}" for b in val))


def parse_msm(msg: object) -> tuple:
    """
    Parse individual MSM message into iterable data arrays.

    :param RTCMMessage msg: RTCM MSM Message
    :return: tuple of (metadata, sat data array, cell data array)
    :rtype: tuple
    """

    if not msg.ismsm or not hasattr(msg, "NSat"):
        return None

    meta = {}
    gmap = GNSSMAP[msg.identity[0:3]]
    meta["identity"] = msg.identity
    meta["gnss"] = gmap[0]
    meta["station"] = msg.DF003
    meta["epoch"] = getattr(msg, gmap[1])
    meta["sats"] = msg.NSat
    meta["cells"] = msg.NCell
    msmsats = []
    for i in range(1, msg.NSat + 1):  # iterate through satellites
        sats = {}
        for attr in ["PRN", "DF397", "DF398", "DF399", "DF419", "ExtSatInfo"]:
            if hasattr(msg, f"{attr}_{i:02d}"):
                sats[attr] = getattr(msg, f"{attr}_{i:02d}")
        msmsats.append(sats)
    msmcells = []
    for i in range(1, msg.NCell + 1):  # iterate through cells (satellite/signal)
        cells = {}
        for attr in [
            "CELLPRN",
            "CELLSIG",
            "DF400",
            "DF401",
            "DF402",
            "DF403",
            "DF404",
            "DF405",
            "DF406",
            "DF407",
            "DF408",
            "DF420",
        ]:
            if hasattr(msg, f"{attr}_{i:02d}"):
                cells[attr] = getattr(msg, f"{attr}_{i:02d}")
        msmcells.append(cells)

    return (meta, msmsats, msmcells)


def parse_4076_201(msg: object):
    """
    Parse individual 4076_201 message into iterable data arrays.

    :param RTCMMessage parsed: parsed 4076_201 message
    :return: dict of {metadata, [cosine coefficients], [sine coefficients]} for each layer
    :rtype: dict
    """

    if msg.identity != "4076_201":
        return None

    hmc = {}
    # for each ionospheric layer
    for lyr in range(msg.IDF035 + 1):  # number of ionospheric layers
        hmc[lyr] = {}
        hmc[lyr]["Layer Height"] = getattr(msg, f"IDF036_{lyr+1:02d}")
        # for each coefficient (cosine & sine)
        for field, coeff in COEFFS.values():
            hmc[lyr][coeff] = []
            i = 0
            eof = False
            # for each coefficient value
            while not eof:
                try:
                    hmc[lyr][coeff].append(
                        getattr(msg, f"{field}_{lyr+1:02d}_{i+1:02d}")
                    )
                    i += 1
                except AttributeError:
                    eof = True

    return hmc
